import Proofs.C11Lazy
/-! # C11 — the lazy iterator REFINES the eager one when the up/down state is fixed

`Policies.LIter` (state read at every call) and `TA.pickScan` (state fixed at the `Pick`) describe the same iterator
when nothing changes between the calls: the calls of a lone ROUTED lazy iterator return, one by one, the hosts of the
drained scan of the code (`TA.pickScan`), then nil - or panic exactly where the scan panics. This ties the theorems
about the eager model (`C11_tokenaware_all_states_partial`, the history theorems, `offerit`) to the iterator the model
driver runs. -/
namespace C11
open Policies

/-- the lazy fallback walk, drained: `used` grows by every host offered -/
def drainPos (up : Nat → Bool) : List Host → List (Option Host) → Scan
  | _, [] => ⟨[], false⟩
  | _, none :: _ => ⟨[], true⟩
  | used, some h :: r =>
    if up h.id && !used.contains h then
      ⟨h :: (drainPos up (h :: used) r).offered, (drainPos up (h :: used) r).crashed⟩
    else drainPos up used r

theorem drainPos_some (up : Nat → Bool) (used : List Host) (h : Host) (r : List (Option Host)) :
    drainPos up used (some h :: r) = if up h.id && !used.contains h then
      ⟨h :: (drainPos up (h :: used) r).offered, (drainPos up (h :: used) r).crashed⟩
    else drainPos up used r := by
  rw [drainPos]

theorem contains_congr (u1 u2 : List Host) (h : ∀ x, x ∈ u1 ↔ x ∈ u2) (y : Host) : u1.contains y = u2.contains y := by
  rw [Bool.eq_iff_iff]
  simp only [List.contains_eq_mem, decide_eq_true_eq]
  exact h y

theorem drainPos_congr (up : Nat → Bool) (ps : List (Option Host)) :
    ∀ u1 u2 : List Host, (∀ x, x ∈ u1 ↔ x ∈ u2) → drainPos up u1 ps = drainPos up u2 ps := by
  induction ps with
  | nil => intro u1 u2 _; rfl
  | cons a t ih =>
    intro u1 u2 h
    cases a with
    | none => rfl
    | some y =>
      rw [drainPos_some, drainPos_some, contains_congr u1 u2 h y]
      have h' : ∀ x, x ∈ y :: u1 ↔ x ∈ y :: u2 := fun x => by simp only [List.mem_cons, h x]
      rw [ih (y :: u1) (y :: u2) h', ih u1 u2 h]

/-- the drained lazy walk is the eager scan minus the hosts used -/
theorem drainPos_eq (up : Nat → Bool) (ps : List (Option Host)) :
    ∀ used, drainPos up used ps = ⟨minusUsed used (runScan up ps).offered, (runScan up ps).crashed⟩ := by
  induction ps with
  | nil => intro used; simp [drainPos, runScan, minusUsed]
  | cons a t ih =>
    intro used
    cases a with
    | none => simp [drainPos, runScan, minusUsed]
    | some y =>
      rw [drainPos_some]
      by_cases hu : up y.id = true
      · by_cases hc : used.contains y = true
        · simp only [hu, hc, Bool.not_true, Bool.and_false, Bool.false_eq_true, if_false]
          rw [ih used]
          simp only [runScan, hu, if_true, minusUsed, hc]
        · have hc' : used.contains y = false := by simpa using hc
          simp only [hu, hc', Bool.not_false, Bool.and_true, if_true]
          rw [ih (y :: used)]
          simp only [runScan, hu, if_true, minusUsed, hc', Bool.false_eq_true, if_false]
      · have hu' : up y.id = false := by simpa using hu
        simp only [hu', Bool.false_and, Bool.false_eq_true, if_false]
        rw [ih used]
        simp only [runScan, hu', Bool.false_eq_true, if_false]

theorem scanPos_drain_host (up : Nat → Bool) (ps : List (Option Host)) :
    ∀ used x rest, scanPos up used ps = (.host x, rest) → drainPos up used ps =
      ⟨x :: (drainPos up (x :: used) rest).offered, (drainPos up (x :: used) rest).crashed⟩ := by
  induction ps with
  | nil => intro used x rest h; simp [scanPos] at h
  | cons a t ih =>
    intro used x rest h
    cases a with
    | none => simp [scanPos] at h
    | some y =>
      unfold scanPos at h
      rw [drainPos_some]
      split at h
      · rename_i hc
        injection h with e1 e2
        injection e1 with e1
        subst e1 e2
        rw [if_pos hc]
      · rename_i hc
        rw [if_neg hc]
        exact ih used x rest h

theorem scanPos_drain_end (up : Nat → Bool) (ps : List (Option Host)) :
    ∀ used rest, (scanPos up used ps = (.done, rest) → drainPos up used ps = ⟨[], false⟩) ∧
      (scanPos up used ps = (.panic, rest) → drainPos up used ps = ⟨[], true⟩) := by
  induction ps with
  | nil => intro used rest; simp [scanPos, drainPos]
  | cons a t ih =>
    intro used rest
    cases a with
    | none => simp [scanPos, drainPos]
    | some y =>
      unfold scanPos
      rw [drainPos_some]
      split
      · constructor <;> intro h <;> simp at h
      · exact ih used rest

theorem filter_of_dropWhile {α : Type} (p : α → Bool) (l : List α) :
    (∀ y r, l.dropWhile (fun x => !p x) = y :: r → l.filter p = y :: r.filter p) ∧
    (l.dropWhile (fun x => !p x) = [] → l.filter p = []) := by
  induction l with
  | nil => simp
  | cons a t ih =>
    by_cases hp : p a = true
    · constructor
      · intro y r h
        rw [List.dropWhile_cons] at h
        simp only [hp, Bool.not_true, Bool.false_eq_true, if_false] at h
        injection h with e1 e2
        subst e1 e2
        simp [List.filter_cons, hp]
      · intro h
        rw [List.dropWhile_cons] at h
        simp [hp] at h
    · have hp' : p a = false := by simpa using hp
      constructor
      · intro y r h
        rw [List.dropWhile_cons] at h
        simp only [hp', Bool.not_false, if_true] at h
        rw [List.filter_cons]
        simp only [hp', Bool.false_eq_true, if_false]
        exact ih.1 y r h
      · intro h
        rw [List.dropWhile_cons] at h
        simp only [hp', Bool.not_false, if_true] at h
        rw [List.filter_cons]
        simp only [hp', Bool.false_eq_true, if_false]
        exact ih.2 h

/-- the sequence a ROUTED lazy iterator (`plain = false`) will still offer when nothing changes: the up replicas still
to be looked at, then the fallback positions minus everything offered -/
def lseq (t : TA) (up : Nat → Bool) (it : LIter) : Scan :=
  ⟨(it.q1 ++ it.q2).filter (fun h => up h.id) ++
      (drainPos up ((it.q1 ++ it.q2).filter (fun h => up h.id) ++ it.given)
        (match it.fb with | some ps => ps | none => t.pol.positions)).offered,
   (drainPos up ((it.q1 ++ it.q2).filter (fun h => up h.id) ++ it.given)
        (match it.fb with | some ps => ps | none => t.pol.positions)).crashed⟩

/-- a routed iterator whose fallback iterator exists has left its replica phases -/
def LWf (it : LIter) : Prop := it.plain = false ∧ (it.fb ≠ none → it.q1 = [] ∧ it.q2 = [])

/-- what one call returns, as a function of `lseq` -/
def expectedNext (s : Scan) : Next :=
  match s.offered with
  | x :: _ => .host x
  | [] => if s.crashed then .panic else .done

/-- the fallback phase of one call of a routed iterator: `a` the policy state afterwards, `ps0` the positions to walk -/
def fbStep (up : Nat → Bool) (given : List Host) (a : TA) (ps0 : List (Option Host)) : TA × LIter × Next :=
  match scanPos up given ps0 with
  | (.host x, rest) => (a, { given := given ++ [x], q1 := [], q2 := [], fb := some rest, plain := false }, .host x)
  | (e, rest) => (a, { given := given, q1 := [], q2 := [], fb := some rest, plain := false }, e)

theorem scanPos_done_rest (up : Nat → Bool) (ps : List (Option Host)) :
    ∀ u r, scanPos up u ps = (.done, r) → r = [] := by
  induction ps with
  | nil => intro u r h; simp [scanPos] at h; exact h
  | cons a tl ih =>
    intro u r h
    cases a with
    | none => simp [scanPos] at h
    | some y =>
      unfold scanPos at h
      split at h
      · simp at h
      · exact ih u r h

theorem fbStep_spec (up : Nat → Bool) (given : List Host) (a t2 : TA) (ps0 : List (Option Host)) :
    LWf (fbStep up given a ps0).2.1 ∧
    (fbStep up given a ps0).2.2 = expectedNext (drainPos up given ps0) ∧
    ((fbStep up given a ps0).2.2 ≠ .panic →
      lseq t2 up (fbStep up given a ps0).2.1 = ⟨(drainPos up given ps0).offered.tail, (drainPos up given ps0).crashed⟩) := by
  cases hs : scanPos up given ps0 with
  | mk e rest =>
    cases e with
    | host x =>
      have hd := scanPos_drain_host up ps0 given x rest hs
      have hc : drainPos up (given ++ [x]) rest = drainPos up (x :: given) rest := by
        apply drainPos_congr
        intro z
        simp only [List.mem_append, List.mem_cons, List.mem_singleton, List.not_mem_nil, or_false, false_or, or_comm]
      refine ⟨?_, ?_, ?_⟩
      · simp only [fbStep, hs]
        exact ⟨rfl, fun _ => ⟨rfl, rfl⟩⟩
      · simp only [fbStep, hs, hd, expectedNext]
      · intro _
        simp only [fbStep, hs, hd, lseq, List.append_nil, List.filter_nil, List.nil_append, List.tail_cons, hc]
    | done =>
      have hd := (scanPos_drain_end up ps0 given rest).1 hs
      have hr := scanPos_done_rest up ps0 given rest hs
      subst hr
      refine ⟨?_, ?_, ?_⟩
      · simp only [fbStep, hs]
        exact ⟨rfl, fun _ => ⟨rfl, rfl⟩⟩
      · simp only [fbStep, hs, hd, expectedNext, Bool.false_eq_true, if_false]
      · intro _
        simp only [fbStep, hs, hd, lseq, List.append_nil, List.filter_nil, List.nil_append, List.tail_nil, drainPos]
    | panic =>
      have hd := (scanPos_drain_end up ps0 given rest).2 hs
      refine ⟨?_, ?_, ?_⟩
      · simp only [fbStep, hs]
        exact ⟨rfl, fun _ => ⟨rfl, rfl⟩⟩
      · simp only [fbStep, hs, hd, expectedNext, if_true]
      · intro hne
        exfalso
        apply hne
        simp only [fbStep, hs]

/-- ONE CALL of a routed lazy iterator: it returns the head of `lseq` (nil / the panic at its end) and goes on with
the tail -/
theorem lstep (t : TA) (up : Nat → Bool) (it : LIter) (hw : LWf it) :
    LWf (t.nextL up it).2.1 ∧ (t.nextL up it).2.2 = expectedNext (lseq t up it) ∧
    ((t.nextL up it).2.2 ≠ .panic →
      lseq (t.nextL up it).1 up (t.nextL up it).2.1 = ⟨(lseq t up it).offered.tail, (lseq t up it).crashed⟩) := by
  obtain ⟨given, q1, q2, fb, plain⟩ := it
  obtain ⟨hpl, hw2⟩ := hw
  simp only at hpl hw2
  subst hpl
  have f1 := filter_of_dropWhile (fun h : Host => up h.id) q1
  have f2 := filter_of_dropWhile (fun h : Host => up h.id) q2
  cases hq1 : q1.dropWhile (fun h => !up h.id) with
  | cons y r =>
    have hfb : fb = none := by
      cases fb with
      | none => rfl
      | some ps =>
        have := (hw2 (by simp)).1
        subst this
        simp at hq1
    subst hfb
    have e1 := f1.1 y r hq1
    have hc : drainPos up (r.filter (fun h => up h.id) ++ q2.filter (fun h => up h.id) ++ (given ++ [y])) t.pol.positions =
        drainPos up (y :: (r.filter (fun h => up h.id) ++ q2.filter (fun h => up h.id)) ++ given) t.pol.positions := by
      apply drainPos_congr
      intro x
      simp only [List.mem_append, List.mem_cons, List.mem_singleton, List.not_mem_nil, or_false, false_or, List.cons_append,
        or_comm, or_assoc, or_left_comm]
    refine ⟨⟨?_, ?_⟩, ?_, ?_⟩
    · simp only [TA.nextL, hq1]
    · simp only [TA.nextL, hq1]; intro h; exact absurd rfl h
    · simp only [TA.nextL, hq1, lseq, expectedNext, List.filter_append, e1, List.cons_append]
    · intro _
      simp only [TA.nextL, hq1, lseq, List.filter_append, e1, List.cons_append, List.tail_cons]
      rw [hc]
      simp only [List.cons_append]
  | nil =>
    have e1 := f1.2 hq1
    cases hq2 : q2.dropWhile (fun h => !up h.id) with
    | cons y r =>
      have hfb : fb = none := by
        cases fb with
        | none => rfl
        | some ps =>
          have := (hw2 (by simp)).2
          subst this
          simp at hq2
      subst hfb
      have e2 := f2.1 y r hq2
      have hc : drainPos up (r.filter (fun h => up h.id) ++ (given ++ [y])) t.pol.positions =
          drainPos up (y :: r.filter (fun h => up h.id) ++ given) t.pol.positions := by
        apply drainPos_congr
        intro x
        simp only [List.mem_append, List.mem_cons, List.mem_singleton, List.not_mem_nil, or_false, false_or, List.cons_append,
          or_comm, or_assoc, or_left_comm]
      refine ⟨⟨?_, ?_⟩, ?_, ?_⟩
      · simp only [TA.nextL, hq1, hq2]
      · simp only [TA.nextL, hq1, hq2]; intro h; exact absurd rfl h
      · simp only [TA.nextL, hq1, hq2, lseq, expectedNext, List.filter_append, e1, e2, List.nil_append, List.cons_append]
      · intro _
        simp only [TA.nextL, hq1, hq2, lseq, List.filter_append, e1, e2, List.nil_append, List.cons_append,
          List.tail_cons, List.filter_nil]
        rw [hc]
        simp only [List.cons_append]
    | nil =>
      have e2 := f2.2 hq2
      clear hw2
      have hl : lseq t up { given := given, q1 := q1, q2 := q2, fb := fb, plain := false } =
          drainPos up given (match fb with | some ps => ps | none => t.pol.positions) := by
        simp only [lseq, List.filter_append, e1, e2, List.append_nil, List.nil_append]
      rw [hl]
      cases fb with
      | some ps =>
        have hn : t.nextL up { given := given, q1 := q1, q2 := q2, fb := some ps, plain := false } = fbStep up given t ps := by
          simp only [TA.nextL, hq1, hq2, fbStep, Bool.false_eq_true, if_false]
          cases scanPos up given ps with
          | mk e rest => cases e <;> rfl
        rw [hn]
        exact fbStep_spec up given t _ ps
      | none =>
        have hn : t.nextL up { given := given, q1 := q1, q2 := q2, fb := none, plain := false } =
            fbStep up given { t with pol := t.pol.bump } t.pol.positions := by
          simp only [TA.nextL, hq1, hq2, fbStep, Bool.false_eq_true, if_false]
          cases scanPos up given t.pol.positions with
          | mk e rest => cases e <;> rfl
        rw [hn]
        exact fbStep_spec up given _ _ t.pol.positions

/-- ANY NUMBER OF CALLS of a lone routed lazy iterator, nothing changing in between: the hosts returned are the first
`n` of `lseq`; the calls end with nil / the panic exactly when `lseq` is exhausted -/
theorem lrun (up : Nat → Bool) (n : Nat) : ∀ (t : TA) (it : LIter), LWf it →
    (t.nextLN up it n).2.2.1 = (lseq t up it).offered.take n ∧
    (n ≤ (lseq t up it).offered.length → (t.nextLN up it n).2.2.2 = none) ∧
    ((lseq t up it).offered.length < n →
      (t.nextLN up it n).2.2.2 = some (if (lseq t up it).crashed then .panic else .done)) := by
  induction n with
  | zero =>
    intro t it _
    exact ⟨by simp [TA.nextLN], fun _ => rfl, fun h => absurd h (Nat.not_lt_zero _)⟩
  | succ n ih =>
    intro t it hw
    obtain ⟨hw', hnext, hrest⟩ := lstep t up it hw
    have hp : t.nextL up it = ((t.nextL up it).1, (t.nextL up it).2.1, (t.nextL up it).2.2) := rfl
    cases hoff : (lseq t up it).offered with
    | nil =>
      have he : (t.nextL up it).2.2 = (if (lseq t up it).crashed then .panic else .done) := by
        rw [hnext]; simp only [expectedNext, hoff]
      have hrun : t.nextLN up it (n + 1) = ((t.nextL up it).1, (t.nextL up it).2.1, [], some (t.nextL up it).2.2) := by
        rw [TA.nextLN, hp, he]
        cases (lseq t up it).crashed <;> rfl
      rw [hrun]
      refine ⟨by simp, fun h => by simp at h, fun _ => by simp only [he]⟩
    | cons x rest =>
      have he : (t.nextL up it).2.2 = .host x := by
        rw [hnext]; simp only [expectedNext, hoff]
      have hl := hrest (by rw [he]; simp)
      rw [hoff] at hl
      simp only [List.tail_cons] at hl
      obtain ⟨i1, i2, i3⟩ := ih (t.nextL up it).1 (t.nextL up it).2.1 hw'
      rw [hl] at i1 i2 i3
      simp only at i1 i2 i3
      have hrun : t.nextLN up it (n + 1) =
          ((TA.nextLN (t.nextL up it).1 up (t.nextL up it).2.1 n).1, (TA.nextLN (t.nextL up it).1 up (t.nextL up it).2.1 n).2.1,
            x :: (TA.nextLN (t.nextL up it).1 up (t.nextL up it).2.1 n).2.2.1,
            (TA.nextLN (t.nextL up it).1 up (t.nextL up it).2.1 n).2.2.2) := by
        rw [TA.nextLN, hp, he]
      rw [hrun]
      refine ⟨by simp only [List.take_succ_cons, i1], fun h => i2 (by simpa using h), fun h => i3 (by simpa using h)⟩

theorem remoteWalk_true_filter (up : Nat → Bool) (bs : List (List Host)) :
    (remoteWalk (fun _ => true) bs).filter (fun h => up h.id) = remoteWalk up bs := by
  induction bs with
  | nil => rfl
  | cons b r ih =>
    simp only [remoteWalk, List.filter_append, ih, List.filter_filter, Bool.and_true]

theorem localReplicas_true_filter (tier : Host → Nat) (up : Nat → Bool) (reps : List Host) :
    (localReplicas tier (fun _ => true) reps).filter (fun h => up h.id) = localReplicas tier up reps := by
  unfold localReplicas
  rw [List.filter_filter]
  apply List.filter_congr
  intro x _
  simp [Bool.and_comm]

/-- THE LAZY ITERATOR REFINES THE EAGER ONE (routed queries): in ANY policy state, for any up/down assignment that
stays fixed, any shuffle and any query that has a replica list, `n` calls of the iterator as the code runs it (state
read at every call) return the first `n` hosts of the drained scan `TA.pickScan` of the eager model - to which
`C11_tokenaware_all_states_partial`, the history theorems and `offerit` apply -, none of them the end marker while
hosts are left, then nil, or the panic exactly if the scan panics. -/
theorem C11_lazy_refines_eager (t : TA) (up : Nat → Bool) (σ : List Host → List Host) (ks tok : Nat)
    (l : List Host) (ft : Bool) (hr : t.replicasFor ks tok = .hosts l ft) (n : Nat) :
    let S := t.pickScan up σ (some (ks, tok))
    let r := (t.openL σ (some (ks, tok))).1.nextLN up (t.openL σ (some (ks, tok))).2 n
    r.2.2.1 = S.offered.take n ∧
    (n ≤ S.offered.length → r.2.2.2 = none) ∧
    (S.offered.length < n → r.2.2.2 = some (if S.crashed then .panic else .done)) := by
  intro S r
  have ho : t.openL σ (some (ks, tok)) = (t, ⟨[], localReplicas t.pol.tier (fun _ => true) (if ft && t.shuffle then σ l else l),
      if t.nonlocal then remoteWalk (fun _ => true) (remoteBuckets t.pol.tier t.pol.maxTier (if ft && t.shuffle then σ l else l)) else [],
      none, false⟩) := by
    simp only [TA.openL, hr]
  have hwf : LWf (t.openL σ (some (ks, tok))).2 := by
    rw [ho]; exact ⟨rfl, fun h => absurd rfl h⟩
  have hseq : lseq (t.openL σ (some (ks, tok))).1 up (t.openL σ (some (ks, tok))).2 = S := by
    rw [ho]
    show lseq t up _ = t.pickScan up σ (some (ks, tok))
    have hhd : (localReplicas t.pol.tier (fun _ => true) (if ft && t.shuffle then σ l else l) ++
        (if t.nonlocal then remoteWalk (fun _ => true) (remoteBuckets t.pol.tier t.pol.maxTier (if ft && t.shuffle then σ l else l)) else [])).filter
          (fun h => up h.id) = taHead t.pol.tier t.pol.maxTier up t.nonlocal (if ft && t.shuffle then σ l else l) := by
      rw [List.filter_append, localReplicas_true_filter]
      unfold taHead
      congr 1
      split
      · exact remoteWalk_true_filter up _
      · rfl
    simp only [lseq, hhd, List.append_nil, TA.pickScan, hr, taScan]
    rw [drainPos_eq]
    rfl
  have := lrun up n (t.openL σ (some (ks, tok))).1 (t.openL σ (some (ks, tok))).2 hwf
  rw [hseq] at this
  exact this

/-- non-vacuity: replicas a, c of token 50, c down: three calls return a, b, d; the fourth nil -/
example :
    (cexTAok.pickScan (fun i => i != 3) id (some (0, 50))).offered = [cexA', cexB', cexD'] ∧
    ((cexTAok.openL id (some (0, 50))).1.nextLN (fun i => i != 3) (cexTAok.openL id (some (0, 50))).2 4).2.2 =
      ([cexA', cexB', cexD'], some Next.done) := by
  decide

/-! ### a query handed to the fallback policy as it is: the lazy iterator is the position walk of `roundRobbin` -/

theorem scanPos_nil_host (up : Nat → Bool) (ps : List (Option Host)) :
    ∀ x rest, scanPos up [] ps = (.host x, rest) →
      runScan up ps = ⟨x :: (runScan up rest).offered, (runScan up rest).crashed⟩ := by
  induction ps with
  | nil => intro x rest h; simp [scanPos] at h
  | cons a t ih =>
    intro x rest h
    cases a with
    | none => simp [scanPos] at h
    | some y =>
      unfold scanPos at h
      by_cases hu : up y.id = true
      · simp only [hu, List.contains_nil, Bool.not_false, Bool.and_true, if_true] at h
        injection h with e1 e2
        injection e1 with e1
        subst e1 e2
        simp only [runScan, hu, if_true]
      · have hu' : up y.id = false := by simpa using hu
        simp only [hu', Bool.false_and, Bool.false_eq_true, if_false] at h
        simp only [runScan, hu', Bool.false_eq_true, if_false]
        exact ih x rest h

theorem scanPos_nil_end (up : Nat → Bool) (ps : List (Option Host)) :
    ∀ rest, (scanPos up [] ps = (.done, rest) → runScan up ps = ⟨[], false⟩ ∧ rest = []) ∧
      (scanPos up [] ps = (.panic, rest) → runScan up ps = ⟨[], true⟩) := by
  induction ps with
  | nil => intro rest; simp [scanPos, runScan]
  | cons a t ih =>
    intro rest
    cases a with
    | none => simp [scanPos, runScan]
    | some y =>
      unfold scanPos
      by_cases hu : up y.id = true
      · simp only [hu, List.contains_nil, Bool.not_false, Bool.and_true, if_true]
        constructor <;> intro h <;> simp at h
      · have hu' : up y.id = false := by simpa using hu
        simp only [hu', Bool.false_and, Bool.false_eq_true, if_false, runScan]
        exact ih rest

/-- a plain lazy iterator past its `Pick` -/
def PWf (it : LIter) (ps : List (Option Host)) : Prop := it.plain = true ∧ it.q1 = [] ∧ it.q2 = [] ∧ it.fb = some ps

theorem pstep (t : TA) (up : Nat → Bool) (it : LIter) (ps : List (Option Host)) (hw : PWf it ps) :
    (t.nextL up it).2.2 = expectedNext (runScan up ps) ∧
    ((t.nextL up it).2.2 ≠ .panic → ∃ ps', PWf (t.nextL up it).2.1 ps' ∧
      runScan up ps' = ⟨(runScan up ps).offered.tail, (runScan up ps).crashed⟩) := by
  obtain ⟨given, q1, q2, fb, plain⟩ := it
  obtain ⟨h1, h2, h3, h4⟩ := hw
  simp only at h1 h2 h3 h4
  subst h1 h2 h3 h4
  cases hs : scanPos up [] ps with
  | mk e rest =>
    cases e with
    | host x =>
      have hd := scanPos_nil_host up ps x rest hs
      refine ⟨?_, fun _ => ⟨rest, ?_, ?_⟩⟩
      · simp only [TA.nextL, List.dropWhile_nil, if_true, hs, hd, expectedNext]
      · simp only [TA.nextL, List.dropWhile_nil, if_true, hs]
        exact ⟨rfl, rfl, rfl, rfl⟩
      · rw [hd]; simp only [List.tail_cons]
    | done =>
      obtain ⟨hd, hr⟩ := (scanPos_nil_end up ps rest).1 hs
      subst hr
      refine ⟨?_, fun _ => ⟨[], ?_, ?_⟩⟩
      · simp only [TA.nextL, List.dropWhile_nil, if_true, hs, hd, expectedNext, Bool.false_eq_true, if_false]
      · simp only [TA.nextL, List.dropWhile_nil, if_true, hs]
        exact ⟨rfl, rfl, rfl, rfl⟩
      · rw [hd]; rfl
    | panic =>
      have hd := (scanPos_nil_end up ps rest).2 hs
      refine ⟨?_, fun hne => ?_⟩
      · simp only [TA.nextL, List.dropWhile_nil, if_true, hs, hd, expectedNext]
      · exfalso
        apply hne
        simp only [TA.nextL, List.dropWhile_nil, if_true, hs]

theorem prun (up : Nat → Bool) (n : Nat) : ∀ (t : TA) (it : LIter) (ps : List (Option Host)), PWf it ps →
    (t.nextLN up it n).2.2.1 = (runScan up ps).offered.take n ∧
    (n ≤ (runScan up ps).offered.length → (t.nextLN up it n).2.2.2 = none) ∧
    ((runScan up ps).offered.length < n →
      (t.nextLN up it n).2.2.2 = some (if (runScan up ps).crashed then .panic else .done)) := by
  induction n with
  | zero =>
    intro t it ps _
    exact ⟨by simp [TA.nextLN], fun _ => rfl, fun h => absurd h (Nat.not_lt_zero _)⟩
  | succ n ih =>
    intro t it ps hw
    obtain ⟨hnext, hrest⟩ := pstep t up it ps hw
    have hp : t.nextL up it = ((t.nextL up it).1, (t.nextL up it).2.1, (t.nextL up it).2.2) := rfl
    cases hoff : (runScan up ps).offered with
    | nil =>
      have he : (t.nextL up it).2.2 = (if (runScan up ps).crashed then .panic else .done) := by
        rw [hnext]; simp only [expectedNext, hoff]
      have hrun : t.nextLN up it (n + 1) = ((t.nextL up it).1, (t.nextL up it).2.1, [], some (t.nextL up it).2.2) := by
        rw [TA.nextLN, hp, he]
        cases (runScan up ps).crashed <;> rfl
      rw [hrun]
      refine ⟨by simp, fun h => by simp at h, fun _ => by simp only [he]⟩
    | cons x rest =>
      have he : (t.nextL up it).2.2 = .host x := by
        rw [hnext]; simp only [expectedNext, hoff]
      obtain ⟨ps', hw', hl⟩ := hrest (by rw [he]; simp)
      rw [hoff] at hl
      simp only [List.tail_cons] at hl
      obtain ⟨i1, i2, i3⟩ := ih (t.nextL up it).1 (t.nextL up it).2.1 ps' hw'
      rw [hl] at i1 i2 i3
      simp only at i1 i2 i3
      have hrun : t.nextLN up it (n + 1) =
          ((TA.nextLN (t.nextL up it).1 up (t.nextL up it).2.1 n).1, (TA.nextLN (t.nextL up it).1 up (t.nextL up it).2.1 n).2.1,
            x :: (TA.nextLN (t.nextL up it).1 up (t.nextL up it).2.1 n).2.2.1,
            (TA.nextLN (t.nextL up it).1 up (t.nextL up it).2.1 n).2.2.2) := by
        rw [TA.nextLN, hp, he]
      rw [hrun]
      refine ⟨by simp only [List.take_succ_cons, i1], fun h => i2 (by simpa using h), fun h => i3 (by simpa using h)⟩

/-- THE LAZY ITERATOR REFINES THE EAGER ONE, queries handed to the fallback policy as they are (no routing key, no token
ring, empty ring): the calls return the hosts of the fallback policy's drained scan -/
theorem C11_lazy_refines_eager_plain (t : TA) (up : Nat → Bool) (σ : List Host → List Host) (rk : Option (Nat × Nat))
    (hplain : (t.openL σ rk).2 = ⟨[], [], [], some t.pol.positions, true⟩) (n : Nat) :
    let S := t.pol.pickScan up
    let r := (t.openL σ rk).1.nextLN up (t.openL σ rk).2 n
    r.2.2.1 = S.offered.take n ∧
    (n ≤ S.offered.length → r.2.2.2 = none) ∧
    (S.offered.length < n → r.2.2.2 = some (if S.crashed then .panic else .done)) := by
  intro S r
  have hw : PWf (t.openL σ rk).2 t.pol.positions := by rw [hplain]; exact ⟨rfl, rfl, rfl, rfl⟩
  exact prun up n (t.openL σ rk).1 (t.openL σ rk).2 t.pol.positions hw

example : (cexTAok.openL id none).2 = ⟨[], [], [], some cexTAok.pol.positions, true⟩ := rfl

end C11
