import Model.Placement
import Proofs.C10Lookup
import Proofs.C10Simple
import Proofs.C10Nts
import Proofs.C10NtsSpec
/-! C10 helper lemmas: looking a token up in the NetworkTopologyStrategy replica map.  The map only has entries for the
ring tokens whose primary's datacenter is replicated; `replicasFor` picks the first retained token ≥ t (wrapping).
Cassandra walks from the owner of t over ALL ring positions, but positions of unreplicated datacenters are no-ops, so
its walk from t is its walk from that retained token. -/
namespace C10NtsLookup
open Placement C10Lookup C10Simple C10Nts C10NtsSpec

/-- the host's datacenter is replicated by the keyspace -/
def repl (rfs : List (Nat × Nat)) (h : Host) : Bool := decide (rfOf rfs h.dc ≠ 0)

/-- hosts of unreplicated datacenters can be dropped from Cassandra's walk -/
theorem spec_walk_filter (tp : Spec.Topo) (rfs : List (Nat × Nat)) : ∀ (l : List Host) (s : Spec.St),
    Spec.walk tp (rfs.map (·.1)) (rfOf rfs) s l = Spec.walk tp (rfs.map (·.1)) (rfOf rfs) s (l.filter (repl rfs)) := by
  intro l
  induction l with
  | nil => intro s; rfl
  | cons h rest ih =>
    intro s
    by_cases hS : (rfs.map (·.1)).all (fun dc => Spec.sufficient tp (rfOf rfs) s dc) = true
    · rw [spec_walk_stop tp _ _ s hS, spec_walk_stop tp _ _ s hS]
    · have hstep : Spec.walk tp (rfs.map (·.1)) (rfOf rfs) s (h :: rest)
          = Spec.walk tp (rfs.map (·.1)) (rfOf rfs) (Spec.step tp (rfs.map (·.1)) (rfOf rfs) s h) rest := by
        simp [Spec.walk, hS]
      rw [hstep, List.filter_cons]
      by_cases hp : repl rfs h = true
      · simp only [hp, if_true]
        have hstep' : Spec.walk tp (rfs.map (·.1)) (rfOf rfs) s (h :: rest.filter (repl rfs))
            = Spec.walk tp (rfs.map (·.1)) (rfOf rfs) (Spec.step tp (rfs.map (·.1)) (rfOf rfs) s h)
                (rest.filter (repl rfs)) := by
          simp [Spec.walk, hS]
        rw [hstep', ih]
      · simp only [hp, Bool.false_eq_true, if_false]
        have h0 : rfOf rfs h.dc = 0 := by simpa [repl] using hp
        rw [spec_step_skip tp _ _ s h (by
          by_cases hm : h.dc ∈ rfs.map (·.1)
          · right; simp [Spec.sufficient, h0]
          · left; exact hm)]
        exact ih s

theorem clockwise_filter {β : Type} (ring : List (Int × β)) (t : Int) (q : Int × β → Bool) :
    (Spec.clockwise ring t).filter q = Spec.clockwise (ring.filter q) t := by
  unfold Spec.clockwise
  rw [List.filter_append, List.filter_filter, List.filter_filter, List.filter_filter, List.filter_filter]
  congr 1
  · apply List.filter_congr; intro x _; exact Bool.and_comm _ _
  · apply List.filter_congr; intro x _; exact Bool.and_comm _ _

theorem sorted_filter {β : Type} (ring : List (Int × β)) (q : Int × β → Bool) (hs : Sorted ring) :
    Sorted (ring.filter q) := List.Pairwise.sublist List.filter_sublist hs

/-- Cassandra's replicas of `t`, computed on the replicated part of the ring only -/
theorem nts_on_filtered (ring : List Entry) (rfs : List (Nat × Nat)) (t : Int) :
    Spec.nts ring rfs t =
      (Spec.walk (Spec.topoOf ring) (rfs.map (·.1)) (rfOf rfs) Spec.init
        ((Spec.clockwise (ring.filter (fun e => repl rfs e.2)) t).map (·.2))).replicas := by
  unfold Spec.nts
  rw [spec_walk_filter, List.filter_map, ← clockwise_filter]
  rfl

theorem ownerIdx_self {β : Type} (ring : List (Int × β)) (hs : Sorted ring) (i : Nat) (hi : i < ring.length) :
    Spec.ownerIdx ring (ring[i].1) = i := by
  unfold Spec.ownerIdx
  have : ring.findIdx (fun e => decide (ring[i].1 ≤ e.1)) = i := by
    rw [List.findIdx_eq hi]
    refine ⟨by simp, ?_⟩
    intro j hji
    have := (List.pairwise_iff_getElem.mp hs) j i (by omega) hi hji
    simp only [decide_eq_false_iff_not]; omega
  rw [this, if_pos hi]

/-- Cassandra's replicas of `t` are those of the first retained ring token ≥ t (wrapping to the first retained token) -/
theorem nts_at_retained (ring : List Entry) (rfs : List (Nat × Nat)) (t : Int) (hs : Sorted ring)
    (hne : ring.filter (fun e => repl rfs e.2) ≠ []) :
    Spec.nts ring rfs t =
      Spec.nts ring rfs
        ((ring.filter (fun e => repl rfs e.2))[Spec.ownerIdx (ring.filter (fun e => repl rfs e.2)) t]'(
            ownerIdx_lt _ t hne)).1 := by
  have hsR := sorted_filter ring (fun e => repl rfs e.2) hs
  rw [nts_on_filtered ring rfs t, nts_on_filtered ring rfs _,
    ← rot_owner_eq_clockwise _ t hsR, ← rot_owner_eq_clockwise _ _ hsR, ownerIdx_self _ hsR]

theorem nts_none_retained (ring : List Entry) (rfs : List (Nat × Nat)) (t : Int)
    (he : ring.filter (fun e => repl rfs e.2) = []) : Spec.nts ring rfs t = [] := by
  rw [nts_on_filtered, he]
  rfl

/-! ### `replicasFor` on a map built entry-wise from a sorted list -/

theorem tokAt_map (R : List Entry) (g : Entry → List Host) :
    tokAt (R.map (fun e => (e.1, g e))) = tokAt R := by
  funext i
  unfold tokAt
  by_cases h : i < R.length
  · simp [h]
  · simp [h]

theorem lookupIdx_map (R : List Entry) (g : Entry → List Host) (t : Int) :
    lookupIdx (R.map (fun e => (e.1, g e))) t = lookupIdx R t := by
  unfold lookupIdx
  rw [tokAt_map]
  simp

theorem replicasFor_map (R : List Entry) (g : Entry → List Host) (t : Int) (hs : Sorted R) (hne : R ≠ []) :
    replicasFor (R.map (fun e => (e.1, g e))) t =
      some ((R[Spec.ownerIdx R t]'(ownerIdx_lt R t hne)).1, g (R[Spec.ownerIdx R t]'(ownerIdx_lt R t hne))) := by
  unfold replicasFor
  have hlen : 0 < R.length := List.length_pos_iff.mpr hne
  rw [lookupIdx_map, lookupIdx_eq_ownerIdx R t hs]
  have hlt := ownerIdx_lt R t hne
  simp only [List.length_map]
  rw [if_neg (by omega), List.getElem?_eq_getElem (by simpa using hlt)]
  simp

end C10NtsLookup
