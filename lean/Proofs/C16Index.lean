import Model.Ring
import Proofs.C16Ring
import Proofs.C16Refresh
/-! helper lemmas: consistency invariants of the by-id / by-address indexes (repaired `removeHost`) -/
namespace C16
open Ring

/-- FULL consistency of the by-id and by-address indexes: every host is stored under its own id, is
indexed by its address, and no two hosts share an address -/
structure RInv (r : Ring.Ring) : Prop where
  wf : WF r.byId
  knodup : (keys r.byId).Nodup
  ip : ∀ e ∈ r.byId, lookup r.byIp e.2.addr = some e.1
  uniq : ∀ e1 ∈ r.byId, ∀ e2 ∈ r.byId, e1.2.addr = e2.2.addr → e1.1 = e2.1

/-- WEAK consistency (holds also while two hosts share an address): every address of a host of the
ring is indexed to a host of the ring with that address -/
def Cov (r : Ring.Ring) : Prop :=
  ∀ e ∈ r.byId, ∃ e' ∈ r.byId, e'.2.addr = e.2.addr ∧ lookup r.byIp e.2.addr = some e'.1

/-- no stale by-address entry: every entry maps an address to a host of the ring with that address -/
def NoStale (r : Ring.Ring) : Prop :=
  ∀ a id, lookup r.byIp a = some id → ∃ h, (id, h) ∈ r.byId ∧ h.addr = a

/-- no host of the ring with another id has the address of `h` -/
def AddrFree (r : Ring.Ring) (h : RHost) : Prop := ∀ e ∈ r.byId, e.2.addr = h.addr → e.1 = h.id

instance (r : Ring.Ring) (h : RHost) : Decidable (AddrFree r h) := by unfold AddrFree; infer_instance

theorem RInv_empty : RInv Ring.empty := ⟨by simp [WF, Ring.empty], by simp [keys, Ring.empty], by simp [Ring.empty], by simp [Ring.empty]⟩

theorem RInv_cov (r : Ring.Ring) (hr : RInv r) : Cov r := fun e he => ⟨e, he, rfl, hr.ip e he⟩

/-! ### `Cov` under the two mutating operations -/

theorem Cov_addIfMissing (r : Ring.Ring) (hc : Cov r) (h : RHost) : Cov (r.addIfMissing h).1 := by
  cases hl : lookup r.byId h.id with
  | some e => rw [addIfMissing_of_some r h e hl]; exact hc
  | none =>
    intro e he
    rw [byIp_add_new r h hl]
    rw [mem_add_new r h hl] at he
    have hnew : (h.id, h) ∈ (r.addIfMissing h).1.byId := (mem_add_new r h hl _).mpr (Or.inl rfl)
    by_cases ha : e.2.addr = h.addr
    · exact ⟨(h.id, h), hnew, ha.symm, by rw [ha]; exact lookup_put_self _ _ _⟩
    · rcases he with rfl | he
      · exact absurd rfl ha
      · obtain ⟨e', he', h1, h2⟩ := hc e he
        exact ⟨e', (mem_add_new r h hl _).mpr (Or.inr he'), h1, by rw [lookup_put_ne _ _ _ _ ha]; exact h2⟩

/-- removing host id `k` keeps `Cov` whenever no OTHER host's address is indexed to `k` -/
theorem Cov_remove (r : Ring.Ring) (hc : Cov r) (k : Nat)
    (hK : ∀ e ∈ r.byId, e.1 ≠ k → lookup r.byIp e.2.addr ≠ some k) : Cov (r.remove k).1 := by
  intro e he
  rw [mem_remove] at he
  obtain ⟨e', he', h1, h2⟩ := hc e he.1
  have hne := hK e he.1 he.2
  have hk' : e'.1 ≠ k := fun hk => hne (hk ▸ h2)
  exact ⟨e', (mem_remove r k e').mpr ⟨he', hk'⟩, h1, by rw [byIp_remove_keep r k _ hne]; exact h2⟩

/-! ### `NoStale` holds after EVERY operation -/

theorem NoStale_addIfMissing (r : Ring.Ring) (hs : NoStale r) (h : RHost) : NoStale (r.addIfMissing h).1 := by
  cases hl : lookup r.byId h.id with
  | some e => rw [addIfMissing_of_some r h e hl]; exact hs
  | none =>
    intro a id hlk
    rw [byIp_add_new r h hl] at hlk
    by_cases ha : a = h.addr
    · subst ha
      rw [lookup_put_self] at hlk
      cases hlk
      exact ⟨h, (mem_add_new r h hl _).mpr (Or.inl rfl), rfl⟩
    · rw [lookup_put_ne _ _ _ _ ha] at hlk
      obtain ⟨h', hm, hh⟩ := hs a id hlk
      exact ⟨h', (mem_add_new r h hl _).mpr (Or.inr hm), hh⟩

theorem NoStale_remove (r : Ring.Ring) (hn : (keys r.byId).Nodup) (hs : NoStale r) (k : Nat) : NoStale (r.remove k).1 := by
  intro a id hlk
  have hold := byIp_remove_sub r k a id hlk
  obtain ⟨h', hm, hh⟩ := hs a id hold
  refine ⟨h', (mem_remove r k _).mpr ⟨hm, ?_⟩, hh⟩
  intro hk
  dsimp only at hk
  subst hk
  have hl : lookup r.byId id = some h' := lookup_of_mem_nodup _ hn (id, h') hm
  subst hh
  exact byIp_remove_self r id h' hl hlk

/-! ### full consistency under the two mutating operations -/

theorem RInv_addIfMissing (r : Ring.Ring) (hr : RInv r) (h : RHost) (hfree : AddrFree r h) : RInv (r.addIfMissing h).1 := by
  cases hl : lookup r.byId h.id with
  | some e => rw [addIfMissing_of_some r h e hl]; exact hr
  | none =>
    have hkn : (keys (r.addIfMissing h).1.byId).Nodup := by
      rw [addIfMissing_of_none r h hl]; exact keys_put_nodup _ _ _ hr.knodup
    have hnk : ∀ e ∈ r.byId, e.1 ≠ h.id := by
      intro e he hk
      rw [lookup_eq_none] at hl
      exact hl (hk ▸ List.mem_map.mpr ⟨e, he, rfl⟩)
    refine ⟨WF_addIfMissing r h hr.wf, hkn, ?_, ?_⟩
    · intro e he
      rw [byIp_add_new r h hl]
      rcases (mem_add_new r h hl e).mp he with rfl | he
      · exact lookup_put_self _ _ _
      · have hne : e.2.addr ≠ h.addr := fun heq => hnk e he (hfree e he heq)
        rw [lookup_put_ne _ _ _ _ hne]
        exact hr.ip e he
    · intro e1 he1 e2 he2 heq
      rcases (mem_add_new r h hl e1).mp he1 with rfl | he1 <;> rcases (mem_add_new r h hl e2).mp he2 with rfl | he2
      · rfl
      · exact (hfree e2 he2 heq.symm).symm
      · exact hfree e1 he1 heq
      · exact hr.uniq e1 he1 e2 he2 heq

theorem RInv_remove (r : Ring.Ring) (hr : RInv r) (k : Nat) : RInv (r.remove k).1 := by
  refine ⟨WF_remove r k hr.wf, ?_, ?_, ?_⟩
  · cases hl : lookup r.byId k with
    | none => rw [remove_of_none r k hl]; exact hr.knodup
    | some h => rw [remove_of_some r k h hl]; exact keys_erase_nodup _ _ hr.knodup
  · intro e he
    rw [mem_remove] at he
    have : lookup r.byIp e.2.addr ≠ some k := by rw [hr.ip e he.1]; exact fun h => he.2 (Option.some.inj h)
    rw [byIp_remove_keep r k _ this]
    exact hr.ip e he.1
  · intro e1 he1 e2 he2 heq
    rw [mem_remove] at he1 he2
    exact hr.uniq e1 he1.1 e2 he2.1 heq

theorem getHost_of_mem (r : Ring.Ring) (hw : WF r.byId) (hn : (keys r.byId).Nodup) (e : Nat × RHost) (he : e ∈ r.byId) :
    r.getHost e.2.id = some e.2 := by
  unfold Ring.getHost; rw [hw e he]; exact lookup_of_mem_nodup _ hn e he

theorem RInv_lookup (r : Ring.Ring) (hr : RInv r) (h : RHost) (hh : h ∈ r.allHosts) :
    r.getHost h.id = some h ∧ r.getHostByIP h.addr = (some h, true) := by
  simp only [Ring.allHosts, List.mem_map] at hh
  obtain ⟨e, he, rfl⟩ := hh
  have h1 : lookup r.byId e.1 = some e.2 := lookup_of_mem_nodup _ hr.knodup e he
  refine ⟨getHost_of_mem r hr.wf hr.knodup e he, ?_⟩
  unfold Ring.getHostByIP
  rw [hr.ip e he]
  simp only [h1]

/-- what `Cov` gives for the lookups: a host of the ring is found by its id, its address leads to a
host of the ring WITH THAT ADDRESS — to the host itself when no other host of the ring has its address -/
theorem Cov_lookup (r : Ring.Ring) (hw : WF r.byId) (hn : (keys r.byId).Nodup) (hc : Cov r) (h : RHost) (hh : h ∈ r.allHosts) :
    r.getHost h.id = some h ∧
    (∃ h' ∈ r.allHosts, h'.addr = h.addr ∧ r.getHostByIP h.addr = (some h', true)) ∧
    ((∀ h' ∈ r.allHosts, h'.addr = h.addr → h' = h) → r.getHostByIP h.addr = (some h, true)) := by
  simp only [Ring.allHosts, List.mem_map] at hh
  obtain ⟨e, he, rfl⟩ := hh
  obtain ⟨e', he', h1, h2⟩ := hc e he
  have h3 : lookup r.byId e'.1 = some e'.2 := lookup_of_mem_nodup _ hn e' he'
  have hall : e'.2 ∈ r.allHosts := List.mem_map.mpr ⟨e', he', rfl⟩
  have hget : r.getHostByIP e.2.addr = (some e'.2, true) := by
    unfold Ring.getHostByIP; rw [h2]; simp only [h3]
  refine ⟨getHost_of_mem r hw hn e he, ⟨e'.2, hall, h1, hget⟩, ?_⟩
  intro hal
  rw [hget, hal e'.2 hall h1]

/-- `getHostByIP` never answers "known address" with a nil host, and the host it returns has that address -/
theorem NoStale_lookup (r : Ring.Ring) (hn : (keys r.byId).Nodup) (hs : NoStale r) (a : Nat) (x : Option RHost)
    (hx : r.getHostByIP a = (x, true)) : ∃ h, x = some h ∧ h ∈ r.allHosts ∧ h.addr = a := by
  unfold Ring.getHostByIP at hx
  cases hl : lookup r.byIp a with
  | none => rw [hl] at hx; simp at hx
  | some id =>
    rw [hl] at hx
    dsimp only at hx
    obtain ⟨h, hm, ha⟩ := hs a id hl
    have : lookup r.byId id = some h := lookup_of_mem_nodup _ hn (id, h) hm
    rw [this] at hx
    exact ⟨h, (Prod.mk.inj hx).1.symm, List.mem_map.mpr ⟨(id, h), hm, rfl⟩, ha⟩

/-! ### operation histories -/

inductive ROp | addIfMissing (h : RHost) | addOrUpdate (h : RHost) | remove (id : Nat)

def applyOp (r : Ring.Ring) : ROp → Ring.Ring
  | .addIfMissing h => (r.addIfMissing h).1
  | .addOrUpdate h => (r.addOrUpdate h).1
  | .remove id => (r.remove id).1

theorem addOrUpdate_ring (r : Ring.Ring) (h : RHost) : (r.addOrUpdate h).1 = (r.addIfMissing h).1 := rfl

/-- along the history, no host is added while a host with another id has its address -/
def Guarded : Ring.Ring → List ROp → Prop
  | _, [] => True
  | r, .addIfMissing h :: t => AddrFree r h ∧ Guarded (r.addIfMissing h).1 t
  | r, .addOrUpdate h :: t => AddrFree r h ∧ Guarded (r.addOrUpdate h).1 t
  | r, .remove id :: t => Guarded (r.remove id).1 t

theorem RInv_run (r : Ring.Ring) (hr : RInv r) (ops : List ROp) (hg : Guarded r ops) : RInv (ops.foldl applyOp r) := by
  induction ops generalizing r with
  | nil => exact hr
  | cons o t ih =>
    cases o with
    | addIfMissing h => exact ih _ (RInv_addIfMissing r hr h hg.1) hg.2
    | addOrUpdate h => exact ih _ (RInv_addIfMissing r hr h hg.1) hg.2
    | remove id => exact ih _ (RInv_remove r hr id) hg

/-- the removal of host id `k` is harmless for the by-address index: `k` is unknown, or its host is
the only host of the ring on its address, or the by-address entry of its address maps to another id -/
def RemOk (r : Ring.Ring) (k : Nat) : Prop :=
  match lookup r.byId k with
  | none => True
  | some hk => (∀ e ∈ r.byId, e.2.addr = hk.addr → e.1 = k) ∨ lookup r.byIp hk.addr ≠ some k

instance (r : Ring.Ring) (k : Nat) : Decidable (RemOk r k) := by
  unfold RemOk; split <;> infer_instance

/-- along the history every removal is harmless (`RemOk`); additions are NOT restricted -/
def RemGuarded : Ring.Ring → List ROp → Prop
  | _, [] => True
  | r, .addIfMissing h :: t => RemGuarded (r.addIfMissing h).1 t
  | r, .addOrUpdate h :: t => RemGuarded (r.addOrUpdate h).1 t
  | r, .remove id :: t => RemOk r id ∧ RemGuarded (r.remove id).1 t

/-- the invariant of `RemGuarded` histories -/
structure CInv (r : Ring.Ring) : Prop where
  wf : WF r.byId
  knodup : (keys r.byId).Nodup
  cov : Cov r

theorem knodup_addIfMissing (r : Ring.Ring) (hn : (keys r.byId).Nodup) (h : RHost) : (keys (r.addIfMissing h).1.byId).Nodup := by
  cases hl : lookup r.byId h.id with
  | some e => rw [addIfMissing_of_some r h e hl]; exact hn
  | none => rw [addIfMissing_of_none r h hl]; exact keys_put_nodup _ _ _ hn

theorem knodup_remove (r : Ring.Ring) (hn : (keys r.byId).Nodup) (k : Nat) : (keys (r.remove k).1.byId).Nodup := by
  cases hl : lookup r.byId k with
  | none => rw [remove_of_none r k hl]; exact hn
  | some h => rw [remove_of_some r k h hl]; exact keys_erase_nodup _ _ hn

theorem CInv_remove (r : Ring.Ring) (hr : CInv r) (k : Nat) (hok : RemOk r k) : CInv (r.remove k).1 := by
  refine ⟨WF_remove r k hr.wf, knodup_remove r hr.knodup k, ?_⟩
  unfold RemOk at hok
  cases hl : lookup r.byId k with
  | none => rw [remove_of_none r k hl]; exact hr.cov
  | some hk =>
    rw [hl] at hok
    dsimp only at hok
    apply Cov_remove r hr.cov k
    intro e he hne hidx
    rcases hok with hal | hni
    · -- the removed host is alone on its address: the entry of e's address maps to a host with e's address
      obtain ⟨e', he', h1, h2⟩ := hr.cov e he
      rw [h2] at hidx
      have hk' : e'.1 = k := Option.some.inj hidx
      have := mem_key_unique _ hr.knodup e' (k, hk) he' (lookup_some_mem _ _ _ hl) hk'
      subst this
      exact hne (hal e he h1.symm)
    · obtain ⟨e', he', h1, h2⟩ := hr.cov e he
      rw [h2] at hidx
      have hk' : e'.1 = k := Option.some.inj hidx
      have := mem_key_unique _ hr.knodup e' (k, hk) he' (lookup_some_mem _ _ _ hl) hk'
      subst this
      dsimp only at h1 h2
      rw [← h1] at h2
      exact hni h2

theorem CInv_run (r : Ring.Ring) (hr : CInv r) (ops : List ROp) (hg : RemGuarded r ops) : CInv (ops.foldl applyOp r) := by
  induction ops generalizing r with
  | nil => exact hr
  | cons o t ih =>
    cases o with
    | addIfMissing h => exact ih _ ⟨WF_addIfMissing r h hr.wf, knodup_addIfMissing r hr.knodup h, Cov_addIfMissing r hr.cov h⟩ hg
    | addOrUpdate h => exact ih _ ⟨WF_addIfMissing r h hr.wf, knodup_addIfMissing r hr.knodup h, Cov_addIfMissing r hr.cov h⟩ hg
    | remove id => exact ih _ (CInv_remove r hr id hg.1) hg.2

/-- the invariant of ALL histories -/
structure SInv (r : Ring.Ring) : Prop where
  wf : WF r.byId
  knodup : (keys r.byId).Nodup
  ns : NoStale r

theorem SInv_empty : SInv Ring.empty := ⟨by simp [WF, Ring.empty], by simp [keys, Ring.empty], by simp [NoStale, Ring.empty, lookup]⟩

theorem SInv_addIfMissing (r : Ring.Ring) (hr : SInv r) (h : RHost) : SInv (r.addIfMissing h).1 :=
  ⟨WF_addIfMissing r h hr.wf, knodup_addIfMissing r hr.knodup h, NoStale_addIfMissing r hr.ns h⟩

theorem SInv_remove (r : Ring.Ring) (hr : SInv r) (k : Nat) : SInv (r.remove k).1 :=
  ⟨WF_remove r k hr.wf, knodup_remove r hr.knodup k, NoStale_remove r hr.knodup hr.ns k⟩

end C16
