import Model.Ring
import Proofs.C16Ring
import Proofs.C16Refresh
/-! helper lemmas: consistency invariant of the by-id / by-address indexes -/
namespace C16
open Ring

/-- consistency of the by-id and by-address indexes -/
structure RInv (r : Ring.Ring) : Prop where
  wf : WF r.byId
  knodup : (keys r.byId).Nodup
  ip : ∀ e ∈ r.byId, lookup r.byIp e.2.addr = some e.1
  uniq : ∀ e1 ∈ r.byId, ∀ e2 ∈ r.byId, e1.2.addr = e2.2.addr → e1.1 = e2.1

/-- no host of the ring with another id has the address of `h` -/
def AddrFree (r : Ring.Ring) (h : RHost) : Prop := ∀ e ∈ r.byId, e.2.addr = h.addr → e.1 = h.id

instance (r : Ring.Ring) (h : RHost) : Decidable (AddrFree r h) := by unfold AddrFree; infer_instance

theorem RInv_empty : RInv Ring.empty := ⟨by simp [WF, Ring.empty], by simp [keys, Ring.empty], by simp [Ring.empty], by simp [Ring.empty]⟩

theorem RInv_addIfMissing (r : Ring.Ring) (hr : RInv r) (h : RHost) (hfree : AddrFree r h) : RInv (r.addIfMissing h).1 := by
  unfold Ring.addIfMissing
  split
  · exact hr
  · rename_i hn
    rw [lookup_eq_none] at hn
    dsimp only
    have hwf : WF (put r.byId h.id h) := by
      intro e he
      simp only [put, List.mem_cons] at he
      rcases he with rfl | he
      · rfl
      · exact WF_erase _ _ hr.wf e he
    have old : ∀ e, e ∈ erase r.byId h.id → e ∈ r.byId ∧ e.1 ≠ h.id := fun e he => (mem_erase _ _ e).mp he
    refine ⟨hwf, keys_put_nodup _ _ _ hr.knodup, ?_, ?_⟩
    · intro e he
      simp only [put, List.mem_cons] at he
      rcases he with rfl | he
      · exact lookup_put_self _ _ _
      · have ⟨h1, h2⟩ := old e he
        have hne : e.2.addr ≠ h.addr := fun heq => h2 (hfree e h1 heq)
        rw [lookup_put_ne _ _ _ _ hne]
        exact hr.ip e h1
    · intro e1 he1 e2 he2 heq
      simp only [put, List.mem_cons] at he1 he2
      rcases he1 with rfl | he1 <;> rcases he2 with rfl | he2
      · rfl
      · exact (hfree e2 (old e2 he2).1 heq.symm).symm
      · exact hfree e1 (old e1 he1).1 heq
      · exact hr.uniq e1 (old e1 he1).1 e2 (old e2 he2).1 heq

theorem RInv_remove (r : Ring.Ring) (hr : RInv r) (k : Nat) : RInv (r.remove k).1 := by
  unfold Ring.remove
  split
  · rename_i h0 hl
    have hmem := lookup_some_mem _ _ _ hl
    have old : ∀ e, e ∈ erase r.byId k → e ∈ r.byId ∧ e.1 ≠ k := fun e he => (mem_erase _ _ e).mp he
    refine ⟨WF_erase _ _ hr.wf, keys_erase_nodup _ _ hr.knodup, ?_, ?_⟩
    · intro e he
      have ⟨h1, h2⟩ := old e he
      have hne : e.2.addr ≠ h0.addr := fun heq => h2 (hr.uniq e h1 (k, h0) hmem heq)
      dsimp only
      rw [lookup_erase_ne _ _ _ hne]
      exact hr.ip e h1
    · intro e1 he1 e2 he2 heq
      exact hr.uniq e1 (old e1 he1).1 e2 (old e2 he2).1 heq
  · exact hr

theorem RInv_lookup (r : Ring.Ring) (hr : RInv r) (h : RHost) (hh : h ∈ r.allHosts) :
    r.getHost h.id = some h ∧ r.getHostByIP h.addr = (some h, true) := by
  simp only [Ring.allHosts, List.mem_map] at hh
  obtain ⟨e, he, rfl⟩ := hh
  have hid : e.2.id = e.1 := hr.wf e he
  have h1 : lookup r.byId e.1 = some e.2 := lookup_of_mem_nodup _ hr.knodup e he
  refine ⟨by unfold Ring.getHost; rw [hid]; exact h1, ?_⟩
  unfold Ring.getHostByIP
  rw [hr.ip e he]
  simp only [h1]

inductive ROp | addIfMissing (h : RHost) | addOrUpdate (h : RHost) | remove (id : Nat)

def applyOp (r : Ring.Ring) : ROp → Ring.Ring
  | .addIfMissing h => (r.addIfMissing h).1
  | .addOrUpdate h => (r.addOrUpdate h).1
  | .remove id => (r.remove id).1

/-- along the history, no host is added while a host with another id has its address -/
def Guarded : Ring.Ring → List ROp → Prop
  | _, [] => True
  | r, .addIfMissing h :: t => AddrFree r h ∧ Guarded (r.addIfMissing h).1 t
  | r, .addOrUpdate h :: t => AddrFree r h ∧ Guarded (r.addOrUpdate h).1 t
  | r, .remove id :: t => Guarded (r.remove id).1 t

theorem RInv_run (r : Ring.Ring) (hr : RInv r) (ops : List ROp) (hg : Guarded r ops) : RInv (ops.foldl applyOp r) := by
  induction ops generalizing r with
  | nil => exact hr
  | cons o t ih =>
    cases o with
    | addIfMissing h => exact ih _ (RInv_addIfMissing r hr h hg.1) hg.2
    | addOrUpdate h => exact ih _ (RInv_addIfMissing r hr h hg.1) hg.2
    | remove id => exact ih _ (RInv_remove r hr id) hg

end C16
