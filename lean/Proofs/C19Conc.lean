import Model.UuidConc
import Proofs.C19Gen
/-! helper lemmas for C19: the small-step machine of concurrent `TimeUUID()` callers (`Model/UuidConc.lean`):
    every schedule is a `genRun` of the readings in increment order (linearization), the counter, frame lemmas,
    the per-goroutine order of readings under a monotone wall clock. -/
namespace Uuid

/-- the counter after a run over `rs` -/
def ctrAfter (hw : List UInt8) (c : Nat) (rs : List (Int × Nat)) : Nat :=
  rs.foldl (fun s now => (timeUUID s hw now).2) c

theorem genRun_snoc (hw : List UInt8) (rs : List (Int × Nat)) (r : Int × Nat) : ∀ c,
    genRun hw c (rs ++ [r]) = genRun hw c rs ++ [(timeUUID (ctrAfter hw c rs) hw r).1] := by
  induction rs with
  | nil => intro c; rfl
  | cons x xs ih => intro c; simp only [List.cons_append, genRun, ih, ctrAfter, List.foldl_cons]

theorem ctrAfter_snoc (hw : List UInt8) (rs : List (Int × Nat)) (r : Int × Nat) (c : Nat) :
    ctrAfter hw c (rs ++ [r]) = (timeUUID (ctrAfter hw c rs) hw r).2 := by
  simp [ctrAfter, List.foldl_append]

/-- the linearization invariant relative to a base state: what has been returned since is a generator run from
    the base counter over the readings in increment order, and the counter is the run's counter -/
structure LinInv (hw : List UInt8) (base s : Conc) : Prop where
  ext : ∃ new : List Ret, s.out = base.out ++ new ∧
    new.map (·.uuid) = genRun hw base.clockSeq (new.map (·.reading)) ∧
    s.clockSeq = ctrAfter hw base.clockSeq (new.map (·.reading))

theorem linInv_refl (hw : List UInt8) (s : Conc) : LinInv hw s s :=
  ⟨[], by simp, rfl, rfl⟩

theorem linInv_step (hw : List UInt8) (base s : Conc) (a : Act) (h : LinInv hw base s) :
    LinInv hw base (concStep hw s a) := by
  obtain ⟨new, ho, hu, hc⟩ := h
  cases a with
  | now g =>
    simp only [concStep]
    split <;> exact ⟨new, ho, hu, hc⟩
  | wall t => exact ⟨new, ho, hu, hc⟩
  | inc g =>
    simp only [concStep]
    split
    · exact ⟨new, ho, hu, hc⟩
    · rename_i r _
      refine ⟨new ++ [⟨g, r, (timeUUID s.clockSeq hw r).1⟩], ?_, ?_, ?_⟩
      · simp [ho]
      · simp only [List.map_append, List.map_cons, List.map_nil, genRun_snoc, hu, hc]
      · simp only [List.map_append, List.map_cons, List.map_nil, ctrAfter_snoc, hc]

theorem linInv_run (hw : List UInt8) (base : Conc) (acts : List Act) : ∀ s, LinInv hw base s →
    LinInv hw base (concRun hw s acts) := by
  induction acts with
  | nil => intro s h; exact h
  | cons a as ih => intro s h; exact ih _ (linInv_step hw base s a h)

/-- every schedule from a state that has returned nothing yet IS a generator run -/
theorem conc_is_genRun (hw : List UInt8) (s : Conc) (hs : s.out = []) (acts : List Act) :
    (concRun hw s acts).out.map (·.uuid) = genRun hw s.clockSeq ((concRun hw s acts).out.map (·.reading)) ∧
    (concRun hw s acts).clockSeq = ctrAfter hw s.clockSeq ((concRun hw s acts).out.map (·.reading)) := by
  obtain ⟨new, ho, hu, hc⟩ := linInv_run hw s acts s (linInv_refl hw s)
  rw [hs, List.nil_append] at ho
  rw [ho]; exact ⟨hu, hc⟩

/-- counter and growth of `out` relative to any start state -/
theorem conc_counter (hw : List UInt8) (s : Conc) (hc : s.clockSeq < 2 ^ 32) (acts : List Act) :
    s.out.length ≤ (concRun hw s acts).out.length ∧
    (concRun hw s acts).clockSeq = genCtr s.clockSeq ((concRun hw s acts).out.length - s.out.length) := by
  obtain ⟨new, ho, _, hcs⟩ := linInv_run hw s acts s (linInv_refl hw s)
  rw [ho, hcs, ctrAfter, genRun_ctr hw _ _ hc]
  simp

/-! ### frame: what the others do never touches the reading a goroutine holds -/

def actOf : Act → Option Nat
  | .now g => some g
  | .inc g => some g
  | .wall _ => none

theorem heldOf_cons_ne (h : List (Nat × (Int × Nat))) (g g' : Nat) (t : Int × Nat) (hne : g' ≠ g) :
    heldOf ((g', t) :: h) g = heldOf h g := by
  have : (g' == g) = false := by simpa using hne
  simp [heldOf, this]

theorem heldOf_filter_ne (g g' : Nat) (hne : g' ≠ g) : ∀ h : List (Nat × (Int × Nat)),
    heldOf (h.filter (·.1 != g')) g = heldOf h g := by
  intro h
  induction h with
  | nil => rfl
  | cons x xs ih =>
    by_cases hx : x.1 = g'
    · have h1 : (x.1 != g') = false := by simp [hx]
      have h2 : (x.1 == g) = false := by rw [hx]; simpa using hne
      rw [List.filter_cons_of_neg (by simp [h1]), ih]
      simp [heldOf, h2]
    · have h1 : (x.1 != g') = true := by simpa using hx
      have hf : (x :: xs).filter (·.1 != g') = x :: xs.filter (·.1 != g') := by simp [h1]
      rw [hf]
      unfold heldOf at ih ⊢
      simp only [List.find?_cons]
      split
      · rfl
      · exact ih

theorem heldOf_filter_self (g : Nat) : ∀ h : List (Nat × (Int × Nat)), heldOf (h.filter (·.1 != g)) g = none := by
  intro h
  induction h with
  | nil => rfl
  | cons x xs ih =>
    by_cases hx : x.1 = g
    · rw [List.filter_cons_of_neg (by simp [hx])]; exact ih
    · have h1 : (x.1 != g) = true := by simpa using hx
      have h2 : (x.1 == g) = false := by simpa using hx
      have hf : (x :: xs).filter (·.1 != g) = x :: xs.filter (·.1 != g) := by simp [h1]
      rw [hf]
      unfold heldOf at ih ⊢
      simp only [List.find?_cons, h2]
      exact ih

theorem held_frame_step (hw : List UInt8) (s : Conc) (g : Nat) (a : Act) (ha : actOf a ≠ some g) :
    heldOf (concStep hw s a).held g = heldOf s.held g := by
  cases a with
  | wall t => rfl
  | now g' =>
    have hne : g' ≠ g := by intro e; exact ha (by simp [actOf, e])
    simp only [concStep]
    split
    · rfl
    · exact heldOf_cons_ne _ _ _ _ hne
  | inc g' =>
    have hne : g' ≠ g := by intro e; exact ha (by simp [actOf, e])
    simp only [concStep]
    split
    · rfl
    · exact heldOf_filter_ne g g' hne _

theorem held_frame_run (hw : List UInt8) (g : Nat) (acts : List Act) (ha : ∀ a ∈ acts, actOf a ≠ some g) :
    ∀ s : Conc, heldOf (concRun hw s acts).held g = heldOf s.held g := by
  induction acts with
  | nil => intro s; rfl
  | cons a as ih =>
    intro s
    show heldOf (concRun hw (concStep hw s a) as).held g = _
    rw [ih (fun b hb => ha b (List.mem_cons_of_mem _ hb)), held_frame_step hw s g a (ha a (List.mem_cons_self ..))]

/-- one whole call `wall t; now g; inc g` of a goroutine that is not inside a call -/
theorem conc_call (hw : List UInt8) (s : Conc) (g : Nat) (t : Int × Nat) (hg : heldOf s.held g = none) :
    (concRun hw s [.wall t, .now g, .inc g]).out = s.out ++ [⟨g, t, (timeUUID s.clockSeq hw t).1⟩] ∧
    heldOf (concRun hw s [.wall t, .now g, .inc g]).held g = none := by
  have h1 : heldOf ((g, t) :: s.held) g = some t := by simp [heldOf]
  have e : concRun hw s [.wall t, .now g, .inc g] =
      { clockSeq := (timeUUID s.clockSeq hw t).2, wall := t,
        held := ((g, t) :: s.held).filter (·.1 != g),
        out := s.out ++ [⟨g, t, (timeUUID s.clockSeq hw t).1⟩] } := by
    simp only [concRun, List.foldl_cons, List.foldl_nil, concStep, hg, h1]
  rw [e]
  exact ⟨rfl, heldOf_filter_self g _⟩

/-- `k` whole calls of goroutine `g`, the wall clock set to `f i` before the `i`-th -/
def callsOf (g : Nat) (f : Nat → Int × Nat) (k : Nat) : List Act :=
  (List.range k).flatMap fun i => [Act.wall (f i), .now g, .inc g]

theorem callsOf_succ (g : Nat) (f : Nat → Int × Nat) (k : Nat) :
    callsOf g f (k + 1) = callsOf g f k ++ [Act.wall (f k), .now g, .inc g] := by
  simp [callsOf, List.range_succ, List.flatMap_append]

theorem concRun_append (hw : List UInt8) (s : Conc) (a b : List Act) :
    concRun hw s (a ++ b) = concRun hw (concRun hw s a) b := by
  simp [concRun, List.foldl_append]

/-- `k` whole calls of one goroutine: `k` results, in order, each with the reading set for it -/
theorem conc_calls (hw : List UInt8) (g : Nat) (f : Nat → Int × Nat) : ∀ (k : Nat) (s : Conc),
    heldOf s.held g = none →
    (concRun hw s (callsOf g f k)).out.length = s.out.length + k ∧
    heldOf (concRun hw s (callsOf g f k)).held g = none ∧
    (∀ i, i < k → ∃ r, (concRun hw s (callsOf g f k)).out[s.out.length + i]? = some r ∧ r.g = g ∧ r.reading = f i) ∧
    (∀ i, i < s.out.length → (concRun hw s (callsOf g f k)).out[i]? = s.out[i]?) := by
  intro k
  induction k with
  | zero => intro s hg; simp [callsOf, concRun, hg]
  | succ k ih =>
    intro s hg
    rw [callsOf_succ, concRun_append]
    obtain ⟨hl, hh, hget, hold⟩ := ih s hg
    generalize concRun hw s (callsOf g f k) = s1 at hl hh hget hold
    obtain ⟨ho, hh2⟩ := conc_call hw s1 g (f k) hh
    refine ⟨by rw [ho]; simp [hl]; omega, hh2, ?_, ?_⟩
    · intro i hi
      by_cases hik : i < k
      · obtain ⟨r, e0, e1, e2⟩ := hget i hik
        refine ⟨r, ?_, e1, e2⟩
        rw [ho, List.getElem?_append_left (by omega)]
        exact e0
      · have : i = k := by omega
        subst this
        refine ⟨⟨g, f i, (timeUUID s1.clockSeq hw (f i)).1⟩, ?_, rfl, rfl⟩
        rw [ho, List.getElem?_append_right (by omega)]
        simp [hl]
    · intro i hi
      rw [ho, List.getElem?_append_left (by omega)]
      exact hold i hi

theorem callsOf_frame (g g' : Nat) (hne : g' ≠ g) (f : Nat → Int × Nat) (k : Nat) :
    ∀ a ∈ callsOf g' f k, actOf a ≠ some g := by
  intro a ha
  simp only [callsOf, List.mem_flatMap, List.mem_range] at ha
  obtain ⟨i, _, hm⟩ := ha
  simp only [List.mem_cons, List.not_mem_nil, or_false] at hm
  rcases hm with rfl | rfl | rfl <;> simp [actOf, hne]

/-- the descheduled caller, in general: `g` and `g'` hold readings of the same tick; `g'` increments; then ANYTHING
    in which `g` takes no step and exactly 16383 further calls return; then `g` increments — and gets `g'`'s UUID -/
theorem conc_dup_descheduled (hw : List UInt8) (s : Conc) (g g' : Nat) (r r' : Int × Nat) (mid : List Act)
    (hne : g' ≠ g) (hg : heldOf s.held g = some r) (hg' : heldOf s.held g' = some r')
    (ht : tick r = tick r') (hmid : ∀ a ∈ mid, actOf a ≠ some g)
    (hn : (concRun hw (concStep hw s (.inc g')) mid).out.length = s.out.length + 1 + 16383) :
    ∃ u, (concRun hw s (.inc g' :: mid ++ [.inc g])).out[s.out.length]? = some ⟨g', r', u⟩ ∧
         (concRun hw s (.inc g' :: mid ++ [.inc g])).out[s.out.length + 16384]? = some ⟨g, r, u⟩ := by
  have e1 : concStep hw s (.inc g') =
      { s with clockSeq := (timeUUID s.clockSeq hw r').2, held := s.held.filter (·.1 != g'),
               out := s.out ++ [⟨g', r', (timeUUID s.clockSeq hw r').1⟩] } := by
    simp only [concStep, hg']
  have hrun : concRun hw s (.inc g' :: mid ++ [.inc g]) =
      concStep hw (concRun hw (concStep hw s (.inc g')) mid) (.inc g) := by
    show concRun hw (concStep hw s (.inc g')) (mid ++ [.inc g]) = _
    rw [concRun_append]; rfl
  have hc1 : (concStep hw s (.inc g')).clockSeq < 2 ^ 32 := by
    rw [e1]; simp only [timeUUID, uuidFromTime]; exact Nat.mod_lt _ (by decide)
  have hh1 : heldOf (concStep hw s (.inc g')).held g = some r := by
    rw [held_frame_step hw s g (.inc g') (by simp [actOf, hne])]; exact hg
  obtain ⟨new, ho, _, _⟩ := linInv_run hw (concStep hw s (.inc g')) mid _ (linInv_refl hw _)
  have hctr := (conc_counter hw (concStep hw s (.inc g')) hc1 mid).2
  have hh2 := held_frame_run hw g mid hmid (concStep hw s (.inc g'))
  rw [hh1] at hh2
  generalize concRun hw (concStep hw s (.inc g')) mid = s2 at hrun hn ho hctr hh2
  have l1 : (concStep hw s (.inc g')).out.length = s.out.length + 1 := by rw [e1]; simp
  rw [hn, l1] at hctr
  have e3 : concStep hw s2 (.inc g) =
      { s2 with clockSeq := (timeUUID s2.clockSeq hw r).2, held := s2.held.filter (·.1 != g),
                out := s2.out ++ [⟨g, r, (timeUUID s2.clockSeq hw r).1⟩] } := by
    simp only [concStep, hh2]
  refine ⟨(timeUUID s.clockSeq hw r').1, ?_, ?_⟩
  · rw [hrun, e3]
    show (s2.out ++ _)[s.out.length]? = _
    rw [List.getElem?_append_left (by omega), ho, List.getElem?_append_left (by omega), e1]
    simp
  · rw [hrun, e3]
    show (s2.out ++ _)[s.out.length + 16384]? = _
    rw [List.getElem?_append_right (by omega)]
    have : s.out.length + 16384 - s2.out.length = 0 := by omega
    rw [this]
    simp only [List.getElem?_cons_zero, Option.some.injEq, Ret.mk.injEq, true_and]
    simp only [timeUUID, uuidFromTime]
    apply (with_eq_iff _ _ _ _ _).mpr
    refine ⟨by simpa [tick] using ht, ?_⟩
    rw [hctr, e1]
    simp only [timeUUID, uuidFromTime, genCtr, Nat.reducePow]
    omega

/-! ### the driver's O(1)-per-step run is the machine -/

theorem revOut_revOut (s : Conc) : revOut (revOut s) = s := by
  cases s; simp [revOut]

theorem revOut_step (hw : List UInt8) (s : Conc) (a : Act) :
    revOut (concStep hw s a) = concStepR hw (revOut s) a := by
  cases a with
  | wall t => rfl
  | now g =>
    simp only [concStep, concStepR, revOut]
    split <;> rfl
  | inc g =>
    simp only [concStep, concStepR, revOut]
    split
    · rfl
    · simp

theorem revOut_run (hw : List UInt8) (acts : List Act) : ∀ s : Conc,
    revOut (concRun hw s acts) = acts.foldl (concStepR hw) (revOut s) := by
  induction acts with
  | nil => intro s; rfl
  | cons a as ih =>
    intro s
    show revOut (concRun hw (concStep hw s a) as) = _
    rw [ih, revOut_step]; rfl

theorem concRunFast_eq (hw : List UInt8) (s : Conc) (acts : List Act) : concRunFast hw s acts = concRun hw s acts := by
  unfold concRunFast
  rw [← revOut_run, revOut_revOut]

/-! ### a wall clock that never steps back: what each goroutine sees -/

theorem readingLe_refl (a : Int × Nat) : readingLe a a := Or.inr ⟨rfl, Nat.le_refl _⟩

theorem readingLe_trans (a b c : Int × Nat) (h1 : readingLe a b) (h2 : readingLe b c) : readingLe a c := by
  unfold readingLe at *; omega

/-- along the schedule the environment only moves the wall clock forward, inside the representable range -/
def WallOk (w : Int × Nat) : List Act → Prop
  | [] => True
  | .wall t :: as => readingLe w t ∧ Representable t.1 t.2 ∧ WallOk t as
  | .now _ :: as => WallOk w as
  | .inc _ :: as => WallOk w as

structure MonoInv (t0 : Int × Nat) (s : Conc) : Prop where
  wallRep : Representable s.wall.1 s.wall.2
  wallLo : readingLe t0 s.wall
  heldLe : ∀ p ∈ s.held, readingLe p.2 s.wall ∧ readingLe t0 p.2 ∧ Representable p.2.1 p.2.2
  outLe : ∀ r ∈ s.out, readingLe r.reading s.wall ∧ readingLe t0 r.reading ∧ Representable r.reading.1 r.reading.2 ∧
    timestamp r.uuid = tick r.reading
  heldOut : ∀ p ∈ s.held, ∀ r ∈ s.out, r.g = p.1 → readingLe r.reading p.2
  pw : s.out.Pairwise (fun a b => a.g = b.g → readingLe a.reading b.reading)

theorem heldOf_mem (h : List (Nat × (Int × Nat))) (g : Nat) (r : Int × Nat) (e : heldOf h g = some r) : (g, r) ∈ h := by
  unfold heldOf at e
  cases hf : h.find? (·.1 == g) with
  | none => simp [hf] at e
  | some p =>
    simp only [hf, Option.map_some, Option.some.injEq] at e
    have hm := List.mem_of_find?_eq_some hf
    have hp := List.find?_some hf
    have : p.1 = g := by simpa using hp
    have : p = (g, r) := by cases p; simp_all
    rw [← this]; exact hm

theorem monoInv_step (hw : List UInt8) (t0 : Int × Nat) (s : Conc) (a : Act) (h : MonoInv t0 s)
    (hok : WallOk s.wall [a]) : MonoInv t0 (concStep hw s a) := by
  obtain ⟨wr, wl, hl, ol, ho, pw⟩ := h
  cases a with
  | wall t =>
    obtain ⟨hle, hrep, _⟩ := hok
    exact ⟨hrep, readingLe_trans _ _ _ wl hle,
      fun p hp => ⟨readingLe_trans _ _ _ (hl p hp).1 hle, (hl p hp).2⟩,
      fun r hr => ⟨readingLe_trans _ _ _ (ol r hr).1 hle, (ol r hr).2⟩, ho, pw⟩
  | now g =>
    simp only [concStep]
    split
    · exact ⟨wr, wl, hl, ol, ho, pw⟩
    · refine ⟨wr, wl, ?_, ol, ?_, pw⟩
      · intro p hp
        rcases List.mem_cons.mp hp with rfl | hp
        · exact ⟨readingLe_refl _, wl, wr⟩
        · exact hl p hp
      · intro p hp r hr hg
        rcases List.mem_cons.mp hp with rfl | hp
        · exact (ol r hr).1
        · exact ho p hp r hr hg
  | inc g =>
    simp only [concStep]
    split
    · exact ⟨wr, wl, hl, ol, ho, pw⟩
    · rename_i r hr
      have hmem := heldOf_mem _ _ _ hr
      have hts : timestamp (timeUUID s.clockSeq hw r).1 = tick r := by
        simp only [timeUUID, uuidFromTime, timestamp_with_mod, tick]
      refine ⟨wr, wl, ?_, ?_, ?_, ?_⟩
      · intro p hp; exact hl p ((List.mem_filter.mp hp).1)
      · intro x hx
        rcases List.mem_append.mp hx with hx | hx
        · exact ol x hx
        · have : x = ⟨g, r, (timeUUID s.clockSeq hw r).1⟩ := by simpa using hx
          subst this
          exact ⟨(hl _ hmem).1, (hl _ hmem).2.1, (hl _ hmem).2.2, hts⟩
      · intro p hp x hx hg
        have hp' := (List.mem_filter.mp hp).1
        have hpne : p.1 ≠ g := by
          have := (List.mem_filter.mp hp).2
          simpa using this
        rcases List.mem_append.mp hx with hx | hx
        · exact ho p hp' x hx hg
        · have : x = ⟨g, r, (timeUUID s.clockSeq hw r).1⟩ := by simpa using hx
          subst this
          exact absurd hg.symm hpne
      · rw [List.pairwise_append]
        refine ⟨pw, List.pairwise_singleton _ _, ?_⟩
        intro x hx y hy hg
        have : y = ⟨g, r, (timeUUID s.clockSeq hw r).1⟩ := by simpa using hy
        subst this
        exact ho _ hmem x hx hg

theorem monoInv_run (hw : List UInt8) (t0 : Int × Nat) (acts : List Act) : ∀ s : Conc, MonoInv t0 s →
    WallOk s.wall acts → MonoInv t0 (concRun hw s acts) ∧ readingLe s.wall (concRun hw s acts).wall := by
  induction acts with
  | nil => intro s h _; exact ⟨h, readingLe_refl _⟩
  | cons a as ih =>
    intro s h hok
    have h1 : WallOk s.wall [a] := by
      cases a with
      | wall t => exact ⟨hok.1, hok.2.1, trivial⟩
      | now g => trivial
      | inc g => trivial
    have hw' : WallOk (concStep hw s a).wall as ∧ readingLe s.wall (concStep hw s a).wall := by
      cases a with
      | wall t => exact ⟨hok.2.2, hok.1⟩
      | now g =>
        have : (concStep hw s (.now g)).wall = s.wall := by simp only [concStep]; split <;> rfl
        rw [this]; exact ⟨hok, readingLe_refl _⟩
      | inc g =>
        have : (concStep hw s (.inc g)).wall = s.wall := by simp only [concStep]; split <;> rfl
        rw [this]; exact ⟨hok, readingLe_refl _⟩
    obtain ⟨r1, r2⟩ := ih _ (monoInv_step hw t0 s a h h1) hw'.1
    exact ⟨r1, readingLe_trans _ _ _ hw'.2 r2⟩

/-! ### the driver's monitors answer `true` on runs that satisfy what they check -/

theorem monFold_true (lo hi : Nat) : ∀ (rs : List Ret) (last : List (Nat × Nat)),
    (∀ r ∈ rs, lo ≤ timestamp r.uuid ∧ timestamp r.uuid ≤ hi) →
    rs.Pairwise (fun a b => a.g = b.g → timestamp a.uuid ≤ timestamp b.uuid) →
    (∀ p ∈ last, ∀ r ∈ rs, r.g = p.1 → p.2 ≤ timestamp r.uuid) →
    (rs.foldl (monStep lo hi) (true, last)).1 = true := by
  intro rs
  induction rs with
  | nil => intro last _ _ _; rfl
  | cons r rs ih =>
    intro last hb hp hl
    have hr := hb r (List.mem_cons_self ..)
    have hprev : ((last.find? (·.1 == r.g)).map (·.2)).getD 0 ≤ timestamp r.uuid := by
      cases hf : last.find? (·.1 == r.g) with
      | none => simp
      | some p =>
        have hm := List.mem_of_find?_eq_some hf
        have hg : p.1 = r.g := by simpa using List.find?_some hf
        simpa using hl p hm r (List.mem_cons_self ..) hg.symm
    have hstep : monStep lo hi (true, last) r = (true, (r.g, timestamp r.uuid) :: last.filter (·.1 != r.g)) := by
      simp only [monStep, hr.1, hr.2, hprev, decide_true, Bool.and_self]
    rw [List.foldl_cons, hstep]
    rw [List.pairwise_cons] at hp
    apply ih _ (fun x hx => hb x (List.mem_cons_of_mem _ hx)) hp.2
    intro p hpm x hx hg
    rcases List.mem_cons.mp hpm with rfl | hpm
    · exact hp.1 x hx hg.symm
    · exact hl p (List.mem_filter.mp hpm).1 x (List.mem_cons_of_mem _ hx) hg

end Uuid
