import Model.MarshalHeap
/-! helper lemmas for C12 (ownership of what crosses gocql.Marshal / gocql.Unmarshal):
    the invariant of the `fresh` discipline and its preservation by every step -/
namespace MarshalHeap
open ValueSpec (Bytes)

/-! ### slots -/

theorem mem_of_lookupSlot {α : Type} {k : Nat} {sl : Slot α} :
    ∀ {l : List (Nat × Slot α)}, lookupSlot k l = some sl → (k, sl) ∈ l
  | [], h => by simp [lookupSlot] at h
  | (k', sl') :: r, h => by
    unfold lookupSlot at h
    split at h
    · rename_i hk; injection h with h; subst hk; subst h; exact List.mem_cons_self
    · exact List.mem_cons_of_mem _ (mem_of_lookupSlot h)

theorem mem_of_mem_eraseSlot {α : Type} {k : Nat} {e : Nat × Slot α} :
    ∀ {l : List (Nat × Slot α)}, e ∈ eraseSlot k l → e ∈ l
  | [], h => by simp [eraseSlot] at h
  | (k', sl') :: r, h => by
    unfold eraseSlot at h
    split at h
    · exact List.mem_cons_of_mem _ (mem_of_mem_eraseSlot h)
    · rcases List.mem_cons.1 h with h | h
      · subst h; exact List.mem_cons_self
      · exact List.mem_cons_of_mem _ (mem_of_mem_eraseSlot h)

theorem lookupSlot_eraseSlot_ne {α : Type} {k k' : Nat} (hne : k' ≠ k) :
    ∀ (l : List (Nat × Slot α)), lookupSlot k (eraseSlot k' l) = lookupSlot k l
  | [] => rfl
  | (k'', sl) :: r => by
    unfold eraseSlot
    split
    · rename_i h; subst h
      rw [lookupSlot_eraseSlot_ne hne r]
      simp [lookupSlot, hne]
    · simp only [lookupSlot]
      rw [lookupSlot_eraseSlot_ne hne r]

/-! ### buffers -/

theorem buf_alloc_lt (h : Heap) (b : Bytes) (id : Nat) (hid : id < h.mem.length) :
    (h.alloc b).1.buf id = h.buf id := by
  simp [Heap.alloc, Heap.buf, List.getD_eq_getElem?_getD, List.getElem?_append_left hid]

theorem buf_alloc_new (h : Heap) (b : Bytes) : (h.alloc b).1.buf h.mem.length = b := by
  simp [Heap.alloc, Heap.buf, List.getD_eq_getElem?_getD]

theorem alloc_length (h : Heap) (b : Bytes) : (h.alloc b).1.mem.length = h.mem.length + 1 := by
  simp [Heap.alloc]

theorem read_congr (h h' : Heap) (v : View) (e : h'.buf v.id = h.buf v.id) : h'.read v = h.read v := by
  simp [Heap.read, e]

theorem read_alloc_new (h : Heap) (b : Bytes) : (h.alloc b).1.read (h.alloc b).2 = b := by
  have := buf_alloc_new h b
  simp [Heap.read, Heap.alloc] at *
  simp [this]

/-- `allocMany`: the heap grows by one buffer per slice, nothing that existed changes, every new view
    lies in a NEW buffer and shows its slice -/
theorem allocMany_spec : ∀ (bs : List Bytes) (h : Heap),
    (h.allocMany bs).1.mem.length = h.mem.length + bs.length ∧
    (∀ id, id < h.mem.length → (h.allocMany bs).1.buf id = h.buf id) ∧
    (∀ v ∈ (h.allocMany bs).2, h.mem.length ≤ v.id ∧ v.id < h.mem.length + bs.length) ∧
    (h.allocMany bs).1.reads (h.allocMany bs).2 = bs
  | [], h => by simp [Heap.allocMany, Heap.reads]
  | b :: r, h => by
    have ⟨i1, i2, i3, i4⟩ := allocMany_spec r (h.alloc b).1
    have hl := alloc_length h b
    simp only [Heap.allocMany]
    refine ⟨by rw [i1, hl]; simp; omega, fun id hid => ?_, fun v hv => ?_, ?_⟩
    · rw [i2 id (by rw [hl]; omega)]; exact buf_alloc_lt h b id hid
    · rcases List.mem_cons.1 hv with hv | hv
      · subst hv; simp [Heap.alloc]
      · have := i3 v hv; rw [hl] at this; simp; omega
    · simp only [Heap.reads, List.map_cons]
      have hnew : ((h.alloc b).1.allocMany r).1.read (h.alloc b).2 = b := by
        rw [read_congr (h.alloc b).1 _ (h.alloc b).2 (i2 _ (by rw [hl]; simp [Heap.alloc]))]
        exact read_alloc_new h b
      rw [hnew]
      exact congrArg _ i4

theorem buf_scribble_ne (h : Heap) (x : UInt8) (id id' : Nat) (hne : id' ≠ id) :
    (h.scribble x id').buf id = h.buf id := by
  simp [Heap.scribble, Heap.buf, List.getD_eq_getElem?_getD, List.getElem?_set_ne hne]

theorem scribble_length (h : Heap) (x : UInt8) (id : Nat) : (h.scribble x id).mem.length = h.mem.length := by
  simp [Heap.scribble]

theorem scribbleAll_spec (x : UInt8) : ∀ (ids : List Nat) (h : Heap),
    (h.scribbleAll x ids).mem.length = h.mem.length ∧
    (∀ id, id ∉ ids → (h.scribbleAll x ids).buf id = h.buf id)
  | [], h => by simp [Heap.scribbleAll]
  | i :: r, h => by
    have ⟨a, b⟩ := scribbleAll_spec x r (h.scribble x i)
    simp only [Heap.scribbleAll, List.foldl_cons] at *
    refine ⟨by rw [a, scribble_length], fun id hid => ?_⟩
    rw [b id (fun hm => hid (List.mem_cons_of_mem _ hm))]
    exact buf_scribble_ne h x id i (fun e => hid (by subst e; exact List.mem_cons_self))

theorem reads_congr (h h' : Heap) (vs : List View) (e : ∀ v ∈ vs, h'.buf v.id = h.buf v.id) :
    h'.reads vs = h.reads vs := by
  simp only [Heap.reads]
  exact List.map_congr_left (fun v hv => read_congr h h' v (e v hv))

/-! ### the invariant of the `fresh` discipline -/

/-- every held result: the call's value is what the table gives for the slot's argument; the input
    buffers exist; a result that did NOT come through the zero-copy path lives in buffers that exist,
    still shows the value the call returned, and none of its buffers is anybody's input buffer; a
    zero-copy result is, structurally, a sub-slice of the slot's own input -/
structure Good {α : Type} (S : Sig α) (s : St α) : Prop where
  ok : ∀ k sl, (k, sl) ∈ s.slots →
    S.F sl.arg = some sl.want ∧ (∀ w ∈ sl.inp, w.id < s.heap.mem.length) ∧
    (sl.pass = false → (∀ v ∈ sl.res, v.id < s.heap.mem.length) ∧ s.heap.reads sl.res = sl.want) ∧
    (sl.pass = true → ∃ i off n, S.pass sl.arg = some (i, off, n) ∧ sl.res = [(sl.inp.getD i ⟨0, 0, 0⟩).sub off n])
  sep : ∀ k sl k' sl', (k, sl) ∈ s.slots → (k', sl') ∈ s.slots → sl.pass = false →
    ∀ v ∈ sl.res, ∀ w ∈ sl'.inp, v.id ≠ w.id

theorem good_init {α : Type} (S : Sig α) : Good S (St.init : St α) :=
  ⟨fun _ _ h => by simp [St.init] at h, fun _ _ _ _ h => by simp [St.init] at h⟩

theorem good_step {α : Type} (S : Sig α) (s : St α) (op : Op α) (g : Good S s) :
    Good S (step .fresh S s op) := by
  cases op with
  | drop k =>
    exact ⟨fun k' sl h => g.ok k' sl (mem_of_mem_eraseSlot h),
           fun k1 s1 k2 s2 h1 h2 => g.sep k1 s1 k2 s2 (mem_of_mem_eraseSlot h1) (mem_of_mem_eraseSlot h2)⟩
  | mutIn k x =>
    simp only [step]
    cases hl : s.lookup k with
    | none => exact g
    | some sl0 =>
      simp only
      have hm0 : (k, sl0) ∈ s.slots := mem_of_lookupSlot hl
      have ⟨hlen, hbuf⟩ := scribbleAll_spec x (sl0.inp.map (·.id)) s.heap
      refine ⟨fun k' sl h => ?_, fun k1 s1 k2 s2 h1 h2 => g.sep k1 s1 k2 s2 h1 h2⟩
      have ⟨h1, h2, h3, h4⟩ := g.ok k' sl h
      refine ⟨h1, fun w hw => by rw [hlen]; exact h2 w hw, fun hp => ?_, h4⟩
      have ⟨h3a, h3b⟩ := h3 hp
      refine ⟨fun v hv => by rw [hlen]; exact h3a v hv, ?_⟩
      rw [reads_congr s.heap _ sl.res (fun v hv => hbuf v.id (fun hmem => ?_))]
      · exact h3b
      · rcases List.mem_map.1 hmem with ⟨w, hw, e⟩
        exact g.sep k' sl k sl0 h hm0 hp v hv w hw e.symm
  | hold k a =>
    simp only [step]
    have ⟨a1, a2, a3, _⟩ := allocMany_spec (S.ins a) s.heap
    -- old slots keep their buffers: allocation appends
    have hold1 : ∀ k' sl, (k', sl) ∈ eraseSlot k s.slots → (k', sl) ∈ s.slots := fun k' sl h => mem_of_mem_eraseSlot h
    cases hF : S.F a with
    | none =>
      simp only
      refine ⟨fun k' sl h => ?_, fun k1 s1 k2 s2 h1 h2 => g.sep k1 s1 k2 s2 (hold1 _ _ h1) (hold1 _ _ h2)⟩
      have ⟨h1, h2, h3, h4⟩ := g.ok k' sl (hold1 _ _ h)
      refine ⟨h1, fun w hw => by rw [a1]; have := h2 w hw; omega, fun hp => ?_, h4⟩
      have ⟨h3a, h3b⟩ := h3 hp
      refine ⟨fun v hv => by rw [a1]; have := h3a v hv; omega, ?_⟩
      rw [reads_congr s.heap _ sl.res (fun v hv => a2 v.id (h3a v hv))]; exact h3b
    | some outs =>
      simp only
      cases hP : S.pass a with
      | some t =>
        obtain ⟨i, off, n⟩ := t
        simp only
        refine ⟨fun k' sl h => ?_, fun k1 s1 k2 s2 h1 h2 hp v hv w hw => ?_⟩
        · rcases List.mem_cons.1 h with h | h
          · injection h with _ hs
            subst hs
            refine ⟨hF, fun w hw => by have := a3 w hw; rw [a1]; omega, fun hp => by simp at hp,
              fun _ => ⟨i, off, n, hP, rfl⟩⟩
          · have ⟨h1, h2, h3, h4⟩ := g.ok k' sl (hold1 _ _ h)
            refine ⟨h1, fun w hw => by rw [a1]; have := h2 w hw; omega, fun hp => ?_, h4⟩
            have ⟨h3a, h3b⟩ := h3 hp
            refine ⟨fun v hv => by rw [a1]; have := h3a v hv; omega, ?_⟩
            rw [reads_congr s.heap _ sl.res (fun v hv => a2 v.id (h3a v hv))]; exact h3b
        · rcases List.mem_cons.1 h1 with h1 | h1
          · injection h1 with _ e1; subst e1; simp at hp
          · rcases List.mem_cons.1 h2 with h2 | h2
            · injection h2 with _ e2; subst e2
              have := ((g.ok k1 s1 (hold1 _ _ h1)).2.2.1 hp).1 v hv
              have := a3 w hw
              omega
            · exact g.sep k1 s1 k2 s2 (hold1 _ _ h1) (hold1 _ _ h2) hp v hv w hw
      | none =>
        simp only [Heap.place]
        have ⟨b1, b2, b3, b4⟩ := allocMany_spec outs (s.heap.allocMany (S.ins a)).1
        refine ⟨fun k' sl h => ?_, fun k1 s1 k2 s2 h1 h2 hp v hv w hw => ?_⟩
        · rcases List.mem_cons.1 h with h | h
          · injection h with _ hs
            subst hs
            refine ⟨hF, fun w hw => by have := a3 w hw; rw [b1, a1]; omega,
              fun _ => ⟨fun v hv => by have := b3 v hv; rw [b1]; omega, b4⟩, fun hp => by simp at hp⟩
          · have ⟨h1, h2, h3, h4⟩ := g.ok k' sl (hold1 _ _ h)
            refine ⟨h1, fun w hw => by rw [b1, a1]; have := h2 w hw; omega, fun hp => ?_, h4⟩
            have ⟨h3a, h3b⟩ := h3 hp
            refine ⟨fun v hv => by rw [b1, a1]; have := h3a v hv; omega, ?_⟩
            rw [reads_congr s.heap _ sl.res (fun v hv => by
              rw [b2 v.id (by rw [a1]; have := h3a v hv; omega)]; exact a2 v.id (h3a v hv))]
            exact h3b
        · rcases List.mem_cons.1 h1 with h1 | h1 <;> rcases List.mem_cons.1 h2 with h2 | h2
          · injection h1 with _ e1; injection h2 with _ e2; subst e1; subst e2
            have := b3 v hv; have := a3 w hw; rw [a1] at *; omega
          · injection h1 with _ e1; subst e1
            have := b3 v hv
            have := (g.ok k2 s2 (hold1 _ _ h2)).2.1 w hw
            rw [a1] at *; omega
          · injection h2 with _ e2; subst e2
            have := ((g.ok k1 s1 (hold1 _ _ h1)).2.2.1 hp).1 v hv
            have := a3 w hw
            omega
          · exact g.sep k1 s1 k2 s2 (hold1 _ _ h1) (hold1 _ _ h2) hp v hv w hw

theorem good_foldl {α : Type} (S : Sig α) (ops : List (Op α)) :
    ∀ s, Good S s → Good S (ops.foldl (step .fresh S) s) := by
  induction ops with
  | nil => exact fun _ g => g
  | cons op r ih => exact fun s g => ih _ (good_step S s op g)

theorem good_run {α : Type} (S : Sig α) (ops : List (Op α)) : Good S (run .fresh S ops) :=
  good_foldl S ops _ (good_init S)

/-- a step that does not name slot `k` leaves WHO holds WHAT in slot `k` alone (any discipline) -/
theorem lookup_step {α : Type} (d : Discipline) (S : Sig α) (s : St α) (op : Op α) (k : Nat)
    (hn : op.touches k = false) : (step d S s op).lookup k = s.lookup k := by
  cases op with
  | drop k' =>
    have hne : k' ≠ k := by simpa [Op.touches] using hn
    exact lookupSlot_eraseSlot_ne hne _
  | mutIn k' x =>
    simp only [step]
    cases s.lookup k' with
    | none => rfl
    | some sl0 => rfl
  | hold k' a =>
    have hne : k' ≠ k := by simpa [Op.touches] using hn
    simp only [step]
    cases S.F a with
    | none => exact lookupSlot_eraseSlot_ne hne _
    | some outs =>
      simp only
      cases S.pass a with
      | some t =>
        simp only [St.lookup, lookupSlot, hne, if_false]
        exact lookupSlot_eraseSlot_ne hne _
      | none =>
        simp only [St.lookup, lookupSlot, hne, if_false]
        exact lookupSlot_eraseSlot_ne hne _

theorem lookup_foldl {α : Type} (d : Discipline) (S : Sig α) (k : Nat) (ops : List (Op α))
    (hn : ∀ op ∈ ops, op.touches k = false) :
    ∀ s, (ops.foldl (step d S) s).lookup k = s.lookup k := by
  induction ops with
  | nil => exact fun _ => rfl
  | cons op r ih =>
    intro s
    rw [List.foldl_cons, ih (fun o ho => hn o (List.mem_cons_of_mem _ ho)), lookup_step d S s op k (hn op List.mem_cons_self)]

/-- a Marshal / Unmarshal call writes to no buffer that existed before it (only the caller's own `mutIn` does) -/
theorem buf_step_noMut {α : Type} (S : Sig α) (s : St α) (op : Op α) (id : Nat)
    (hn : op.isMut = false) (hid : id < s.heap.mem.length) :
    (step .fresh S s op).heap.buf id = s.heap.buf id ∧ id < (step .fresh S s op).heap.mem.length := by
  cases op with
  | drop k => exact ⟨rfl, hid⟩
  | mutIn k x => simp [Op.isMut] at hn
  | hold k a =>
    simp only [step]
    have ⟨a1, a2, _, _⟩ := allocMany_spec (S.ins a) s.heap
    cases S.F a with
    | none => exact ⟨a2 id hid, by simp only [a1]; omega⟩
    | some outs =>
      simp only
      cases S.pass a with
      | some t => exact ⟨a2 id hid, by simp only [a1]; omega⟩
      | none =>
        simp only [Heap.place]
        have ⟨b1, b2, _, _⟩ := allocMany_spec outs (s.heap.allocMany (S.ins a)).1
        exact ⟨by rw [b2 id (by rw [a1]; omega)]; exact a2 id hid, by rw [b1, a1]; omega⟩

theorem buf_foldl_noMut {α : Type} (S : Sig α) (ops : List (Op α))
    (hn : ∀ op ∈ ops, op.isMut = false) :
    ∀ (s : St α) (id : Nat), id < s.heap.mem.length → (ops.foldl (step .fresh S) s).heap.buf id = s.heap.buf id := by
  induction ops with
  | nil => exact fun _ _ _ => rfl
  | cons op r ih =>
    intro s id hid
    have ⟨h1, h2⟩ := buf_step_noMut S s op id (hn op List.mem_cons_self) hid
    rw [List.foldl_cons, ih (fun o ho => hn o (List.mem_cons_of_mem _ ho)) _ id h2, h1]

end MarshalHeap
