import Model.Pipe
/-!
# C17 — invariants of the connect pipeline (helper lemmas; the property theorems are in Proofs/C17.lean)
-/
namespace C17Pipe
open Pipe

theorem takeAtt_spec : ∀ (l : List Att) (k : Nat) (a : Att) (l' : List Att), takeAtt l k = some (a, l') →
    l.length = l'.length + 1 ∧ sockSum l = a.sock + sockSum l'
  | [], k, a, l', h => by simp [takeAtt] at h
  | b :: bs, k, a, l', h => by
    simp only [takeAtt] at h
    split at h
    · injection h with h; injection h with h1 h2; subst h1; subst h2; simp [sockSum]
    · split at h
      · rename_i c cs hc
        injection h with h; injection h with h1 h2; subst h1; subst h2
        have := takeAtt_spec bs k c cs hc
        simp [sockSum]; omega
      · simp at h

theorem sock_le_one (a : Att) : a.sock ≤ 1 := by unfold Att.sock; split <;> omega

theorem mkAtts_length : ∀ (n m : Nat), (mkAtts n m).length = m
  | _, 0 => rfl
  | n, m + 1 => by simp [mkAtts, mkAtts_length (n + 1) m]

theorem sockSum_append : ∀ (l m : List Att), sockSum (l ++ m) = sockSum l + sockSum m
  | [], m => by simp [sockSum]
  | a :: l, m => by simp [sockSum, sockSum_append l m]; omega

theorem sockSum_mkAtts : ∀ (n m : Nat), sockSum (mkAtts n m) = 0
  | _, 0 => rfl
  | n, m + 1 => by simp [mkAtts, sockSum, sockSum_mkAtts (n + 1) m, Att.sock]

/-- the per-pool invariant -/
structure PInv (size : Nat) (p : Pool) : Prop where
  bound : p.conns.length + p.att.length + p.rest ≤ size
  idle : p.filling = false → p.att = [] ∧ p.rest = 0
  ghost : p.opened = p.conns.length + sockSum p.att
  closedEmpty : p.closed = true → p.conns = []

theorem pinv_new (size : Nat) : PInv size Pool.new := by
  constructor <;> simp [Pool.new, sockSum]

theorem pinv_startFill (size : Nat) (p : Pool) (n : Nat) (h : PInv size p) (hc1 : p.closed = false)
    (hc2 : p.filling = false) (hc3 : p.conns.length < size) : PInv size (Pool.startFill size p n).1 := by
  obtain ⟨h1, h2, h3, h4⟩ := h
  have ⟨ha, hr⟩ := h2 hc2
  unfold Pool.startFill
  split
  · rename_i h0
    constructor
    · simp [ha, h0]; omega
    · simp
    · simp [ha, h0, sockSum, Att.sock] at h3 ⊢; exact h3
    · intro hcl; simp [hc1] at hcl
  · constructor
    · simp [ha, mkAtts_length]; omega
    · simp
    · simp [ha, sockSum_mkAtts, sockSum] at h3 ⊢; exact h3
    · intro hcl; simp [hc1] at hcl

theorem pinv_fill (size : Nat) (p : Pool) (n : Nat) (h : PInv size p) : PInv size (Pool.fill size p n).1 := by
  unfold Pool.fill
  split
  · exact h
  · rename_i hc
    simp only [Bool.or_eq_true, decide_eq_true_eq, not_or, Bool.not_eq_true, Nat.not_le] at hc
    obtain ⟨⟨hc1, hc2⟩, hc3⟩ := hc
    exact pinv_startFill size p n h hc1 hc2 hc3

theorem startFill_closed (size : Nat) (p : Pool) (n : Nat) : (Pool.startFill size p n).1.closed = p.closed := by
  unfold Pool.startFill; split <;> rfl

theorem pinv_pend (size : Nat) (p : Pool) (k : Nat) (h : PInv size p) : PInv size { p with pend := k } :=
  ⟨h.bound, h.idle, h.ghost, h.closedEmpty⟩

theorem pinv_fillCheck (size : Nat) (p : Pool) (h : PInv size p) :
    PInv size (Pool.fillCheck size p) ∧ (Pool.fillCheck size p).closed = p.closed := by
  unfold Pool.fillCheck
  split
  · exact ⟨h, rfl⟩
  · exact ⟨pinv_pend size p _ h, rfl⟩

theorem fill_closed (size : Nat) (p : Pool) (n : Nat) : (Pool.fill size p n).1.closed = p.closed := by
  unfold Pool.fill
  split
  · rfl
  · exact startFill_closed size p n

theorem pinv_fillGo (size : Nat) (p p' : Pool) (n m : Nat) (h : PInv size p)
    (hs : Pool.fillGo size p n = some (p', m)) : PInv size p' ∧ p'.closed = p.closed := by
  unfold Pool.fillGo at hs
  split at hs
  · simp at hs
  · injection hs with hs
    have h1 := pinv_fill size _ n (pinv_pend size p (p.pend - 1) h)
    have h2 := fill_closed size { p with pend := p.pend - 1 } n
    rw [hs] at h1 h2
    exact ⟨h1, h2⟩

theorem next_ne_dial (c : Cfg) (s s' : Stage) (h : next c s = some s') : s' ≠ .dial := by
  intro hd; subst hd
  cases s <;> simp only [next, afterHs] at h <;> (repeat' split at h) <;> simp at h

theorem next_none_ne_dial (c : Cfg) (s : Stage) (h : next c s = none) : s ≠ .dial := by
  intro hd; subst hd; simp [next] at h

theorem pinv_ok (c : Cfg) (size : Nat) (p p' : Pool) (k n m : Nat) (h : PInv size p)
    (hs : Pool.ok c p k n = some (p', m)) : PInv size p' ∧ p'.closed = p.closed := by
  obtain ⟨h1, h2, h3, h4⟩ := h
  unfold Pool.ok at hs
  split at hs
  · simp at hs
  · rename_i a l ht
    have ⟨tl, ts⟩ := takeAtt_spec _ _ _ _ ht
    have hfill : p.filling = true := by
      cases hf : p.filling with
      | true => rfl
      | false => have := (h2 hf).1; rw [this] at ht; simp [takeAtt] at ht
    have hs1 := sock_le_one a
    split at hs
    · rename_i s' hn
      injection hs with hs; injection hs with hs _; subst hs
      refine ⟨⟨?_, ?_, ?_, h4⟩, rfl⟩
      · simp; omega
      · simp [hfill]
      · have hs' : ({ a with stage := s' } : Att).sock = 1 := by
          unfold Att.sock; simp [next_ne_dial c _ _ hn]
        have hsd : a.sock = 0 ∨ a.sock = 1 := by omega
        simp [sockSum, hs']; omega
    · rename_i hn
      have hsock : a.sock = 1 := by
        unfold Att.sock; simp [next_none_ne_dial c _ hn]
      by_cases hcl : p.closed = true
      · have hc0 := h4 hcl
        simp only [hcl, if_true] at hs
        split at hs
        · injection hs with hs; injection hs with hs _; subst hs
          refine ⟨⟨?_, ?_, ?_, ?_⟩, ?_⟩
          · simp [mkAtts_length]; omega
          · simp [hfill]
          · simp [sockSum_append, sockSum_mkAtts, hc0] at h3 ⊢; omega
          · intro _; exact hc0
          · simp [hcl]
        · injection hs with hs; injection hs with hs _; subst hs
          refine ⟨⟨?_, ?_, ?_, ?_⟩, ?_⟩
          · simp; omega
          · simp [hfill]
          · simp [hc0] at h3 ⊢; omega
          · intro _; exact hc0
          · simp [hcl]
      · have hcl' : p.closed = false := by cases hx : p.closed <;> simp_all
        simp only [hcl', Bool.false_eq_true, if_false] at hs
        split at hs
        · injection hs with hs; injection hs with hs _; subst hs
          refine ⟨⟨?_, ?_, ?_, ?_⟩, ?_⟩
          · simp [mkAtts_length]; omega
          · simp [hfill]
          · simp [sockSum_append, sockSum_mkAtts] at h3 ⊢; omega
          · simp
          · simp [hcl']
        · injection hs with hs; injection hs with hs _; subst hs
          refine ⟨⟨?_, ?_, ?_, ?_⟩, ?_⟩
          · simp; omega
          · simp [hfill]
          · simp at h3 ⊢; omega
          · simp
          · simp [hcl']

theorem pinv_fail (size : Nat) (p p' : Pool) (k : Nat) (h : PInv size p) (hs : Pool.fail p k = some p') :
    PInv size p' ∧ p'.closed = p.closed := by
  obtain ⟨h1, h2, h3, h4⟩ := h
  unfold Pool.fail at hs
  split at hs
  · simp at hs
  · rename_i a l ht
    have ⟨tl, ts⟩ := takeAtt_spec _ _ _ _ ht
    have hfill : p.filling = true := by
      cases hf : p.filling with
      | true => rfl
      | false => have := (h2 hf).1; rw [this] at ht; simp [takeAtt] at ht
    injection hs with hs; subst hs
    refine ⟨⟨?_, ?_, ?_, h4⟩, rfl⟩
    · simp; split <;> omega
    · simp [hfill]
    · simp; omega

theorem pinv_stop (size : Nat) (p p' : Pool) (h : PInv size p) (hs : Pool.stop p = some p') :
    PInv size p' ∧ p'.closed = p.closed := by
  obtain ⟨h1, h2, h3, h4⟩ := h
  unfold Pool.stop at hs
  split at hs
  · rename_i hc
    simp only [Bool.and_eq_true, List.isEmpty_iff] at hc
    injection hs with hs; subst hs
    refine ⟨⟨?_, ?_, ?_, h4⟩, rfl⟩
    · simp; omega
    · intro _; simp [hc.2]
    · simpa using h3
  · simp at hs

theorem pinv_close (size : Nat) (p : Pool) (h : PInv size p) : PInv size p.close ∧ p.close.closed = true := by
  obtain ⟨h1, h2, h3, h4⟩ := h
  unfold Pool.close
  split
  · rename_i hc; exact ⟨⟨h1, h2, h3, h4⟩, hc⟩
  · refine ⟨⟨?_, h2, ?_, ?_⟩, rfl⟩
    · simp; omega
    · simp; omega
    · simp

theorem pinv_connError (size : Nat) (p p' : Pool) (k n m : Nat) (h : PInv size p)
    (hs : Pool.connError size p k n = some (p', m)) : PInv size p' ∧ p'.closed = p.closed := by
  obtain ⟨h1, h2, h3, h4⟩ := h
  unfold Pool.connError at hs
  split at hs
  · rename_i hc
    simp only [Bool.and_eq_true, Bool.not_eq_eq_eq_not, Bool.not_true, List.contains_iff_mem] at hc
    injection hs with hs
    have hmem := hc.2
    have hlen : (p.conns.erase k).length = p.conns.length - 1 := List.length_erase_of_mem hmem
    have hpos : 0 < p.conns.length := List.length_pos_of_mem hmem
    have hq : PInv size { p with conns := p.conns.erase k, opened := p.opened - 1 } := by
      refine ⟨?_, h2, ?_, ?_⟩
      · simp [hlen]; omega
      · simp [hlen]; omega
      · intro hcl; simp [hc.1] at hcl
    have := pinv_fill size _ n hq
    have hcl := fill_closed size { p with conns := p.conns.erase k, opened := p.opened - 1 } n
    rw [hs] at this hcl
    exact ⟨this, hcl⟩
  · simp at hs

/-! ### host level -/

structure HInv (h : Host) : Prop where
  cur : ∀ p, h.cur = some p → PInv h.cfg.size p
  old : ∀ p ∈ h.old, PInv h.cfg.size p ∧ p.closed = true
  sess : h.sessClosed = true → h.cur = none

theorem firstOk_inv (P : Pool → Prop) (f : Pool → Option (Pool × Nat))
    (hf : ∀ p p' n, P p → f p = some (p', n) → P p') :
    ∀ (ps ps' : List Pool) (n : Nat), (∀ p ∈ ps, P p) → firstOk f ps = some (ps', n) → ∀ p ∈ ps', P p
  | [], ps', n, _, h => by simp [firstOk] at h
  | q :: qs, ps', n, hall, h => by
    simp only [firstOk] at h
    split at h
    · rename_i q' m hq
      injection h with h; injection h with h1 _; subst h1
      intro p hp
      rcases List.mem_cons.mp hp with rfl | hp
      · exact hf q _ m (hall q (List.mem_cons_self ..)) hq
      · exact hall p (List.mem_cons_of_mem _ hp)
    · split at h
      · rename_i qs' m hq
        injection h with h; injection h with h1 _; subst h1
        intro p hp
        rcases List.mem_cons.mp hp with rfl | hp
        · exact hall _ (List.mem_cons_self ..)
        · exact firstOk_inv P f hf qs qs' m (fun x hx => hall x (List.mem_cons_of_mem _ hx)) hq p hp
      · simp at h

theorem route_inv (h h' : Host) (f : Pool → Option (Pool × Nat))
    (hf : ∀ p p' n, PInv h.cfg.size p → f p = some (p', n) → PInv h.cfg.size p' ∧ p'.closed = p.closed)
    (hi : HInv h) (hs : h.route f = some h') : HInv h' ∧ h'.cfg = h.cfg := by
  obtain ⟨i1, i2, i3⟩ := hi
  have old_case : ∀ h', h.routeOld f = some h' → HInv h' ∧ h'.cfg = h.cfg := by
    intro h' hs
    unfold Host.routeOld at hs
    split at hs
    · rename_i ps n hfo
      injection hs with hs; subst hs
      refine ⟨⟨i1, ?_, i3⟩, rfl⟩
      exact firstOk_inv (fun p => PInv h.cfg.size p ∧ p.closed = true) f
        (fun p p' n hp hfp => by
          have := hf p p' n hp.1 hfp
          exact ⟨this.1, by rw [this.2]; exact hp.2⟩) h.old ps n i2 hfo
    · simp at hs
  unfold Host.route at hs
  split at hs
  · rename_i p hc
    split at hs
    · rename_i p' n hfp
      injection hs with hs; subst hs
      refine ⟨⟨?_, i2, ?_⟩, rfl⟩
      · intro q hq; simp at hq; subst hq; exact (hf p _ n (i1 p hc) hfp).1
      · intro hsc; have := i3 hsc; simp [hc] at this
    · exact old_case h' hs
  · exact old_case h' hs

theorem fillCur_inv (h : Host) (hi : HInv h) : HInv h.fillCur ∧ h.fillCur.cfg = h.cfg := by
  obtain ⟨i1, i2, i3⟩ := hi
  unfold Host.fillCur
  split
  · rename_i p hc
    refine ⟨⟨?_, i2, ?_⟩, rfl⟩
    · intro q hq; simp at hq; subst hq; exact pinv_fill _ _ _ (i1 p hc)
    · intro hsc; have := i3 hsc; simp [hc] at this
  · exact ⟨⟨i1, i2, i3⟩, rfl⟩

theorem hinv_init (c : Cfg) (hpos : 0 < c.size) : HInv (Host.init c) := by
  refine ⟨?_, ?_, ?_⟩
  · intro p hp
    simp [Host.init] at hp; subst hp
    constructor <;> simp [mkAtts_length, sockSum_mkAtts, Host.init]
    omega
  · intro p hp; simp [Host.init] at hp
  · intro hs; simp [Host.init] at hs

theorem hinv_step (h h' : Host) (a : Act) (hi : HInv h) (hs : h.step a = some h') : HInv h' ∧ h'.cfg = h.cfg := by
  cases a with
  | ok k =>
    exact route_inv h h' _ (fun p p' n hp hfp => pinv_ok h.cfg _ p p' k h.nextId n hp hfp) hi hs
  | fail k =>
    refine route_inv h h' _ (fun p p' n hp hfp => ?_) hi hs
    simp only [Option.map_eq_some_iff] at hfp
    obtain ⟨q, hq, he⟩ := hfp
    injection he with he _; subst he
    exact pinv_fail _ p q k hp hq
  | stop =>
    refine route_inv h h' _ (fun p p' n hp hfp => ?_) hi hs
    simp only [Option.map_eq_some_iff] at hfp
    obtain ⟨q, hq, he⟩ := hfp
    injection he with he _; subst he
    exact pinv_stop _ p q hp hq
  | err k =>
    exact route_inv h h' _ (fun p p' n hp hfp => pinv_connError _ p p' k h.nextId n hp hfp) hi hs
  | fillCheck =>
    simp only [Host.step] at hs
    split at hs
    · rename_i p hc
      injection hs with hs; subst hs
      refine ⟨⟨?_, hi.old, ?_⟩, rfl⟩
      · intro q hq; simp at hq; subst hq; exact (pinv_fillCheck _ p (hi.cur p hc)).1
      · intro hsc; have := hi.sess hsc; simp [hc] at this
    · injection hs with hs; subst hs; exact ⟨hi, rfl⟩
  | fillGo =>
    exact route_inv h h' _ (fun p p' n hp hfp => pinv_fillGo _ p p' h.nextId n hp hfp) hi hs
  | pick =>
    simp only [Host.step] at hs; injection hs with hs; subst hs
    exact fillCur_inv h hi
  | up =>
    simp only [Host.step] at hs
    split at hs
    · injection hs with hs; subst hs; exact ⟨hi, rfl⟩
    · rename_i hns
      split at hs
      · injection hs with hs; subst hs; exact fillCur_inv _ hi
      · rename_i hc
        injection hs with hs; subst hs
        have hi2 : HInv { h with cur := some Pool.new } := by
          refine ⟨?_, hi.old, ?_⟩
          · intro q hq; simp at hq; subst hq; exact pinv_new _
          · intro hsc; exact absurd hsc hns
        exact fillCur_inv _ hi2
  | down =>
    simp only [Host.step] at hs
    split at hs
    · rename_i p hc
      injection hs with hs; subst hs
      refine ⟨⟨?_, ?_, ?_⟩, rfl⟩
      · intro q hq; simp at hq
      · intro q hq
        rcases List.mem_cons.mp hq with rfl | hq
        · exact pinv_close _ p (hi.cur p hc)
        · exact hi.old q hq
      · intro _; rfl
    · injection hs with hs; subst hs; exact ⟨hi, rfl⟩
  | pclose =>
    simp only [Host.step] at hs
    split at hs
    · rename_i p hc
      injection hs with hs; subst hs
      refine ⟨⟨?_, hi.old, ?_⟩, rfl⟩
      · intro q hq; simp at hq; subst hq; exact (pinv_close _ p (hi.cur p hc)).1
      · intro hsc; have := hi.sess hsc; simp [hc] at this
    · injection hs with hs; subst hs; exact ⟨hi, rfl⟩
  | sclose =>
    simp only [Host.step] at hs
    split at hs
    · rename_i p hc
      injection hs with hs; subst hs
      refine ⟨⟨?_, ?_, ?_⟩, rfl⟩
      · intro q hq; simp at hq
      · intro q hq
        rcases List.mem_cons.mp hq with rfl | hq
        · exact pinv_close _ p (hi.cur p hc)
        · exact hi.old q hq
      · intro _; rfl
    · rename_i hc
      injection hs with hs; subst hs
      exact ⟨⟨by intro q hq; simp [hc] at hq, hi.old, fun _ => hc⟩, rfl⟩
  | scancel =>
    simp only [Host.step] at hs
    split at hs
    · injection hs with hs; subst hs; exact ⟨⟨hi.cur, hi.old, hi.sess⟩, rfl⟩
    · simp at hs

theorem hinv_run : ∀ (as : List Act) (h h' : Host), HInv h → h.run as = some h' → HInv h' ∧ h'.cfg = h.cfg
  | [], h, h', hi, hr => by simp [Host.run] at hr; subst hr; exact ⟨hi, rfl⟩
  | a :: as, h, h', hi, hr => by
    simp only [Host.run] at hr
    split at hr
    · rename_i h1 hs1
      have ⟨i1, c1⟩ := hinv_step h h1 a hi hs1
      have ⟨i2, c2⟩ := hinv_run as h1 h' i1 hr
      exact ⟨i2, c2.trans c1⟩
    · simp at hr

theorem mem_pools (h : Host) (p : Pool) (hp : p ∈ h.pools) : h.cur = some p ∨ p ∈ h.old := by
  unfold Host.pools at hp
  rcases List.mem_append.mp hp with hp | hp
  · left; split at hp <;> simp_all
  · right; exact hp

theorem sum_zero_of_all_zero : ∀ (l : List Nat), (∀ x ∈ l, x = 0) → l.sum = 0
  | [], _ => rfl
  | x :: xs, h => by
    simp [h x (List.mem_cons_self ..), sum_zero_of_all_zero xs (fun y hy => h y (List.mem_cons_of_mem _ hy))]

end C17Pipe
