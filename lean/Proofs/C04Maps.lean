/- C04 helper lemmas: the cells of well-formed rows through Iter.MapScan / Iter.SliceMap -/
import Proofs.C04Rows
import Model.RowDataSpec
namespace C04
open FrameRead RespSpec Rows

/-! ## the recorder calls of a row go to consecutive destinations -/

theorem tupleCalls_dest (i : Nat) (es : List TypeInfo) (fs : List (Option FrameRead.Bytes)) :
    (tupleCalls i es fs).map (·.dest) = List.range' i es.length := by
  induction es generalizing i fs with
  | nil => simp [tupleCalls]
  | cons e es ih =>
    cases fs with
    | nil => simp [tupleCalls, ih, List.range'_succ]
    | cons f fs => simp [tupleCalls, ih, List.range'_succ]

theorem cellCalls_dest (i : Nat) (t : TypeDesc) (c : Cell) :
    (cellCalls i t c).map (·.dest) = List.range' i (destWidth t) := by
  cases t <;> cases c <;> simp [cellCalls, destWidth, tupleCalls_dest, viewTypes_length, List.range'_succ]

theorem rowCalls_dest (i : Nat) (tcs : List (TypeDesc × Cell)) :
    (rowCalls i tcs).map (·.dest) = List.range' i (totalWidth (tcs.map (·.1))) := by
  induction tcs generalizing i with
  | nil => simp [rowCalls, totalWidth]
  | cons tc tcs ih =>
    obtain ⟨t, c⟩ := tc
    simp only [rowCalls, List.map_append, cellCalls_dest, ih, totalWidth, List.map_cons, List.sum_cons]
    rw [List.range'_append_1]

theorem rowCalls_length (i : Nat) (tcs : List (TypeDesc × Cell)) :
    (rowCalls i tcs).length = totalWidth (tcs.map (·.1)) := by
  have := congrArg List.length (rowCalls_dest i tcs)
  simpa using this

/-! ## storedAt: what destination j holds after the calls -/

theorem storedAt_fold (cs : List Call) (i j : Nat) (acc : Option (Option FrameRead.Bytes))
    (h : cs.map (·.dest) = List.range' i cs.length) :
    cs.foldl (fun acc c => if c.dest == j then some c.data else acc) acc
      = if i ≤ j ∧ j < i + cs.length then (cs[j - i]?).map (·.data) else acc := by
  induction cs generalizing i acc with
  | nil =>
    simp only [List.foldl_nil, List.length_nil, Nat.add_zero]
    have : ¬ (i ≤ j ∧ j < i) := by omega
    rw [if_neg this]
  | cons c rest ih =>
    simp only [List.map_cons, List.length_cons, List.range'_succ, List.cons.injEq] at h
    obtain ⟨hd, hrest⟩ := h
    simp only [List.foldl_cons, List.length_cons]
    rw [ih (i + 1) _ hrest]
    by_cases hji : j = i
    · subst hji
      have : ¬ (j + 1 ≤ j ∧ j < j + 1 + rest.length) := by omega
      simp [this, hd]
    · by_cases hin : i + 1 ≤ j ∧ j < i + 1 + rest.length
      · have h2 : i ≤ j ∧ j < i + (rest.length + 1) := by omega
        have h3 : j - i = (j - (i + 1)) + 1 := by omega
        simp [hin, h2, h3]
      · have h2 : ¬ (i ≤ j ∧ j < i + (rest.length + 1)) := by omega
        have hne : (c.dest == j) = false := by rw [hd]; simp; omega
        simp [hin, h2, hne]

theorem storedAt_consecutive (cs : List Call) (h : cs.map (·.dest) = List.range' 0 cs.length) (j : Nat) :
    storedAt cs j = (cs[j]?).map (·.data) := by
  unfold storedAt
  rw [storedAt_fold cs 0 j none h]
  by_cases hj : j < cs.length
  · simp [hj]
  · have : cs[j]? = none := by simp; omega
    simp [hj, this]

/-- after the calls of a row, destination j holds the data of the j-th call -/
theorem stored_row (tcs : List (TypeDesc × Cell)) :
    (List.range (totalWidth (tcs.map (·.1)))).map (fun j => (storedAt (rowCalls 0 tcs) j).getD none)
      = (rowCalls 0 tcs).map (·.data) := by
  have hl := rowCalls_length 0 tcs
  have hd := rowCalls_dest 0 tcs
  rw [← hl] at hd
  apply List.ext_getElem?
  intro j
  by_cases hj : j < (rowCalls 0 tcs).length
  · have := storedAt_consecutive (rowCalls 0 tcs) hd j
    have hj' : j < totalWidth (tcs.map (·.1)) := by rw [← hl]; exact hj
    simp [hj', hj, this]
  · have h1 : ¬ j < totalWidth (tcs.map (·.1)) := by rw [← hl]; exact hj
    simp [h1, hj]

/-! ## RowData column names -/

/-- the names Iter.RowData gives to the destinations (when every NewWithError succeeds) -/
theorem rowDataColumns_length (cols : List ColumnInfo) (ts : List TypeDesc) (names : List FrameRead.Bytes)
    (hm : colsMatch cols ts) (h : rowDataColumns cols = .ok names) : names.length = totalWidth ts := by
  induction cols generalizing ts names with
  | nil =>
    cases ts with
    | nil => simp [rowDataColumns] at h; simp [← h, totalWidth]
    | cons t ts => simp [colsMatch] at hm
  | cons col cols ih =>
    cases ts with
    | nil => simp [colsMatch] at hm
    | cons t ts =>
      have hm' : col.typ = viewType t ∧ colsMatch cols ts := by simpa [colsMatch] using hm
      simp only [rowDataColumns, rowDataCol] at h
      cases hrest : rowDataColumns cols with
      | err => rw [hrest] at h; split at h <;> simp at h
      | crash => rw [hrest] at h; split at h <;> simp at h
      | ok rest =>
        rw [hrest] at h
        have ihl := ih ts rest hm'.2 hrest
        cases t with
        | tuple es =>
          simp only [hm'.1, viewType] at h
          split at h
          · rename_i names0 hh
            split at hh
            · simp only [Outcome.ok.injEq] at hh h
              subst hh; subst h
              simp [ihl, totalWidth, destWidth, viewTypes_length]
            · simp at hh
            · simp at hh
          · simp at h
          · simp at h
        | native id =>
          simp only [hm'.1, viewType] at h
          split at h
          · rename_i names0 hh
            split at hh
            · simp only [Outcome.ok.injEq] at hh h
              subst hh; subst h
              simp [ihl, totalWidth, destWidth]; omega
            · simp at hh
            · simp at hh
          · simp at h
          · simp at h
        | custom cls =>
          simp only [hm'.1, viewType] at h
          split at h
          · rename_i names0 hh
            split at hh
            · simp only [Outcome.ok.injEq] at hh h
              subst hh; subst h
              simp [ihl, totalWidth, destWidth]; omega
            · simp at hh
            · simp at hh
          · simp at h
          · simp at h
        | list e =>
          simp only [hm'.1, viewType] at h
          split at h
          · rename_i names0 hh
            split at hh
            · simp only [Outcome.ok.injEq] at hh h
              subst hh; subst h
              simp [ihl, totalWidth, destWidth]; omega
            · simp at hh
            · simp at hh
          · simp at h
          · simp at h
        | set e =>
          simp only [hm'.1, viewType] at h
          split at h
          · rename_i names0 hh
            split at hh
            · simp only [Outcome.ok.injEq] at hh h
              subst hh; subst h
              simp [ihl, totalWidth, destWidth]; omega
            · simp at hh
            · simp at hh
          · simp at h
          · simp at h
        | map a b =>
          simp only [hm'.1, viewType] at h
          split at h
          · rename_i names0 hh
            split at hh
            · simp only [Outcome.ok.injEq] at hh h
              subst hh; subst h
              simp [ihl, totalWidth, destWidth]; omega
            · simp at hh
            · simp at hh
          · simp at h
          · simp at h
        | udt ks n fs =>
          simp only [hm'.1, viewType] at h
          split at h
          · rename_i names0 hh
            split at hh
            · simp only [Outcome.ok.injEq] at hh h
              subst hh; subst h
              simp [ihl, totalWidth, destWidth]; omega
            · simp at hh
            · simp at hh
          · simp at h
          · simp at h

/-! ## goType on the driver's view of a well-formed type: an answer or an error, never a panic -/

theorem goList_iff (id : Nat) :
    [0x0D, 0x01, 0x10, 0x0A, 0x02, 0x05, 0x12, 0x0B, 0x03, 0x04, 0x08, 0x07, 0x09, 0x13, 0x14,
      0x06, 0x0C, 0x0F, 0x0E, 0x11, 0x15, 0x30].contains id = true ↔ (1 ≤ id ∧ id ≤ 0x15) ∨ id = 0x30 := by
  simp only [List.contains_cons, List.contains_nil, Bool.or_false, Bool.or_eq_true, beq_iff_eq]
  omega

/-- `ok` / `err` -/
def goOf : Bool → GoT
  | true => .ok
  | false => .err

/-- goType of a NativeType whose id is none of list / map / set / tuple / UDT -/
theorem goType_native (n : Native) (h1 : n.typ ≠ 0x20) (h2 : n.typ ≠ 0x21) (h3 : n.typ ≠ 0x22)
    (h4 : n.typ ≠ 0x31) (h5 : n.typ ≠ 0x30) :
    goType (.native n) = goOf (goNative n.typ) := by
  unfold goType
  cases hg : goNative n.typ with
  | true =>
    have : (1 ≤ n.typ ∧ n.typ ≤ 0x15) := by simpa [goNative] using hg
    rw [if_pos ((goList_iff n.typ).mpr (Or.inl this))]
    rfl
  | false =>
    have hg' : ¬ (1 ≤ n.typ ∧ n.typ ≤ 0x15) := by
      intro h
      have : goNative n.typ = true := by simpa [goNative] using h
      rw [hg] at this
      cases this
    have hl : ¬ ([0x0D, 0x01, 0x10, 0x0A, 0x02, 0x05, 0x12, 0x0B, 0x03, 0x04, 0x08, 0x07, 0x09, 0x13, 0x14,
      0x06, 0x0C, 0x0F, 0x0E, 0x11, 0x15, 0x30].contains n.typ = true) := by
      rw [goList_iff]; intro h; rcases h with h | h
      · exact hg' h
      · exact h5 h
    have hc : ¬ ([typeList, typeMap, typeSet, typeTuple].contains n.typ = true) := by
      simp [typeList, typeMap, typeSet, typeTuple, h1, h2, h3, h4]
    rw [if_neg hl, if_neg hc]
    rfl

theorem comparable_view (t : TypeDesc) : comparableGo (viewType t) = comparableKey t := by
  cases t <;> simp [viewType, comparableGo, comparableKey]

/-- KF-C04-4 repaired: for every well-formed type descriptor (any nesting) goType on the driver's
    view answers `ok` exactly when the specification says the type has a Go type, and `err`
    otherwise — in particular for a map whose key type is not comparable in Go; it never panics -/
theorem goType_view : ∀ (t : TypeDesc), wfType t = true → goType (viewType t) = goOf (hasGoType t)
  | .native id, hw => by
    obtain ⟨_, _, h2, h3, h4, h5, h6⟩ := ids_of_native id (by simpa [wfType] using hw)
    have := goType_native { typ := id, custom := [] } h2 h3 h4 h6 h5
    simpa only [viewType, hasGoType] using this
  | .custom cls, _ => by
    obtain ⟨h4, h3, h5, h1, hu⟩ := customType_ne cls
    have := goType_native { typ := customType cls, custom := cls } h4 h3 h5 h1 hu
    simpa only [viewType, hasGoType] using this
  | .list e, hw => by
    have ih := goType_view e (by simpa [wfType] using hw)
    have hne : ((0x20 : Nat) == typeMap) = false := by decide
    simp only [viewType, goType, hasGoType, hne, Bool.false_eq_true, if_false, ih]
  | .set e, hw => by
    have ih := goType_view e (by simpa [wfType] using hw)
    have hne : ((0x22 : Nat) == typeMap) = false := by decide
    simp only [viewType, goType, hasGoType, hne, Bool.false_eq_true, if_false, ih]
  | .map k v, hw => by
    have hw' : wfType k = true ∧ wfType v = true := by simpa [wfType] using hw
    have ihk := goType_view k hw'.1
    have ihv := goType_view v hw'.2
    have heq : ((0x21 : Nat) == typeMap) = true := by decide
    simp only [viewType, goType, hasGoType, heq, if_true, ihk, ihv, comparable_view]
    cases hk : hasGoType k <;> cases hv : hasGoType v <;> cases hc : comparableKey k <;> simp [goOf]
  | .udt _ _ _, _ => by simp [viewType, goType, hasGoType, goOf]
  | .tuple _, _ => by simp [viewType, goType, hasGoType, goOf]

theorem goTypeAll_view : ∀ (es : TypeDescs), wfTypes es = true →
    goTypeAll (viewTypes es) = goOf (es.toList.all hasGoType)
  | .nil, _ => by simp [viewTypes, goTypeAll, TypeDescs.toList, goOf]
  | .cons t r, hw => by
    have hw' : wfType t = true ∧ wfTypes r = true := by simpa [wfTypes] using hw
    have ih := goTypeAll_view r hw'.2
    simp only [viewTypes, goTypeAll, goType_view t hw'.1, ih, TypeDescs.toList, List.all_cons]
    cases ht : hasGoType t <;> cases hr : r.toList.all hasGoType <;> simp [goOf]

/-- ok with the names / err -/
def namesOf (ok : Bool) (names : List FrameRead.Bytes) : Outcome (List FrameRead.Bytes) :=
  match ok with
  | true => .ok names
  | false => .err

/-- the contribution of one column to Iter.RowData -/
theorem rowData_here (col : ColumnInfo) (name : FrameRead.Bytes) (t : TypeDesc) (hn : col.name = name)
    (ht : col.typ = viewType t) (hw : wfType t = true) :
    rowDataCol col = namesOf (colHasGoType t) (colNames name t) := by
  unfold rowDataCol
  rw [hn, ht]
  have hgo := goType_view t hw
  cases t with
  | tuple es =>
    have hw2 : isShort es.length = true ∧ wfTypes es = true := by simpa [wfType] using hw
    have hall := goTypeAll_view es hw2.2
    simp only [viewType, hall, colHasGoType, colNames, viewTypes_length]
    cases h : es.toList.all hasGoType <;> simp [goOf, namesOf]
  | native id =>
    simp only [viewType] at hgo
    simp only [viewType, hgo, colHasGoType, colNames]
    cases h : hasGoType (.native id) <;> simp [goOf, namesOf]
  | custom cls =>
    simp only [viewType] at hgo
    simp only [viewType, hgo, colHasGoType, colNames]
    cases h : hasGoType (.custom cls) <;> simp [goOf, namesOf]
  | list e =>
    simp only [viewType] at hgo
    simp only [viewType, hgo, colHasGoType, colNames]
    cases h : hasGoType (.list e) <;> simp [goOf, namesOf]
  | set e =>
    simp only [viewType] at hgo
    simp only [viewType, hgo, colHasGoType, colNames]
    cases h : hasGoType (.set e) <;> simp [goOf, namesOf]
  | map a b =>
    simp only [viewType] at hgo
    simp only [viewType, hgo, colHasGoType, colNames]
    cases h : hasGoType (.map a b) <;> simp [goOf, namesOf]
  | udt ks n fs =>
    simp only [viewType] at hgo
    simp only [viewType, hgo, colHasGoType, colNames]
    cases h : hasGoType (.udt ks n fs) <;> simp [goOf, namesOf]

/-- Iter.RowData's names for columns named `nts` (name, type): the specification's names when every
    column has Go destinations, an error otherwise; never a panic -/
theorem rowDataColumns_named (cols : List ColumnInfo) (nts : List (FrameRead.Bytes × TypeDesc))
    (hc : cols.map (fun c => (c.name, c.typ)) = nts.map (fun nt => (nt.1, viewType nt.2)))
    (hw : ∀ nt ∈ nts, wfType nt.2 = true) :
    rowDataColumns cols =
      namesOf (nts.all (fun nt => colHasGoType nt.2)) (nts.flatMap (fun nt => colNames nt.1 nt.2)) := by
  induction nts generalizing cols with
  | nil =>
    have : cols = [] := by simpa using hc
    subst this
    simp [rowDataColumns, namesOf]
  | cons nt nts ih =>
    obtain ⟨name, t⟩ := nt
    cases cols with
    | nil => simp at hc
    | cons col cols =>
      have hc' : (col.name = name ∧ col.typ = viewType t) ∧
          cols.map (fun c => (c.name, c.typ)) = nts.map (fun nt => (nt.1, viewType nt.2)) := by
        simpa using hc
      have hwt : wfType t = true := hw (name, t) (by simp)
      have ih' := ih cols hc'.2 (fun nt h => hw nt (by simp [h]))
      have hh := rowData_here col name t hc'.1.1 hc'.1.2 hwt
      simp only [rowDataColumns, ih', hh, List.all_cons, List.flatMap_cons]
      cases h1 : colHasGoType t <;> cases h2 : nts.all (fun nt => colHasGoType nt.2) <;> simp [namesOf]

theorem namedCols_view (c : Cols) :
    (viewCols c).map (fun c => (c.name, c.typ)) = (namedCols c).map (fun nt => (nt.1, viewType nt.2)) := by
  cases c <;> simp [viewCols, namedCols, List.map_map, Function.comp_def]

theorem namedCols_wf (c : Cols) (hw : wfCols c = true) : ∀ nt ∈ namedCols c, wfType nt.2 = true := by
  cases c with
  | omitted n g => simp [namedCols]
  | global ks tb cs =>
    have h : ((fitsShort ks = true ∧ fitsShort tb = true) ∧ cs.length < 2147483648) ∧
        ∀ c ∈ cs, fitsShort c.1 = true ∧ wfType c.2 = true := by
      simpa [wfCols] using hw
    intro nt hnt
    exact (h.2 nt (by simpa [namedCols] using hnt)).2
  | perCol cs =>
    have h : cs.length < 2147483648 ∧
        ∀ c ∈ cs, ((fitsShort c.ks = true ∧ fitsShort c.table = true) ∧ fitsShort c.name = true) ∧ wfType c.typ = true := by
      simpa [wfCols] using hw
    intro nt hnt
    obtain ⟨c, hc, rfl⟩ : ∃ c ∈ cs, (c.name, c.typ) = nt := by simpa [namedCols] using hnt
    exact (h.2 c hc).2

/-- RowData on the driver's view of well-formed column specifications is what the specification says -/
theorem rowDataColumns_view (c : Cols) (hw : wfCols c = true) :
    rowDataColumns (viewCols c) = match rowDataSpec c with | some names => .ok names | none => .err := by
  rw [rowDataColumns_named (viewCols c) (namedCols c) (namedCols_view c) (namedCols_wf c hw)]
  unfold rowDataSpec
  cases h : (namedCols c).all (fun nt => colHasGoType nt.2) <;> simp [namesOf]

/-! ## MapScan / SliceMap -/

/-- every column of a well-formed row occupies at least one destination -/
theorem totalWidth_ge (tcs : List (TypeDesc × Cell)) (hw : wfRow tcs = true) :
    tcs.length ≤ totalWidth (tcs.map (·.1)) := by
  induction tcs with
  | nil => simp [totalWidth]
  | cons tc tcs ih =>
    obtain ⟨t, c⟩ := tc
    have hw' : (wfCell t c = true ∧ wfType t = true) ∧ wfRow tcs = true := by simpa [wfRow] using hw
    have h1 : 1 ≤ destWidth t := by
      cases t <;> simp [destWidth]
      cases c <;> simp_all [wfCell]
    have := ih hw'.2
    simp only [totalWidth, List.map_cons, List.sum_cons, List.length_cons] at this ⊢
    omega

/-- no Go type for some column: RowData's error is dropped, MapScan scans into no destinations
    and fails with "not enough columns to scan into" (it does not panic) -/
theorem mapScan_noGo (it : Iter) (hf : it.failed = false) (hp : it.pos < it.numRows)
    (hn : rowDataColumns it.md.columns = .err) (ha : it.md.actualColCount ≠ 0) :
    mapScan it = .stop { it with failed := true } := by
  unfold mapScan
  have h2 : ¬ it.pos ≥ it.numRows := by omega
  have h3 : ¬ ((0 : Int) = it.md.actualColCount) := fun h => ha h.symm
  simp [hf, rowDataNames, hn, scan, h2, h3]

theorem sliceMap_noGo (it : Iter) (hf : it.failed = false) (hp : it.pos < it.numRows)
    (hn : rowDataColumns it.md.columns = .err) (ha : it.md.actualColCount ≠ 0) :
    sliceMap it = .error { it with failed := true } := by
  unfold sliceMap
  have h2 : ¬ it.pos ≥ it.numRows := by omega
  have h3 : ¬ ((0 : Int) = it.md.actualColCount) := fun h => ha h.symm
  simp [hf, sliceMapRows, rowDataNames, hn, scan, h2, h3]

/-- ... and on a page without rows they end normally -/
theorem mapScan_noGo_empty (it : Iter) (hf : it.failed = false) (hp : it.pos = it.numRows)
    (hn : rowDataColumns it.md.columns = .err) : mapScan it = .stop it := by
  unfold mapScan
  simp [hf, rowDataNames, hn, scan, hp]

theorem sliceMap_noGo_empty (it : Iter) (hf : it.failed = false) (hp : it.pos = it.numRows)
    (hn : rowDataColumns it.md.columns = .err) : sliceMap it = .rows [] it := by
  unfold sliceMap
  simp [hf, sliceMapRows, rowDataNames, hn, scan, hp]

theorem range_map_pair {β : Type} (names : List FrameRead.Bytes) (f : Nat → β) :
    (List.range names.length).map (fun j => (names.getD j [], f j)) = names.zip ((List.range names.length).map f) := by
  induction names generalizing f with
  | nil => simp
  | cons n ns ih =>
    have := ih (fun j => f (j + 1))
    simp only [List.length_cons, List.range_succ_eq_map, List.map_cons, List.map_map, List.zip_cons_cons]
    congr 1

theorem map_true_replicate {α : Type} (l : List α) : l.map (fun _ => true) = List.replicate l.length true := by
  induction l with
  | nil => rfl
  | cons a l ih => simp [List.replicate_succ, ih]

theorem zip_keys (names : List FrameRead.Bytes) {β : Type} (ds : List β) (h : ds.length = names.length) :
    (names.zip ds).map (·.1) = names := by
  exact List.map_fst_zip (by omega)

/-- one MapScan with a recorder under every RowData column name: the map entry of a name is the
    data of the destination that carries the name -/
theorem mapScan_row (it : Iter) (tcs : List (TypeDesc × Cell)) (rest : FrameRead.Bytes) (names : List FrameRead.Bytes)
    (hf : it.failed = false) (hp : it.pos < it.numRows)
    (hm : colsMatch it.md.columns (tcs.map (·.1))) (hw : wfRow tcs = true)
    (hnames : rowDataColumns it.md.columns = .ok names) (hd : names.Nodup)
    (ha : it.md.actualColCount = (totalWidth (tcs.map (·.1)) : Int))
    (hb : it.buf = eRow (tcs.map (·.2)) ++ rest) :
    mapScan it = .row { it with pos := it.pos + 1, buf := rest } (names.zip ((rowCalls 0 tcs).map (·.data))) := by
  have hlen := rowDataColumns_length it.md.columns (tcs.map (·.1)) names hm hnames
  have hrep : names.map (fun _ => true) = List.replicate (totalWidth (tcs.map (·.1))) true := by
    rw [← hlen]; exact map_true_replicate names
  have hmap : mapOfList ((List.range names.length).map (fun j => (names.getD j [], (storedAt (rowCalls 0 tcs) j).getD none)))
      = names.zip ((rowCalls 0 tcs).map (·.data)) := by
    rw [range_map_pair names, hlen, stored_row tcs, mapOfList_nodup]
    rw [zip_keys names _ (by rw [List.length_map, rowCalls_length, hlen])]
    exact hd
  unfold mapScan
  simp only [hf, Bool.false_eq_true, if_false, rowDataNames, hnames, hrep]
  rw [scan_row it tcs rest _ hf hp hm hw rfl ha hb]
  simp only
  rw [hmap, hf]

/-- the whole SliceMap: one map per row; values are the cells (null reads as empty) -/
theorem sliceMapRows_ok (rows : List (List (TypeDesc × Cell))) (ts : List TypeDesc) (it : Iter) (names : List FrameRead.Bytes)
    (acc : List (List (FrameRead.Bytes × FrameRead.Bytes))) (rest : FrameRead.Bytes)
    (hf : it.failed = false) (hn : it.pos + rows.length = it.numRows)
    (hm : colsMatch it.md.columns ts) (hts : ∀ row ∈ rows, row.map (·.1) = ts)
    (hw : ∀ row ∈ rows, wfRow row = true)
    (hnames : rowDataColumns it.md.columns = .ok names) (hd : names.Nodup)
    (ha : it.md.actualColCount = (totalWidth ts : Int))
    (hb : it.buf = eRows (rows.map (fun row => row.map (·.2))) ++ rest) :
    sliceMapRows (rows.length + 1) it acc
      = .rows (acc ++ rows.map (fun row => names.zip ((rowCalls 0 row).map (fun c => c.data.getD []))))
          { it with pos := it.numRows, buf := rest } := by
  have hlen := rowDataColumns_length it.md.columns ts names hm hnames
  have hrep : names.map (fun _ => true) = List.replicate (totalWidth ts) true := by
    rw [← hlen]; exact map_true_replicate names
  induction rows generalizing it acc with
  | nil =>
    have hpos : it.pos = it.numRows := by simpa using hn
    have hb' : it.buf = rest := by simpa [eRows] using hb
    simp only [List.length_nil, Nat.zero_add]
    rw [sliceMapRows]
    simp only [rowDataNames, hnames, hrep]
    rw [scan_end it _ hf hpos]
    cases it
    simp_all
  | cons row rows ih =>
    have hrow := hts row (by simp)
    have hb' : it.buf = eRow (row.map (·.2)) ++ (eRows (rows.map (fun row => row.map (·.2))) ++ rest) := by
      simpa [eRows, eRow] using hb
    have hp : it.pos < it.numRows := by simp at hn; omega
    simp only [List.length_cons]
    rw [sliceMapRows]
    simp only [rowDataNames, hnames, hrep]
    rw [scan_row it row _ _ hf hp (by rw [hrow]; exact hm) (hw row (by simp)) (by rw [hrow]) ha hb']
    have hmap : mapOfList ((List.range names.length).map (fun j => (names.getD j [], ((storedAt (rowCalls 0 row) j).getD none).getD [])))
        = names.zip ((rowCalls 0 row).map (fun c => c.data.getD [])) := by
      rw [range_map_pair names (fun j => ((storedAt (rowCalls 0 row) j).getD none).getD [])]
      have h1 : (List.range names.length).map (fun j => ((storedAt (rowCalls 0 row) j).getD none).getD [])
          = ((List.range (totalWidth (row.map (·.1)))).map (fun j => (storedAt (rowCalls 0 row) j).getD none)).map (fun d => d.getD []) := by
        rw [hrow, hlen]; simp
      rw [h1, stored_row row, List.map_map]
      rw [mapOfList_nodup]
      · rfl
      · rw [zip_keys names _ (by rw [List.length_map, rowCalls_length, hrow, hlen])]
        exact hd
    simp only [hmap]
    have := ih { it with pos := it.pos + 1, buf := eRows (rows.map (fun row => row.map (·.2))) ++ rest }
      (acc ++ [names.zip ((rowCalls 0 row).map (fun c => c.data.getD []))])
      hf (by simp at hn ⊢; omega) hm (fun r hr => hts r (by simp [hr])) (fun r hr => hw r (by simp [hr])) hnames ha rfl
    simp only at this
    simp only [this]
    simp

end C04
