/- C04 helper lemmas: the cells of well-formed rows through Iter.MapScan / Iter.SliceMap -/
import Proofs.C04Rows
namespace C04
open FrameRead RespSpec Rows

/-! ## the recorder calls of a row go to consecutive destinations -/

theorem tupleCalls_dest (i : Nat) (es : List TypeInfo) (fs : List (Option FrameRead.Bytes)) :
    (tupleCalls i es fs).map (·.dest) = List.range' i es.length := by
  induction es generalizing i fs with
  | nil => simp [tupleCalls]
  | cons e es ih =>
    cases fs with
    | nil => simp [tupleCalls, ih, List.range'_succ]
    | cons f fs => simp [tupleCalls, ih, List.range'_succ]

theorem cellCalls_dest (i : Nat) (t : TypeDesc) (c : Cell) :
    (cellCalls i t c).map (·.dest) = List.range' i (destWidth t) := by
  cases t <;> cases c <;> simp [cellCalls, destWidth, tupleCalls_dest, viewTypes_length, List.range'_succ]

theorem rowCalls_dest (i : Nat) (tcs : List (TypeDesc × Cell)) :
    (rowCalls i tcs).map (·.dest) = List.range' i (totalWidth (tcs.map (·.1))) := by
  induction tcs generalizing i with
  | nil => simp [rowCalls, totalWidth]
  | cons tc tcs ih =>
    obtain ⟨t, c⟩ := tc
    simp only [rowCalls, List.map_append, cellCalls_dest, ih, totalWidth, List.map_cons, List.sum_cons]
    rw [List.range'_append_1]

theorem rowCalls_length (i : Nat) (tcs : List (TypeDesc × Cell)) :
    (rowCalls i tcs).length = totalWidth (tcs.map (·.1)) := by
  have := congrArg List.length (rowCalls_dest i tcs)
  simpa using this

/-! ## storedAt: what destination j holds after the calls -/

theorem storedAt_fold (cs : List Call) (i j : Nat) (acc : Option (Option FrameRead.Bytes))
    (h : cs.map (·.dest) = List.range' i cs.length) :
    cs.foldl (fun acc c => if c.dest == j then some c.data else acc) acc
      = if i ≤ j ∧ j < i + cs.length then (cs[j - i]?).map (·.data) else acc := by
  induction cs generalizing i acc with
  | nil =>
    simp only [List.foldl_nil, List.length_nil, Nat.add_zero]
    have : ¬ (i ≤ j ∧ j < i) := by omega
    rw [if_neg this]
  | cons c rest ih =>
    simp only [List.map_cons, List.length_cons, List.range'_succ, List.cons.injEq] at h
    obtain ⟨hd, hrest⟩ := h
    simp only [List.foldl_cons, List.length_cons]
    rw [ih (i + 1) _ hrest]
    by_cases hji : j = i
    · subst hji
      have : ¬ (j + 1 ≤ j ∧ j < j + 1 + rest.length) := by omega
      simp [this, hd]
    · by_cases hin : i + 1 ≤ j ∧ j < i + 1 + rest.length
      · have h2 : i ≤ j ∧ j < i + (rest.length + 1) := by omega
        have h3 : j - i = (j - (i + 1)) + 1 := by omega
        simp [hin, h2, h3]
      · have h2 : ¬ (i ≤ j ∧ j < i + (rest.length + 1)) := by omega
        have hne : (c.dest == j) = false := by rw [hd]; simp; omega
        simp [hin, h2, hne]

theorem storedAt_consecutive (cs : List Call) (h : cs.map (·.dest) = List.range' 0 cs.length) (j : Nat) :
    storedAt cs j = (cs[j]?).map (·.data) := by
  unfold storedAt
  rw [storedAt_fold cs 0 j none h]
  by_cases hj : j < cs.length
  · simp [hj]
  · have : cs[j]? = none := by simp; omega
    simp [hj, this]

/-- after the calls of a row, destination j holds the data of the j-th call -/
theorem stored_row (tcs : List (TypeDesc × Cell)) :
    (List.range (totalWidth (tcs.map (·.1)))).map (fun j => (storedAt (rowCalls 0 tcs) j).getD none)
      = (rowCalls 0 tcs).map (·.data) := by
  have hl := rowCalls_length 0 tcs
  have hd := rowCalls_dest 0 tcs
  rw [← hl] at hd
  apply List.ext_getElem?
  intro j
  by_cases hj : j < (rowCalls 0 tcs).length
  · have := storedAt_consecutive (rowCalls 0 tcs) hd j
    have hj' : j < totalWidth (tcs.map (·.1)) := by rw [← hl]; exact hj
    simp [hj', hj, this]
  · have h1 : ¬ j < totalWidth (tcs.map (·.1)) := by rw [← hl]; exact hj
    simp [h1, hj]

/-! ## RowData column names -/

/-- the names Iter.RowData gives to the destinations (when every NewWithError succeeds) -/
theorem rowDataColumns_length (cols : List ColumnInfo) (ts : List TypeDesc) (names : List FrameRead.Bytes)
    (hm : colsMatch cols ts) (h : rowDataColumns cols = .ok names) : names.length = totalWidth ts := by
  induction cols generalizing ts names with
  | nil =>
    cases ts with
    | nil => simp [rowDataColumns] at h; simp [← h, totalWidth]
    | cons t ts => simp [colsMatch] at hm
  | cons col cols ih =>
    cases ts with
    | nil => simp [colsMatch] at hm
    | cons t ts =>
      have hm' : col.typ = viewType t ∧ colsMatch cols ts := by simpa [colsMatch] using hm
      simp only [rowDataColumns] at h
      cases hrest : rowDataColumns cols with
      | err => rw [hrest] at h; split at h <;> simp at h
      | crash => rw [hrest] at h; split at h <;> simp at h
      | ok rest =>
        rw [hrest] at h
        have ihl := ih ts rest hm'.2 hrest
        cases t with
        | tuple es =>
          simp only [hm'.1, viewType] at h
          split at h
          · rename_i names0 hh
            split at hh
            · simp only [Outcome.ok.injEq] at hh h
              subst hh; subst h
              simp [ihl, totalWidth, destWidth, viewTypes_length]
            · simp at hh
            · simp at hh
          · simp at h
          · simp at h
        | native id =>
          simp only [hm'.1, viewType] at h
          split at h
          · rename_i names0 hh
            split at hh
            · simp only [Outcome.ok.injEq] at hh h
              subst hh; subst h
              simp [ihl, totalWidth, destWidth]; omega
            · simp at hh
            · simp at hh
          · simp at h
          · simp at h
        | custom cls =>
          simp only [hm'.1, viewType] at h
          split at h
          · rename_i names0 hh
            split at hh
            · simp only [Outcome.ok.injEq] at hh h
              subst hh; subst h
              simp [ihl, totalWidth, destWidth]; omega
            · simp at hh
            · simp at hh
          · simp at h
          · simp at h
        | list e =>
          simp only [hm'.1, viewType] at h
          split at h
          · rename_i names0 hh
            split at hh
            · simp only [Outcome.ok.injEq] at hh h
              subst hh; subst h
              simp [ihl, totalWidth, destWidth]; omega
            · simp at hh
            · simp at hh
          · simp at h
          · simp at h
        | set e =>
          simp only [hm'.1, viewType] at h
          split at h
          · rename_i names0 hh
            split at hh
            · simp only [Outcome.ok.injEq] at hh h
              subst hh; subst h
              simp [ihl, totalWidth, destWidth]; omega
            · simp at hh
            · simp at hh
          · simp at h
          · simp at h
        | map a b =>
          simp only [hm'.1, viewType] at h
          split at h
          · rename_i names0 hh
            split at hh
            · simp only [Outcome.ok.injEq] at hh h
              subst hh; subst h
              simp [ihl, totalWidth, destWidth]; omega
            · simp at hh
            · simp at hh
          · simp at h
          · simp at h
        | udt ks n fs =>
          simp only [hm'.1, viewType] at h
          split at h
          · rename_i names0 hh
            split at hh
            · simp only [Outcome.ok.injEq] at hh h
              subst hh; subst h
              simp [ihl, totalWidth, destWidth]; omega
            · simp at hh
            · simp at hh
          · simp at h
          · simp at h

/-! ## MapScan / SliceMap -/

theorem range_map_pair {β : Type} (names : List FrameRead.Bytes) (f : Nat → β) :
    (List.range names.length).map (fun j => (names.getD j [], f j)) = names.zip ((List.range names.length).map f) := by
  induction names generalizing f with
  | nil => simp
  | cons n ns ih =>
    have := ih (fun j => f (j + 1))
    simp only [List.length_cons, List.range_succ_eq_map, List.map_cons, List.map_map, List.zip_cons_cons]
    congr 1

theorem map_true_replicate {α : Type} (l : List α) : l.map (fun _ => true) = List.replicate l.length true := by
  induction l with
  | nil => rfl
  | cons a l ih => simp [List.replicate_succ, ih]

theorem zip_keys (names : List FrameRead.Bytes) {β : Type} (ds : List β) (h : ds.length = names.length) :
    (names.zip ds).map (·.1) = names := by
  exact List.map_fst_zip (by omega)

/-- one MapScan with a recorder under every RowData column name: the map entry of a name is the
    data of the destination that carries the name -/
theorem mapScan_row (it : Iter) (tcs : List (TypeDesc × Cell)) (rest : FrameRead.Bytes) (names : List FrameRead.Bytes)
    (hf : it.failed = false) (hp : it.pos < it.numRows)
    (hm : colsMatch it.md.columns (tcs.map (·.1))) (hw : wfRow tcs = true)
    (hnames : rowDataColumns it.md.columns = .ok names) (hd : names.Nodup)
    (ha : it.md.actualColCount = (totalWidth (tcs.map (·.1)) : Int))
    (hb : it.buf = eRow (tcs.map (·.2)) ++ rest) :
    mapScan it = .row { it with pos := it.pos + 1, buf := rest } (names.zip ((rowCalls 0 tcs).map (·.data))) := by
  have hlen := rowDataColumns_length it.md.columns (tcs.map (·.1)) names hm hnames
  have hrep : names.map (fun _ => true) = List.replicate (totalWidth (tcs.map (·.1))) true := by
    rw [← hlen]; exact map_true_replicate names
  have hmap : mapOfList ((List.range names.length).map (fun j => (names.getD j [], (storedAt (rowCalls 0 tcs) j).getD none)))
      = names.zip ((rowCalls 0 tcs).map (·.data)) := by
    rw [range_map_pair names, hlen, stored_row tcs, mapOfList_nodup]
    rw [zip_keys names _ (by rw [List.length_map, rowCalls_length, hlen])]
    exact hd
  unfold mapScan
  simp only [hf, Bool.false_eq_true, if_false, rowDataNames, hnames, hrep]
  rw [scan_row it tcs rest _ hf hp hm hw rfl ha hb]
  simp only
  rw [hmap, hf]

/-- the whole SliceMap: one map per row; values are the cells (null reads as empty) -/
theorem sliceMapRows_ok (rows : List (List (TypeDesc × Cell))) (ts : List TypeDesc) (it : Iter) (names : List FrameRead.Bytes)
    (acc : List (List (FrameRead.Bytes × FrameRead.Bytes))) (rest : FrameRead.Bytes)
    (hf : it.failed = false) (hn : it.pos + rows.length = it.numRows)
    (hm : colsMatch it.md.columns ts) (hts : ∀ row ∈ rows, row.map (·.1) = ts)
    (hw : ∀ row ∈ rows, wfRow row = true)
    (hnames : rowDataColumns it.md.columns = .ok names) (hd : names.Nodup)
    (ha : it.md.actualColCount = (totalWidth ts : Int))
    (hb : it.buf = eRows (rows.map (fun row => row.map (·.2))) ++ rest) :
    sliceMapRows (rows.length + 1) it acc
      = .rows (acc ++ rows.map (fun row => names.zip ((rowCalls 0 row).map (fun c => c.data.getD []))))
          { it with pos := it.numRows, buf := rest } := by
  have hlen := rowDataColumns_length it.md.columns ts names hm hnames
  have hrep : names.map (fun _ => true) = List.replicate (totalWidth ts) true := by
    rw [← hlen]; exact map_true_replicate names
  induction rows generalizing it acc with
  | nil =>
    have hpos : it.pos = it.numRows := by simpa using hn
    have hb' : it.buf = rest := by simpa [eRows] using hb
    simp only [List.length_nil, Nat.zero_add]
    rw [sliceMapRows]
    simp only [rowDataNames, hnames, hrep]
    rw [scan_end it _ hf hpos]
    cases it
    simp_all
  | cons row rows ih =>
    have hrow := hts row (by simp)
    have hb' : it.buf = eRow (row.map (·.2)) ++ (eRows (rows.map (fun row => row.map (·.2))) ++ rest) := by
      simpa [eRows, eRow] using hb
    have hp : it.pos < it.numRows := by simp at hn; omega
    simp only [List.length_cons]
    rw [sliceMapRows]
    simp only [rowDataNames, hnames, hrep]
    rw [scan_row it row _ _ hf hp (by rw [hrow]; exact hm) (hw row (by simp)) (by rw [hrow]) ha hb']
    have hmap : mapOfList ((List.range names.length).map (fun j => (names.getD j [], ((storedAt (rowCalls 0 row) j).getD none).getD [])))
        = names.zip ((rowCalls 0 row).map (fun c => c.data.getD [])) := by
      rw [range_map_pair names (fun j => ((storedAt (rowCalls 0 row) j).getD none).getD [])]
      have h1 : (List.range names.length).map (fun j => ((storedAt (rowCalls 0 row) j).getD none).getD [])
          = ((List.range (totalWidth (row.map (·.1)))).map (fun j => (storedAt (rowCalls 0 row) j).getD none)).map (fun d => d.getD []) := by
        rw [hrow, hlen]; simp
      rw [h1, stored_row row, List.map_map]
      rw [mapOfList_nodup]
      · rfl
      · rw [zip_keys names _ (by rw [List.length_map, rowCalls_length, hrow, hlen])]
        exact hd
    simp only [hmap]
    have := ih { it with pos := it.pos + 1, buf := eRows (rows.map (fun row => row.map (·.2))) ++ rest }
      (acc ++ [names.zip ((rowCalls 0 row).map (fun c => c.data.getD []))])
      hf (by simp at hn ⊢; omega) hm (fun r hr => hts r (by simp [hr])) (fun r hr => hw r (by simp [hr])) hnames ha rfl
    simp only at this
    simp only [this]
    simp

end C04
