import Model.Uuid
import Proofs.C19Bits
/-! helper lemmas for C19: time-UUID construction / field extraction, Cassandra order, uniqueness -/
namespace Uuid

theorem nodeBytes_length (nd : List UInt8) : (nodeBytes nd).length = 6 := by
  simp [nodeBytes]; omega

theorem with_length (t clk : Nat) (nd : List UInt8) : (timeUUIDWith t clk nd).length = 16 := by
  simp [timeUUIDWith, nodeBytes_length]

theorem version_with (t clk : Nat) (nd : List UInt8) : version (timeUUIDWith t clk nd) = 1 := by
  show ((((tbyte t 56 &&& 0x0F) ||| 0x10) &&& 0xF0) >>> 4).toNat = 1
  exact v1_version _

theorem variant_with (t clk : Nat) (nd : List UInt8) : variant (timeUUIDWith t clk nd) = 2 := by
  show (let x := (UInt8.ofNat (clk >>> 8) &&& 0x3F) ||| 0x80
        if x &&& 0x80 = 0 then 0 else if x &&& 0x40 = 0 then 2 else if x &&& 0x20 = 0 then 6 else 7) = 2
  have h := var_stamp (UInt8.ofNat (clk >>> 8))
  simp [h.1, h.2]

theorem timestamp_with (t clk : Nat) (nd : List UInt8) (ht : t < 2 ^ 60) :
    timestamp (timeUUIDWith t clk nd) = t := by
  unfold timestamp
  rw [if_neg (by simp [version_with])]
  show ((tbyte t 24).toNat <<< 24 ||| (tbyte t 16).toNat <<< 16 ||| (tbyte t 8).toNat <<< 8 ||| (tbyte t 0).toNat)
      + ((tbyte t 40).toNat <<< 40 ||| (tbyte t 32).toNat <<< 32)
      + ((((tbyte t 56 &&& 0x0F) ||| 0x10) &&& 0x0F).toNat <<< 56 ||| (tbyte t 48).toNat <<< 48) = t
  rw [v1_low]
  have h56 : (tbyte t 56).toNat % 16 < 256 := by omega
  rw [ts_sum _ _ _ _ _ _ _ _ (tbyte t 24).toNat_lt (tbyte t 16).toNat_lt (tbyte t 8).toNat_lt (tbyte t 0).toNat_lt
    (tbyte t 40).toNat_lt (tbyte t 32).toNat_lt h56 (tbyte t 48).toNat_lt]
  simp only [tbyte_toNat]
  simp only [Nat.reducePow] at ht ⊢
  omega

/-- without the range restriction the timestamp is kept modulo 2^60 -/
theorem timestamp_with_mod (t clk : Nat) (nd : List UInt8) :
    timestamp (timeUUIDWith t clk nd) = t % 2 ^ 60 := by
  unfold timestamp
  rw [if_neg (by simp [version_with])]
  show ((tbyte t 24).toNat <<< 24 ||| (tbyte t 16).toNat <<< 16 ||| (tbyte t 8).toNat <<< 8 ||| (tbyte t 0).toNat)
      + ((tbyte t 40).toNat <<< 40 ||| (tbyte t 32).toNat <<< 32)
      + ((((tbyte t 56 &&& 0x0F) ||| 0x10) &&& 0x0F).toNat <<< 56 ||| (tbyte t 48).toNat <<< 48) = t % 2 ^ 60
  rw [v1_low]
  have h56 : (tbyte t 56).toNat % 16 < 256 := by omega
  rw [ts_sum _ _ _ _ _ _ _ _ (tbyte t 24).toNat_lt (tbyte t 16).toNat_lt (tbyte t 8).toNat_lt (tbyte t 0).toNat_lt
    (tbyte t 40).toNat_lt (tbyte t 32).toNat_lt h56 (tbyte t 48).toNat_lt]
  simp only [tbyte_toNat]
  simp only [Nat.reducePow]
  omega

theorem clock_with (t clk : Nat) (nd : List UInt8) : clock (timeUUIDWith t clk nd) = clk % 2 ^ 14 := by
  unfold clock
  rw [if_neg (by simp [version_with])]
  show (((UInt8.ofNat (clk >>> 8) &&& 0x3F) ||| 0x80) &&& 0x3F).toNat <<< 8 ||| (UInt8.ofNat clk).toNat = clk % 2 ^ 14
  rw [var_low, or_shl _ 8 _ (UInt8.ofNat clk).toNat_lt]
  simp only [UInt8.toNat_ofNat', Nat.shiftRight_eq_div_pow, Nat.reducePow]
  omega

theorem node_with (t clk : Nat) (nd : List UInt8) : node (timeUUIDWith t clk nd) = some (nodeBytes nd) := by
  unfold node
  rw [if_neg (by simp [version_with])]
  rfl

/-! ### agreement with the RFC 4122 field layout, for every 16-byte value -/

theorem version_eq_rfc (u : List UInt8) (h : u.length = 16) : version u = Spec.rfcVersion u := by
  obtain ⟨b0, b1, b2, b3, b4, b5, b6, b7, b8, b9, b10, b11, b12, b13, b14, b15, rfl⟩ := list16 u h
  show ((b6 &&& 0xF0) >>> 4).toNat = _
  rw [version_eq_div]
  have := b6.toNat_lt; have := b7.toNat_lt
  simp [Spec.rfcVersion, Spec.timeHiAndVersion, Spec.be]
  omega

theorem timestamp_eq_rfc (u : List UInt8) (h : u.length = 16) (hv : version u = 1) :
    timestamp u = Spec.rfcTimestamp u := by
  obtain ⟨b0, b1, b2, b3, b4, b5, b6, b7, b8, b9, b10, b11, b12, b13, b14, b15, rfl⟩ := list16 u h
  unfold timestamp
  rw [if_neg (by simp [hv])]
  show (b0.toNat <<< 24 ||| b1.toNat <<< 16 ||| b2.toNat <<< 8 ||| b3.toNat)
      + (b4.toNat <<< 40 ||| b5.toNat <<< 32) + ((b6 &&& 0x0F).toNat <<< 56 ||| b7.toNat <<< 48) = _
  rw [low4_eq_mod]
  have h6 : b6.toNat % 16 < 256 := by omega
  rw [ts_sum _ _ _ _ _ _ _ _ b0.toNat_lt b1.toNat_lt b2.toNat_lt b3.toNat_lt b4.toNat_lt b5.toNat_lt h6 b7.toNat_lt]
  have := b0.toNat_lt; have := b1.toNat_lt; have := b2.toNat_lt; have := b3.toNat_lt
  have := b4.toNat_lt; have := b5.toNat_lt; have := b6.toNat_lt; have := b7.toNat_lt
  simp [Spec.rfcTimestamp, Spec.timeLow, Spec.timeMid, Spec.timeHiAndVersion, Spec.be]
  omega

theorem variant_ietf_iff_rfc (u : List UInt8) (h : u.length = 16) : variant u = 2 ↔ Spec.rfcVariantIETF u := by
  obtain ⟨b0, b1, b2, b3, b4, b5, b6, b7, b8, b9, b10, b11, b12, b13, b14, b15, rfl⟩ := list16 u h
  show (if b8 &&& 0x80 = 0 then 0 else if b8 &&& 0x40 = 0 then 2 else if b8 &&& 0x20 = 0 then 6 else 7) = 2 ↔ _
  rw [variant_ietf_iff_byte]
  have := b8.toNat_lt; have := b9.toNat_lt
  simp [Spec.rfcVariantIETF, Spec.clockSeqAndReserved, Spec.be]
  omega

/-! ### Cassandra's order -/

theorem signed_ge (b : UInt8) : -128 ≤ Spec.signed b := by
  have := b.toNat_lt; unfold Spec.signed; split <;> omega

theorem signed_le (b : UInt8) : Spec.signed b ≤ 127 := by
  have := b.toNat_lt; unfold Spec.signed; split <;> omega

theorem signed_80 : Spec.signed 0x80 = -128 := by decide
theorem signed_7f : Spec.signed 0x7f = 127 := by decide
theorem signed_bf : Spec.signed 0xbf = -65 := by decide

theorem sLexLe_min (n : Nat) : ∀ l : List UInt8, n ≤ l.length → Spec.sLexLe (List.replicate n 0x80) l = true := by
  induction n with
  | zero => intro l _; cases l <;> rfl
  | succ n ih =>
    intro l hl
    cases l with
    | nil => simp at hl
    | cons b bs =>
      simp only [List.replicate_succ, Spec.sLexLe, signed_80]
      have := signed_ge b
      split
      · rfl
      · rw [if_neg (by omega)]; exact ih bs (by simpa using hl)

theorem sLexLe_max (l : List UInt8) : ∀ n, l.length ≤ n → Spec.sLexLe l (List.replicate n 0x7f) = true := by
  induction l with
  | nil => intro n _; rfl
  | cons b bs ih =>
    intro n hn
    cases n with
    | zero => simp at hn
    | succ n =>
      simp only [List.replicate_succ, Spec.sLexLe, signed_7f]
      have := signed_le b
      split
      · rfl
      · rw [if_neg (by omega)]; exact ih n (by simpa using hn)

theorem min_tail (t : Nat) : (timeUUIDWith t minClock minNode).drop 8 = List.replicate 8 0x80 := by
  show [(UInt8.ofNat (minClock >>> 8) &&& 0x3F) ||| 0x80, UInt8.ofNat minClock] ++ nodeBytes minNode = _
  decide

theorem max_tail (t : Nat) : (timeUUIDWith t maxClock maxNode).drop 8 = 0xbf :: List.replicate 7 0x7f := by
  show [(UInt8.ofNat (maxClock >>> 8) &&& 0x3F) ||| 0x80, UInt8.ofNat maxClock] ++ nodeBytes maxNode = _
  decide

theorem rfcTimestamp_with (t clk : Nat) (nd : List UInt8) (ht : t < 2 ^ 60) :
    Spec.rfcTimestamp (timeUUIDWith t clk nd) = t := by
  rw [← timestamp_eq_rfc _ (with_length ..) (version_with ..), timestamp_with _ _ _ ht]

theorem min_max_bound (ts : Nat) (hts : ts < 2 ^ 60) (u : List UInt8) (hl : u.length = 16)
    (hv : version u = 1) (hvar : variant u = 2) (ht : timestamp u = ts) :
    Spec.cassLe (timeUUIDWith ts minClock minNode) u = true ∧
    Spec.cassLe u (timeUUIDWith ts maxClock maxNode) = true := by
  have hu : Spec.rfcTimestamp u = ts := by rw [← timestamp_eq_rfc u hl hv, ht]
  unfold Spec.cassLe
  rw [rfcTimestamp_with _ _ _ hts, rfcTimestamp_with _ _ _ hts, hu]
  simp only [Nat.lt_irrefl, if_false]
  rw [min_tail, max_tail]
  obtain ⟨b0, b1, b2, b3, b4, b5, b6, b7, b8, b9, b10, b11, b12, b13, b14, b15, rfl⟩ := list16 u hl
  constructor
  · exact sLexLe_min 8 _ (by simp)
  · show Spec.sLexLe (b8 :: [b9, b10, b11, b12, b13, b14, b15]) (0xbf :: List.replicate 7 0x7f) = true
    have hb : 128 ≤ b8.toNat ∧ b8.toNat < 192 := (variant_ietf_iff_byte b8).mp hvar
    simp only [Spec.sLexLe, signed_bf]
    have : Spec.signed b8 ≤ -65 := by unfold Spec.signed; split <;> omega
    split
    · rfl
    · rw [if_neg (by omega)]; exact sLexLe_max _ 7 (by simp)

/-! ### time ↔ timestamp -/

/-- the instants representable in the 60-bit timestamp: 1582-10-15T00:00:00Z … 5236-03-31T21:21:00.6846975Z -/
def Representable (sec : Int) (nsec : Nat) : Prop :=
  timeBase ≤ sec ∧ nsec < 1000000000 ∧ (sec - timeBase) * 10000000 + (nsec / 100 : Nat) < 2 ^ 60

instance (sec : Int) (nsec : Nat) : Decidable (Representable sec nsec) := by
  unfold Representable; infer_instance

theorem getTimestamp_exact (sec : Int) (nsec : Nat) (h : Representable sec nsec) :
    getTimestamp sec nsec = (sec - timeBase) * 10000000 + (nsec / 100 : Nat) := by
  obtain ⟨h1, h2, h3⟩ := h
  simp only [getTimestamp, wrap64, timeBase] at *
  omega

theorem bits64_getTimestamp (sec : Int) (nsec : Nat) (h : Representable sec nsec) :
    (bits64 (getTimestamp sec nsec) : Int) = (sec - timeBase) * 10000000 + (nsec / 100 : Nat) ∧
    bits64 (getTimestamp sec nsec) < 2 ^ 60 := by
  rw [getTimestamp_exact sec nsec h]
  obtain ⟨h1, h2, h3⟩ := h
  simp only [bits64, timeBase] at *
  omega

/-- a time-UUID built from a representable instant gives the instant back, truncated to 100 ns -/
theorem time_roundtrip (sec : Int) (nsec clk : Nat) (nd : List UInt8) (h : Representable sec nsec) :
    time (timeUUIDWith (bits64 (getTimestamp sec nsec)) clk nd) = some (sec, nsec / 100 * 100) := by
  obtain ⟨hb, hlt⟩ := bits64_getTimestamp sec nsec h
  unfold time
  rw [if_neg (by simp [version_with]), timestamp_with _ _ _ hlt]
  obtain ⟨h1, h2, h3⟩ := h
  simp only [timeBase] at *
  simp only [Option.some.injEq, Prod.mk.injEq]
  omega

/-! ### stamping of random UUIDs -/

theorem stampV4_facts (u : List UInt8) (h : u.length = 16) :
    version (stampV4 u) = 4 ∧ variant (stampV4 u) = 2 ∧ (stampV4 u).length = 16 ∧
    (∀ i, i ≠ 6 → i ≠ 8 → byteAt (stampV4 u) i = byteAt u i) ∧
    byteAt (stampV4 u) 6 &&& 0x0F = byteAt u 6 &&& 0x0F ∧
    (byteAt (stampV4 u) 8 &&& 0x3F).toNat = (byteAt u 8).toNat % 64 := by
  obtain ⟨b0, b1, b2, b3, b4, b5, b6, b7, b8, b9, b10, b11, b12, b13, b14, b15, rfl⟩ := list16 u h
  refine ⟨v4_version b6, ?_, rfl, ?_, v4_low b6, var_low b8⟩
  · show (let x := (b8 &&& 0x3F) ||| 0x80
          if x &&& 0x80 = 0 then 0 else if x &&& 0x40 = 0 then 2 else if x &&& 0x20 = 0 then 6 else 7) = 2
    have h := var_stamp b8
    simp [h.1, h.2]
  · intro i h6 h8
    simp only [stampV4, byteAt, List.set_cons_succ, List.set_cons_zero, List.getD_eq_getElem?_getD]
    match i with
    | 0 | 1 | 2 | 3 | 4 | 5 | 7 | 9 | 10 | 11 | 12 | 13 | 14 | 15 => rfl
    | 6 => exact absurd rfl h6
    | 8 => exact absurd rfl h8
    | n + 16 => rfl

/-! ### uniqueness -/

theorem with_inj (t1 t2 c1 c2 : Nat) (n1 n2 : List UInt8)
    (h : timeUUIDWith t1 c1 n1 = timeUUIDWith t2 c2 n2) :
    t1 % 2 ^ 60 = t2 % 2 ^ 60 ∧ c1 % 2 ^ 14 = c2 % 2 ^ 14 := by
  have ht : timestamp (timeUUIDWith t1 c1 n1) = timestamp (timeUUIDWith t2 c2 n2) := by rw [h]
  have hc : clock (timeUUIDWith t1 c1 n1) = clock (timeUUIDWith t2 c2 n2) := by rw [h]
  rw [timestamp_with_mod, timestamp_with_mod] at ht
  rw [clock_with, clock_with] at hc
  exact ⟨ht, hc⟩

/-- the UUIDs handed out by `n` successive atomic increments starting from counter value `c` -/
def gens (hw : List UInt8) : Nat → List (Int × Nat) → List (List UInt8)
  | _, [] => []
  | c, tm :: tms => (uuidFromTime c hw tm.1 tm.2).1 :: gens hw (uuidFromTime c hw tm.1 tm.2).2 tms

theorem gens_mem (hw : List UInt8) (tms : List (Int × Nat)) : ∀ c u, u ∈ gens hw c tms →
    ∃ i t, i < tms.length ∧ u = timeUUIDWith t ((c + 1 + i) % 2 ^ 32) hw := by
  induction tms with
  | nil => intro c u h; cases h
  | cons tm tms ih =>
    intro c u h
    rcases List.mem_cons.mp h with rfl | h
    · exact ⟨0, _, by simp, rfl⟩
    · obtain ⟨i, t, hi, rfl⟩ := ih _ u h
      refine ⟨i + 1, t, by simp; omega, ?_⟩
      simp only [uuidFromTime]
      congr 1
      simp only [Nat.reducePow]; omega

theorem gens_pairwise (hw : List UInt8) (tms : List (Int × Nat)) : ∀ c, tms.length ≤ 16384 →
    (gens hw c tms).Pairwise (· ≠ ·) := by
  induction tms with
  | nil => intro c _; exact List.Pairwise.nil
  | cons tm tms ih =>
    intro c hlen
    simp only [List.length_cons] at hlen
    refine List.Pairwise.cons ?_ (ih _ (by omega))
    intro u hu heq
    obtain ⟨i, t, hi, rfl⟩ := gens_mem hw tms _ u hu
    have := (with_inj _ _ _ _ _ _ heq).2
    simp only [uuidFromTime, Nat.reducePow] at this
    omega

end Uuid
