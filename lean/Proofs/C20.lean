import Model.TlsAuth
import Model.TlsAuthSess
import Proofs.C20Lemmas
import Proofs.C20Sess
import Model.TlsAuthDial
import Proofs.C20Dial
import Model.TlsAuthHist
import Proofs.C20Hist
/-!
# C20 — TLS verification and credential disclosure are exactly as documented (property theorems)

Model: `Model/TlsAuth.lean` (hand-written from connectionpool.go `setupTLSConfig`, dial.go `tlsConfigForAddr`,
conn.go `approve` / `PasswordAuthenticator.Challenge` / `options` / `startup` / `authenticateHandshake`; tied to the
source by the differential run of `harness/cmd/c20`, which also reads the three copies of the documented table out
of doc.go / conn.go / connectionpool.go and compares them with `TlsAuth.Spec.docRows`).
-/
namespace C20
open TlsAuth

/-! ## the verification table -/

/-- The derived config verifies the server exactly in the documented cases.  The quantifier is the whole finite
    domain (Config nil / InsecureSkipVerify false / true) × (EnableHostVerification false / true). -/
theorem C20_table (cfg : Option Bool) (ehv : Bool) :
    Spec.documented cfg ehv = some (!effectiveInsecure cfg ehv) := by
  rcases cfg with _ | _ | _ <;> cases ehv <;> decide

/-- every documented row, one by one, and the rows cover each combination exactly once -/
theorem C20_table_rows :
    (∀ r ∈ Spec.docRows, (!effectiveInsecure r.1 r.2.1) = r.2.2) ∧
    (Spec.docRows.map (fun r => (r.1, r.2.1))).Nodup ∧ Spec.docRows.length = 6 := by decide

/-- The table holds for what `setupTLSConfig` actually returns, whatever the other fields of the caller's config
    and whatever the files: if a config is returned, its InsecureSkipVerify is the documented one, the caller's
    ServerName is kept, and (plain English of the table) a config is insecure only if the caller asked for it:
    no Config and no EnableHostVerification, or Config.InsecureSkipVerify without EnableHostVerification. -/
theorem C20_setup_follows_table (o : SslOpts) (c : OutCfg) (h : setupTLSConfig o = .ok c) :
    Spec.documented (o.cfg.map (·.insecure)) o.enableHostVerification = some (!c.insecure) ∧
    c.serverName = (o.cfg.map (·.serverName)).getD [] ∧
    (c.insecure = true ↔ (o.enableHostVerification = false ∧ (o.cfg = none ∨ ∃ u, o.cfg = some u ∧ u.insecure = true))) := by
  obtain ⟨cfg, ehv, ca, cert, key⟩ := o
  rcases cfg with _ | ⟨i, sn, r, n⟩ <;> cases ehv <;> (try cases i) <;> cases ca <;> cases cert <;> cases key <;>
    simp [setupTLSConfig, keyPairLoads] at h <;> subst h <;> simp [Spec.documented, Spec.docRows]

example : ∃ c, setupTLSConfig ⟨none, true, .valid, .valid, .valid⟩ = .ok c ∧ c.insecure = false := ⟨_, rfl, rfl⟩

/-! ## the caller's own tls.Config -/

/-- FULL STATEMENT (false for the unchanged code): "`setupTLSConfig` leaves every object reachable from the
    caller's tls.Config untouched".  The scalar settings (InsecureSkipVerify, ServerName) are written on a
    `Clone()`; that is checked on the real code by the harness for every combination (any write shows up as an
    `ALIAS:` answer the model never gives).  But `Clone()` copies the RootCAs POINTER: with CaPath set the CA file is
    appended to the caller's own pool (KF-C20-1, open: needs x509.CertPool.Clone, Go >= 1.19).
    Proved part: nothing of the caller's is written unless the caller supplied a RootCAs pool together with a
    (valid) CaPath.  The Certificates backing array is never written (KF-C20-2 repaired: C20_caller_backing_untouched). -/
theorem C20_caller_config_untouched_partial (o : SslOpts) (spare : Bool)
    (h : o.ca ≠ .valid ∨ ∀ u, o.cfg = some u → u.hasRootCAs = false) :
    callerPoolMutated o = false ∧ callerBackingWritten o spare = false := by
  obtain ⟨cfg, ehv, ca, cert, key⟩ := o
  refine ⟨?_, rfl⟩
  rcases cfg with _ | ⟨i, sn, r, n⟩
  · rfl
  · rcases h with h | h
    · simp only at h; simp [callerPoolMutated, h]
    · have := h _ rfl
      simp only at this; simp [callerPoolMutated, this]

/-- counterexample: Config with its own RootCAs + CaPath ⇒ the caller's pool object grows (replayed on the real
    code by the op `tls I0S0R1C0 1 valid absent absent 0` → `… callerpool=grew`) -/
theorem C20_cex_caller_pool :
    callerPoolMutated ⟨some ⟨false, [], true, 0⟩, true, .valid, .absent, .absent⟩ = true := by decide

/-- FULL (after the repair of KF-C20-2): for every SslOptions, every caller Certificates slice (any length, spare
    capacity or not) and every key pair, the key pair is appended to a fresh array — the caller's backing array is
    never written. -/
theorem C20_caller_backing_untouched (o : SslOpts) (spare : Bool) : callerBackingWritten o spare = false := rfl

/-- non-vacuity: the former counterexample of KF-C20-2 (one own certificate, spare capacity, a valid key pair) yields a
    config with TWO certificates while the caller's array is left alone -/
example : (setupTLSConfig ⟨some ⟨false, [], false, 1⟩, true, .absent, .valid, .valid⟩).toOption.map (·.nCerts) = some 2 ∧
    callerBackingWritten ⟨some ⟨false, [], false, 1⟩, true, .absent, .valid, .valid⟩ true = false := by decide

/-! ## the server name -/

/-- When verifying without an explicit name, the name is the host part of the dialled address (everything before
    the LAST colon; the whole string if there is none) on a clone; otherwise the caller's config is used as is. -/
theorem C20_server_name (insecure : Bool) (serverName addr : List UInt8) :
    (insecure = false → serverName = [] → tlsConfigForAddr insecure serverName addr = (hostPart addr, true)) ∧
    ((insecure = true ∨ serverName ≠ []) → tlsConfigForAddr insecure serverName addr = (serverName, false)) := by
  constructor
  · rintro rfl rfl; rfl
  · rintro (rfl | h)
    · rfl
    · cases insecure <;> cases serverName <;> simp_all [tlsConfigForAddr]

/-- what "the host part" is: the split at the last colon -/
theorem C20_host_part (addr : List UInt8) :
    (colon ∉ addr ∧ hostPart addr = addr) ∨
    (∃ port, addr = hostPart addr ++ colon :: port ∧ colon ∉ port) := by
  unfold hostPart
  cases h : beforeLastColon addr with
  | none => exact Or.inl ⟨beforeLastColon_none_iff addr h, rfl⟩
  | some p => exact Or.inr (by simpa using beforeLastColon_some addr p h)

/-- For the address the default dialer passes (`net.JoinHostPort(hostname, port)`): a name or IPv4 literal is
    the server name itself; an IPv6 literal (anything containing a colon) is used IN BRACKETS — as produced;
    crypto/x509 strips the brackets when matching IP SANs. -/
theorem C20_server_name_of_host (host port : List UInt8) (hp : colon ∉ port) :
    hostPart (joinHostPort host port) = if host.contains colon then [91] ++ host ++ [93] else host := by
  unfold joinHostPort
  split
  · have : [91] ++ host ++ [93] ++ [colon] ++ port = ([91] ++ host ++ [93]) ++ colon :: port := by simp
    rw [this, hostPart_split _ _ hp]
  · have : host ++ [colon] ++ port = host ++ colon :: port := by simp
    rw [this, hostPart_split _ _ hp]

example : hostPart (strBytes "[2001:db8::1]:9042") = strBytes "[2001:db8::1]" := by decide
example : hostPart (strBytes "cassandra-1.example.com:9042") = strBytes "cassandra-1.example.com" := by decide

/-! ## files -/

/-- A CA path or key-pair path that is given and unreadable / unparsable / not a pair is an error — never a
    config without it; and a config is returned exactly when every given file is good. -/
theorem C20_bad_files_error (o : SslOpts) :
    ((∃ c, setupTLSConfig o = .ok c) ↔
      ((o.ca = .absent ∨ o.ca = .valid) ∧ ((o.cert = .absent ∧ o.key = .absent) ∨ keyPairLoads o.cert o.key = true))) ∧
    (o.ca = .unreadable → setupTLSConfig o = .error .caOpen) ∧
    ((o.ca = .unparsable ∨ o.ca = .foreign) → setupTLSConfig o = .error .caParse) ∧
    ((o.ca = .absent ∨ o.ca = .valid) → (o.cert ≠ .absent ∨ o.key ≠ .absent) → keyPairLoads o.cert o.key = false →
      setupTLSConfig o = .error .keyPair) := by
  obtain ⟨cfg, ehv, ca, cert, key⟩ := o
  refine ⟨?_, ?_, ?_, ?_⟩ <;> cases ca <;> cases cert <;> cases key <;> simp [setupTLSConfig, keyPairLoads]

/-- a good CA file ends up in the pool, a good pair is appended to the certificates -/
theorem C20_good_files_used (o : SslOpts) (c : OutCfg) (h : setupTLSConfig o = .ok c) :
    (o.ca = .valid → c.hasRootCAs = true) ∧
    ((o.cert ≠ .absent ∨ o.key ≠ .absent) → c.nCerts = (o.cfg.map (·.nCerts)).getD 0 + 1) := by
  obtain ⟨cfg, ehv, ca, cert, key⟩ := o
  rcases cfg with _ | ⟨i, sn, r, n⟩ <;> cases ca <;> cases cert <;> cases key <;>
    simp [setupTLSConfig, keyPairLoads] at h <;> subst h <;> simp <;> split <;> rfl

/-! ## credentials -/

/-- SASL PLAIN: the token is 0 ‖ user ‖ 0 ‖ password, byte for byte (non-ASCII preserved), and determines
    (user, password) whenever the user name is NUL-free. -/
theorem C20_plain_token (user pass : List UInt8) :
    plainToken user pass = [0] ++ user ++ [0] ++ pass ∧
    (plainToken user pass).length = 2 + user.length + pass.length ∧
    ((0 : UInt8) ∉ user → Spec.decodePlain (plainToken user pass) = some (user, pass)) := by
  refine ⟨by simp [plainToken], by simp [plainToken]; omega, decodePlain_plainToken user pass⟩

example : plainToken (strBytes "ü") (strBytes "pw") = [0, 0xc3, 0xbc, 0, 0x70, 0x77] := by decide

/-- Credentials are produced ⇔ the offered class is on the caller's list, or on the built-in default list when
    the caller's is empty — for every class name. -/
theorem C20_only_approved (p : PwAuth) (cls : List UInt8) :
    ((challenge p cls).isSome ↔ cls ∈ (if p.allowed = [] then defaultApprovedAuthenticators.map strBytes else p.allowed)) ∧
    (∀ tok, challenge p cls = some tok → tok = plainToken p.user p.pass) := by
  constructor
  · unfold challenge approve effectiveList
    cases hp : p.allowed with
    | nil => simp
    | cons a as => simp
  · intro tok h
    unfold challenge at h
    split at h
    · cases h; rfl
    · cases h

example : approve (strBytes "org.apache.cassandra.auth.PasswordAuthenticator") [] = true := by decide
example : approve (strBytes "org.apache.cassandra.auth.AllowAllAuthenticator") [] = false := by decide
example : approve (strBytes "org.apache.cassandra.auth.PasswordAuthenticator") [strBytes "com.example.Custom"] = false := by
  decide

/-! ## the start-up handshake, given the connection's authenticator (`Conn.auth`) -/

/-- A server that demands authentication from a connection WITHOUT an authenticator gets an error:
    for every class name and whatever else the server sends, nothing beyond OPTIONS and STARTUP is written, no
    `Challenge`/`Success` call is made, the process does not die, and the connection is never reported ready.
    More generally, without an authenticator the start-up ends `ready` only on SUPPORTED followed directly by READY. -/
theorem C20_no_auth_no_session (cls : List UInt8) (rest fs : List SFrame) :
    handshake none (.supported :: .authenticate cls :: rest) =
      { sent := [.options, .startup], calls := [], provCalls := [], outcome := .errAuthRequired } ∧
    ((handshake none fs).outcome = .ready → ∃ tl, fs = .supported :: .ready :: tl) ∧
    (∀ tok, Sent.authResponse tok ∉ (handshake none fs).sent) ∧
    (handshake none fs).calls = [] ∧ (handshake none fs).outcome ≠ .crash := by
  refine ⟨rfl, ?_, ?_, ?_, ?_⟩
  · intro h
    rcases fs with _ | ⟨f, fs⟩
    · cases h
    · cases f <;> try (cases h)
      rcases fs with _ | ⟨g, gs⟩
      · cases h
      · cases g <;> first | exact ⟨_, rfl⟩ | cases h
  all_goals
    rcases fs with _ | ⟨f, fs⟩
    · simp [handshake]
    · cases f <;> try (simp [handshake])
      rcases fs with _ | ⟨g, gs⟩
      · simp [afterStartup]
      · cases g <;> simp [afterStartup]

/-- Password credentials leave the client only as the PLAIN token, only in reply to an AUTHENTICATE naming an
    approved class, for every frame sequence the server may send; and after an AUTHENTICATE the session becomes
    ready only through AUTH_SUCCESS. -/
theorem C20_credentials_only_if_approved (p : PwAuth) (fs : List SFrame) :
    (∀ tok, Sent.authResponse tok ∈ (handshake (some (.pw p)) fs).sent →
      ∃ cls tl, fs = .supported :: .authenticate cls :: tl ∧ approve cls p.allowed = true ∧
        tok = plainToken p.user p.pass) ∧
    ((handshake (some (.pw p)) fs).outcome = .ready →
      (∃ tl, fs = .supported :: .ready :: tl) ∨
      (∃ cls d tl, fs = .supported :: .authenticate cls :: .authSuccess d :: tl ∧ approve cls p.allowed = true)) := by
  constructor
  · intro tok h
    rcases fs with _ | ⟨f, fs⟩
    · simp [handshake] at h
    · cases f <;> try (simp [handshake] at h)
      rcases fs with _ | ⟨g, gs⟩
      · simp [afterStartup] at h
      · cases g <;> try (simp [afterStartup] at h)
        rename_i cls
        refine ⟨cls, gs, rfl, ?_⟩
        simp only [AuthImpl.challenge, challenge] at h
        by_cases ha : approve cls p.allowed = true
        · simp [ha, (authLoop_none gs).1] at h; exact ⟨ha, h⟩
        · simp [ha] at h
  · intro h
    rcases fs with _ | ⟨f, fs⟩
    · cases h
    · cases f <;> try (cases h)
      rcases fs with _ | ⟨g, gs⟩
      · cases h
      · cases g <;> try (first | exact Or.inl ⟨_, rfl⟩ | cases h)
        rename_i cls
        simp only [handshake, afterStartup, AuthImpl.challenge, challenge, Trace.pre_outcome] at h
        by_cases ha : approve cls p.allowed = true
        · simp only [ha, if_true, Trace.pre_outcome] at h
          rcases gs with _ | ⟨k, ks⟩
          · cases h
          · cases k <;> first | exact Or.inr ⟨cls, _, ks, rfl, ha⟩ | cases h
        · simp [ha] at h

/-- non-vacuity: an approved class gets the token, an unapproved one gets nothing -/
example : handshake (some (.pw ⟨[117], [112], []⟩))
    [.supported, .authenticate (strBytes "org.apache.cassandra.auth.PasswordAuthenticator"), .authSuccess []] =
    { sent := [.options, .startup, .authResponse [0, 117, 0, 112]], calls := [.challenge (strBytes "org.apache.cassandra.auth.PasswordAuthenticator")],
      provCalls := [], outcome := .ready } := by decide
example : (handshake (some (.pw ⟨[117], [112], []⟩)) [.supported, .authenticate (strBytes "com.evil.Harvester"), .authSuccess []]).sent =
    [.options, .startup] := by decide

/-- "never an unauthenticated session", for EVERY authenticator (gocql's or the caller's): once the server has demanded
    authentication, the connection is reported ready only after an AUTH_RESPONSE was sent and the server answered
    AUTH_SUCCESS. -/
theorem C20_ready_only_after_success (auth : Option AuthImpl) (cls : List UInt8) (rest : List SFrame)
    (h : (handshake auth (.supported :: .authenticate cls :: rest)).outcome = .ready) :
    (∃ tok, Sent.authResponse tok ∈ (handshake auth (.supported :: .authenticate cls :: rest)).sent) ∧
    (∃ d, SFrame.authSuccess d ∈ rest) := by
  rcases auth with _ | a
  · cases h
  · simp only [handshake, afterStartup, Trace.pre_outcome] at h ⊢
    cases hc : a.challenge cls with
    | error e =>
      rw [hc] at h; simp at h; subst h
      rcases challenge_error a cls _ hc with e | e <;> cases e
    | ok r =>
      obtain ⟨resp, next⟩ := r
      rw [hc] at h
      exact ⟨⟨resp, by simp⟩, authLoop_ready next rest (by simpa using h)⟩

/-- What a caller-supplied authenticator sends: exactly the tokens its successive `Challenge` calls returned, in
    order (a prefix of the script), nothing else — for every server frame sequence. -/
theorem C20_custom_tokens_in_order (rs : List Round) (sf : Bool) (fs : List SFrame) :
    tokens (handshake (some (.custom rs sf)) fs).sent <+: rs.map (·.resp) := by
  rcases fs with _ | ⟨f, fs⟩
  · exact List.nil_prefix
  · cases f <;> try exact List.nil_prefix
    rcases fs with _ | ⟨g, gs⟩
    · exact List.nil_prefix
    · cases g <;> try exact List.nil_prefix
      rename_i cls
      rcases rs with _ | ⟨r, rs⟩
      · exact List.nil_prefix
      · simp only [handshake, afterStartup, AuthImpl.challenge]
        by_cases hf : r.fail = true
        · simp [hf]
        · simp only [hf, Bool.false_eq_true, if_false]
          by_cases hl : r.last = true
          · simp [hl, (authLoop_none gs).1]
          · simp only [hl, Bool.false_eq_true, if_false, Trace.pre_sent, List.cons_append, List.nil_append,
              tokens_options, tokens_startup, tokens_resp, List.map_cons]
            exact List.prefix_cons_inj r.resp |>.mpr (authLoop_custom_tokens rs sf gs)

/-- `Challenge` is called with what the server sent and nothing else: first the class name of the AUTHENTICATE frame,
    then the payloads of the AUTH_CHALLENGE frames that follow, in order — for every authenticator. -/
theorem C20_challenge_requests (a : AuthImpl) (cls : List UInt8) (rest : List SFrame) :
    challengeReqs (handshake (some a) (.supported :: .authenticate cls :: rest)).calls <+: cls :: leadingChallenges rest := by
  simp only [handshake, afterStartup]
  cases a.challenge cls with
  | error e => simp
  | ok r =>
    obtain ⟨resp, next⟩ := r
    simpa [List.prefix_cons_inj] using authLoop_reqs next rest

/-- An authenticator's verdict on the server's final data is honoured: if its `Success` fails, the connection is
    reported ready only when `Success` was never called (its chain had ended by returning a nil challenger). -/
theorem C20_success_error_fails (rs : List Round) (fs : List SFrame)
    (h : (handshake (some (.custom rs true)) fs).outcome = .ready) :
    ∀ d, Call.success d ∉ (handshake (some (.custom rs true)) fs).calls := by
  rcases fs with _ | ⟨f, fs⟩
  · cases h
  · cases f <;> try (cases h)
    rcases fs with _ | ⟨g, gs⟩
    · cases h
    · cases g <;> try (first | (intro d; simp [handshake, afterStartup]; done) | cases h)
      rename_i cls
      rcases rs with _ | ⟨r, rs⟩
      · simp [handshake, afterStartup, AuthImpl.challenge] at h
      · simp only [handshake, afterStartup, AuthImpl.challenge] at h ⊢
        by_cases hf : r.fail = true
        · simp [hf] at h
        · simp only [hf, Bool.false_eq_true, if_false, Trace.pre_outcome] at h
          simp only [hf, Bool.false_eq_true, if_false, Trace.pre_calls]
          intro d hm
          simp only [List.cons_append, List.nil_append, List.mem_cons, reduceCtorEq, false_or] at hm
          refine authLoop_success_fails _ gs ?_ h d hm
          intro a ha
          by_cases hl : r.last = true
          · simp [hl] at ha
          · simp only [hl, Bool.false_eq_true, if_false, Option.some.injEq] at ha
            exact ⟨rs, ha.symm⟩

/-! ## process death (C05's subject; modelled here because the handshake model must say what the code does) -/

/-- FULL: no authenticator (none, gocql's PasswordAuthenticator, any caller-supplied implementation — also one that
    returns a nil next-challenger) and no frame sequence make the start-up kill the process.  (Before the repair of
    KF-C20-3 / KF-C05-24 `authenticateHandshake` called `challenger.Challenge` on a nil interface when the server
    answered the AUTH_RESPONSE with an AUTH_CHALLENGE; it returns an error now.) -/
theorem C20_no_crash (auth : Option AuthImpl) (fs : List SFrame) : (handshake auth fs).outcome ≠ .crash := by
  intro hc
  rcases fs with _ | ⟨f, fs⟩
  · cases hc
  · cases f <;> try (cases hc)
    rcases fs with _ | ⟨g, gs⟩
    · cases hc
    · cases g <;> try (cases hc)
      rename_i cls
      rcases auth with _ | a
      · cases hc
      · simp only [handshake, afterStartup, Trace.pre_outcome] at hc
        cases hch : a.challenge cls with
        | error e =>
          rw [hch] at hc; simp at hc; subst hc
          rcases challenge_error a cls _ hch with e | e <;> cases e
        | ok r =>
          obtain ⟨resp, next⟩ := r
          rw [hch] at hc
          exact authLoop_noCrash next gs (by simpa using hc)

/-- for gocql's own PasswordAuthenticator the start-up ends with the "no challenger" error exactly on: SUPPORTED,
    AUTHENTICATE(approved class), AUTH_CHALLENGE (the inputs that killed the process before the repair) -/
theorem C20_pw_no_challenger_iff (p : PwAuth) (fs : List SFrame) :
    (handshake (some (.pw p)) fs).outcome = .errNoChallenger ↔
      ∃ cls d tl, fs = .supported :: .authenticate cls :: .authChallenge d :: tl ∧ approve cls p.allowed = true := by
  constructor
  · intro h
    rcases fs with _ | ⟨f, fs⟩
    · cases h
    · cases f <;> try (cases h)
      rcases fs with _ | ⟨g, gs⟩
      · cases h
      · cases g <;> try (cases h)
        rename_i cls
        simp only [handshake, afterStartup, AuthImpl.challenge, challenge, Trace.pre_outcome] at h
        by_cases ha : approve cls p.allowed = true
        · simp only [ha, if_true, Trace.pre_outcome] at h
          rcases gs with _ | ⟨k, ks⟩
          · cases h
          · cases k <;> first | exact ⟨cls, _, ks, rfl, ha⟩ | cases h
        · simp [ha] at h
  · rintro ⟨cls, d, tl, rfl, ha⟩
    simp [handshake, afterStartup, AuthImpl.challenge, challenge, ha, authLoop]

/-- regression: the witness of KF-C20-3 (replayed on the real code in a child process by the op
    `hs pw:75:70:none sup auth:<PasswordAuthenticator> chal`) ends in that error, after the one AUTH_RESPONSE -/
theorem C20_nil_challenger_is_error :
    (handshake (some (.pw ⟨[117], [112], []⟩))
      [.supported, .authenticate (strBytes "org.apache.cassandra.auth.PasswordAuthenticator"), .authChallenge [0x78]]).outcome
      = .errNoChallenger := by decide

/-! ## which authenticator a connection gets: Authenticator, AuthProvider, per host -/

/-- `Conn.init`: with an AuthProvider configured, it is asked exactly once, for the host being dialled, and its answer
    alone decides (the static Authenticator is not consulted; its error ends the attempt before a single byte is
    written); without one the static Authenticator is used and no provider is called.  In terms of the documented
    roles (`Spec.credentials`): the connection behaves as the start-up with exactly those credentials. -/
theorem C20_auth_resolution (cfg : AuthCfg) (host : Nat) (fs : List SFrame) :
    (∀ a, Spec.credentials cfg host = some a →
      (connect cfg host fs).sent = (handshake a fs).sent ∧ (connect cfg host fs).calls = (handshake a fs).calls ∧
      (connect cfg host fs).outcome = (handshake a fs).outcome) ∧
    (Spec.credentials cfg host = none →
      (connect cfg host fs).sent = [] ∧ (connect cfg host fs).calls = [] ∧ (connect cfg host fs).outcome = .errProvider) ∧
    (connect cfg host fs).provCalls = (if cfg.provider.isSome then [host] else []) := by
  obtain ⟨st, pv⟩ := cfg
  rcases pv with _ | f
  · refine ⟨?_, ?_, ?_⟩
    · intro a h; simp only [Spec.credentials] at h; cases h; exact ⟨rfl, rfl, rfl⟩
    · intro h; cases h
    · simp only [connect, Option.isSome_none, Bool.false_eq_true, if_false]
      rcases fs with _ | ⟨f, fs⟩
      · rfl
      · cases f <;> try rfl
        simp only [handshake, Trace.pre_provCalls]
        rcases fs with _ | ⟨g, gs⟩
        · rfl
        · cases g <;> try rfl
          rcases st with _ | a
          · rfl
          · simp only [afterStartup]
            cases a.challenge _ with
            | error e => rfl
            | ok r => obtain ⟨resp, next⟩ := r; simp [authLoop_provCalls]
  · refine ⟨?_, ?_, ?_⟩
    · intro a h
      simp only [Spec.credentials] at h
      simp only [connect]
      cases hf : f host with
      | auth b => rw [hf] at h; cases h; exact ⟨rfl, rfl, rfl⟩
      | err b => rw [hf] at h; cases h
    · intro h
      simp only [Spec.credentials] at h
      simp only [connect]
      cases hf : f host with
      | auth b => rw [hf] at h; cases h
      | err b => exact ⟨rfl, rfl, rfl⟩
    · simp only [connect, Option.isSome_some, if_true]
      cases f host <;> rfl

/-- THE CLAUSE OF THE PROPERTY: "a server that demands authentication from a client configured without credentials
    gets an error, never an unauthenticated session" — for every configuration that has no credentials for the host
    being dialled (nothing configured at all, OR an AuthProvider that hands out no authenticator for this host,
    whatever it hands out for other hosts), every class name and every server frame sequence:
    no AUTH_RESPONSE is ever written, no Challenge/Success call is made (there is nothing to call them on), the
    process does not die, AUTHENTICATE is answered by the error "authentication required" after exactly OPTIONS and
    STARTUP, and `ready` is reached only through SUPPORTED, READY. -/
theorem C20_no_credentials_no_session (cfg : AuthCfg) (host : Nat) (fs : List SFrame)
    (h : Spec.credentials cfg host = some none) :
    (∀ tok, Sent.authResponse tok ∉ (connect cfg host fs).sent) ∧
    (connect cfg host fs).calls = [] ∧
    (connect cfg host fs).outcome ≠ .crash ∧
    ((connect cfg host fs).outcome = .ready → ∃ tl, fs = .supported :: .ready :: tl) ∧
    (∀ cls rest, fs = .supported :: .authenticate cls :: rest →
      (connect cfg host fs).sent = [.options, .startup] ∧ (connect cfg host fs).outcome = .errAuthRequired) := by
  obtain ⟨hs, hc, ho⟩ := (C20_auth_resolution cfg host fs).1 none h
  obtain ⟨-, hr, hn, hcl, hcr⟩ := C20_no_auth_no_session [] [] fs
  rw [hs, hc, ho]
  refine ⟨hn, hcl, hcr, hr, ?_⟩
  rintro cls rest rfl
  exact ⟨rfl, rfl⟩

/-- Per-host credential disclosure, for every configuration, host and frame sequence: an AUTH_RESPONSE leaves the
    client only if the configuration has credentials for THIS host (`Spec.credentials`), and if those are password
    credentials, only as their PLAIN token in reply to an AUTHENTICATE naming a class approved by THAT authenticator's
    list.  A provider error means nothing at all is sent. -/
theorem C20_credentials_per_host (cfg : AuthCfg) (host : Nat) (fs : List SFrame) (tok : List UInt8)
    (h : Sent.authResponse tok ∈ (connect cfg host fs).sent) :
    ∃ a, Spec.credentials cfg host = some (some a) ∧
      (∀ p, a = .pw p → ∃ cls tl, fs = .supported :: .authenticate cls :: tl ∧ approve cls p.allowed = true ∧
        tok = plainToken p.user p.pass) ∧
      (∀ rs sf, a = .custom rs sf → tok ∈ rs.map (·.resp)) := by
  cases hc : Spec.credentials cfg host with
  | none => rw [((C20_auth_resolution cfg host fs).2.1 hc).1] at h; cases h
  | some oa =>
    rw [((C20_auth_resolution cfg host fs).1 oa hc).1] at h
    rcases oa with _ | a
    · exact absurd h ((C20_no_auth_no_session [] [] fs).2.2.1 tok)
    · refine ⟨a, rfl, ?_, ?_⟩
      · rintro p rfl; exact (C20_credentials_only_if_approved p fs).1 tok h
      · rintro rs sf rfl
        exact (C20_custom_tokens_in_order rs sf fs).subset ((mem_tokens _ _).mpr h)

/-! ## "only after TLS verification as configured" -/

/-- End to end, for every SslOptions (that yield a config), host name, port, server certificate, authenticator and
    server frame sequence: the TLS handshake is accepted exactly when the documented table says "do not verify" or
    the certificate is signed by a CA the client was given (CaPath file, own RootCAs) and is valid for the expected name (the caller's ServerName, else the
    host being dialled); when it is not accepted NOTHING is sent on the connection (no OPTIONS, no credentials) and
    the dial fails; hence an AUTH_RESPONSE leaves the client only after verification as configured.
    (crypto/tls itself is assumed: `tlsAccepts`.) -/
theorem C20_credentials_only_after_verification (o : SslOpts) (hostname port : List UInt8) (cert : ServerCert)
    (auth : Option AuthImpl) (fs : List SFrame) (t : TlsDial) (hp : colon ∉ port)
    (h : dialTLS o hostname port cert auth fs = .ok t) :
    t.accepted = Spec.mayProceed o hostname cert ∧
    (t.accepted = false → t.trace.sent = [] ∧ t.trace.calls = [] ∧ t.trace.outcome = .errTlsVerify) ∧
    (t.accepted = true → t.trace = handshake auth fs) ∧
    (∀ tok, Sent.authResponse tok ∈ t.trace.sent → Spec.mayProceed o hostname cert = true) := by
  have key : t.accepted = Spec.mayProceed o hostname cert ∧
      (t.accepted = false → t.trace = .stop .errTlsVerify) ∧ (t.accepted = true → t.trace = handshake auth fs) := by
    simp only [dialTLS] at h
    cases hs : setupTLSConfig o with
    | error e => rw [hs] at h; cases h
    | ok c =>
      rw [hs] at h
      obtain ⟨h1, h2, h3⟩ := C20_setup_follows_table o c hs
      have hmv : Spec.mustVerify o = !c.insecure := by simp [Spec.mustVerify, h1]
      have hname : c.insecure = false →
          (tlsConfigForAddr c.insecure c.serverName (joinHostPort hostname port)).1 = Spec.expectedName o hostname := by
        intro hi
        simp only [Spec.expectedName, ← h2]
        by_cases he : c.serverName = []
        · rw [(C20_server_name c.insecure c.serverName _).1 hi he, he]
          simp [C20_server_name_of_host hostname port hp]
        · rw [(C20_server_name c.insecure c.serverName _).2 (Or.inr he)]
          simp [he]
      have hacc : tlsAccepts c.insecure (rootsTrust o cert.signer)
          (tlsConfigForAddr c.insecure c.serverName (joinHostPort hostname port)).1 cert = Spec.mayProceed o hostname cert := by
        simp only [tlsAccepts, Spec.mayProceed, hmv, Bool.not_not]
        cases hi : c.insecure
        · have := hname hi
          rw [hi] at this
          simp [this]
        · simp
      simp only [] at h
      rw [hacc] at h
      by_cases hm : Spec.mayProceed o hostname cert = true
      · simp only [hm, if_true] at h; cases h; exact ⟨hm.symm, by simp, fun _ => rfl⟩
      · simp only [hm] at h; cases h
        exact ⟨by simpa using hm, fun _ => rfl, by simp⟩
  obtain ⟨k1, k2, k3⟩ := key
  refine ⟨k1, ?_, k3, ?_⟩
  · intro hf; rw [k2 hf]; exact ⟨rfl, rfl, rfl⟩
  · intro tok hm
    cases ha : t.accepted
    · rw [k2 ha] at hm; cases hm
    · rw [← k1, ha]

/-- non-vacuity: host verification on, CA given; the node presents a certificate for another name → rejected, nothing
    sent; the right certificate → the password token goes out -/
example : (dialTLS ⟨none, true, .valid, .absent, .absent⟩ (strBytes "node-b") (strBytes "9042")
    ⟨[strBytes "node-a"], .fileCA⟩ (some (.pw ⟨[117], [112], []⟩))
    [.supported, .authenticate (strBytes "org.apache.cassandra.auth.PasswordAuthenticator"), .authSuccess []]).toOption =
    some ⟨strBytes "node-b", false, .stop .errTlsVerify⟩ := by decide
example : (dialTLS ⟨none, true, .valid, .absent, .absent⟩ (strBytes "node-b") (strBytes "9042")
    ⟨[strBytes "node-b"], .fileCA⟩ (some (.pw ⟨[117], [112], []⟩))
    [.supported, .authenticate (strBytes "org.apache.cassandra.auth.PasswordAuthenticator"), .authSuccess []]).toOption.map
      (·.trace.sent) = some [.options, .startup, .authResponse [0, 117, 0, 112]] := by decide

/-- `NewSession` refuses a configuration with both an Authenticator and an AuthProvider before dialling anything;
    every other configuration dials and connects as above. -/
theorem C20_session_config (cfg : AuthCfg) (host : Nat) (fs : List SFrame) :
    (cfg.static.isSome = true → cfg.provider.isSome = true → newSession cfg host fs = (.stop .errBoth, 0)) ∧
    ((cfg.static = none ∨ cfg.provider.isNone = true) → newSession cfg host fs = (connect cfg host fs, 1)) := by
  obtain ⟨st, pv⟩ := cfg
  constructor
  · intro h1 h2; simp only at h1 h2; simp [newSession, h1, h2]
  · rintro (h | h) <;> simp only at h <;> simp_all [newSession]

/-- non-vacuity / the seeded family: a provider with credentials for host 7 only, host 1 dialled, server demands
    authentication → error after OPTIONS, STARTUP; host 7 gets the token -/
example : connect ⟨none, some (fun h => if h = 7 then .auth (some (.pw ⟨[117], [112], []⟩)) else .auth none)⟩ 1
    [.supported, .authenticate (strBytes "org.apache.cassandra.auth.PasswordAuthenticator"), .authSuccess []] =
    { sent := [.options, .startup], calls := [], provCalls := [1], outcome := .errAuthRequired } := by decide
example : (connect ⟨none, some (fun h => if h = 7 then .auth (some (.pw ⟨[117], [112], []⟩)) else .auth none)⟩ 7
    [.supported, .authenticate (strBytes "org.apache.cassandra.auth.PasswordAuthenticator"), .authSuccess []]).sent =
    [.options, .startup, .authResponse [0, 117, 0, 112]] := by decide

/-! ## several hosts, one session: the authenticator of a connection is a function of (configuration, host) -/

/-- PER-HOST AUTHENTICATION, for every configuration (static Authenticator, AuthProvider with any host-dependent
    answers, both, neither), every number of hosts, every sequence of connections of one session — pool connections
    through the session-wide `*ConnConfig`, control-connection dials through a copy of it, in every order, hosts
    re-dialled any number of times — and every frame sequence each node answers with:
    (1) the trace of the i-th connection is what ONE connection to that host with that configuration gives
        (`connect cfg host fs`): nothing is carried over from the connections opened before it;
    (2) the session-wide configuration object is the same after the connections as before (`Conn.init` only reads it);
    (3) hence, at every position, the AuthProvider is consulted exactly once and for the host being dialled, and
        every AUTH_RESPONSE that leaves the client is the token of THAT host's own authenticator
        (`Spec.credentials cfg host`), for password credentials only in reply to a class approved by THAT
        authenticator's list. -/
theorem C20_auth_per_host (cfg : AuthCfg) (ds : List Dial) :
    session cfg ds = ds.map (fun d => connect cfg d.host d.fs) ∧
    sessFinal initConn cfg ds = cfg ∧
    (∀ i (hi : i < ds.length) (hj : i < (session cfg ds).length),
      ((session cfg ds)[i]).provCalls = (if cfg.provider.isSome then [ds[i].host] else []) ∧
      ∀ tok, Sent.authResponse tok ∈ ((session cfg ds)[i]).sent →
        ∃ a, Spec.credentials cfg ds[i].host = some (some a) ∧
          (∀ p, a = .pw p → ∃ cls tl, ds[i].fs = .supported :: .authenticate cls :: tl ∧
            approve cls p.allowed = true ∧ tok = plainToken p.user p.pass) ∧
          (∀ rs sf, a = .custom rs sf → tok ∈ rs.map (·.resp))) := by
  obtain ⟨h1, h2⟩ := sessRun_readonly initConn (fun _ _ _ => rfl) cfg ds
  have h1' : session cfg ds = ds.map (fun d => connect cfg d.host d.fs) := h1
  refine ⟨h1', h2, ?_⟩
  intro i hi hj
  have he : (session cfg ds)[i] = connect cfg ds[i].host ds[i].fs := by
    simp [h1']
  rw [he]
  exact ⟨(C20_auth_resolution cfg ds[i].host ds[i].fs).2.2,
    fun tok hm => C20_credentials_per_host cfg ds[i].host ds[i].fs tok hm⟩

/-- The same in terms of what each NODE observes, for the nodes of the scenarios (a node demands authentication
    advertising its own authenticator class and accepts the first token, or demands none): for every configuration
    and every sequence of (pool | control, host, node), the observation of every connection — provider consulted for,
    first token received, connection established — is `Spec.expectFor cfg host node`: the token ITS authenticator
    would send and only if ITS allow-list approves the advertised class.  (`Spec.expectFor` is written without the
    handshake code; this theorem makes the op `sessauth` spec-backed.) -/
theorem C20_session_observations (cfg : AuthCfg) (ds : List (Via × Nat × Spec.Node)) :
    (session cfg (ds.map (fun d => ⟨d.1, d.2.1, d.2.2.script⟩))).map observe =
      ds.map (fun d => Spec.expectFor cfg d.2.1 d.2.2) := by
  rw [(C20_auth_per_host cfg _).1, List.map_map, List.map_map]
  apply List.map_congr_left
  rintro ⟨via, host, n⟩ -
  obtain ⟨hres, herr, hprov⟩ := C20_auth_resolution cfg host n.script
  simp only [Function.comp, observe, Spec.expectFor, hprov]
  cases hc : Spec.credentials cfg host with
  | none =>
    obtain ⟨hs, -, ho⟩ := herr hc
    simp [hs, ho, firstToken]
  | some a =>
    obtain ⟨hs, -, ho⟩ := hres a hc
    obtain ⟨ht, hr⟩ := observe_handshake_node a n
    simp only [hs, ho, ht, hr]
    cases n with
    | noauth => simp
    | auth cls =>
      rcases a with _ | a
      · simp
      · cases a with
        | pw p => by_cases ha : approve cls p.allowed = true <;> simp [ha]
        | custom rs sf =>
          rcases rs with _ | ⟨r, rs⟩
          · simp
          · by_cases hf : r.fail = true
            · simp [hf]
            · cases hl : r.last <;> cases sf <;> simp [hf]

/-- COUNTEREXAMPLE for the pinned variant (`initPinned`: `Conn.init` stores the authenticator obtained from the
    AuthProvider in the configuration object it was handed, and later connections find it there): a provider with
    alice's credentials (allow-list: class A only) for host 1 and bob's (class B only) for host 2, both nodes
    advertise class A; pool connection to host 1, then to host 2.  The second node receives ALICE's token although
    host 2's own authenticator does not approve class A (the property demands: no token, no session) — and a
    control-connection dial made after the pool connection carries the pin too, whereas one made before does not.
    `session` (the code that exists) gives the demanded observations on the same input. -/
theorem C20_cex_pinned_auth :
    let clsA := strBytes "A"
    let clsB := strBytes "B"
    let cfg : AuthCfg := ⟨none, some (fun h => if h = 1 then .auth (some (.pw ⟨[97], [49], [clsA]⟩))
                                               else .auth (some (.pw ⟨[98], [50], [clsB]⟩)))⟩
    let nodeA := (Spec.Node.auth clsA).script
    (sessRun initPinned cfg [⟨.pool, 1, nodeA⟩, ⟨.pool, 2, nodeA⟩]).map observe =
      [⟨[1], some [0, 97, 0, 49], true⟩, ⟨[], some [0, 97, 0, 49], true⟩] ∧
    (session cfg [⟨.pool, 1, nodeA⟩, ⟨.pool, 2, nodeA⟩]).map observe =
      [⟨[1], some [0, 97, 0, 49], true⟩, ⟨[2], none, false⟩] ∧
    [Spec.expectFor cfg 1 (.auth clsA), Spec.expectFor cfg 2 (.auth clsA)] =
      [⟨[1], some [0, 97, 0, 49], true⟩, ⟨[2], none, false⟩] ∧
    (sessRun initPinned cfg [⟨.control, 2, nodeA⟩, ⟨.pool, 1, nodeA⟩, ⟨.control, 2, nodeA⟩]).map observe =
      [⟨[2], none, false⟩, ⟨[1], some [0, 97, 0, 49], true⟩, ⟨[], some [0, 97, 0, 49], true⟩] := by
  decide

/-- where the pinned variant and the code agree (why single-host, static-Authenticator and host-independent-provider
    runs cannot tell them apart): with a static Authenticator and no provider, for every sequence of connections -/
theorem C20_pinned_same_without_provider (st : Option AuthImpl) (ds : List Dial) :
    sessRun initPinned ⟨st, none⟩ ds = session ⟨st, none⟩ ds := by
  have hro : ∀ c h fs, c.provider = none → initPinned c h fs = (c, handshake c.static fs) := by
    intro c h fs hp
    obtain ⟨s, p⟩ := c
    simp only at hp
    subst hp
    cases s <;> rfl
  induction ds with
  | nil => rfl
  | cons d ds ih =>
    have h1 : sessStep initPinned ⟨st, none⟩ d = (⟨st, none⟩, handshake st d.fs) := by
      simp only [sessStep, hro ⟨st, none⟩ d.host d.fs rfl]
      cases d.via <;> rfl
    have h2 : sessStep initConn ⟨st, none⟩ d = (⟨st, none⟩, handshake st d.fs) := by
      simp only [sessStep, initConn, connect]
      cases d.via <;> rfl
    simp only [session, sessRun, h1, h2]
    exact congrArg _ ih

/-! ## every dialer configuration: HostDialer / Dialer / defaults × SslOpts; several dials, one shared tls.Config -/

/-- the acceptance decision of a dial through the derived config is the specification's `mayProceed` -/
theorem accepts_eq_mayProceed (o : SslOpts) (t : OutCfg) (hs : setupTLSConfig o = .ok t) (name port : List UInt8)
    (cert : ServerCert) (hp : colon ∉ port) :
    tlsAccepts t.insecure (rootsTrust o cert.signer)
      (tlsConfigForAddr t.insecure t.serverName (joinHostPort name port)).1 cert = Spec.mayProceed o name cert := by
  by_cases ha : tlsAccepts t.insecure (rootsTrust o cert.signer)
      (tlsConfigForAddr t.insecure t.serverName (joinHostPort name port)).1 cert = true
  · have h : dialTLS o name port cert none [] =
        .ok ⟨(tlsConfigForAddr t.insecure t.serverName (joinHostPort name port)).1, true, handshake none []⟩ := by
      simp [dialTLS, hs, ha]
    have := (C20_credentials_only_after_verification _ _ _ _ _ _ _ hp h).1
    rw [ha]; exact this
  · have h : dialTLS o name port cert none [] =
        .ok ⟨(tlsConfigForAddr t.insecure t.serverName (joinHostPort name port)).1, false, .stop .errTlsVerify⟩ := by
      simp [dialTLS, hs, ha]
    have := (C20_credentials_only_after_verification _ _ _ _ _ _ _ hp h).1
    rw [Bool.not_eq_true] at ha
    rw [ha]; exact this

/-- the name handed to crypto/tls when the documented table says "verify" -/
theorem serverName_when_verifying (o : SslOpts) (t : OutCfg) (hs : setupTLSConfig o = .ok t) (name port : List UInt8)
    (hp : colon ∉ port) (hv : Spec.mustVerify o = true) :
    (tlsConfigForAddr t.insecure t.serverName (joinHostPort name port)).1 = Spec.expectedName o name := by
  obtain ⟨h1, h2, -⟩ := C20_setup_follows_table o t hs
  have hi : t.insecure = false := by
    have : Spec.mustVerify o = !t.insecure := by simp [Spec.mustVerify, h1]
    rw [this] at hv
    simpa using hv
  simp only [Spec.expectedName, ← h2]
  by_cases he : t.serverName = []
  · rw [(C20_server_name t.insecure t.serverName _).1 hi he, he]
    simp [C20_server_name_of_host name port hp]
  · rw [(C20_server_name t.insecure t.serverName _).2 (Or.inr he)]
    simp [he]

/-- EVERY DIALER.  For every cluster configuration (HostDialer set or not, Dialer set or not, SslOpts absent or any
    options and files), every host (hostname or none, IPv4 / IPv6 connect address, any port text without a colon),
    every certificate the node presents:
    (1) the `Dialer` field never changes what is dialled or how it is wrapped (a caller's TCP dialer cannot switch
        TLS off);
    (2) a caller's `HostDialer` is the only thing called — SslOpts (and its files) are not even looked at
        (documented: "SslOpts is ignored if HostDialer is set");
    (3) otherwise bad CA / key-pair files are an error before anything is dialled;
    (4) otherwise the TCP dial goes to the CONNECT ADDRESS (never the hostname), and what the node sees and the caller
        gets is `Spec.dialDemand`: with SslOpts a TLS handshake is started on EVERY connection and the connection is
        handed on exactly when `Spec.mayProceed` (documented table, expected name = ServerName else the host's
        name, the CAs the client was given); without SslOpts the connection is plain and coalescing stays allowed;
        when verifying, the ServerName handed to crypto/tls is the expected name; a node the caller's own verification
        callback rejects is never handed on when the caller supplied a Config (the derived config still carries it). -/
theorem C20_every_dialer (c : DialCfg) (d : DialTry) :
    (∀ b, dialHost { c with dialer := b } d = dialHost c d) ∧
    (c.hostDialer = true → dialHost c d = .ok ⟨none, none, .caller⟩) ∧
    (∀ o e, c.hostDialer = false → c.ssl = some o → setupTLSConfig o = .error e → dialHost c d = .error e) ∧
    (∀ ip obs, c.hostDialer = false → d.host.ip = some ip → d.host.port ≠ [48] → colon ∉ d.host.port →
      d.dialOk = true → dialHost c d = .ok obs →
        obs.tcp = some (joinHostPort ip d.host.port) ∧
        obs.demand = Spec.dialDemand c.ssl d.host.name d.cert d.veto ∧
        (c.ssl = none → obs.res = .plain) ∧
        (∀ o, c.ssl = some o → obs.res ≠ .plain ∧
          (Spec.mustVerify o = true → obs.serverName = some (Spec.expectedName o d.host.name)))) := by
  refine ⟨?_, ?_, ?_, ?_⟩
  · intro b
    simp only [dialHost, connConfig_dialer c b]
    cases connConfig c with
    | error e => rfl
    | ok k => cases k <;> rfl
  · intro h
    simp [dialHost, connConfig, h]
  · intro o e hh hs he
    simp [dialHost, connConfig, hh, hs, he]
  · intro ip obs hh hip hport hp hok h
    obtain ⟨hd, dl, ssl⟩ := c
    simp only at hh
    subst hh
    cases ssl with
    | none =>
      simp only [dialHost, connConfig, Bool.false_eq_true, if_false, dialDefault, hip, hport, hok, Bool.not_true,
        Except.ok.injEq] at h
      subst h
      exact ⟨rfl, rfl, fun _ => rfl, fun o ho => by cases ho⟩
    | some o =>
      cases hs : setupTLSConfig o with
      | error e => simp [dialHost, connConfig, hs] at h
      | ok t =>
        have hacc := accepts_eq_mayProceed o t hs d.host.name d.host.port d.cert hp
        simp only [dialHost, connConfig, Bool.false_eq_true, if_false, hs, dialDefault, hip, hport, hok, Bool.not_true,
          wrapCode, trustOf, cbOf, hacc, Except.ok.injEq] at h
        subst h
        refine ⟨rfl, ?_, (fun h => by cases h), ?_⟩
        · cases hm : Spec.mayProceed o d.host.name d.cert <;> cases hc : o.cfg <;> cases hv : d.veto <;>
            simp [DialObs.demand, Spec.dialDemand, hm, hc, hv]
        · intro o' ho'
          cases ho'
          refine ⟨?_, fun hv => ?_⟩
          · cases hm : Spec.mayProceed o d.host.name d.cert <;> cases hc : o.cfg <;> cases hv : d.veto <;> simp [hc, hv]
          · simp only [serverName_when_verifying o t hs d.host.name d.host.port hp hv]

/-- non-vacuity: the caller's own Dialer, host verification on, CA given: node b presenting node a's certificate is
    refused after a TLS handshake was started; the TCP dial went to the address, the name checked is the host's -/
example : (dialHost ⟨false, true, some ⟨none, true, .valid, .absent, .absent⟩⟩
    ⟨⟨strBytes "b", some (strBytes "10.0.0.2"), strBytes "9042"⟩, true, ⟨[strBytes "a"], .fileCA⟩, false⟩).toOption =
    some ⟨some (strBytes "10.0.0.2:9042"), some (strBytes "b"), .errTls⟩ := by decide
example : (dialHost ⟨false, false, none⟩
    ⟨⟨strBytes "b", some (strBytes "::1"), strBytes "9042"⟩, true, ⟨[], .rogue⟩, false⟩).toOption =
    some ⟨some (strBytes "[::1]:9042"), none, .plain⟩ := by decide

/-- non-vacuity: the caller's Config (InsecureSkipVerify even) with a callback that rejects the node: refused -/
example : (dialHost ⟨false, false, some ⟨some ⟨true, [], false, 0⟩, false, .absent, .absent, .absent⟩⟩
    ⟨⟨strBytes "b", some (strBytes "10.0.0.2"), strBytes "9042"⟩, true, ⟨[strBytes "b"], .rogue⟩, true⟩).toOption.map (·.res) =
    some .errTls := by decide

/-- SEVERAL DIALS, ONE SHARED tls.Config.  For every configuration and every sequence of dials of one session's
    dialer (any hosts in any order, re-dials, failing TCP dials, hosts without address or port in between):
    (1) the i-th dial is what ONE dial of that host with that configuration gives (`dialHost`): no server name, no
        verification setting is carried over from the dials made before it;
    (2) the dialer's `*tls.Config` is the same after the dials as before (`tlsConfigForAddr` writes to a clone);
    (3) hence, for the dials that reach a node, what every node sees and every caller gets is `Spec.dialDemand` of
        THAT host — a function of (configuration, host, certificate).  (This makes the op `dialsec` spec-backed.) -/
theorem C20_tls_per_dial (c : DialCfg) (ds : List DialTry) (obs : List DialObs) (h : dialAll c ds = .ok obs) :
    obs.length = ds.length ∧
    (∀ i (hi : i < ds.length) (hj : i < obs.length), dialHost c ds[i] = .ok obs[i]) ∧
    (∀ b tls, connConfig c = .ok (.dflt b tls) → dialFinal wrapCode (trustOf c) (cbOf c) tls ds = tls) ∧
    (c.hostDialer = false →
      (∀ d ∈ ds, d.host.ip.isSome = true ∧ d.host.port ≠ [48] ∧ colon ∉ d.host.port ∧ d.dialOk = true) →
      obs.map DialObs.demand = ds.map (fun d => Spec.dialDemand c.ssl d.host.name d.cert d.veto)) := by
  have key : obs.length = ds.length ∧
      (∀ i (hi : i < ds.length) (hj : i < obs.length), dialHost c ds[i] = .ok obs[i]) := by
    simp only [dialAll] at h
    cases hc : connConfig c with
    | error e => rw [hc] at h; cases h
    | ok k =>
      rw [hc] at h
      cases k with
      | caller =>
        simp only [Except.ok.injEq] at h
        subst h
        exact ⟨by simp, fun i hi hj => by simp [dialHost, hc]⟩
      | dflt b tls =>
        simp only [Except.ok.injEq] at h
        subst h
        rw [(dialSeq_readonly wrapCode wrapCode_readonly (trustOf c) (cbOf c) tls ds).1]
        exact ⟨by simp, fun i hi hj => by simp [dialHost, hc]⟩
  refine ⟨key.1, key.2, ?_, ?_⟩
  · intro b tls _
    exact (dialSeq_readonly wrapCode wrapCode_readonly (trustOf c) (cbOf c) tls ds).2
  · intro hh hv
    apply List.ext_getElem
    · simp [key.1]
    · intro i h1 h2
      simp only [List.length_map] at h1 h2
      simp only [List.getElem_map]
      have hd := hv ds[i] (List.getElem_mem h2)
      obtain ⟨ip, hip⟩ := Option.isSome_iff_exists.mp hd.1
      exact ((C20_every_dialer c ds[i]).2.2.2 ip obs[i] hh hip hd.2.1 hd.2.2.1 hd.2.2.2 (key.2 i h2 h1)).2.1

/-- COUNTEREXAMPLE for the pinned variant (`wrapPinned`: the server name is filled in on the dialer's shared config
    instead of a per-dial clone): no SslOptions.Config, host verification on, CA given; host "a" is dialled first,
    then host "b", whose node presents a certificate valid for "a" only (signed by the same CA — e.g. node a's own
    certificate on another machine).  The pinned variant checks the second node against the name "a" and ACCEPTS
    it; the code that exists checks it against "b" and refuses, as `Spec.dialDemand` demands. -/
theorem C20_cex_pinned_server_name :
    let o : SslOpts := ⟨none, true, .valid, .absent, .absent⟩
    let c : DialCfg := ⟨false, false, some o⟩
    let certA : ServerCert := ⟨[strBytes "a"], .fileCA⟩
    let da : DialTry := ⟨⟨strBytes "a", some (strBytes "10.0.0.1"), strBytes "9042"⟩, true, certA, false⟩
    let db : DialTry := ⟨⟨strBytes "b", some (strBytes "10.0.0.2"), strBytes "9042"⟩, true, certA, false⟩
    (dialSeq wrapPinned (trustOf c) (cbOf c) (some ⟨false, [], true, 0, false⟩) [da, db]).map (·.res) = [.tls, .tls] ∧
    (dialAll c [da, db]).toOption.map (·.map (·.res)) = some [.tls, .errTls] ∧
    [Spec.dialDemand c.ssl da.host.name da.cert false, Spec.dialDemand c.ssl db.host.name db.cert false] =
      [⟨true, true⟩, ⟨true, false⟩] ∧
    (dialAll c [db, da]).toOption.map (·.map (·.res)) = some [.errTls, .tls] := by
  decide


/-! ## the credentials influence nothing but the token -/

/-- NON-INTERFERENCE.  Two password authenticators with the same allow-list but ANY user names and passwords give,
    for every server frame sequence, the same connection attempt up to the bytes of the PLAIN token: the same
    requests in the same order, the same calls, the same outcome.  So nothing the driver reports about an attempt —
    the error it returns, the lines its logger prints (all of them functions of the outcome and of what the SERVER
    sent) — can depend on the user name or the password; the only place they go is the AUTH_RESPONSE body. -/
theorem C20_credentials_noninterference (p p' : PwAuth) (ha : p.allowed = p'.allowed) (fs : List SFrame) :
    (handshake (some (.pw p)) fs).redact = (handshake (some (.pw p')) fs).redact := by
  rcases fs with _ | ⟨f, fs⟩
  · rfl
  · cases f <;> try rfl
    rcases fs with _ | ⟨g, gs⟩
    · rfl
    · cases g <;> try rfl
      rename_i cls
      simp only [handshake, afterStartup, AuthImpl.challenge, challenge, ha]
      by_cases h : approve cls p'.allowed = true <;> simp [h, Trace.redact, Trace.pre, Sent.redact]

/-- … and so for every sequence of connections of a session (pool / control, any hosts, any order) -/
theorem C20_session_noninterference (p p' : PwAuth) (ha : p.allowed = p'.allowed) (ds : List Dial) :
    (session ⟨some (.pw p), none⟩ ds).map Trace.redact = (session ⟨some (.pw p'), none⟩ ds).map Trace.redact := by
  rw [(C20_auth_per_host _ ds).1, (C20_auth_per_host _ ds).1, List.map_map, List.map_map]
  apply List.map_congr_left
  intro d _
  exact C20_credentials_noninterference p p' ha d.fs

/-- non-vacuity: the tokens themselves do differ -/
example : handshake (some (.pw ⟨[97], [49], []⟩))
      [.supported, .authenticate (strBytes "org.apache.cassandra.auth.PasswordAuthenticator"), .authSuccess []] ≠
    handshake (some (.pw ⟨[98], [50], []⟩))
      [.supported, .authenticate (strBytes "org.apache.cassandra.auth.PasswordAuthenticator"), .authSuccess []] := by decide


/-! ## histories in one process: sessions over time, tokens held across further Challenge calls -/

/-- one session: the verdict of the derived config is the property's demand on the option values it was derived from -/
theorem verdict_setup (o : SslOpts) : verdictOf (setupTLSConfig o) = Spec.sessionVerdict o := by
  obtain ⟨cfg, ehv, ca, cert, key⟩ := o
  rcases cfg with _ | ⟨i, sn, r, n⟩ <;> cases ehv <;> (try cases i) <;> cases ca <;> cases cert <;> cases key <;>
    simp [verdictOf, setupTLSConfig, keyPairLoads, Spec.sessionVerdict, Spec.mustVerify, Spec.documented, Spec.docRows]

/-- HISTORY INDEPENDENCE.  For every sequence of sessions created in one process and every way the option values
    change in between (the same caller tls.Config with InsecureSkipVerify / ServerName flipped back and forth, the
    same paths with files rewritten, removed, repaired, EnableHostVerification toggled): the dial config of the k-th
    session is `setupTLSConfig` of the values AT THAT MOMENT — a function of the current values only — and so its
    verdict is the property's demand on those values: bad files are an error every time they are bad, otherwise the
    documented table decides every time.  (This makes the op `tlshist` spec-backed.) -/
theorem C20_config_history_independent (os : List SslOpts) :
    histRun deriveCode () os = os.map setupTLSConfig ∧
    (histRun deriveCode () os).map verdictOf = os.map Spec.sessionVerdict := by
  have h := histRun_stateless deriveCode setupTLSConfig (fun _ _ => rfl) () os
  refine ⟨h, ?_⟩
  rw [h, List.map_map]
  exact List.map_congr_left (fun o _ => verdict_setup o)

/-- COUNTEREXAMPLE for the cached variant (`deriveCached`: the config derived the first time "the same options" —
    same Config object, same paths, same EnableHostVerification — are seen is kept): the caller's Config is
    InsecureSkipVerify=true for the first session and false for the second → the second session still does not
    verify; a CA file that is valid for the first session and unreadable for the second is not reported.  The code
    that exists gives the demanded verdicts on the same histories. -/
theorem C20_cex_cached_config :
    let o1 : SslOpts := ⟨some ⟨true, [], false, 0⟩, false, .absent, .absent, .absent⟩
    let o2 : SslOpts := ⟨some ⟨false, [], false, 0⟩, false, .absent, .absent, .absent⟩
    let c1 : SslOpts := ⟨none, true, .valid, .absent, .absent⟩
    let c2 : SslOpts := ⟨none, true, .unreadable, .absent, .absent⟩
    (histRun deriveCached [] [o1, o2]).map verdictOf = [.noverify, .noverify] ∧
    (histRun deriveCode () [o1, o2]).map verdictOf = [.noverify, .verify] ∧
    [Spec.sessionVerdict o1, Spec.sessionVerdict o2] = [.noverify, .verify] ∧
    (histRun deriveCached [] [c1, c2]).map verdictOf = [.verify, .verify] ∧
    (histRun deriveCode () [c1, c2]).map verdictOf = [.verify, .error] := by decide

/-- RETURNED-BUFFER INDEPENDENCE.  For every sequence of `Challenge` calls on any password authenticators (any
    credentials, allow-lists, class names — several connections, several hosts, interleaved in any order), with every
    caller still holding the slice it was returned: what each caller reads in its token AFTER all the calls is the
    PLAIN token of ITS OWN authenticator (or nothing, if that call was refused) — no later call touches an earlier
    caller's bytes.  Together with C20_credentials_per_host: the AUTH_RESPONSE body built from a held token is the
    own host's token however many other handshakes ran in between.  (Makes `tokalias` / `tokpar` spec-backed.) -/
theorem C20_tokens_not_aliased (cs : List ChalCall) :
    held (chalRun placeCode [] [] cs) = cs.map (fun c => challenge c.1 c.2) ∧
    (∀ i (hi : i < cs.length) (hj : i < (held (chalRun placeCode [] [] cs)).length) t,
      (held (chalRun placeCode [] [] cs))[i] = some t →
        approve cs[i].2 cs[i].1.allowed = true ∧ t = plainToken cs[i].1.user cs[i].1.pass) := by
  have h := chalRun_fresh cs [] [] (by intro w hw; cases hw)
  simp only [held, List.map_nil, List.nil_append] at h
  have h' : held (chalRun placeCode [] [] cs) = cs.map (fun c => challenge c.1 c.2) := h
  refine ⟨h', ?_⟩
  intro i hi hj t ht
  simp only [h', List.getElem_map] at ht
  unfold challenge at ht
  split at ht
  · rename_i ha; cases ht; exact ⟨ha, rfl⟩
  · cases ht

/-- COUNTEREXAMPLE for the pooled variant (`placePooled`: one scratch buffer re-used by every call while the
    returned slices still point into it): alice's Challenge, then bob's; alice's caller now reads BOB's bytes
    (cut to the length of her token) — what would go into the AUTH_RESPONSE for alice's node. -/
theorem C20_cex_pooled_token :
    let alice : PwAuth := ⟨[97, 108], [49, 49], []⟩
    let bob : PwAuth := ⟨[98, 111], [50, 50], []⟩
    let cls := strBytes "org.apache.cassandra.auth.PasswordAuthenticator"
    held (chalRun placePooled [] [] [(alice, cls), (bob, cls)]) =
      [some [0, 98, 111, 0, 50, 50], some [0, 98, 111, 0, 50, 50]] ∧
    held (chalRun placeCode [] [] [(alice, cls), (bob, cls)]) =
      [some [0, 97, 108, 0, 49, 49], some [0, 98, 111, 0, 50, 50]] := by decide


end C20
