import Model.TlsAuth
/-!
# C20 — TLS verification table and credential disclosure (property theorems)
-/
namespace C20
open TlsAuth

/-- the derived config verifies the server exactly in the documented cases — the whole finite domain -/
theorem C20_table (cfg : Option Bool) (ehv : Bool) :
    Spec.documented cfg ehv = some (!effectiveInsecure cfg ehv) := by
  rcases cfg with _ | _ | _ <;> cases ehv <;> decide

end C20
