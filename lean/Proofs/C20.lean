import Model.TlsAuth
import Proofs.C20Lemmas
/-!
# C20 — TLS verification and credential disclosure are exactly as documented (property theorems)

Model: `Model/TlsAuth.lean` (hand-written from connectionpool.go `setupTLSConfig`, dial.go `tlsConfigForAddr`,
conn.go `approve` / `PasswordAuthenticator.Challenge` / `options` / `startup` / `authenticateHandshake`; tied to the
source by the differential run of `harness/cmd/c20`, which also reads the three copies of the documented table out
of doc.go / conn.go / connectionpool.go and compares them with `TlsAuth.Spec.docRows`).
-/
namespace C20
open TlsAuth

/-! ## the verification table -/

/-- The derived config verifies the server exactly in the documented cases.  The quantifier is the whole finite
    domain (Config nil / InsecureSkipVerify false / true) × (EnableHostVerification false / true). -/
theorem C20_table (cfg : Option Bool) (ehv : Bool) :
    Spec.documented cfg ehv = some (!effectiveInsecure cfg ehv) := by
  rcases cfg with _ | _ | _ <;> cases ehv <;> decide

/-- every documented row, one by one, and the rows cover each combination exactly once -/
theorem C20_table_rows :
    (∀ r ∈ Spec.docRows, (!effectiveInsecure r.1 r.2.1) = r.2.2) ∧
    (Spec.docRows.map (fun r => (r.1, r.2.1))).Nodup ∧ Spec.docRows.length = 6 := by decide

/-- The table holds for what `setupTLSConfig` actually returns, whatever the other fields of the caller's config
    and whatever the files: if a config is returned, its InsecureSkipVerify is the documented one, the caller's
    ServerName is kept, and (plain English of the table) a config is insecure only if the caller asked for it:
    no Config and no EnableHostVerification, or Config.InsecureSkipVerify without EnableHostVerification. -/
theorem C20_setup_follows_table (o : SslOpts) (c : OutCfg) (h : setupTLSConfig o = .ok c) :
    Spec.documented (o.cfg.map (·.insecure)) o.enableHostVerification = some (!c.insecure) ∧
    c.serverName = (o.cfg.map (·.serverName)).getD [] ∧
    (c.insecure = true ↔ (o.enableHostVerification = false ∧ (o.cfg = none ∨ ∃ u, o.cfg = some u ∧ u.insecure = true))) := by
  obtain ⟨cfg, ehv, ca, cert, key⟩ := o
  rcases cfg with _ | ⟨i, sn, r, n⟩ <;> cases ehv <;> (try cases i) <;> cases ca <;> cases cert <;> cases key <;>
    simp [setupTLSConfig, keyPairLoads] at h <;> subst h <;> simp [Spec.documented, Spec.docRows]

example : ∃ c, setupTLSConfig ⟨none, true, .valid, .valid, .valid⟩ = .ok c ∧ c.insecure = false := ⟨_, rfl, rfl⟩

/-! ## the caller's own tls.Config -/

/-- FULL STATEMENT (false for the unchanged code): "`setupTLSConfig` leaves every object reachable from the
    caller's tls.Config untouched".  The scalar settings (InsecureSkipVerify, ServerName) are written on a
    `Clone()`; that is checked on the real code by the harness for every combination (any write shows up as an
    `ALIAS:` answer the model never gives).  But `Clone()` copies the RootCAs POINTER and the Certificates slice
    header: with CaPath set the CA file is appended to the caller's own pool, and with a key pair and spare
    capacity the new certificate is stored in the caller's backing array.
    Proved part: nothing of the caller's is written unless the caller supplied a RootCAs pool together with a
    (valid) CaPath, resp. a Certificates slice with spare capacity together with a key pair. -/
theorem C20_caller_config_untouched_partial (o : SslOpts) (spare : Bool)
    (h : o.ca ≠ .valid ∨ ∀ u, o.cfg = some u → u.hasRootCAs = false)
    (h' : spare = false ∨ (o.cert = .absent ∧ o.key = .absent)) :
    callerPoolMutated o = false ∧ callerBackingWritten o spare = false := by
  obtain ⟨cfg, ehv, ca, cert, key⟩ := o
  constructor
  · rcases cfg with _ | ⟨i, sn, r, n⟩
    · rfl
    · rcases h with h | h
      · simp only at h; simp [callerPoolMutated, h]
      · have := h _ rfl
        simp only at this; simp [callerPoolMutated, this]
  · rcases h' with rfl | ⟨h1, h2⟩
    · simp [callerBackingWritten]
    · simp only at h1 h2; subst h1; subst h2; simp [callerBackingWritten]

/-- counterexample: Config with its own RootCAs + CaPath ⇒ the caller's pool object grows (replayed on the real
    code by the op `tls I0S0R1C0 1 valid absent absent 0` → `… callerpool=grew`) -/
theorem C20_cex_caller_pool :
    callerPoolMutated ⟨some ⟨false, [], true, 0⟩, true, .valid, .absent, .absent⟩ = true := by decide

theorem C20_cex_caller_backing :
    callerBackingWritten ⟨some ⟨false, [], false, 1⟩, true, .absent, .valid, .valid⟩ true = true := by decide

/-! ## the server name -/

/-- When verifying without an explicit name, the name is the host part of the dialled address (everything before
    the LAST colon; the whole string if there is none) on a clone; otherwise the caller's config is used as is. -/
theorem C20_server_name (insecure : Bool) (serverName addr : List UInt8) :
    (insecure = false → serverName = [] → tlsConfigForAddr insecure serverName addr = (hostPart addr, true)) ∧
    ((insecure = true ∨ serverName ≠ []) → tlsConfigForAddr insecure serverName addr = (serverName, false)) := by
  constructor
  · rintro rfl rfl; rfl
  · rintro (rfl | h)
    · rfl
    · cases insecure <;> cases serverName <;> simp_all [tlsConfigForAddr]

/-- what "the host part" is: the split at the last colon -/
theorem C20_host_part (addr : List UInt8) :
    (colon ∉ addr ∧ hostPart addr = addr) ∨
    (∃ port, addr = hostPart addr ++ colon :: port ∧ colon ∉ port) := by
  unfold hostPart
  cases h : beforeLastColon addr with
  | none => exact Or.inl ⟨beforeLastColon_none_iff addr h, rfl⟩
  | some p => exact Or.inr (by simpa using beforeLastColon_some addr p h)

/-- For the address the default dialer passes (`net.JoinHostPort(hostname, port)`): a name or IPv4 literal is
    the server name itself; an IPv6 literal (anything containing a colon) is used IN BRACKETS — as produced;
    crypto/x509 strips the brackets when matching IP SANs. -/
theorem C20_server_name_of_host (host port : List UInt8) (hp : colon ∉ port) :
    hostPart (joinHostPort host port) = if host.contains colon then [91] ++ host ++ [93] else host := by
  unfold joinHostPort
  split
  · have : [91] ++ host ++ [93] ++ [colon] ++ port = ([91] ++ host ++ [93]) ++ colon :: port := by simp
    rw [this, hostPart_split _ _ hp]
  · have : host ++ [colon] ++ port = host ++ colon :: port := by simp
    rw [this, hostPart_split _ _ hp]

example : hostPart (strBytes "[2001:db8::1]:9042") = strBytes "[2001:db8::1]" := by decide
example : hostPart (strBytes "cassandra-1.example.com:9042") = strBytes "cassandra-1.example.com" := by decide

/-! ## files -/

/-- A CA path or key-pair path that is given and unreadable / unparsable / not a pair is an error — never a
    config without it; and a config is returned exactly when every given file is good. -/
theorem C20_bad_files_error (o : SslOpts) :
    ((∃ c, setupTLSConfig o = .ok c) ↔
      ((o.ca = .absent ∨ o.ca = .valid) ∧ ((o.cert = .absent ∧ o.key = .absent) ∨ keyPairLoads o.cert o.key = true))) ∧
    (o.ca = .unreadable → setupTLSConfig o = .error .caOpen) ∧
    ((o.ca = .unparsable ∨ o.ca = .foreign) → setupTLSConfig o = .error .caParse) ∧
    ((o.ca = .absent ∨ o.ca = .valid) → (o.cert ≠ .absent ∨ o.key ≠ .absent) → keyPairLoads o.cert o.key = false →
      setupTLSConfig o = .error .keyPair) := by
  obtain ⟨cfg, ehv, ca, cert, key⟩ := o
  refine ⟨?_, ?_, ?_, ?_⟩ <;> cases ca <;> cases cert <;> cases key <;> simp [setupTLSConfig, keyPairLoads]

/-- a good CA file ends up in the pool, a good pair is appended to the certificates -/
theorem C20_good_files_used (o : SslOpts) (c : OutCfg) (h : setupTLSConfig o = .ok c) :
    (o.ca = .valid → c.hasRootCAs = true) ∧
    ((o.cert ≠ .absent ∨ o.key ≠ .absent) → c.nCerts = (o.cfg.map (·.nCerts)).getD 0 + 1) := by
  obtain ⟨cfg, ehv, ca, cert, key⟩ := o
  rcases cfg with _ | ⟨i, sn, r, n⟩ <;> cases ca <;> cases cert <;> cases key <;>
    simp [setupTLSConfig, keyPairLoads] at h <;> subst h <;> simp <;> split <;> rfl

/-! ## credentials -/

/-- SASL PLAIN: the token is 0 ‖ user ‖ 0 ‖ password, byte for byte (non-ASCII preserved), and determines
    (user, password) whenever the user name is NUL-free. -/
theorem C20_plain_token (user pass : List UInt8) :
    plainToken user pass = [0] ++ user ++ [0] ++ pass ∧
    (plainToken user pass).length = 2 + user.length + pass.length ∧
    ((0 : UInt8) ∉ user → Spec.decodePlain (plainToken user pass) = some (user, pass)) := by
  refine ⟨by simp [plainToken], by simp [plainToken]; omega, decodePlain_plainToken user pass⟩

example : plainToken (strBytes "ü") (strBytes "pw") = [0, 0xc3, 0xbc, 0, 0x70, 0x77] := by decide

/-- Credentials are produced ⇔ the offered class is on the caller's list, or on the built-in default list when
    the caller's is empty — for every class name. -/
theorem C20_only_approved (p : PwAuth) (cls : List UInt8) :
    ((challenge p cls).isSome ↔ cls ∈ (if p.allowed = [] then defaultApprovedAuthenticators.map strBytes else p.allowed)) ∧
    (∀ tok, challenge p cls = some tok → tok = plainToken p.user p.pass) := by
  constructor
  · unfold challenge approve effectiveList
    cases hp : p.allowed with
    | nil => simp
    | cons a as => simp
  · intro tok h
    unfold challenge at h
    split at h
    · cases h; rfl
    · cases h

example : approve (strBytes "org.apache.cassandra.auth.PasswordAuthenticator") [] = true := by decide
example : approve (strBytes "org.apache.cassandra.auth.AllowAllAuthenticator") [] = false := by decide
example : approve (strBytes "org.apache.cassandra.auth.PasswordAuthenticator") [strBytes "com.example.Custom"] = false := by
  decide

/-- A server that demands authentication from a client configured without an authenticator gets an error:
    for every class name and whatever else the server sends, nothing beyond OPTIONS and STARTUP is written and
    the connection is never reported ready.  More generally, without an authenticator the start-up ends `ready`
    only on SUPPORTED followed directly by READY. -/
theorem C20_no_auth_no_session (cls : List UInt8) (rest fs : List SFrame) :
    handshake none (.supported :: .authenticate cls :: rest) = ([.options, .startup], .errAuthRequired) ∧
    ((handshake none fs).2 = .ready → ∃ tl, fs = .supported :: .ready :: tl) ∧
    (∀ tok, Sent.authResponse tok ∉ (handshake none fs).1) := by
  refine ⟨rfl, ?_, ?_⟩
  · intro h
    rcases fs with _ | ⟨f, fs⟩
    · cases h
    · cases f <;> try (cases h)
      rcases fs with _ | ⟨g, gs⟩
      · cases h
      · cases g <;> first | exact ⟨_, rfl⟩ | cases h
  · intro tok
    rcases fs with _ | ⟨f, fs⟩
    · simp [handshake]
    · cases f <;> try (simp [handshake])
      rcases fs with _ | ⟨g, gs⟩
      · simp [afterStartup]
      · cases g <;> simp [afterStartup]

/-- Password credentials leave the client only as the PLAIN token, only in reply to an AUTHENTICATE naming an
    approved class, for every frame sequence the server may send; and after an AUTHENTICATE the session becomes
    ready only through AUTH_SUCCESS. -/
theorem C20_credentials_only_if_approved (p : PwAuth) (fs : List SFrame) :
    (∀ tok, Sent.authResponse tok ∈ (handshake (some p) fs).1 →
      ∃ cls tl, fs = .supported :: .authenticate cls :: tl ∧ approve cls p.allowed = true ∧
        tok = plainToken p.user p.pass) ∧
    ((handshake (some p) fs).2 = .ready →
      (∃ tl, fs = .supported :: .ready :: tl) ∨
      (∃ cls tl, fs = .supported :: .authenticate cls :: .authSuccess :: tl ∧ approve cls p.allowed = true)) := by
  constructor
  · intro tok h
    rcases fs with _ | ⟨f, fs⟩
    · simp [handshake] at h
    · cases f <;> try (simp [handshake] at h)
      rcases fs with _ | ⟨g, gs⟩
      · simp [afterStartup] at h
      · cases g <;> try (simp [afterStartup] at h)
        rename_i cls
        refine ⟨cls, gs, rfl, ?_⟩
        simp only [challenge] at h
        by_cases ha : approve cls p.allowed = true
        · simp [ha] at h; exact ⟨ha, h⟩
        · simp [ha] at h
  · intro h
    rcases fs with _ | ⟨f, fs⟩
    · cases h
    · cases f <;> try (cases h)
      rcases fs with _ | ⟨g, gs⟩
      · cases h
      · cases g <;> try (first | exact Or.inl ⟨_, rfl⟩ | cases h)
        rename_i cls
        simp only [handshake, afterStartup, challenge] at h
        by_cases ha : approve cls p.allowed = true
        · simp only [ha, if_true] at h
          rcases gs with _ | ⟨k, ks⟩
          · cases h
          · cases k <;> first | exact Or.inr ⟨cls, ks, rfl, ha⟩ | cases h
        · simp [ha] at h

/-- non-vacuity: an approved class gets the token, an unapproved one gets nothing -/
example : handshake (some ⟨[117], [112], []⟩)
    [.supported, .authenticate (strBytes "org.apache.cassandra.auth.PasswordAuthenticator"), .authSuccess] =
    ([.options, .startup, .authResponse [0, 117, 0, 112]], .ready) := by decide
example : handshake (some ⟨[117], [112], []⟩) [.supported, .authenticate (strBytes "com.evil.Harvester"), .authSuccess] =
    ([.options, .startup], .errUnapproved) := by decide

end C20
