import Model.RoutingNames
import Proofs.C09Routing
/-!
# C09 — name / index resolution between partition-key columns and bind markers (helper lemmas)
-/
set_option linter.unusedSectionVars false
namespace RoutingNames

open Routing (Enc Bytes KeyRes)

variable {α τ ν β : Type} [DecidableEq α]

/-! ### Go map lookup -/

theorem lookup_mem (k : α) : ∀ (l : List (α × β)) (v : β), lookup k l = some v → (k, v) ∈ l
  | [], v, h => by simp [lookup] at h
  | (k', v') :: r, v, h => by
    unfold lookup at h
    by_cases hk : k' = k
    · simp [hk] at h; subst h; subst hk; simp
    · simp [hk] at h
      exact List.mem_cons_of_mem _ (lookup_mem k r v h)

theorem lookup_none (k : α) : ∀ (l : List (α × β)), lookup k l = none ↔ ∀ p ∈ l, p.1 ≠ k
  | [] => by simp [lookup]
  | (k', v') :: r => by
    unfold lookup
    by_cases hk : k' = k
    · simp [hk]
    · simp [hk, lookup_none k r]

theorem lookup_of_mem (k : α) : ∀ (l : List (α × β)) (v : β), (l.map (·.1)).Nodup → (k, v) ∈ l → lookup k l = some v
  | [], v, _, h => by simp at h
  | (k', v') :: r, v, hnd, h => by
    simp only [List.map_cons, List.nodup_cons] at hnd
    unfold lookup
    by_cases hk : k' = k
    · simp only [hk, if_true]
      cases h with
      | head => rfl
      | tail _ h' =>
        exfalso; apply hnd.1; rw [hk]
        exact List.mem_map_of_mem (f := (·.1)) h'
    · simp only [hk, if_false]
      cases h with
      | head => exact absurd rfl hk
      | tail _ h' => exact lookup_of_mem k r v hnd.2 h'

/-! ### first marker with a name -/

theorem firstIdx_some (n : α) : ∀ (ms : List α) (k i : Nat), firstIdx n ms k = some i →
    k ≤ i ∧ ms[i - k]? = some n ∧ ∀ j, j < i - k → ms[j]? ≠ some n
  | [], k, i, h => by simp [firstIdx] at h
  | m :: ms, k, i, h => by
    unfold firstIdx at h
    by_cases hm : n = m
    · simp [hm] at h; subst h; subst hm; simp
    · simp only [hm, if_false] at h
      obtain ⟨hle, hget, hmin⟩ := firstIdx_some n ms (k + 1) i h
      have hik : i - k = (i - (k + 1)) + 1 := by omega
      refine ⟨by omega, ?_, ?_⟩
      · rw [hik]; simpa using hget
      · intro j hj
        cases j with
        | zero => simp; exact fun h' => hm h'.symm
        | succ j' => simp; exact hmin j' (by omega)

theorem firstIdx_none (n : α) : ∀ (ms : List α) (k : Nat), firstIdx n ms k = none ↔ n ∉ ms
  | [], k => by simp [firstIdx]
  | m :: ms, k => by
    unfold firstIdx
    by_cases hm : n = m
    · simp [hm]
    · simp [hm, firstIdx_none n ms (k + 1)]

/-- the first marker named `n` is unique: an index with the name and nothing before it IS the result -/
theorem firstIdx_of_first (n : α) : ∀ (ms : List α) (k i : Nat), ms[i]? = some n → (∀ j, j < i → ms[j]? ≠ some n) →
    firstIdx n ms k = some (i + k)
  | [], k, i, h, _ => by simp at h
  | m :: ms, k, i, h, hmin => by
    unfold firstIdx
    cases i with
    | zero => simp at h; simp [h]
    | succ i' =>
      have hm : n ≠ m := by
        intro e; have := hmin 0 (by omega); simp [e] at this
      simp only [hm, if_false]
      have := firstIdx_of_first n ms (k + 1) i' (by simpa using h)
        (by intro j hj; have := hmin (j + 1) (by omega); simpa using this)
      rw [this]; congr 1; omega

/-- `resolve` returns exactly the indexes the specification describes -/
theorem resolve_iff (ms : List α) : ∀ (pk : List α) (is : List Nat), resolve pk ms = some is ↔ Spec.Resolves ms pk is
  | [], [] => by simp [resolve, Spec.Resolves]
  | [], _ :: _ => by simp [resolve, Spec.Resolves]
  | n :: ns, [] => by
    unfold resolve
    simp only [Spec.Resolves, iff_false]
    cases firstIdx n ms 0 with
    | none => simp
    | some i => cases resolve ns ms <;> simp
  | n :: ns, i :: is => by
    unfold resolve
    simp only [Spec.Resolves]
    constructor
    · intro h
      cases hf : firstIdx n ms 0 with
      | none => simp [hf] at h
      | some i' =>
        cases hr : resolve ns ms with
        | none => simp [hf, hr] at h
        | some is' =>
          simp [hf, hr] at h
          obtain ⟨h1, h2⟩ := h; subst h1; subst h2
          obtain ⟨_, hget, hmin⟩ := firstIdx_some n ms 0 i' hf
          exact ⟨⟨by simpa using hget, by simpa using hmin⟩, (resolve_iff ms ns is').mp hr⟩
    · intro h
      obtain ⟨hh, ht⟩ := h
      have hf := firstIdx_of_first n ms 0 i hh.1 hh.2
      have hr := (resolve_iff ms ns is).mpr ht
      simp at hf
      simp [hf, hr]

theorem resolves_length (ms : List α) : ∀ (pk : List α) (is : List Nat), Spec.Resolves ms pk is → is.length = pk.length
  | [], [], _ => rfl
  | [], _ :: _, h => by simp [Spec.Resolves] at h
  | _ :: _, [], h => by simp [Spec.Resolves] at h
  | _ :: ns, _ :: is, h => by simp [resolves_length ms ns is h.2]

/-- the specification, pointwise: the `k`-th index names the `k`-th key column exactly, and is the first to do so -/
theorem resolves_get (ms : List α) : ∀ (pk : List α) (is : List Nat), Spec.Resolves ms pk is →
    ∀ (k : Nat) (n : α) (i : Nat), pk[k]? = some n → is[k]? = some i → ms[i]? = some n ∧ ∀ j : Nat, j < i → ms[j]? ≠ some n
  | [], [], _, k, n, i, hn, _ => by simp at hn
  | [], _ :: _, h, _, _, _, _, _ => by simp [Spec.Resolves] at h
  | _ :: _, [], h, _, _, _, _, _ => by simp [Spec.Resolves] at h
  | n' :: ns, i' :: is, h, k, n, i, hn, hi => by
    cases k with
    | zero => simp at hn hi; subst hn; subst hi; exact h.1
    | succ k' => exact resolves_get ms ns is h.2 k' n i (by simpa using hn) (by simpa using hi)

theorem resolve_none_iff (ms : List α) : ∀ (pk : List α), resolve pk ms = none ↔ ∃ n ∈ pk, n ∉ ms
  | [] => by simp [resolve]
  | n :: ns => by
    unfold resolve
    cases hf : firstIdx n ms 0 with
    | none =>
      have := (firstIdx_none n ms 0).mp hf
      simp [this]
    | some i =>
      have hin : n ∈ ms := by
        by_cases h : n ∈ ms
        · exact h
        · rw [(firstIdx_none n ms 0).mpr h] at hf; simp at hf
      cases hr : resolve ns ms with
      | none =>
        have := (resolve_none_iff ms ns).mp hr
        simp [this]
      | some is' =>
        have : ¬ ∃ n ∈ ns, n ∉ ms := by
          intro h; rw [(resolve_none_iff ms ns).mpr h] at hr; simp at hr
        simp [hin]
        simpa using this

theorem resolve_length (ms : List α) : ∀ (pk : List α) (is : List Nat), resolve pk ms = some is → is.length = pk.length
  | pk, is, h => resolves_length ms pk is ((resolve_iff ms pk is).mp h)

/-- without duplicate marker names "first" is vacuous: ANY index list that names the key columns exactly is the resolution -/
theorem resolves_of_exact (ms : List α) (hnd : ms.Nodup) : ∀ (pk : List α) (is : List Nat), is.length = pk.length →
    (∀ (k : Nat) (n : α) (i : Nat), pk[k]? = some n → is[k]? = some i → ms[i]? = some n) → Spec.Resolves ms pk is
  | [], [], _, _ => trivial
  | [], _ :: _, hl, _ => by simp at hl
  | _ :: _, [], hl, _ => by simp at hl
  | n :: ns, i :: is, hl, h => by
    have hi : ms[i]? = some n := h 0 n i rfl rfl
    refine ⟨⟨hi, ?_⟩, resolves_of_exact ms hnd ns is (by simpa using hl)
      (fun k n' i' hn hi' => h (k + 1) n' i' (by simpa using hn) (by simpa using hi'))⟩
    intro j hj hjn
    have hlt : i < ms.length := by
      rcases Nat.lt_or_ge i ms.length with h' | h'
      · exact h'
      · simp [List.getElem?_eq_none h'] at hi
    have := (List.getElem?_inj hlt hnd).mp (hi.trans hjn.symm)
    omega

/-! ### the loops of the code (index and type together) and the resolution on names -/

theorem firstBound_some (n : α) : ∀ (ms : List (Marker α τ)) (k i : Nat) (t : τ), firstBound n ms k = some (i, t) →
    firstIdx n (ms.map (·.name)) k = some i ∧ k ≤ i ∧ (ms[i - k]?).map (·.ty) = some t
  | [], k, i, t, h => by simp [firstBound] at h
  | m :: ms, k, i, t, h => by
    unfold firstBound at h
    by_cases hm : n = m.name
    · simp [hm] at h
      obtain ⟨h1, h2⟩ := h
      subst h1; subst h2
      simp [firstIdx, hm]
    · simp only [hm, if_false] at h
      obtain ⟨h1, h2, h3⟩ := firstBound_some n ms (k + 1) i t h
      have hik : i - k = (i - (k + 1)) + 1 := by omega
      refine ⟨by simp [firstIdx, hm, h1], by omega, ?_⟩
      rw [hik]; simpa using h3

theorem firstBound_none (n : α) : ∀ (ms : List (Marker α τ)) (k : Nat), firstBound n ms k = none →
    firstIdx n (ms.map (·.name)) k = none
  | [], k, _ => by simp [firstIdx]
  | m :: ms, k, h => by
    unfold firstBound at h
    by_cases hm : n = m.name
    · simp [hm] at h
    · simp only [hm, if_false] at h
      simp [firstIdx, hm, firstBound_none n ms (k + 1) h]

/-- the schema branch of the code = `resolve` on the names, the types being the types of the resolved markers -/
theorem byName_some (ms : List (Marker α τ)) : ∀ (pk : List α) (is : List Nat) (ts : List τ),
    byName ms pk = some (is, ts) → resolve pk (ms.map (·.name)) = some is ∧ typesAt ms is = some ts
  | [], is, ts, h => by
    simp [byName] at h; obtain ⟨h1, h2⟩ := h; subst h1; subst h2
    simp [resolve, typesAt]
  | n :: ns, is, ts, h => by
    unfold byName at h
    cases hf : firstBound n ms 0 with
    | none => simp [hf] at h
    | some p =>
      obtain ⟨i, t⟩ := p
      cases hb : byName ms ns with
      | none => simp [hf, hb] at h
      | some q =>
        obtain ⟨is', ts'⟩ := q
        simp [hf, hb] at h
        obtain ⟨h1, h2⟩ := h; subst h1; subst h2
        obtain ⟨hfi, _, hty⟩ := firstBound_some n ms 0 i t hf
        obtain ⟨hr, hta⟩ := byName_some ms ns is' ts' hb
        simp at hty
        obtain ⟨m, hm, hmt⟩ := hty
        refine ⟨by simp [resolve, hfi, hr], ?_⟩
        simp [typesAt, hm, hta, hmt]

theorem byName_none (ms : List (Marker α τ)) : ∀ (pk : List α),
    byName ms pk = none → resolve pk (ms.map (·.name)) = none
  | [], h => by simp [byName] at h
  | n :: ns, h => by
    unfold byName at h
    unfold resolve
    cases hf : firstBound n ms 0 with
    | none => simp [firstBound_none n ms 0 hf]
    | some p =>
      obtain ⟨i, t⟩ := p
      obtain ⟨hfi, _, _⟩ := firstBound_some n ms 0 i t hf
      cases hb : byName ms ns with
      | none => simp [hfi, byName_none ms ns hb]
      | some q => simp [hf, hb] at h

/-- a resolved index is an index of the statement: the code's types are defined there -/
theorem byName_of_resolve (ms : List (Marker α τ)) (pk : List α) (is : List Nat)
    (h : resolve pk (ms.map (·.name)) = some is) : ∃ ts, byName ms pk = some (is, ts) ∧ typesAt ms is = some ts := by
  cases hb : byName ms pk with
  | none => rw [byName_none ms pk hb] at h; simp at h
  | some q =>
    obtain ⟨is', ts⟩ := q
    obtain ⟨hr, hta⟩ := byName_some ms pk is' ts hb
    rw [hr] at h; simp at h; subst h
    exact ⟨ts, rfl, hta⟩

/-! ### the routing key of resolved indexes -/

theorem component_some {enc : τ → ν → Enc} {ms : List (Marker α τ)} {vals : List ν} {i : Nat} {c : Bytes}
    (h : Spec.component enc ms vals i = some c) :
    ∃ m, ms[i]? = some m ∧ Routing.encAt enc vals m.ty i = .ok (some c) := by
  unfold Spec.component at h
  split at h
  · rename_i m v hm hv
    refine ⟨m, hm, ?_⟩
    split at h
    · rename_i b hb; simp at h; subst h; simp [Routing.encAt, hv, hb]
    · simp at h
  · simp at h

theorem compositeLoop_spec (enc : τ → ν → Enc) (ms : List (Marker α τ)) (vals : List ν) :
    ∀ (is : List Nat) (cs : List Bytes), Spec.components enc ms vals is = some cs →
      ∃ ts, typesAt ms is = some ts ∧ ts.length = is.length ∧ cs.length = is.length ∧
        ∀ acc, Routing.compositeLoop enc vals is ts acc = .key (some (acc ++ Token.composite cs))
  | [], cs, h => by
    simp [Spec.components] at h; subst h
    exact ⟨[], rfl, rfl, rfl, by intro acc; simp [Routing.compositeLoop, Token.composite]⟩
  | i :: is, cs, h => by
    unfold Spec.components at h
    split at h
    · rename_i c cs' hc hcs
      simp at h; subst h
      obtain ⟨m, hm, he⟩ := component_some hc
      obtain ⟨ts, hts, hl1, hl2, hloop⟩ := compositeLoop_spec enc ms vals is cs' hcs
      refine ⟨m.ty :: ts, by simp [typesAt, hm, hts], by simp [hl1], by simp [hl2], ?_⟩
      intro acc
      simp only [Routing.compositeLoop, he, Routing.bytesOf, hloop, Token.composite, List.append_assoc]
    · simp at h

/-- `createRoutingKey` on indexes whose components encode: the raw value (one) / the CompositeType framing (several) -/
theorem createRoutingKey_spec (enc : τ → ν → Enc) (ms : List (Marker α τ)) (vals : List ν) (is : List Nat)
    (ts : List τ) (cs : List Bytes) (ks tb : String) (hne : is ≠ [])
    (hts : typesAt ms is = some ts) (h : Spec.components enc ms vals is = some cs) :
    Routing.createRoutingKey enc ⟨is, ts, ks, tb⟩ vals = .key (some (Token.routingKey cs)) := by
  obtain ⟨ts', hts', hl1, hl2, hloop⟩ := compositeLoop_spec enc ms vals is cs h
  rw [hts] at hts'; simp at hts'; subst hts'
  rw [Routing.createRoutingKey_eq_core enc ⟨is, ts, ks, tb⟩ vals (Routing.compositeLoop_key_bound enc vals is ts [] _ (hloop []))]
  match is, ts, cs, hne, hl1, hl2, hloop, h with
  | [i], [t], [c], _, _, _, hloop, h =>
    have := hloop []
    simp only [Routing.compositeLoop] at this
    unfold Spec.components at h
    split at h
    · rename_i c' cs' hc hcs
      simp [Spec.components] at hcs h
      obtain ⟨h1, h2⟩ := h
      subst h1
      obtain ⟨m, hm, he⟩ := component_some hc
      simp [typesAt, hm] at hts
      subst hts
      simp [Routing.createRoutingKeyCore, he, Token.routingKey]
    · simp at h
  | i :: j :: is', t :: t2 :: ts', c1 :: c2 :: cs', _, _, _, hloop, _ =>
    simp only [Routing.createRoutingKeyCore]
    rw [hloop []]; simp [Token.routingKey]
  | [], _, _, hne, _, _, _, _ => exact absurd rfl hne
  | [_], [], _, _, h1, _, _, _ => simp at h1
  | [_], _ :: _ :: _, _, _, h1, _, _, _ => simp at h1
  | [_], [_], [], _, _, h2, _, _ => simp at h2
  | [_], [_], _ :: _ :: _, _, _, h2, _, _ => simp at h2
  | _ :: _ :: _, [], _, _, h1, _, _, _ => simp at h1
  | _ :: _ :: _, [_], _, _, h1, _, _, _ => simp at h1
  | _ :: _ :: _, _ :: _ :: _, [], _, _, h2, _, _ => simp at h2
  | _ :: _ :: _, _ :: _ :: _, [_], _, _, h2, _, _ => simp at h2

/-! ### the model of op rkm (`Model/Routing.lean`, names as `String`) is this model at `α := String` -/

theorem findBound_eq_firstBound (name : String) : ∀ (cols : List (Routing.Col τ)) (k : Nat),
    Routing.findBound name cols k = firstBound name (cols.map (fun c => (⟨c.name, c.ty⟩ : Marker String τ))) k
  | [], k => rfl
  | c :: cs, k => by
    simp only [Routing.findBound, List.map_cons, firstBound]
    by_cases h : c.name = name
    · simp [h]
    · have h' : ¬ name = c.name := fun e => h e.symm
      simp [h, h', findBound_eq_firstBound name cs (k + 1)]

theorem byName_eq_routing (cols : List (Routing.Col τ)) : ∀ (names : List String),
    Routing.byName cols names = byName (cols.map (fun c => (⟨c.name, c.ty⟩ : Marker String τ))) names
  | [] => rfl
  | n :: ns => by
    simp only [Routing.byName, byName, findBound_eq_firstBound, byName_eq_routing cols ns]
    cases firstBound n (cols.map (fun c => (⟨c.name, c.ty⟩ : Marker String τ))) 0 with
    | none => rfl
    | some p =>
      obtain ⟨i, t⟩ := p
      cases byName (cols.map (fun c => (⟨c.name, c.ty⟩ : Marker String τ))) ns with
      | none => rfl
      | some q => rfl

end RoutingNames
