import Proofs.C01Mux
import Proofs.C01Monitor
import Proofs.C01Rx
import Proofs.C01Own
import Proofs.C01Refine
import Proofs.C01Pool
/-!
# C01 — every response reaches the request that caused it, and only that one (property theorems)

Model: `Model/Mux.lean` — per wire identifier: the call that holds it (allocator bit + `c.calls` entry)
and what the server side holds for it; per call a program counter. `deliver s` hands the response to
whoever is REGISTERED for `s` (as `recv` does: `c.calls[head.stream]`), while the response's origin is
a ghost field; the theorems show the two always coincide. All theorems: every action list (any number
of callers, any answer order incl. never, any mix of timeouts / cancellations / write failures / close).
-/
namespace C01
open Mux

/-- whenever a caller takes a response from its rendezvous, it is the response to its own request … -/
theorem C01_routing (cap : Nat) (as : List Act) (st : St) (h : run (init cap) as = some st)
    (d c k w : Nat) (hr : st.pc d = .done (.resp c k w)) : c = d :=
  (inv_run as _ st (inv_init cap) h).resp_origin d c k w hr

/-- … and what it decodes — kind (opcode, result kind / error code, header flags) and token content — is
    what the server answered to THAT request, whatever mix of kinds the server uses for the requests in
    flight and whatever other frames (events, frames for unknown ids) it interleaves -/
theorem C01_routing_content (cap : Nat) (as : List Act) (st : St) (h : run (init cap) as = some st)
    (d c k w : Nat) (hr : st.pc d = .done (.resp c k w)) : st.sent d = some (k, w) := by
  have inv := inv_run as _ st (inv_init cap) h
  have := inv.resp_origin d c k w hr
  subst this
  exact inv.resp_sent c c k w hr

/-- while a request (or its unconsumed response) is outstanding on id `s`, `s` stays reserved for the
    call that sent it — also after that call timed out or was cancelled — … -/
theorem C01_no_reuse_while_late (cap : Nat) (as : List Act) (st : St) (h : run (init cap) as = some st)
    (s c : Nat) (hw : st.wire s = .pending c ∨ ∃ k w, st.wire s = .answered c k w) : st.owner s = some c := by
  have := (inv_run as _ st (inv_init cap) h).wire_own s
  grind

/-- … hence the allocator cannot hand `s` to another request until the late response has arrived -/
theorem C01_late_response_not_misdelivered (cap : Nat) (as : List Act) (st : St)
    (h : run (init cap) as = some st) (s c c' : Nat)
    (hw : st.wire s = .pending c ∨ ∃ k w, st.wire s = .answered c k w) : step st (.acquire c' s) = none := by
  have := C01_no_reuse_while_late cap as st h s c hw
  simp [step, this]

/-- every id on the wire is in 1..cap-1 -/
theorem C01_ids_in_range (cap : Nat) (as : List Act) (st : St) (h : run (init cap) as = some st)
    (s c : Nat) (ho : st.owner s = some c) : 1 ≤ s ∧ s < st.cap := by
  have := (inv_run as _ st (inv_init cap) h).own_pc s c ho
  exact ⟨this.2.1, this.2.2.1⟩

/-- Soundness of the observation monitor that ties this model to the code: the observable projection
    (`req` / `resp` seen by the server, `got` seen by the callers) of EVERY run of the machine is accepted by
    `Mon` — the monitor that `vdrv C01` runs over the observations of real connections never rejects a
    behaviour of the model. Hence a `reject:` on a real run is never an artefact of the monitor. -/
theorem C01_monitor_sound (cap : Nat) (as : List Act) (st : St) (h : run (init cap) as = some st) :
    (Mon.run (Mon.init cap) (trace (init cap) as)).bad = none :=
  (sim_run as (init cap) st (Mon.init cap) (inv_init cap) (sim_init cap) h).ok

/-- … and the monitor's bookkeeping is exact: after the run it holds an unanswered request on `s` with
    token `t` iff the server side still holds the unanswered request of call `t` on `s` -/
theorem C01_monitor_exact (cap : Nat) (as : List Act) (st : St) (h : run (init cap) as = some st) (s t : Nat) :
    (Mon.run (Mon.init cap) (trace (init cap) as)).lookup s = some (t, false) ↔ st.wire s = .pending t :=
  (sim_run as (init cap) st (Mon.init cap) (inv_init cap) (sim_init cap) h).pend s t

/-- … and so is its record of what the server answered to which request (kind and token content) -/
theorem C01_monitor_answers_exact (cap : Nat) (as : List Act) (st : St) (h : run (init cap) as = some st)
    (t : Nat) (p : Nat × Nat) :
    (Mon.run (Mon.init cap) (trace (init cap) as)).answer t = some p ↔ st.sent t = some p :=
  (sim_run as (init cap) st (Mon.init cap) (inv_init cap) (sim_init cap) h).ans t p

/-- non-vacuity: a history with a timeout, a reuse attempt and a late reply — caller 1 times out on id 5,
    caller 2 cannot get id 5, the late answer for caller 1 is released, then caller 2 gets id 5 and its
    own response. -/
def lateReplyHistory : List Act :=
  [.acquire 1 5, .wrote 1, .timeout 1, .acquire 2 6, .wrote 2, .answer 5 0 1, .event, .deliver 5, .acquire 3 5, .wrote 3,
   .stray 63, .answer 5 2 3, .deliver 5, .answer 6 17 2, .deliver 6]

example : ∃ st, run (init 128) lateReplyHistory = some st ∧
    st.pc 1 = .done .timeout ∧ st.pc 2 = .done (.resp 2 17 2) ∧ st.pc 3 = .done (.resp 3 2 3) ∧ st.owner 5 = none := by
  refine ⟨_, rfl, ?_, ?_, ?_, ?_⟩ <;> decide

example : trace (init 128) lateReplyHistory =
    [.req 5 1, .req 6 2, .resp 5 1 0 1, .event, .req 5 3, .stray 63, .resp 5 3 2 3, .got 3 2 3, .resp 6 2 17 2, .got 2 17 2] := by
  decide

/-- the monitor has teeth: two requests in flight answered with different kinds, the caller of the first
    reports the kind of the second (a frame header shared between two frames) — rejected; so is a response
    reported for a request the server never answered, and a second response for one call -/
example : (Mon.run (Mon.init 128) [.req 5 1, .req 6 2, .resp 5 1 0 1, .resp 6 2 2 2, .got 1 2 1]).bad.isSome = true := by
  decide
example : (Mon.run (Mon.init 128) [.req 5 1, .req 6 2, .resp 5 1 0 1, .got 2 0 2]).bad.isSome = true := by decide
example : (Mon.run (Mon.init 128) [.req 5 1, .resp 5 1 0 1, .got 1 0 1, .got 1 0 1]).bad.isSome = true := by decide
example : (Mon.run (Mon.init 128) [.req 5 1, .req 6 2, .resp 5 1 0 1, .resp 6 2 2 2, .got 2 2 2, .got 1 0 1]).bad = none := by
  decide

example : (do let st ← run (init 128) [.acquire 1 5, .wrote 1, .timeout 1]; step st (.acquire 2 5)).isNone = true := by
  decide

/-! ## The receive loop at byte level (`Model/MuxRx.lean`)

The machine above hands "the response for id s" to the call registered for s. That presupposes that the
receive loop cuts the server's byte stream into the frames the server sent, whatever the write boundaries
(several frames in one write, one frame in several) and whatever the pauses (shorter or longer than the
read deadline), and that each call finds ITS frame's header and body in what it is handed. -/

open Rx in
/-- Conn.Read: what it returns is a prefix of the byte stream, its count is the number of bytes it put
    into `p` over ALL its attempts (never more than asked), all of them when it reports success, and the
    socket is left exactly behind them -/
theorem C01_rx_read_exact (dl : Bool) (src : Src) (k : Nat) :
    (connRead dl maxAttempts src k).1 ++ bytes (connRead dl maxAttempts src k).2.2 = bytes src ∧
    (connRead dl maxAttempts src k).1.length ≤ k ∧
    ((connRead dl maxAttempts src k).2.1 = .ok → (connRead dl maxAttempts src k).1.length = k) :=
  connRead_prefix dl maxAttempts src k

open Rx in
/-- with fewer than five deadline expiries before the k-th byte (or no deadline at all) it returns exactly the
    next k bytes and leaves the socket behind them -/
theorem C01_rx_read_ok (dl : Bool) (src : Src) (k : Nat) (h : k ≤ (bytes src).length)
    (he : dl = true → expiriesBefore k src < maxAttempts) :
    connRead dl maxAttempts src k = ((bytes src).take k, .ok, dropBytes k src) :=
  connRead_calm dl src k h he

/-- enough fuel: every frame has at least 8 bytes -/
theorem frames_le_bytes (proto : Nat) (fs : List Rx.Frame) (src : Rx.Src) (hb : Rx.bytes src = Rx.encodeAll proto fs) :
    fs.length < src.length + 1 := by
  have hlen : ∀ (gs : List Rx.Frame), gs.length ≤ (Rx.encodeAll proto gs).length := by
    intro gs
    induction gs with
    | nil => simp [Rx.encodeAll]
    | cons g gs ih =>
      simp only [Rx.encodeAll, List.flatMap_cons, List.length_append, List.length_cons] at ih ⊢
      have := Rx.encode_length proto g
      have : 8 ≤ Rx.hdrLen proto := by simp [Rx.hdrLen]; split <;> omega
      omega
  have := hlen fs
  have := Rx.bytes_length_le src
  rw [hb] at this
  omega

open Rx in
/-- FULL property (the code after the repair of KF-C01-1):
     ∀ frames `fs` well-formed for the protocol, ∀ sockets `src` carrying exactly their encoding (cut and
     delayed in ANY way, any number of read deadlines expiring anywhere), `recv` hands every frame, own header
     and own body, to the call registered for its stream id and never anything else to any call — either all
     of them (`⟨dispatch cs fs, eof⟩`), or, when a body read gave up after five read deadlines, exactly the
     frames before that one, nothing of the frame the loop ended in, and the loop ends with the time-out error
     (Conn.serve closes the connection): it never goes on reading inside a body. -/
theorem C01_rx_sync (proto : Nat) (hp1 : 1 ≤ proto) (hp5 : proto ≤ 5) (dl : Bool) (fs : List Frame)
    (cs : Calls) (src : Src) (hwf : ∀ f ∈ fs, f.wf proto) (hb : bytes src = encodeAll proto fs) :
    recv proto dl cs src = ⟨dispatch cs fs, .eof⟩ ∨
    ∃ n f d r, fs[n]? = some f ∧ r ≠ .ok ∧
      recv proto dl cs src = ⟨(dispatch cs fs).take n ++ [⟨d, r, f.h, []⟩], .tmo⟩ :=
  recvLoop_sync_full proto hp1 hp5 dl fs _ cs src (frames_le_bytes proto fs src hb) hwf hb

open Rx in
/-- … and when fewer than five read deadlines expire while any ONE frame body is awaited (`Calm`; any number
    may expire while a header is awaited, and between frames) nothing is lost: the first alternative -/
theorem C01_rx_sync_calm (proto : Nat) (hp1 : 1 ≤ proto) (hp5 : proto ≤ 5) (dl : Bool) (fs : List Frame)
    (cs : Calls) (src : Src) (hwf : ∀ f ∈ fs, f.wf proto) (hb : bytes src = encodeAll proto fs)
    (hcalm : dl = true → Calm proto fs src) :
    recv proto dl cs src = ⟨dispatch cs fs, .eof⟩ :=
  recvLoop_sync proto hp1 hp5 dl fs _ cs src (frames_le_bytes proto fs src hb) hwf hb hcalm

open Rx in
/-- without a read deadline (Config.Timeout = 0) nothing is ever lost -/
theorem C01_rx_sync_no_deadline (proto : Nat) (hp1 : 1 ≤ proto) (hp5 : proto ≤ 5) (fs : List Frame)
    (cs : Calls) (src : Src) (hwf : ∀ f ∈ fs, f.wf proto) (hb : bytes src = encodeAll proto fs) :
    recv proto false cs src = ⟨dispatch cs fs, .eof⟩ :=
  C01_rx_sync_calm proto hp1 hp5 false fs cs src hwf hb (by simp)

/-! Regression (kernel-checked; the replay input `rxk 4 1 1,2 - 840000010800…` of KF-C01-1 for the real
    code): the server answers the request on stream 1 with ONE well-formed frame, whose 11-byte body stalls
    after its first byte for five read deadlines. Conn.Read gives up; readFrame wraps the timeout with %w,
    recv finds the net.Error and returns it: the loop ends, nothing is handed to call 1, and call 2 — to which
    the server has sent nothing — gets nothing. (Before the repair recv handed the error to call 1 and went on
    reading "headers" from the rest of that body, which here looks like a frame for stream 2: call 2 was
    handed bytes of the answer to call 1.) -/
namespace Cex
open Rx
def inner : Frame := ⟨⟨0x84, 0, 2, 8, 1⟩, [0xBB]⟩
def answer1 : Frame := ⟨⟨0x84, 0, 1, 8, 11⟩, 0xAA :: encode 4 inner⟩
def calls : Calls := [(1, true), (2, true)]
def socket : Src :=
  (encodeHdr 4 answer1.h).map some ++ [some 0xAA, none, none, none, none, none] ++ (encode 4 inner).map some
end Cex

open Rx in
set_option maxRecDepth 8192 in
theorem C01_rx_stalled_body_closes :
    Cex.answer1.wf 4 ∧ bytes Cex.socket = encodeAll 4 [Cex.answer1] ∧
    recv 4 true Cex.calls Cex.socket = ⟨[⟨.call, .lost, Cex.answer1.h, []⟩], .tmo⟩ := by
  refine ⟨by decide, by decide, by decide⟩

/-- non-vacuity of `C01_rx_sync_calm`: two frames in one write, the second cut inside its header and
    inside its body with four expiries in the body, an event frame in between -/
example : ∃ fs src, (∀ f ∈ fs, Rx.Frame.wf 3 f) ∧ Rx.bytes src = Rx.encodeAll 3 fs ∧ Rx.Calm 3 fs src ∧
    (Rx.recv 3 true [(5, true), (9, false)] src).recs.length = 3 := by
  refine ⟨[⟨⟨0x83, 0, 5, 8, 2⟩, [1, 2]⟩, ⟨⟨0x83, 0, -1, 12, 1⟩, [7]⟩, ⟨⟨0x83, 2, 9, 0, 3⟩, [4, 5, 6]⟩],
    (Rx.encode 3 ⟨⟨0x83, 0, 5, 8, 2⟩, [1, 2]⟩ ++ Rx.encode 3 ⟨⟨0x83, 0, -1, 12, 1⟩, [7]⟩).map some ++
      [some 0x83, none, none, none, none, none, none, some 2, some 0, some 9, some 0, some 0, some 0, some 0, some 3,
       none, some 4, none, none, some 5, none, some 6, none], ?_, ?_, ?_, ?_⟩
  · decide
  · decide
  · simp only [Rx.Calm]; decide
  · decide

/-! ## The connection's OWN requests and the sender's steps (`Model/MuxOwn.lean`, round 6)

The heartbeat's OPTIONS, `USE`, PREPARE, REGISTER and user requests share the stream ids and the `c.calls` map of one
connection; a call goes through reserve → register → write → writeReturned. Configuration `Cfg.code` = the code that
exists: the call is registered BEFORE its frame is written, heartBeat does nothing on an ERROR answer. All theorems:
every action list (any number of calls of any kind, any answer kinds, answers arriving while the sender is still
inside Write, timeouts / cancellations / write failures / close at any point). -/

/-- whatever a call is handed — user request or the connection's own — is the frame the peer sent FOR ITS stream id,
    or an error of the connection that carries no frame: never a frame (response or ERROR) the peer addressed to another
    request, neither as a response nor as an error value -/
theorem C01_no_foreign_frame (cap : Nat) (as : List MuxOwn.Act) (st : MuxOwn.St)
    (h : MuxOwn.run .code (MuxOwn.init cap) as = some st) (c : Nat) (o : MuxOwn.Outcome) (hd : st.pc c = .done o) :
    (∀ f, o = .resp f → st.sent c = some f ∧ f.sid = st.sidOf c) ∧ (∀ e, o = .connErr e → e = .plain) := by
  have inv := MuxOwn.inv_run as _ st (MuxOwn.inv_init cap) h
  constructor
  · intro f hf; subst hf; exact inv.resp_ok c f hd
  · intro e he; subst he; exact inv.err_ok c e hd

/-- closeWithError never runs with a frame of the peer as its error value -/
theorem C01_close_error_is_no_frame (cap : Nat) (as : List MuxOwn.Act) (st : MuxOwn.St)
    (h : MuxOwn.run .code (MuxOwn.init cap) as = some st) (e : MuxOwn.CErr) (hc : st.closed = some e) : e = .plain :=
  (MuxOwn.inv_run as _ st (MuxOwn.inv_init cap) h).closed_plain e hc

/-- in every state in which a frame for id `s` can arrive (the peer holds the request, or its answer is under way —
    also while the sender has not come back from Write), a handler for `s` is registered: the call that sent it -/
theorem C01_registered_before_written (cap : Nat) (as : List MuxOwn.Act) (st : MuxOwn.St)
    (h : MuxOwn.run .code (MuxOwn.init cap) as = some st) (s c : Nat)
    (hw : st.wire s = .pending c ∨ ∃ f, st.wire s = .answered c f) : st.reg s = some c := by
  have inv := MuxOwn.inv_run as _ st (MuxOwn.inv_init cap) h
  rcases hw with hw | ⟨f, hw⟩
  · exact inv.wire_reg s c hw
  · exact inv.wire_reg' s c f hw

/-- … hence no answer is ever discarded for want of a handler -/
theorem C01_no_response_lost (cap : Nat) (as : List MuxOwn.Act) (st : MuxOwn.St)
    (h : MuxOwn.run .code (MuxOwn.init cap) as = some st) (c : Nat) : st.lost c = false :=
  (MuxOwn.inv_run as _ st (MuxOwn.inv_init cap) h).not_lost c

/-- … and the receive loop, holding the whole answer for `s`, is never without a move for ever: the registered call
    is in Write (it will come back), waiting (hand-over) or has given up (release) -/
theorem C01_answer_has_receiver (cap : Nat) (as : List MuxOwn.Act) (st : MuxOwn.St)
    (h : MuxOwn.run .code (MuxOwn.init cap) as = some st) (s c : Nat) (f : MuxOwn.Frame)
    (hw : st.wire s = .answered c f) :
    st.reg s = some c ∧ st.pc c ≠ .idle ∧ (∀ s' r wr ret, st.pc c = .flight s' r wr ret → s' = s ∧ r = true) := by
  have inv := MuxOwn.inv_run as _ st (MuxOwn.inv_init cap) h
  have hr := inv.wire_reg' s c f hw
  have := inv.reg_pc s c hr
  exact ⟨hr, this.2.2.1, this.2.2.2.1⟩

/-- the code that exists: heartBeat's reaction to an ERROR answer changes nothing (the `TODO` arm) -/
theorem C01_heartbeat_error_ignored (st st' : MuxOwn.St) (c : Nat) (f : MuxOwn.Frame)
    (hp : st.pc c = .done (.resp f)) (hk : f.kind = 1)
    (hs : MuxOwn.step .code st (.hbReact c) = some st') : st'.closed = st.closed ∧ st'.pc = st.pc := by
  simp only [MuxOwn.step, hp, MuxOwn.Cfg.code, hk] at hs
  split at hs
  · injection hs with hs; subst hs; simp
  · simp at hs

/-- Counterexample for the variant that registers the call only AFTER the write has returned (seeded change C01-5):
    the peer answers before Write returns, the receive loop finds no handler and discards the answer; the call then
    registers and waits for an answer that will never come (nothing is left on the wire). Replay: `dr 3 0 0 !q5 d1 w1`. -/
theorem C01_cex_register_after_write :
    ∃ st, MuxOwn.run { lateRegister := true, hbErrFatal := false } (MuxOwn.init 128)
        [.reserve 1 5 .user, .write 1, .answer 5 0 1, .deliver 5, .writeReturned 1, .register 1] = some st ∧
      st.lost 1 = true ∧ st.pc 1 = .flight 5 true true true ∧ st.wire 5 = .none := by
  refine ⟨_, rfl, ?_, ?_, ?_⟩ <;> decide

/-- Counterexample for the variant in which heartBeat treats an ERROR answer as fatal and closes the connection with
    that frame as the error value (seeded change C01-6): user call 1 (stream 5) is handed the ERROR frame that the peer
    addressed to the heartbeat's stream 6. Replay: `dr 3 0 1 q5 h A2:E4097 h`. -/
theorem C01_cex_heartbeat_error_fatal :
    ∃ st, MuxOwn.run { lateRegister := false, hbErrFatal := true } (MuxOwn.init 128)
        [.reserve 1 5 .user, .register 1, .write 1, .writeReturned 1,
         .reserve 2 6 .heartbeat, .register 2, .write 2, .writeReturned 2,
         .answer 6 1 77, .deliver 6, .hbReact 2, .connDone 1] = some st ∧
      st.pc 1 = .done (.connErr (.frame ⟨6, 1, 77⟩)) ∧ st.sidOf 1 = 5 := by
  refine ⟨_, rfl, ?_, ?_⟩ <;> decide

/-- non-vacuity (the code that exists): the same two histories end well — the answer that arrives while the sender is
    inside Write waits for it and is handed over; the heartbeat's ERROR answer leaves the user call waiting, which then
    gets its own response -/
example : ∃ st, MuxOwn.run .code (MuxOwn.init 128)
    [.reserve 1 5 .user, .register 1, .write 1, .answer 5 0 1, .writeReturned 1, .deliver 5, .release 1, .relDone 1] = some st ∧
    st.pc 1 = .done (.resp ⟨5, 0, 1⟩) ∧ st.lost 1 = false ∧ st.owner 5 = none := by
  refine ⟨_, rfl, ?_, ?_, ?_⟩ <;> decide

example : MuxOwn.step .code ((MuxOwn.run .code (MuxOwn.init 128)
    [.reserve 1 5 .user, .register 1, .write 1, .answer 5 0 1]).getD (MuxOwn.init 0)) (.deliver 5) = none := by decide

example : ∃ st, MuxOwn.run .code (MuxOwn.init 128)
    [.reserve 1 5 .user, .register 1, .write 1, .writeReturned 1,
     .reserve 2 6 .heartbeat, .register 2, .write 2, .writeReturned 2,
     .answer 6 1 77, .deliver 6, .hbReact 2, .answer 5 0 9, .deliver 5] = some st ∧
    st.pc 1 = .done (.resp ⟨5, 0, 9⟩) ∧ st.closed = none := by
  refine ⟨_, rfl, ?_, ?_⟩ <;> decide

/-! ## Schedule points inside exec's exits and releaseStream; several connections (round 7)

`releaseStream` frees the id (`release`: streams.Clear) and then runs user code (the StreamObserver's StreamFinished
callback) before it returns (`relDone`): between the two a new request may be given the very same id, register itself
and write. The exits of exec before anything was written (`buildFailed`, `writeCancelled`) free the id too. All
theorems: every action list of the machine in the configuration of the code that exists. -/

/-- whenever a call is about to free its id (streams.Clear has not run yet) it still holds the id, it is NO LONGER
    registered under it (recv's look-up or the early exit removed the registration BEFORE) and the peer holds nothing
    for it: the id becomes free only when no response for it can arrive and nobody is registered under it -/
theorem C01_release_window_safe (cap : Nat) (as : List MuxOwn.Act) (st : MuxOwn.St)
    (h : MuxOwn.run .code (MuxOwn.init cap) as = some st) (c : Nat) (hr : st.rel c = .due) :
    st.owner (st.sidOf c) = some c ∧ st.wire (st.sidOf c) = .none ∧ (st.closed = none → st.reg (st.sidOf c) = none) := by
  have := (MuxOwn.inv_run as _ st (MuxOwn.inv_init cap) h).rel_ok c hr
  exact ⟨this.1, this.2.1, this.2.2.1⟩

/-- while a handler is registered for `s` on an open connection the id is held by that very call: the allocator cannot
    hand `s` to another request, whatever other calls are doing inside releaseStream -/
theorem C01_registered_id_is_held (cap : Nat) (as : List MuxOwn.Act) (st : MuxOwn.St)
    (h : MuxOwn.run .code (MuxOwn.init cap) as = some st) (s d : Nat) (hr : st.reg s = some d) (ho : st.closed = none)
    (c' : Nat) (w : MuxOwn.Who) : st.owner s = some d ∧ MuxOwn.step .code st (.reserve c' s w) = none := by
  have := ((MuxOwn.inv_run as _ st (MuxOwn.inv_init cap) h).reg_pc s d hr).1 ho
  refine ⟨this, ?_⟩
  simp [MuxOwn.step, this]

/-- the second sentence of the property on the finer machine: while the peer holds the request of call `c` on id `s`, or
    its answer is under way - also after `c` timed out or was cancelled, and whatever other calls are doing inside
    releaseStream - `s` is held by `c` and no other request can be given it -/
theorem C01_own_no_reuse_while_late (cap : Nat) (as : List MuxOwn.Act) (st : MuxOwn.St)
    (h : MuxOwn.run .code (MuxOwn.init cap) as = some st) (s c : Nat) (ho : st.closed = none)
    (hw : st.wire s = .pending c ∨ ∃ f, st.wire s = .answered c f) (c' : Nat) (w : MuxOwn.Who) :
    st.owner s = some c ∧ MuxOwn.step .code st (.reserve c' s w) = none :=
  C01_registered_id_is_held cap as st h s c (C01_registered_before_written cap as st h s c hw) ho c' w

/-- non-vacuity: call 1 on id 1 is cancelled, call 2 is parked inside releaseStream having freed id 64: id 64 can be
    given out again, id 1 can not -/
example : ∃ st, MuxOwn.run .code (MuxOwn.init 128)
    [.reserve 1 1 .user, .register 1, .write 1, .writeReturned 1, .cancel 1,
     .reserve 2 64 .user, .register 2, .write 2, .writeReturned 2, .answer 64 0 2, .deliver 64, .release 2] = some st ∧
    st.wire 1 = .pending 1 ∧ (MuxOwn.step .code st (.reserve 3 1 .user)).isNone = true ∧
    (MuxOwn.step .code st (.reserve 3 64 .user)).isSome = true := by
  refine ⟨_, rfl, ?_, ?_, ?_⟩ <;> decide

/-- addCall never finds another call registered under the id it was given ("attempting to use stream already in use"
    is dead code as long as ids are freed only after the registration is gone) -/
theorem C01_no_duplicate_registration (cap : Nat) (as : List MuxOwn.Act) (st : MuxOwn.St)
    (h : MuxOwn.run .code (MuxOwn.init cap) as = some st) (c : Nat) : st.pc c ≠ .done .dupErr :=
  (MuxOwn.inv_run as _ st (MuxOwn.inv_init cap) h).no_dup c

/-- after an exit of exec before anything was written (buildFrame failed / context done while waiting for the write
    slot) on an open connection, and the release that follows, the id is free, nobody is registered under it and the
    peer holds nothing for it: the next request may use it safely -/
theorem C01_early_exit_frees_id (cap : Nat) (as : List MuxOwn.Act) (st st1 st2 : MuxOwn.St)
    (h : MuxOwn.run .code (MuxOwn.init cap) as = some st) (c : Nat) (ho : st.closed = none)
    (h1 : MuxOwn.step .code st (.writeCancelled c) = some st1 ∨ MuxOwn.step .code st (.buildFailed c) = some st1)
    (h2 : MuxOwn.step .code st1 (.release c) = some st2) :
    st2.owner (st2.sidOf c) = none ∧ st2.reg (st2.sidOf c) = none ∧ st2.wire (st2.sidOf c) = .none := by
  have inv := MuxOwn.inv_run as _ st (MuxOwn.inv_init cap) h
  have inv1 : MuxOwn.Inv st1 := by
    rcases h1 with h1 | h1 <;> exact MuxOwn.inv_step st st1 _ inv h1
  have hc1 : st1.closed = none ∧ st1.rel c = .due := by
    rcases h1 with h1 | h1 <;>
    · simp only [MuxOwn.step] at h1
      split at h1
      · injection h1 with h1; subst h1; simp [MuxOwn.earlyExit, MuxOwn.upd, ho]
      · simp at h1
  have r := inv1.rel_ok c hc1.2
  simp only [MuxOwn.step, hc1.2, if_true] at h2
  injection h2 with h2; subst h2
  simp only [MuxOwn.upd, if_true]
  exact ⟨trivial, r.2.2.1 hc1.1, r.2.1⟩

/-- Counterexample for the variant in which releaseStream removes the `c.calls` entry of its id AFTER it has freed the
    id and run the observer callback (seeded change C01-8): call 1 is answered and, inside releaseStream, has freed id 1;
    call 2 is given id 1, registers and writes; call 1's releaseStream now deletes the entry of id 1 - call 2's; the
    peer's answer to call 2 finds no handler and is discarded. Replay: `ds 2 0 q5% d1 q5 q5 f1 d3`. -/
theorem C01_cex_delete_after_clear :
    ∃ st, MuxOwn.run { lateRegister := false, hbErrFatal := false, lateDelete := true } (MuxOwn.init 128)
        [.reserve 1 1 .user, .register 1, .write 1, .writeReturned 1, .answer 1 0 1, .deliver 1, .release 1,
         .reserve 2 1 .user, .register 2, .write 2, .writeReturned 2, .relDone 1, .answer 1 0 2, .deliver 1] = some st ∧
      st.lost 2 = true ∧ st.pc 2 = .flight 1 true true true ∧ st.wire 1 = .none := by
  refine ⟨_, rfl, ?_, ?_, ?_⟩ <;> decide

/-- non-vacuity (the code that exists): the same history ends well - the second holder of id 1 gets its own answer -/
example : ∃ st, MuxOwn.run .code (MuxOwn.init 128)
    [.reserve 1 1 .user, .register 1, .write 1, .writeReturned 1, .answer 1 0 1, .deliver 1, .release 1,
     .reserve 2 1 .user, .register 2, .write 2, .writeReturned 2, .relDone 1, .answer 1 0 2, .deliver 1] = some st ∧
    st.pc 1 = .done (.resp ⟨1, 0, 1⟩) ∧ st.pc 2 = .done (.resp ⟨1, 0, 2⟩) ∧ st.lost 2 = false := by
  refine ⟨_, rfl, ?_, ?_, ?_⟩ <;> decide

/-- non-vacuity of the early exits: call 2 waits for the write slot behind call 1, its context is cancelled, its id is
    freed and at once reused by call 3, which gets its own answer -/
example : ∃ st, MuxOwn.run .code (MuxOwn.init 128)
    [.reserve 1 1 .user, .register 1, .write 1, .reserve 2 64 .user, .register 2, .writeCancelled 2, .release 2, .relDone 2,
     .writeReturned 1, .reserve 3 64 .user, .register 3, .write 3, .writeReturned 3, .answer 64 0 3, .deliver 64] = some st ∧
    st.pc 2 = .done .ctxErr ∧ st.pc 3 = .done (.resp ⟨64, 0, 3⟩) := by
  refine ⟨_, rfl, ?_, ?_⟩ <;> decide

/-- SEVERAL CONNECTIONS of one process, their steps interleaved in any way: a call of connection `k` is handed only the
    frame the peer OF CONNECTION `k` sent for its stream id, or an error of connection `k` that carries no frame -
    nothing that happens on another connection (its answers, its close, the error it was closed with, calls leaving it
    early) reaches it: the per-request rendezvous objects are not shared between connections -/
theorem C01_connections_independent (cap : Nat) (as : List (Nat × MuxOwn.Act)) (m : Nat → MuxOwn.St)
    (h : MuxOwn.mrun .code (fun _ => MuxOwn.init cap) as = some m) (k : Nat) :
    MuxOwn.run .code (MuxOwn.init cap) (MuxOwn.proj k as) = some (m k) ∧
    ∀ c o, (m k).pc c = .done o →
      (∀ f, o = .resp f → (m k).sent c = some f ∧ f.sid = (m k).sidOf c) ∧ (∀ e, o = .connErr e → e = .plain) := by
  have hk := MuxOwn.mrun_proj .code as _ m h k
  exact ⟨hk, fun c o hd => C01_no_foreign_frame cap _ (m k) hk c o hd⟩

/-- non-vacuity: connection 1 is closed by its peer while call 1 is inside Write and call 2 left early; call 3 on
    connection 2 gets its own answer -/
example : ∃ m, MuxOwn.mrun .code (fun _ => MuxOwn.init 128)
    [(1, .reserve 1 1 .user), (1, .register 1), (1, .write 1), (1, .reserve 2 64 .user), (1, .register 2), (1, .close),
     (1, .writeCancelled 2), (1, .release 2), (1, .relDone 2), (2, .reserve 3 1 .user), (2, .register 3), (2, .write 3),
     (2, .writeReturned 3), (1, .writeReturned 1), (1, .connDone 1), (2, .answer 1 0 3), (2, .deliver 1)] = some m ∧
    (m 1).pc 1 = .done (.connErr .plain) ∧ (m 1).pc 2 = .done .ctxErr ∧ (m 2).pc 3 = .done (.resp ⟨1, 0, 3⟩) := by
  refine ⟨_, rfl, ?_, ?_, ?_⟩ <;> decide

/-! ## The two machines are one: `Model/MuxOwn.lean` REFINES `Model/Mux.lean` (round 8, `Proofs/C01Refine.lean`)

Mux's `acquire` (GetStream + addCall) is MuxOwn's `register`, `wrote` is `write`; `reserve`, `writeReturned`, `release`,
`relDone` are stutter steps; a write failure after the bytes were handed over is Mux's `close` + `connDone`. Mux's
`owner s` is "the call registered under `s` whose id has not been put up for release". -/

/-- REFINEMENT: every run of the machine with the sender's steps, the connection's own requests, the early exits and the
    two-step releaseStream (code configuration) is matched, action by action (`MuxOwn.trAll`), by a run of the abstract
    multiplexing machine that ends in a related state and shows the same observable events `req` / `resp` / `got` /
    `stray` / `event` -/
theorem C01_own_refines_mux (cap : Nat) (as : List MuxOwn.Act) (st : MuxOwn.St)
    (h : MuxOwn.run .code (MuxOwn.init cap) as = some st) :
    ∃ m, Mux.run (Mux.init cap) (MuxOwn.trAll (MuxOwn.init cap) as) = some m ∧ MuxOwn.R st m ∧
      Mux.trace (Mux.init cap) (MuxOwn.trAll (MuxOwn.init cap) as) = MuxOwn.otrace .code (MuxOwn.init cap) as :=
  MuxOwn.sim_run as _ st _ (MuxOwn.inv_init cap) (MuxOwn.R_init cap) h

/-- … hence the observation monitor that judges real Session runs accepts the observable projection of every run of
    the finer machine too (soundness of the monitor, transferred) -/
theorem C01_own_monitor_sound (cap : Nat) (as : List MuxOwn.Act) (st : MuxOwn.St)
    (h : MuxOwn.run .code (MuxOwn.init cap) as = some st) :
    (Mux.Mon.run (Mux.Mon.init cap) (MuxOwn.otrace .code (MuxOwn.init cap) as)).bad = none := by
  obtain ⟨m, hm, _, ht⟩ := C01_own_refines_mux cap as st h
  rw [← ht]
  exact C01_monitor_sound cap _ m hm

/-- … and the routing theorem proved on the abstract machine transfers: what a call of the finer machine is handed is,
    kind and content, what the peer answered to THAT call (here derived from `C01_routing_content` of Mux through the
    refinement, not from MuxOwn's own invariant) -/
theorem C01_own_routing_transferred (cap : Nat) (as : List MuxOwn.Act) (st : MuxOwn.St)
    (h : MuxOwn.run .code (MuxOwn.init cap) as = some st) (d : Nat) (f : MuxOwn.Frame)
    (hd : st.pc d = .done (.resp f)) : (st.sent d).map (fun g => (g.kind, g.tag)) = some (f.kind, f.tag) := by
  obtain ⟨m, hm, r, _⟩ := C01_own_refines_mux cap as st h
  have := C01_routing_content cap _ m hm d d f.kind f.tag (r.pc_resp d f hd)
  rw [← r.sent d]; exact this

/-- non-vacuity: a history with a registration, a late Write return, a cancelled call, a reuse of a freed id and an
    early exit; its Mux counterpart and the common observation stream -/
def refineHistory : List MuxOwn.Act :=
  [.reserve 1 1 .user, .register 1, .write 1, .answer 1 0 11, .writeReturned 1, .deliver 1, .release 1,
   .reserve 2 1 .user, .register 2, .write 2, .writeReturned 2, .relDone 1, .cancel 2,
   .reserve 3 64 .user, .register 3, .writeCancelled 3, .release 3, .relDone 3, .answer 1 0 22, .deliver 1, .stray 99]

example : MuxOwn.trAll (MuxOwn.init 128) refineHistory =
    [.acquire 1 1, .wrote 1, .answer 1 0 11, .deliver 1, .acquire 2 1, .wrote 2, .cancel 2, .acquire 3 64,
     .writeCancelled 3, .answer 1 0 22, .deliver 1, .stray 99] := by rfl

example : MuxOwn.otrace .code (MuxOwn.init 128) refineHistory =
    [.req 1 1, .resp 1 1 0 11, .got 1 0 11, .req 1 2, .resp 1 2 0 22, .stray 99] := by decide

/-! ## Call objects as entities; a pool of them (`Model/MuxPool.lean`, round 8)

closeWithError walks a snapshot of POINTERS to call objects and sends the connection's error to whoever reads the channel
of each. The code that exists allocates a fresh call object per request (`Policy.never`). -/

/-- for the code that exists AND for a pool that takes an object back only when no `c.calls` map and no closeWithError
    snapshot refers to it: over all connections, all interleavings of requests starting, being answered, leaving early,
    connections closing and closeWithError getting round to each object - the error of connection `k` is only ever
    handed to a request of connection `k` -/
theorem C01_recycling_safe (p : MuxPool.Policy) (hp : p ≠ .onRelease) (as : List MuxPool.Act) (st : MuxPool.St)
    (h : MuxPool.run p MuxPool.init as = some st) (r k : Nat) (hd : st.pc r = .done (.connErr k)) : st.conn r = k :=
  (MuxPool.inv_run p hp as _ st MuxPool.inv_init h).err_ok r k hd

/-- the invariant that makes it safe: an object that a `c.calls` map or a snapshot refers to is not in the pool, and
    whoever reads its channel is a request of that very connection -/
theorem C01_referenced_object_not_pooled (p : MuxPool.Policy) (hp : p ≠ .onRelease) (as : List MuxPool.Act) (st : MuxPool.St)
    (h : MuxPool.run p MuxPool.init as = some st) (o k : Nat) (hr : st.inCalls o = some k ∨ st.inWalk o = some k) :
    st.pool o = false ∧ ∀ r, st.user o = some r → st.conn r = k := by
  have inv := MuxPool.inv_run p hp as _ st MuxPool.inv_init h
  rcases hr with hr | hr
  · exact ⟨(inv.calls_ok o k hr).1, (inv.calls_ok o k hr).2.2.2⟩
  · exact ⟨(inv.walk_ok o k hr).1, (inv.walk_ok o k hr).2.2⟩

/-- Counterexample for the pool that takes an object back whenever its stream is released (seeded change C01-7):
    connection 1 closes while requests 1 and 2 are inside exec; request 2 leaves through the nothing-written exit and puts
    object 1 back although closeWithError's snapshot still holds it; request 3 on CONNECTION 2 is given object 1; when
    closeWithError(1) gets to object 1, request 3 is handed the error of connection 1.
    Replay: `ds 2 0 !q5 q5 z c2 @2 q5 w1 …`. -/
theorem C01_cex_recycle_on_release :
    ∃ st, MuxPool.run .onRelease MuxPool.init
        [.start 1 1 0, .start 2 1 1, .close 1, .leave 2, .start 3 2 1, .visit 1 1] = some st ∧
      st.pc 3 = .done (.connErr 1) ∧ st.conn 3 = 2 := by
  refine ⟨_, rfl, ?_, ?_⟩ <;> decide

/-- non-vacuity: the safe pool does recycle (object 0 serves request 1 on connection 1, then request 2 on connection
    2), refuses the put-back of the history above (request 3 cannot be given object 1), and the error of connection 1
    reaches request 1 -/
example : ∃ st, MuxPool.run .whenUnreferenced MuxPool.init
    [.start 1 1 0, .respond 1, .start 2 2 0, .respond 2] = some st ∧ st.pc 2 = .done .own ∧ st.pool 0 = true := by
  refine ⟨_, rfl, ?_, ?_⟩ <;> decide

example : (MuxPool.run .whenUnreferenced MuxPool.init
    [.start 1 1 0, .start 2 1 1, .close 1, .leave 2, .start 3 2 1]).isNone = true := by decide

example : ∃ st, MuxPool.run .never MuxPool.init
    [.start 1 1 0, .start 2 1 1, .close 1, .leave 2, .start 3 2 2, .visit 1 1, .visit 1 0, .respond 3] = some st ∧
    st.pc 1 = .done (.connErr 1) ∧ st.pc 2 = .done .ctx ∧ st.pc 3 = .done .own := by
  refine ⟨_, rfl, ?_, ?_, ?_⟩ <;> decide

end C01
