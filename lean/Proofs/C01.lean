import Proofs.C01Mux
import Proofs.C01Monitor
/-!
# C01 — every response reaches the request that caused it, and only that one (property theorems)

Model: `Model/Mux.lean` — per wire identifier: the call that holds it (allocator bit + `c.calls` entry)
and what the server side holds for it; per call a program counter. `deliver s` hands the response to
whoever is REGISTERED for `s` (as `recv` does: `c.calls[head.stream]`), while the response's origin is
a ghost field; the theorems show the two always coincide. All theorems: every action list (any number
of callers, any answer order incl. never, any mix of timeouts / cancellations / write failures / close).
-/
namespace C01
open Mux

/-- whenever a caller takes a response from its rendezvous, it is the response to its own request -/
theorem C01_routing (cap : Nat) (as : List Act) (st : St) (h : run (init cap) as = some st)
    (d c : Nat) (hr : st.pc d = .done (.resp c)) : c = d :=
  (inv_run as _ st (inv_init cap) h).resp_origin d c hr

/-- while a request (or its unconsumed response) is outstanding on id `s`, `s` stays reserved for the
    call that sent it — also after that call timed out or was cancelled — … -/
theorem C01_no_reuse_while_late (cap : Nat) (as : List Act) (st : St) (h : run (init cap) as = some st)
    (s c : Nat) (hw : st.wire s = .pending c ∨ st.wire s = .answered c) : st.owner s = some c := by
  have := (inv_run as _ st (inv_init cap) h).wire_own s
  grind

/-- … hence the allocator cannot hand `s` to another request until the late response has arrived -/
theorem C01_late_response_not_misdelivered (cap : Nat) (as : List Act) (st : St)
    (h : run (init cap) as = some st) (s c c' : Nat)
    (hw : st.wire s = .pending c ∨ st.wire s = .answered c) : step st (.acquire c' s) = none := by
  have := C01_no_reuse_while_late cap as st h s c hw
  simp [step, this]

/-- every id on the wire is in 1..cap-1 -/
theorem C01_ids_in_range (cap : Nat) (as : List Act) (st : St) (h : run (init cap) as = some st)
    (s c : Nat) (ho : st.owner s = some c) : 1 ≤ s ∧ s < st.cap := by
  have := (inv_run as _ st (inv_init cap) h).own_pc s c ho
  exact ⟨this.2.1, this.2.2.1⟩

/-- Soundness of the observation monitor that ties this model to the code: the observable projection
    (`req` / `resp` seen by the server, `got` seen by the callers) of EVERY run of the machine is accepted by
    `Mon` — the monitor that `vdrv C01` runs over the observations of real connections never rejects a
    behaviour of the model. Hence a `reject:` on a real run is never an artefact of the monitor. -/
theorem C01_monitor_sound (cap : Nat) (as : List Act) (st : St) (h : run (init cap) as = some st) :
    (Mon.run (Mon.init cap) (trace (init cap) as)).bad = none :=
  (sim_run as (init cap) st (Mon.init cap) (inv_init cap) (sim_init cap) h).ok

/-- … and the monitor's bookkeeping is exact: after the run it holds an unanswered request on `s` with
    token `t` iff the server side still holds the unanswered request of call `t` on `s` -/
theorem C01_monitor_exact (cap : Nat) (as : List Act) (st : St) (h : run (init cap) as = some st) (s t : Nat) :
    (Mon.run (Mon.init cap) (trace (init cap) as)).lookup s = some (t, false) ↔ st.wire s = .pending t :=
  (sim_run as (init cap) st (Mon.init cap) (inv_init cap) (sim_init cap) h).pend s t

/-- non-vacuity: a history with a timeout, a reuse attempt and a late reply — caller 1 times out on id 5,
    caller 2 cannot get id 5, the late answer for caller 1 is released, then caller 2 gets id 5 and its
    own response. -/
def lateReplyHistory : List Act :=
  [.acquire 1 5, .wrote 1, .timeout 1, .acquire 2 6, .wrote 2, .answer 5, .deliver 5, .acquire 3 5, .wrote 3,
   .answer 5, .deliver 5, .answer 6, .deliver 6]

example : ∃ st, run (init 128) lateReplyHistory = some st ∧
    st.pc 1 = .done .timeout ∧ st.pc 2 = .done (.resp 2) ∧ st.pc 3 = .done (.resp 3) ∧ st.owner 5 = none := by
  refine ⟨_, rfl, ?_, ?_, ?_, ?_⟩ <;> decide

example : trace (init 128) lateReplyHistory =
    [.req 5 1, .req 6 2, .resp 5 1, .req 5 3, .resp 5 3, .got 3 3, .resp 6 2, .got 2 2] := by decide

example : (do let st ← run (init 128) [.acquire 1 5, .wrote 1, .timeout 1]; step st (.acquire 2 5)).isNone = true := by
  decide

end C01
