import Model.Policies
import Proofs.C11RR
import Proofs.C11Pol
import Proofs.C11Scan
import Proofs.C11TA
import Proofs.C11Iter
/-! helper lemmas: rotation of the starting host per tier — a window of `n` successive shifts hits every start
position of a layer of `n` hosts once; first-host histograms over `m` successive picks -/
namespace C11
open Policies

/-! ### counting over windows of successive shifts -/

/-- a window of `n` successive shifts hits every residue mod `n` exactly once -/
theorem countP_window (g : Nat → Bool) (n' a : Nat) :
    (List.range (n' + 1)).countP (fun p => g ((a + p) % (n' + 1))) = (List.range (n' + 1)).countP g := by
  induction a with
  | zero =>
    apply List.countP_congr
    intro p hp
    have : p < n' + 1 := List.mem_range.mp hp
    rw [Nat.zero_add, Nat.mod_eq_of_lt this]
  | succ a ih =>
    rw [← ih]
    conv => lhs; rw [List.range_succ]
    conv => rhs; rw [List.range_succ_eq_map]
    rw [List.countP_append, List.countP_cons (l := List.map _ _), List.countP_map]
    have e1 : (a + 1 + n') % (n' + 1) = (a + 0) % (n' + 1) := by
      have : a + 1 + n' = a + (n' + 1) := by omega
      show (a + 1 + n') % (n' + 1) = a % (n' + 1)
      rw [this, Nat.add_mod_right, Nat.add_zero]
    have e2 : List.countP (fun p => g ((a + 1 + p) % (n' + 1))) (List.range n') =
        List.countP ((fun p => g ((a + p) % (n' + 1))) ∘ Nat.succ) (List.range n') := by
      apply List.countP_congr
      intro p _
      have : a + 1 + p = a + p.succ := by omega
      simp only [Function.comp, this]
    rw [e2]
    simp only [List.countP_cons, List.countP_nil, e1]
    omega

/-- `k` whole periods -/
theorem countP_periods (g : Nat → Bool) (n' a k : Nat) :
    (List.range (k * (n' + 1))).countP (fun p => g ((a + p) % (n' + 1))) = k * (List.range (n' + 1)).countP g := by
  induction k with
  | zero => simp
  | succ k ih =>
    rw [Nat.succ_mul, List.range_add, List.countP_append, ih, List.countP_map]
    have e : List.countP ((fun p => g ((a + p) % (n' + 1))) ∘ fun x => k * (n' + 1) + x) (List.range (n' + 1)) =
        List.countP (fun p => g ((a + k * (n' + 1) + p) % (n' + 1))) (List.range (n' + 1)) := by
      apply List.countP_congr
      intro p _
      simp only [Function.comp, Nat.add_assoc]
    rw [e, countP_window, Nat.succ_mul]

/-- fewer than a period: at most one period's worth -/
theorem countP_partial (g : Nat → Bool) (n' a r : Nat) (hr : r ≤ n' + 1) :
    (List.range r).countP (fun p => g ((a + p) % (n' + 1))) ≤ (List.range (n' + 1)).countP g := by
  rw [← countP_window g n' a]
  exact List.Sublist.countP_le (List.range_sublist.mpr hr)

/-- any number `m` of successive shifts: between ⌊m/n⌋ and ⌈m/n⌉ periods' worth; whole periods exactly -/
theorem countP_shifts (g : Nat → Bool) (n' a m : Nat) :
    m / (n' + 1) * (List.range (n' + 1)).countP g ≤ (List.range m).countP (fun p => g ((a + p) % (n' + 1))) ∧
    (List.range m).countP (fun p => g ((a + p) % (n' + 1))) ≤ ceilDiv m (n' + 1) * (List.range (n' + 1)).countP g := by
  have hm : m = m / (n' + 1) * (n' + 1) + m % (n' + 1) := by
    rw [Nat.mul_comm]; exact (Nat.div_add_mod m (n' + 1)).symm
  have hsplit : (List.range m).countP (fun p => g ((a + p) % (n' + 1))) =
      m / (n' + 1) * (List.range (n' + 1)).countP g +
      (List.range (m % (n' + 1))).countP (fun p => g ((a + m / (n' + 1) * (n' + 1) + p) % (n' + 1))) := by
    conv => lhs; rw [hm]
    rw [List.range_add, List.countP_append, countP_periods, List.countP_map]
    congr 1
    apply List.countP_congr
    intro p _
    simp only [Function.comp, Nat.add_assoc]
  rw [hsplit]
  refine ⟨Nat.le_add_right _ _, ?_⟩
  unfold ceilDiv
  split
  · rename_i h0
    rw [h0]
    simp
  · have hp := countP_partial g n' (a + m / (n' + 1) * (n' + 1)) (m % (n' + 1)) (Nat.le_of_lt (Nat.mod_lt _ (by omega)))
    rw [Nat.add_mul, Nat.one_mul]
    omega

/-! ### start positions and the first host that can be offered -/

/-- SPECIFICATION side: the scan of a layer starts at list position `i` and goes on cyclically in list order;
the first host that can be offered (`f`) -/
def firstFrom (f : Host → Bool) (l : List Host) (i : Nat) : Option Host :=
  ((l.drop i ++ l.take i).filter f).head?

/-- the number of start positions from which `h` is the first host that can be offered -/
def specWeight (f : Host → Bool) (l : List Host) (h : Host) : Nat :=
  (List.range l.length).countP (fun i => firstFrom f l i == some h)

/-- the first host the scan of the code with shift `s` offers from a layer -/
def firstOf (f : Host → Bool) (s : Nat) (l : List Host) : Option Host := ((layerSeq s l).filter f).head?

/-- the scan with shift `s` starts at list position `(s + 1) mod n` -/
theorem firstOf_eq (f : Host → Bool) (s : Nat) (l : List Host) :
    firstOf f s l = firstFrom f l ((s + 1) % l.length) := by
  unfold firstOf firstFrom
  rw [layerSeq_eq_rot]
  rfl

theorem firstFrom_at (f : Host → Bool) (l : List Host) (i : Nat) (hi : i < l.length) (hf : f l[i] = true) :
    firstFrom f l i = some l[i] := by
  unfold firstFrom
  rw [List.drop_eq_getElem_cons hi, List.cons_append, List.filter_cons_of_pos hf]
  rfl

theorem map_getD_range (l : List Host) : (List.range l.length).map (fun i => l.getD i default) = l := by
  apply List.ext_getElem
  · simp
  · intro i h1 h2
    simp [List.getD_eq_getElem?_getD, List.getElem?_eq_getElem h2]

theorem countP_range_getD (P : Host → Bool) (l : List Host) :
    (List.range l.length).countP (fun i => P (l.getD i default)) = l.countP P := by
  conv => rhs; rw [← map_getD_range l]
  rw [List.countP_map]
  rfl

theorem countP_or_le (P Q : Host → Bool) (l : List Host) :
    l.countP (fun x => P x || Q x) ≤ l.countP P + l.countP Q := by
  induction l with
  | nil => simp
  | cons a t ih =>
    simp only [List.countP_cons]
    cases P a <;> cases Q a <;> simp <;> omega

/-- a host that can be offered is the first one from at least one start position: its own -/
theorem specWeight_pos (f : Host → Bool) (l : List Host) (h : Host) (hm : h ∈ l) (hf : f h = true) :
    1 ≤ specWeight f l h := by
  obtain ⟨i, hi, e⟩ := List.getElem_of_mem hm
  unfold specWeight
  apply List.countP_pos_iff.mpr
  refine ⟨i, List.mem_range.mpr hi, ?_⟩
  rw [firstFrom_at f l i hi (by rw [e]; exact hf), e]
  simp

/-- … and from at most `1 + d` start positions: its own and those of the `d` hosts that cannot be offered -/
theorem specWeight_le (f : Host → Bool) (l : List Host) (hn : l.Nodup) (h : Host) :
    specWeight f l h ≤ 1 + l.countP (fun x => !f x) := by
  unfold specWeight
  have h1 : (List.range l.length).countP (fun i => firstFrom f l i == some h) ≤
      (List.range l.length).countP (fun i => (fun x => x == h || !f x) (l.getD i default)) := by
    apply List.countP_mono_left
    intro i hi hg
    have hi' : i < l.length := List.mem_range.mp hi
    have eg : l.getD i default = l[i] := by simp [List.getD_eq_getElem?_getD, List.getElem?_eq_getElem hi']
    simp only [eg]
    by_cases hf : f l[i] = true
    · rw [firstFrom_at f l i hi' hf] at hg
      have : l[i] = h := by simpa using hg
      simp [this]
    · simp [hf]
  rw [countP_range_getD (fun x => x == h || !f x) l] at h1
  have h2 := countP_or_le (fun x => x == h) (fun x => !f x) l
  have h3 : l.countP (fun x => x == h) ≤ 1 := by
    have := List.count_eq_countP (a := h) (l := l)
    rw [← this, List.Nodup.count hn]
    split <;> omega
  omega

/-- the histogram of first hosts over `m` successive picks of the code (shifts `c + 1 … c + m`) against the
specification's weights: at least ⌊m/n⌋, at most ⌈m/n⌉ times the weight; over whole periods exactly -/
theorem firstOf_hist (f : Host → Bool) (l : List Host) (h : Host) (c m : Nat) (hl : l ≠ []) :
    m / l.length * specWeight f l h ≤ (List.range m).countP (fun p => firstOf f (c + 1 + p) l == some h) ∧
    (List.range m).countP (fun p => firstOf f (c + 1 + p) l == some h) ≤ ceilDiv m l.length * specWeight f l h := by
  obtain ⟨n', hn'⟩ : ∃ n', l.length = n' + 1 := ⟨l.length - 1, by
    have : 0 < l.length := List.length_pos_iff.mpr hl
    omega⟩
  have e : (List.range m).countP (fun p => firstOf f (c + 1 + p) l == some h) =
      (List.range m).countP (fun p => (fun i => firstFrom f l i == some h) ((c + 2 + p) % (n' + 1))) := by
    apply List.countP_congr
    intro p _
    rw [firstOf_eq, hn']
    have : c + 1 + p + 1 = c + 2 + p := by omega
    rw [this]
  rw [e]
  unfold specWeight
  rw [hn']
  exact countP_shifts _ n' (c + 2) m

/-! ### the drained iterators of successive picks -/

theorem minusUsed_eq_filter (used fb : List Host) (hn : fb.Nodup) :
    minusUsed used fb = fb.filter (fun h => !used.contains h) := by
  induction fb generalizing used with
  | nil => rfl
  | cons a r ih =>
    have hr : r.Nodup := (List.nodup_cons.mp hn).2
    have ha : a ∉ r := (List.nodup_cons.mp hn).1
    unfold minusUsed
    split
    · rename_i hc
      have hc' : a ∈ used := by simpa using hc
      rw [ih used hr, List.filter_cons_of_neg (by simp [hc'])]
    · rename_i hc
      have hc' : a ∉ used := by simpa using hc
      rw [ih (a :: used) hr, List.filter_cons_of_pos (by simp [hc'])]
      congr 1
      apply List.filter_congr
      intro x hx
      have : x ≠ a := fun e => ha (e ▸ hx)
      simp [this]

theorem mem_specHead (tier : Host → Nat) (m : Nat) (up : Nat → Bool) (nl : Bool) (reps : List Host) (x : Host) :
    x ∈ specHead tier m up nl reps ↔
      x ∈ reps ∧ tier x < (if nl then m + 1 else 1) ∧ up x.id = true := by
  unfold specHead
  simp only [List.mem_flatten, List.mem_map, List.mem_range]
  constructor
  · rintro ⟨l, ⟨t, ht, rfl⟩, hx⟩
    rw [List.mem_filter] at hx
    have h2 : tier x = t ∧ up x.id = true := by simpa using hx.2
    exact ⟨hx.1, by omega, h2.2⟩
  · rintro ⟨h1, h2, h3⟩
    refine ⟨_, ⟨tier x, h2, rfl⟩, ?_⟩
    rw [List.mem_filter]
    exact ⟨h1, by simp [h3]⟩

/-- which hosts the replica phases offer does not depend on the order of the replica list (the shuffle) -/
theorem taHead_contains_perm (tier : Host → Nat) (m : Nat) (up : Nat → Bool) (nl : Bool) (r1 r2 : List Host)
    (hp : r1.Perm r2) (x : Host) :
    (taHead tier m up nl r1).contains x = (taHead tier m up nl r2).contains x := by
  rw [taHead_eq_specHead, taHead_eq_specHead]
  have h1 := mem_specHead tier m up nl r1 x
  have h2 := mem_specHead tier m up nl r2 x
  rw [hp.mem_iff] at h1
  have : x ∈ specHead tier m up nl r1 ↔ x ∈ specHead tier m up nl r2 := h1.trans h2.symm
  cases e1 : (specHead tier m up nl r1).contains x <;> cases e2 : (specHead tier m up nl r2).contains x <;> simp_all

/-- … nor on the rotation counter -/
theorem headOf_withCtr (t : TA) (c : Nat) (up : Nat → Bool) (σ : List Host → List Host) (rk : Option (Nat × Nat)) :
    (t.withCtr c).headOf up σ rk = t.headOf up σ rk := rfl

theorem headOf_contains_perm (t : TA) (up : Nat → Bool) (σ1 σ2 : List Host → List Host)
    (h1 : ∀ l, (σ1 l).Perm l) (h2 : ∀ l, (σ2 l).Perm l) (rk : Option (Nat × Nat)) (x : Host) :
    (t.headOf up σ1 rk).contains x = (t.headOf up σ2 rk).contains x := by
  unfold TA.headOf
  cases rk with
  | none => rfl
  | some kt =>
    obtain ⟨ks, tok⟩ := kt
    simp only
    cases t.replicasFor ks tok with
    | noRing => rfl
    | emptyRing => rfl
    | hosts l ft =>
      simp only
      split
      · exact taHead_contains_perm _ _ _ _ _ _ ((h1 l).trans (h2 l).symm) x
      · rfl

/-- the drained iterator is the replica phases followed by the fallback part -/
theorem pickScan_parts (t : TA) (up : Nat → Bool) (σ : List Host → List Host) (rk : Option (Nat × Nat)) :
    t.pickScan up σ rk = ⟨t.headOf up σ rk ++ (t.fbPart up σ rk).offered, (t.fbPart up σ rk).crashed⟩ := by
  unfold TA.pickScan TA.headOf TA.fbPart
  cases rk with
  | none => rfl
  | some kt =>
    obtain ⟨ks, tok⟩ := kt
    simp only
    cases t.replicasFor ks tok <;> rfl

/-- below the counter bound the fallback part is the ideal round-robin sequence minus the hosts of the replica
phases, and the iterator does not panic -/
theorem fbPart_eq (t : TA) (hp : Inv t.pol) (hb : Pol.below t.pol) (up : Nat → Bool) (σ : List Host → List Host)
    (rk : Option (Nat × Nat)) :
    t.fbPart up σ rk = ⟨(rrSeq up (t.pol.ctr + 1) [t.pol.l0, t.pol.l1, t.pol.l2]).filter
      (fun h => !(t.headOf up σ rk).contains h), false⟩ := by
  have hs : t.pol.pickScan up = ⟨rrSeq up (t.pol.ctr + 1) [t.pol.l0, t.pol.l1, t.pol.l2], false⟩ := by
    rw [pickScan_small t.pol up hb]
    unfold Pol.pickSeq
    rw [rrSeq_layers t.pol hp]
  have hn : (rrSeq up (t.pol.ctr + 1) [t.pol.l0, t.pol.l1, t.pol.l2]).Nodup := rrSeq_nodup up _ _ (three_nodup t.pol hp)
  have plain : t.pol.pickScan up = ⟨(rrSeq up (t.pol.ctr + 1) [t.pol.l0, t.pol.l1, t.pol.l2]).filter
      (fun h => !([] : List Host).contains h), false⟩ := by
    rw [hs]; simp
    exact (List.filter_eq_self.mpr (fun _ _ => rfl)).symm
  unfold TA.fbPart TA.headOf
  cases rk with
  | none => exact plain
  | some kt =>
    obtain ⟨ks, tok⟩ := kt
    simp only
    cases t.replicasFor ks tok with
    | noRing => exact plain
    | emptyRing => exact plain
    | hosts l ft =>
      simp only [hs]
      rw [minusUsed_eq_filter _ _ hn]

theorem filter_tier (tier : Host → Nat) (i t : Nat) (L : List Host) (hL : ∀ h ∈ L, tier h = i) :
    L.filter (fun h => tier h == t) = if i = t then L else [] := by
  split
  · rename_i e
    apply List.filter_eq_self.mpr
    intro h hh
    simp [hL h hh, e]
  · rename_i e
    apply List.filter_eq_nil_iff.mpr
    intro h hh
    simp [hL h hh, e]

/-- the first host of tier `t` in the fallback part = the first host that can be offered in the scan of layer `t` -/
theorem tierFirst_rrSeq (p : Pol) (hp : Inv p) (up : Nat → Bool) (q : Host → Bool) (s t : Nat) (ht : t < 3) :
    tierFirst p.tier t ((rrSeq up s [p.l0, p.l1, p.l2]).filter q) =
      firstOf (fun h => up h.id && q h) s (p.getLayer t) := by
  have part : ∀ (i : Nat) (l : List Host), (∀ h ∈ l, p.tier h = i) →
      ((((layerSeq s l).filter (fun h => up h.id)).filter q).filter (fun h => p.tier h == t)) =
        if i = t then (layerSeq s l).filter (fun h => up h.id && q h) else [] := by
    intro i l hl
    rw [filter_tier p.tier i t _ (fun h hh => hl h ((mem_layerSeq s l h).mp
      (List.mem_filter.mp (List.mem_filter.mp hh).1).1))]
    split
    · rw [List.filter_filter]
      apply List.filter_congr
      intro x _
      exact Bool.and_comm _ _
    · rfl
  unfold tierFirst firstOf
  simp only [rrSeq_cons, rrSeq_nil, List.append_nil, List.filter_append]
  rw [part 0 p.l0 hp.t0, part 1 p.l1 hp.t1, part 2 p.l2 hp.t2]
  have : t = 0 ∨ t = 1 ∨ t = 2 := by omega
  rcases this with rfl | rfl | rfl <;> simp [Pol.getLayer]

/-! ### `m` successive picks -/

theorem drained_withCtr (t : TA) (h : t.pol.ctr + 1 < 18446744073709551616) :
    t.drained = t.withCtr (t.pol.ctr + 1) := by
  unfold TA.drained Pol.bump TA.withCtr
  rw [Nat.mod_eq_of_lt h]

/-- the run of `m` successive picks, pick by pick: pick number `p` happens with the counter at `c + p` -/
theorem rotateRun_eq (up : Nat → Bool) (σs : Nat → List Host → List Host) (rk : Option (Nat × Nat)) :
    ∀ (m : Nat) (t : TA) (i : Nat), t.pol.ctr + m < 18446744073709551616 →
      TA.rotateRun t up σs rk i m = (List.range m).map (fun p =>
        ((t.withCtr (t.pol.ctr + p)).headOf up (σs (i + p)) rk, (t.withCtr (t.pol.ctr + p)).fbPart up (σs (i + p)) rk)) := by
  intro m
  induction m with
  | zero => intro t i _; rfl
  | succ m ih =>
    intro t i hc
    unfold TA.rotateRun
    rw [drained_withCtr t (by omega), ih (t.withCtr (t.pol.ctr + 1)) (i + 1) (by show t.pol.ctr + 1 + m < _; omega),
      List.range_succ_eq_map, List.map_cons, List.map_map]
    congr 1
    apply List.map_congr_left
    intro p _
    show ((t.withCtr (t.pol.ctr + 1 + p)).headOf up (σs (i + 1 + p)) rk,
          (t.withCtr (t.pol.ctr + 1 + p)).fbPart up (σs (i + 1 + p)) rk) = _
    simp only [Function.comp]
    have e1 : t.pol.ctr + 1 + p = t.pol.ctr + p.succ := by omega
    have e2 : i + 1 + p = i + p.succ := by omega
    rw [e1, e2]

theorem getD_three (a b c : List Host) (p : Pol) (ha : a = p.l0) (hb : b = p.l1) (hc : c = p.l2) (t : Nat) (ht : t < 3) :
    [a, b, c].getD t [] = p.getLayer t := by
  subst ha hb hc
  have : t = 0 ∨ t = 1 ∨ t = 2 := by omega
  rcases this with rfl | rfl | rfl <;> rfl

/-- MAIN LEMMA: for every policy state with the list invariant, every up/down state, every query, every shuffle
and every number `m` of successive picks below the counter bound: no iterator panics and the first-host histogram
of every tier is balanced (`rotVerdict … = none`) -/
theorem rotateVerdict_none (t : TA) (hp : Inv t.pol) (up : Nat → Bool) (σs : Nat → List Host → List Host)
    (hσ : ∀ i l, (σs i l).Perm l) (rk : Option (Nat × Nat)) (m : Nat)
    (hb : ∀ l ∈ t.pol.layers, t.pol.ctr + m + l.length < 9223372036854775808) :
    (∀ r ∈ TA.rotateRun t up σs rk 0 m, r.2.crashed = false) ∧ t.rotateVerdict up σs rk m = none := by
  have hc : t.pol.ctr + m < 18446744073709551616 := by
    have : t.pol.layers ≠ [] := by unfold Pol.layers; split <;> simp
    obtain ⟨l, hl⟩ := List.exists_mem_of_ne_nil _ this
    have := hb l hl
    omega
  -- every pick of the run, in closed form
  have hpick : ∀ p, p < m → (t.withCtr (t.pol.ctr + p)).fbPart up (σs (0 + p)) rk =
      ⟨(rrSeq up (t.pol.ctr + p + 1) [t.pol.l0, t.pol.l1, t.pol.l2]).filter
        (fun h => !(t.headOf up (σs 0) rk).contains h), false⟩ := by
    intro p hpm
    have hinv : Inv (t.withCtr (t.pol.ctr + p)).pol := ⟨hp.a0, hp.a1, hp.a2, hp.t0, hp.t1, hp.t2⟩
    have hbel : Pol.below (t.withCtr (t.pol.ctr + p)).pol := by
      intro l hl
      have := hb l hl
      show t.pol.ctr + p + 1 + l.length < _
      omega
    rw [fbPart_eq _ hinv hbel up _ rk]
    show (⟨(rrSeq up (t.pol.ctr + p + 1) [t.pol.l0, t.pol.l1, t.pol.l2]).filter
        (fun h => !((t.withCtr (t.pol.ctr + p)).headOf up (σs (0 + p)) rk).contains h), false⟩ : Scan) = _
    congr 1
    apply List.filter_congr
    intro x _
    rw [headOf_withCtr, headOf_contains_perm t up (σs (0 + p)) (σs 0) (hσ _) (hσ _) rk x]
  rw [TA.rotateVerdict, rotateRun_eq up σs rk m t 0 hc]
  constructor
  · intro r hr
    rw [List.mem_map] at hr
    obtain ⟨p, hpm, rfl⟩ := hr
    simp only
    rw [hpick p (List.mem_range.mp hpm)]
  · unfold rotVerdict
    rw [List.find?_eq_none]
    intro tt htt
    have htt3 : tt < 3 := by simpa using htt
    rw [getD_three _ _ _ t.pol rfl rfl rfl tt htt3]
    simp only [List.map_map, List.length_map, List.length_range, Bool.not_eq_true, Bool.not_eq_false']
    -- the histogram of this tier
    have hhits : ∀ h, firstHits t.pol.tier tt
        ((List.range m).map ((fun (x : List Host × Scan) => x.2.offered) ∘ fun p =>
          ((t.withCtr (t.pol.ctr + p)).headOf up (σs (0 + p)) rk, (t.withCtr (t.pol.ctr + p)).fbPart up (σs (0 + p)) rk))) h =
        (List.range m).countP (fun p => firstOf (fun h => up h.id && !(t.headOf up (σs 0) rk).contains h)
          (t.pol.ctr + 1 + p) (t.pol.getLayer tt) == some h) := by
      intro h
      unfold firstHits
      rw [List.countP_map]
      apply List.countP_congr
      intro p hpm
      simp only [Function.comp]
      rw [hpick p (List.mem_range.mp hpm)]
      simp only
      rw [tierFirst_rrSeq t.pol hp up _ (t.pol.ctr + p + 1) tt htt3]
      have : t.pol.ctr + p + 1 = t.pol.ctr + 1 + p := by omega
      rw [this]
    unfold tierBalanced
    rw [List.all_eq_true]
    intro h hh
    dsimp only
    cases hcand : (up h.id && !(t.headOf up (σs 0) rk).contains h) with
    | false => rfl
    | true =>
      have hne : t.pol.getLayer tt ≠ [] := List.ne_nil_of_mem hh
      have hnd : (t.pol.getLayer tt).Nodup :=
        (getLayer_tier t.pol hp tt (by omega)).1.nodup
      have hist := firstOf_hist (fun h => up h.id && !(t.headOf up (σs 0) rk).contains h) (t.pol.getLayer tt) h t.pol.ctr m hne
      have w1 := specWeight_pos (fun h => up h.id && !(t.headOf up (σs 0) rk).contains h) (t.pol.getLayer tt) h hh hcand
      have w2 := specWeight_le (fun h => up h.id && !(t.headOf up (σs 0) rk).contains h) (t.pol.getLayer tt) hnd h
      rw [hhits h]
      have lo : m / (t.pol.getLayer tt).length ≤ m / (t.pol.getLayer tt).length *
          specWeight (fun h => up h.id && !(t.headOf up (σs 0) rk).contains h) (t.pol.getLayer tt) h :=
        Nat.le_mul_of_pos_right _ w1
      have hi := Nat.mul_le_mul_left (ceilDiv m (t.pol.getLayer tt).length) w2
      simp only [Bool.not_true, Bool.false_or, Bool.and_eq_true, decide_eq_true_eq]
      exact ⟨Nat.le_trans lo hist.1, Nat.le_trans hist.2 hi⟩

end C11
