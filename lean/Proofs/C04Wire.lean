/- C04 helper lemmas: the receive path (readHeader, readFrame of Model/Compress.lean, then parseFrame)
   on the specification's wire encoding, with and without compression -/
import Proofs.C04Resp
import Model.Compress
import Proofs.C18Frame
namespace C04
open FrameRead RespSpec

/-- the stream id the driver reads back from the header -/
def streamOf (v : Nat) (s : Int) : Int :=
  if v ≤ 2 then Compress.int8Of (UInt8.ofNat (s % 256).toNat)
  else Compress.int16Of (UInt8.ofNat ((s % 65536).toNat / 256)) (UInt8.ofNat ((s % 65536).toNat % 256))

theorem readHeader_eHeader (v fl op len : Nat) (stream : Int) (body : FrameRead.Bytes)
    (h1 : 1 ≤ v) (h5 : v ≤ 5) (hlen : len ≤ Compress.maxFrameSize) :
    Compress.readHeader (eHeader v fl stream op len ++ body) =
      .ok ({ version := UInt8.ofNat (v + 0x80), flags := UInt8.ofNat fl, stream := streamOf v stream,
             op := UInt8.ofNat op, length := (len : Int) }, body) := by
  have hl : Compress.toInt32 (Compress.readBE32 (UInt8.ofNat (len / 16777216)) (UInt8.ofNat (len / 65536 % 256))
      (UInt8.ofNat (len / 256 % 256)) (UInt8.ofNat (len % 256))) = (len : Int) := by
    have : len < 4294967296 := by unfold Compress.maxFrameSize at hlen; omega
    have e : Compress.readBE32 (UInt8.ofNat (len / 16777216)) (UInt8.ofNat (len / 65536 % 256))
      (UInt8.ofNat (len / 256 % 256)) (UInt8.ofNat (len % 256)) = len := by
      simp [Compress.readBE32]; omega
    rw [e]
    exact Compress.toInt32_small len hlen
  have hv : v = 1 ∨ v = 2 ∨ v = 3 ∨ v = 4 ∨ v = 5 := by omega
  have hint : (eInt (len : Int)) = [UInt8.ofNat (len / 16777216), UInt8.ofNat (len / 65536 % 256),
      UInt8.ofNat (len / 256 % 256), UInt8.ofNat (len % 256)] := by
    have : ((len : Int) % 4294967296).toNat = len := by unfold Compress.maxFrameSize at hlen; omega
    simp [eInt, eUInt, this]
  have e1 : (129:UInt8) &&& 127 = 1 := by decide
  have e2 : (130:UInt8) &&& 127 = 2 := by decide
  have e3 : (131:UInt8) &&& 127 = 3 := by decide
  have e4 : (132:UInt8) &&& 127 = 4 := by decide
  have e5 : (133:UInt8) &&& 127 = 5 := by decide
  rcases hv with h | h | h | h | h <;> subst h <;>
    simp [Compress.readHeader, eHeader, eStream, eByte, eShort, hint, streamOf, hl, e1, e2, e3, e4, e5]

/-- conn.go recv + parseFrame on wire bytes: readHeader, readFrame (decompression), parseFrame with
    the header that was read -/
def recvParse (f : Compress.Framer) (proto : Nat) (wire : FrameRead.Bytes) : Outcome (Resp × FrameRead.Bytes) :=
  match f.decode wire with
  | .ok (h, body) =>
    parseResp proto { version := h.version, flags := h.flags, stream := h.stream, op := h.op, length := h.length } body
  | .error _ => .err

theorem flags_lt (r : LResp) : r.flags < 32 := by
  obtain ⟨stream, tracing, warnings, payload, beta, body⟩ := r
  simp only [LResp.flags]
  repeat' split
  all_goals omega

theorem and1_of_even (n : Nat) (h : n < 128) : (UInt8.ofNat (2 * n) &&& Compress.flagCompress == Compress.flagCompress) = false := by
  have : ∀ m : Fin 128, (UInt8.ofNat (2 * m.val) &&& Compress.flagCompress == Compress.flagCompress) = false := by decide
  exact this ⟨n, h⟩

theorem and1_of_odd (n : Nat) (h : n < 127) : (UInt8.ofNat (2 * n + 1) &&& Compress.flagCompress == Compress.flagCompress) = true := by
  have : ∀ m : Fin 127, (UInt8.ofNat (2 * m.val + 1) &&& Compress.flagCompress == Compress.flagCompress) = true := by decide
  exact this ⟨n, h⟩

theorem flags_even (r : LResp) : ∃ n, n < 16 ∧ r.flags = 2 * n := by
  obtain ⟨stream, tracing, warnings, payload, beta, body⟩ := r
  refine ⟨(if tracing.isSome then 1 else 0) + (if payload.isSome then 2 else 0) + (if warnings.isSome then 4 else 0) +
    (if beta then 8 else 0), ?_, ?_⟩
  · repeat' split
    all_goals omega
  · simp only [LResp.flags]
    repeat' split
    all_goals omega

/-- the uncompressed frame through the receive path -/
theorem recvParse_plain (comp : Option Compress.Codec) (v : Nat) (r : LResp)
    (hw : wf v r = true)
    (hlen : (encodeBody v r).length ≤ Compress.maxFrameSize) :
    recvParse (Compress.newFramer comp (UInt8.ofNat v)) v (encodeFrame v r) = .ok (view v r, restOf r) := by
  have hv : 1 ≤ v ∧ v ≤ 5 := by
    simp only [wf, Bool.and_eq_true, decide_eq_true_eq] at hw
    exact hw.1.1.1.1
  obtain ⟨n, hn, hfl⟩ := flags_even r
  unfold recvParse Compress.Framer.decode encodeFrame
  rw [readHeader_eHeader v r.flags r.body.opcode _ r.stream _ hv.1 hv.2 hlen]
  have hnc : (UInt8.ofNat r.flags &&& Compress.flagCompress == Compress.flagCompress) = false := by
    rw [hfl]; exact and1_of_even n (by omega)
  have hl1 : ¬ (((encodeBody v r).length : Int) < 0) := by omega
  have hl2 : ¬ (((encodeBody v r).length : Int) > (Compress.maxFrameSize : Int)) := by omega
  simp only [Compress.Framer.readFrame, hl1, hl2, if_false, Int.toNat_natCast, Nat.lt_irrefl, List.take_length, hnc,
    Bool.false_eq_true]
  have := parseResp_hdr v r [] ⟨UInt8.ofNat (v + 0x80), UInt8.ofNat r.flags, streamOf v r.stream, UInt8.ofNat r.body.opcode,
    ((encodeBody v r).length : Int)⟩ false rfl (by simp) rfl hw
  simpa using this

/-- the frame whose body went through a compressor, through the receive path of a connection that
    has that compressor -/
theorem recvParse_compressed (c : Compress.Codec) (hrt : c.RoundTrips) (v : Nat) (r : LResp) (z : FrameRead.Bytes)
    (hw : wf v r = true)
    (hz : c.enc (encodeBody v r) = .ok z) (hlen : z.length ≤ Compress.maxFrameSize) :
    recvParse (Compress.newFramer (some c) (UInt8.ofNat v)) v (encodeFrameCompressed v r z) = .ok (view v r, restOf r) := by
  have hv : 1 ≤ v ∧ v ≤ 5 := by
    simp only [wf, Bool.and_eq_true, decide_eq_true_eq] at hw
    exact hw.1.1.1.1
  obtain ⟨n, hn, hfl⟩ := flags_even r
  unfold recvParse Compress.Framer.decode encodeFrameCompressed
  rw [readHeader_eHeader v (r.flags + 1) r.body.opcode _ r.stream _ hv.1 hv.2 hlen]
  have hnc : (UInt8.ofNat (r.flags + 1) &&& Compress.flagCompress == Compress.flagCompress) = true := by
    rw [hfl]; exact and1_of_odd n (by omega)
  have hl1 : ¬ ((z.length : Int) < 0) := by omega
  have hl2 : ¬ ((z.length : Int) > (Compress.maxFrameSize : Int)) := by omega
  have hdec := hrt _ _ hz
  simp only [Compress.Framer.readFrame, hl1, hl2, if_false, Int.toNat_natCast, Nat.lt_irrefl, List.take_length, hnc,
    if_true, Compress.newFramer, hdec]
  have := parseResp_hdr v r [] ⟨UInt8.ofNat (v + 0x80), UInt8.ofNat (r.flags + 1), streamOf v r.stream, UInt8.ofNat r.body.opcode,
    (z.length : Int)⟩ true rfl (by simp) rfl hw
  simpa using this

end C04
