import Model.Placement
import Proofs.C10Lookup
/-! C10 helper lemmas: SimpleStrategy — the code's walk equals "first rf distinct nodes clockwise". -/
namespace C10Simple
open Placement C10Lookup

/-! ### `firsts` -/

theorem mem_firsts {α : Type} [DecidableEq α] (l : List α) (x : α) : x ∈ Spec.firsts l ↔ x ∈ l := by
  induction l with
  | nil => simp [Spec.firsts]
  | cons a l ih =>
    simp only [Spec.firsts, List.mem_cons, List.mem_filter, ih, ne_eq, decide_not, Bool.not_eq_eq_eq_not,
      Bool.not_true, decide_eq_false_iff_not]
    by_cases h : x = a <;> simp [h]

theorem nodup_firsts {α : Type} [DecidableEq α] (l : List α) : (Spec.firsts l).Nodup := by
  induction l with
  | nil => simp [Spec.firsts]
  | cons a l ih =>
    simp only [Spec.firsts, List.nodup_cons]
    exact ⟨by simp [List.mem_filter], List.Sublist.nodup List.filter_sublist ih⟩

theorem firsts_of_nodup {α : Type} [DecidableEq α] (l : List α) (h : l.Nodup) : Spec.firsts l = l := by
  induction l with
  | nil => rfl
  | cons a l ih =>
    rw [List.nodup_cons] at h
    simp only [Spec.firsts, ih h.2]
    congr 1
    rw [List.filter_eq_self]
    intro x hx
    simp only [ne_eq, decide_not, Bool.not_eq_eq_eq_not, Bool.not_true, decide_eq_false_iff_not]
    intro hxa; subst hxa; exact h.1 hx

/-- same distinct nodes ⇒ same number of distinct nodes -/
theorem length_firsts_congr {α : Type} [DecidableEq α] (l₁ l₂ : List α) (h : ∀ x, x ∈ l₁ ↔ x ∈ l₂) :
    (Spec.firsts l₁).length = (Spec.firsts l₂).length := by
  apply List.Perm.length_eq
  rw [List.perm_ext_iff_of_nodup (nodup_firsts l₁) (nodup_firsts l₂)]
  intro a
  rw [mem_firsts, mem_firsts, h]

/-! ### the walk -/

/-- closed form of the inner loop: `seen` always equals `replicas`; the result is the accumulated list plus the
first not yet seen distinct hosts, up to `rf` in total. -/
theorem simpleWalk_eq (rf : Nat) : ∀ (l acc : List Host),
    simpleWalk rf (acc, acc) l =
      (if rf ≤ acc.length then (acc, acc)
       else (acc ++ ((Spec.firsts l).filter (fun x => decide (x ∉ acc))).take (rf - acc.length),
             acc ++ ((Spec.firsts l).filter (fun x => decide (x ∉ acc))).take (rf - acc.length))) := by
  intro l
  induction l with
  | nil =>
    intro acc
    simp [simpleWalk, Spec.firsts]
  | cons h rest ih =>
    intro acc
    unfold simpleWalk
    by_cases hlen : acc.length < rf
    · have hnle : ¬ rf ≤ acc.length := by omega
      simp only [hlen, if_true, hnle, if_false]
      by_cases hmem : h ∈ acc
      · simp only [hmem, if_true]
        rw [ih acc]
        simp only [hnle, if_false, Spec.firsts]
        have : (h :: (Spec.firsts rest).filter (fun x => decide (x ≠ h))).filter (fun x => decide (x ∉ acc))
             = (Spec.firsts rest).filter (fun x => decide (x ∉ acc)) := by
          rw [List.filter_cons]
          simp only [hmem, not_true_eq_false, decide_false, Bool.false_eq_true, if_false]
          rw [List.filter_filter]
          apply List.filter_congr
          intro x _
          by_cases hx : x ∈ acc
          · simp [hx]
          · have : x ≠ h := by intro e; subst e; exact hx hmem
            simp [hx, this]
        rw [this]
      · simp only [hmem, if_false]
        rw [ih (acc ++ [h])]
        simp only [List.length_append, List.length_cons, List.length_nil, Spec.firsts]
        have hf : (h :: (Spec.firsts rest).filter (fun x => decide (x ≠ h))).filter (fun x => decide (x ∉ acc))
             = h :: (Spec.firsts rest).filter (fun x => decide (x ∉ acc ++ [h])) := by
          rw [List.filter_cons]
          simp only [hmem, not_false_eq_true, decide_true, if_true]
          congr 1
          rw [List.filter_filter]
          apply List.filter_congr
          intro x _
          by_cases hx : x ∈ acc <;> by_cases hxh : x = h <;> simp [hx, hxh]
        rw [hf]
        by_cases hfull : rf ≤ acc.length + (0 + 1)
        · have h1 : rf - acc.length = 1 := by omega
          simp [hfull, h1]
        · simp only [hfull, if_false]
          have h1 : rf - acc.length = (rf - (acc.length + (0 + 1))) + 1 := by omega
          rw [h1, List.take_succ_cons]
          simp
    · have hle : rf ≤ acc.length := by omega
      simp [hlen, hle]

theorem simpleWalk_init (rf : Nat) (l : List Host) :
    (simpleWalk rf ([], []) l).1 = (Spec.firsts l).take rf := by
  rw [simpleWalk_eq rf l []]
  by_cases h : rf ≤ 0
  · have : rf = 0 := by omega
    simp [this]
  · simp only [h, if_false, List.not_mem_nil, not_false_eq_true, decide_true, List.nil_append, List.length_nil,
      Nat.sub_zero]
    rw [List.filter_eq_self.mpr (by intro x _; rfl)]

/-! ### rotation at the owner index = clockwise order -/

theorem filter_sorted {β : Type} (l : List (Int × β)) (t : Int) (hs : Sorted l) :
    l.filter (fun e => decide (t ≤ e.1)) = l.drop (l.findIdx (fun e => decide (t ≤ e.1))) ∧
    l.filter (fun e => decide (e.1 < t)) = l.take (l.findIdx (fun e => decide (t ≤ e.1))) := by
  induction l with
  | nil => simp
  | cons a r ih =>
    have hs' : Sorted r := (List.pairwise_cons.mp hs).2
    have hall := (List.pairwise_cons.mp hs).1
    rw [List.findIdx_cons]
    by_cases ha : t ≤ a.1
    · simp only [ha, decide_true, cond_true, List.drop_zero, List.take_zero]
      refine ⟨?_, ?_⟩
      · rw [List.filter_eq_self]
        intro x hx
        rcases List.mem_cons.mp hx with rfl | hx
        · simpa using ha
        · have := hall x hx
          simp only [decide_eq_true_eq]; omega
      · rw [List.filter_eq_nil_iff]
        intro x hx
        rcases List.mem_cons.mp hx with rfl | hx
        · simp only [decide_eq_true_eq]; omega
        · have := hall x hx
          simp only [decide_eq_true_eq]; omega
    · have ha' : a.1 < t := by omega
      simp only [ha, decide_false, cond_false, List.drop_succ_cons, List.take_succ_cons]
      rw [List.filter_cons, List.filter_cons]
      simp only [ha, decide_false, Bool.false_eq_true, if_false, ha', decide_true, if_true]
      exact ⟨(ih hs').1, by rw [(ih hs').2]⟩

theorem rot_owner_eq_clockwise {β : Type} (l : List (Int × β)) (t : Int) (hs : Sorted l) :
    rot l (Spec.ownerIdx l t) = Spec.clockwise l t := by
  unfold rot Spec.clockwise Spec.ownerIdx
  obtain ⟨h1, h2⟩ := filter_sorted l t hs
  rw [h1, h2]
  by_cases h : l.findIdx (fun e => decide (t ≤ e.1)) < l.length
  · simp [h]
  · simp only [h, if_false, List.drop_zero, List.take_zero, List.append_nil]
    rw [List.drop_of_length_le (by omega), List.take_of_length_le (by omega)]
    simp

/-! ### the replica ring of the simple strategy -/

theorem insertRep_head (e : Int × List Host) (l : ReplicaRing) (h : ∀ x ∈ l, e.1 < x.1) :
    insertRep e l = e :: l := by
  cases l with
  | nil => rfl
  | cons x xs =>
    have := h x (List.mem_cons_self ..)
    simp only [insertRep]
    rw [if_pos (by omega)]

theorem sortReps_sorted (l : ReplicaRing) (hs : Sorted l) : sortReps l = l := by
  induction l with
  | nil => rfl
  | cons a r ih =>
    have hp := List.pairwise_cons.mp hs
    simp only [sortReps, List.foldr_cons]
    have : List.foldr insertRep [] r = r := ih hp.2
    rw [this]
    exact insertRep_head a r hp.1

/-- a ring `(range n).map (i ↦ (tokAt ring i, g i))` has the tokens of `ring` -/
theorem tokAt_mapped (ring : List Entry) (g : Nat → List Host) :
    tokAt ((List.range ring.length).map (fun i => (tokAt ring i, g i))) = tokAt ring := by
  funext i
  unfold tokAt
  by_cases h : i < ring.length
  · simp [h]
  · simp [h]

theorem sorted_mapped (ring : List Entry) (g : Nat → List Host) (hs : Sorted ring) :
    Sorted ((List.range ring.length).map (fun i => (tokAt ring i, g i))) := by
  unfold Sorted
  rw [List.pairwise_iff_getElem]
  intro i j hi hj hij
  simp only [List.length_map, List.length_range] at hi hj
  simp only [List.getElem_map, List.getElem_range]
  rw [tokAt_eq ring i hi, tokAt_eq ring j hj]
  exact (List.pairwise_iff_getElem.mp hs) i j hi hj hij

theorem lookupIdx_mapped (ring : List Entry) (g : Nat → List Host) (t : Int) :
    lookupIdx ((List.range ring.length).map (fun i => (tokAt ring i, g i))) t = lookupIdx ring t := by
  unfold lookupIdx
  rw [tokAt_mapped]
  simp

/-- `replicasFor` on the simple replica map: the entry of the owner index -/
theorem replicasFor_simple (ring : List Entry) (rf : Nat) (t : Int) (hs : Sorted ring) (hne : ring ≠ []) :
    replicasFor (simpleReplicaMap rf ring) t =
      some (tokAt ring (Spec.ownerIdx ring t), simpleReplicasAt rf ring (Spec.ownerIdx ring t)) := by
  unfold simpleReplicaMap
  rw [sortReps_sorted _ (sorted_mapped ring _ hs)]
  unfold replicasFor
  have hlen : 0 < ring.length := List.length_pos_iff.mpr hne
  rw [lookupIdx_mapped, lookupIdx_eq_ownerIdx ring t hs]
  have hlt := ownerIdx_lt ring t hne
  simp only [List.length_map, List.length_range]
  rw [if_neg (by omega)]
  rw [List.getElem?_eq_getElem (by simpa using hlt)]
  simp

end C10Simple
