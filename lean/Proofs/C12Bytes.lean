import Model.MarshalScalar
/-!
# C12 helper lemmas: big-endian bytes, two's complement, the fixed-width encoders of marshal.go
-/
namespace C12Bytes
open ValueSpec Marshal

/-! ## beBytes / beNat -/

theorem beBytes_length (k n : Nat) : (beBytes k n).length = k := by
  induction k generalizing n with
  | zero => simp [beBytes]
  | succ k ih => simp [beBytes, ih]

theorem foldl_shift (l : Bytes) (a : Nat) :
    l.foldl (fun a x => a * 256 + x.toNat) a = a * 256 ^ l.length + l.foldl (fun a x => a * 256 + x.toNat) 0 := by
  induction l generalizing a with
  | nil => simp
  | cons x r ih =>
    simp only [List.foldl_cons, List.length_cons]
    rw [ih (a * 256 + x.toNat), ih (0 * 256 + x.toNat)]
    rw [Nat.pow_succ]
    simp [Nat.add_mul, Nat.mul_assoc, Nat.add_assoc, Nat.mul_comm 256]

theorem beNat_cons (x : UInt8) (r : Bytes) : beNat (x :: r) = x.toNat * 256 ^ r.length + beNat r := by
  unfold beNat
  simp only [List.foldl_cons]
  rw [foldl_shift]
  simp

theorem beNat_snoc (l : Bytes) (x : UInt8) : beNat (l ++ [x]) = beNat l * 256 + x.toNat := by
  simp [beNat, List.foldl_append]

theorem beNat_nil : beNat [] = 0 := rfl

theorem beNat_lt (b : Bytes) : beNat b < 256 ^ b.length := by
  induction b with
  | nil => simp [beNat]
  | cons x r ih =>
    rw [beNat_cons, List.length_cons, Nat.pow_succ]
    have hx : x.toNat < 256 := x.toNat_lt
    have h1 : x.toNat * 256 ^ r.length ≤ 255 * 256 ^ r.length := Nat.mul_le_mul_right _ (by omega)
    omega

theorem byteOfNat_toNat (n : Nat) : (byteOfNat n).toNat = n % 256 := by
  simp [byteOfNat]

theorem beNat_beBytes (k n : Nat) : beNat (beBytes k n) = n % 256 ^ k := by
  induction k generalizing n with
  | zero => simp [beBytes, beNat, Nat.mod_one]
  | succ k ih =>
    simp only [beBytes]
    rw [beNat_snoc, ih, byteOfNat_toNat, Nat.pow_succ, Nat.mul_comm (256 ^ k) 256, Nat.mod_mul]
    omega

theorem pow256_pos (k : Nat) : 0 < 256 ^ k := Nat.pow_pos (by decide)

theorem cast_pow256 (k : Nat) : ((256 ^ k : Nat) : Int) = (256:Int) ^ k := by
  rw [Int.natCast_pow]; rfl

theorem pow256_even (k : Nat) (h : 1 ≤ k) : ∃ q, 256 ^ k = 2 * q := by
  obtain ⟨j, rfl⟩ : ∃ j, k = j + 1 := ⟨k - 1, by omega⟩
  exact ⟨128 * 256 ^ j, by rw [Nat.pow_succ]; omega⟩

/-! ## two's complement -/

theorem tcDec_range (b : Bytes) : -((256:Int) ^ b.length) ≤ 2 * tcDec b ∧ 2 * tcDec b < (256:Int) ^ b.length := by
  have h := beNat_lt b
  have hp : ((256 ^ b.length : Nat) : Int) = (256:Int) ^ b.length := by simp
  unfold tcDec
  split <;> constructor <;> omega

/-- decoding what `tcEnc k` produced gives the number back, for every representable `n` -/
theorem tcDec_tcEnc (k : Nat) (n : Int) (hk : 1 ≤ k) (h : fitsS k n = true) : tcDec (tcEnc k n) = n := by
  simp only [fitsS, Bool.and_eq_true, leB_iff, ltB_iff] at h
  obtain ⟨q, hq⟩ := pow256_even k hk
  have hpos := pow256_pos k
  have hP : ((256:Int) ^ k) = ((256 ^ k : Nat) : Int) := by simp
  unfold tcDec tcEnc
  rw [beBytes_length, beNat_beBytes]
  rw [hP] at h ⊢
  generalize 256 ^ k = P at *
  have hm : (n % (P:Int)).toNat % P = (n % (P:Int)).toNat := by
    apply Nat.mod_eq_of_lt
    have := Int.emod_lt_of_pos n (show (0:Int) < P by omega)
    have := Int.emod_nonneg n (show (P:Int) ≠ 0 by omega)
    omega
  rw [hm]
  by_cases hn : 0 ≤ n
  · have : n % (P:Int) = n := Int.emod_eq_of_lt hn (by omega)
    rw [this]; split <;> omega
  · have : n % (P:Int) = n + P := by
      rw [← Int.add_mul_emod_self_left n P 1, Int.mul_one]
      exact Int.emod_eq_of_lt (by omega) (by omega)
    rw [this]; split <;> omega

theorem tcEnc_length (k : Nat) (n : Int) : (tcEnc k n).length = k := beBytes_length _ _

/-! ## the fixed-width encoders are `tcEnc` -/

theorem byteOf_eq (x : Int) : byteOf x = byteOfNat (x % 256).toNat := by
  unfold byteOf byteOfNat
  congr 1
  omega

theorem encTiny_eq (x : Int) : encTiny x = tcEnc 1 x := by
  simp [encTiny, tcEnc, beBytes, byteOf, byteOfNat]
  congr 1; omega

theorem encShort_eq (x : Int) : encShort x = tcEnc 2 x := by
  simp [encShort, tcEnc, beBytes, byteOf, byteOfNat, Int.shiftRight_eq_div_pow]
  constructor <;> (congr 1; omega)

theorem encInt_eq (x : Int) : encInt x = tcEnc 4 x := by
  simp [encInt, tcEnc, beBytes, byteOf, byteOfNat, Int.shiftRight_eq_div_pow]
  refine ⟨?_, ?_, ?_, ?_⟩ <;> (congr 1; omega)

theorem encBigInt_eq (x : Int) : encBigInt x = tcEnc 8 x := by
  simp [encBigInt, tcEnc, beBytes, byteOf, byteOfNat, Int.shiftRight_eq_div_pow]
  refine ⟨?_, ?_, ?_, ?_, ?_, ?_, ?_, ?_⟩ <;> (congr 1; omega)

/-- a Go conversion to the column's width does not change the bytes written -/
theorem tcEnc_toS8 (x : Int) : tcEnc 1 (toS 8 x) = tcEnc 1 x := by
  simp only [tcEnc, toS]; congr 2; omega
theorem tcEnc_toS16 (x : Int) : tcEnc 2 (toS 16 x) = tcEnc 2 x := by
  simp only [tcEnc, toS]; congr 2; omega
theorem tcEnc_toS32 (x : Int) : tcEnc 4 (toS 32 x) = tcEnc 4 x := by
  simp only [tcEnc, toS]; congr 2; omega
theorem tcEnc_toS64 (x : Int) : tcEnc 8 (toS 64 x) = tcEnc 8 x := by
  simp only [tcEnc, toS]; congr 2; omega

/-- wrap-around: an out-of-range number is written as the bytes of its residue -/
theorem tcEnc_add_pow (k : Nat) (x : Int) (j : Int) : tcEnc k (x + j * (256:Int)^k) = tcEnc k x := by
  simp only [tcEnc]; congr 2
  exact Int.add_mul_emod_self_right x j _

end C12Bytes
