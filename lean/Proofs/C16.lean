import Model.Ring
/-! # C16 — the driver's picture of the cluster follows what the cluster reports (ring level) -/
namespace C16
open Ring

/-- Known defect D3 (kernel-checked): add(id1@X), add(id2@X), removeHost(id1) — the live node id2
is still in the ring but is no longer found by its address. -/
theorem C16_cex_index_consistent :
    let h1 : RHost := ⟨1, 1, 7, 7⟩
    let h2 : RHost := ⟨2, 2, 7, 7⟩
    let r := (((Ring.empty.addIfMissing h1).1.addIfMissing h2).1.remove 1).1
    r.getHost 2 = some h2 ∧ r.getHostByIP 7 = (none, false) := by
  decide

end C16
