import Model.Ring
import Proofs.C16Ring
import Proofs.C16Refresh
import Proofs.C16Index
import Proofs.C16RefreshIdx
import Proofs.C16Update
/-! # C16 — the driver's picture of the cluster follows what the cluster reports (ring level)

Model: `Model/Ring.lean` — the three indexes of `ring` (ring.go) and the diff part of `refreshRing`
(host_source.go), with `removeHost` as REPAIRED for KF-C16-1 (the by-address entry is deleted only when
it still maps to the host id being removed), `addOrUpdate` as repaired for KF-C16-5 (the by-address index
follows a node address changed by `HostInfo.update`) and `refreshRing` as repaired for KF-C16-4 / KF-C16-6
(what is gone is removed before anything is added; of a host id reported twice the first row counts).
Events, debouncing, pool and policy propagation: `Proofs/C16Events.lean`. -/
namespace C16
open Ring

/-- FULL theorem (before the repair of KF-C16-6 it needed pairwise distinct accepted host ids: a host id
reported twice aborted the refresh). For every prior ring (well-formed: entries stored under their own
id — true of every reachable ring), every host filter and EVERY reported host list (duplicates included):
after the refresh the ids in the ring are EXACTLY the ids of the accepted reported hosts (new ones added,
vanished ones removed, filtered ones absent). -/
theorem C16_refresh_exact (r : Ring.Ring) (hw : WF r.byId) (filter : RHost → Bool) (reported : List RHost) :
    (∀ id, id ∈ (r.refresh filter reported).1.ids ↔ ∃ h ∈ reported, filter h = false ∧ h.id = id) ∧
    WF (r.refresh filter reported).1.byId := by
  refine ⟨?_, WF_refresh r hw filter reported⟩
  intro id
  have := refresh_exact r hw filter reported id
  simp only [keys, acceptedIds] at this
  simp only [Ring.ids]
  rw [this]
  simp only [List.mem_map, List.mem_filter]
  constructor
  · rintro ⟨h, ⟨hm, hf⟩, rfl⟩; exact ⟨h, hm, by simpa using hf, rfl⟩
  · rintro ⟨h, hm, hf, rfl⟩; exact ⟨h, ⟨hm, by simp [hf]⟩, rfl⟩

example :
    let a : RHost := ⟨1, 1, 7, 7⟩
    let b : RHost := ⟨2, 2, 8, 8⟩
    let b' : RHost := ⟨3, 2, 9, 9⟩   -- id 2 moved to address 9
    let c : RHost := ⟨4, 3, 5, 5⟩
    let r := (Ring.empty.refresh (fun _ => false) [a, b]).1
    (r.refresh (fun _ => false) [b', c]).1.getHost 2 = some b' ∧
    (r.refresh (fun _ => false) [b', c]).1.ids = [3, 2] ∧
    (r.refresh (fun _ => false) [b', c]).1.getHostByIP 9 = (some b', true) ∧
    (r.refresh (fun _ => false) [b', c]).1.getHostByIP 8 = (none, false) := by decide

/-- the first accepted reported host with host id `id` -/
def firstRow (filter : RHost → Bool) (reported : List RHost) (id : Nat) : Option RHost :=
  (reported.filter (fun h => !filter h)).find? (fun h => h.id == id)

theorem lookup_reportedMap (filter : RHost → Bool) (reported : List RHost) (id : Nat) :
    lookup (reportedMap filter reported) id = firstRow filter reported id := by
  unfold reportedMap firstRow lookup
  induction reported.filter (fun h => !filter h) with
  | nil => rfl
  | cons h t ih =>
    simp only [List.map_cons, List.find?_cons]
    split
    · rfl
    · exact ih

/-- `C16_refresh_first_row_wins` (replaces `C16_refresh_duplicate_id_fails`: before the repair of KF-C16-6 a
host id reported twice made the refresh return ErrCannotFindHost half way). For every reachable ring and
EVERY report: of the accepted rows of one host id the FIRST counts — the ring's object of that id carries
its node address and connect address (a host whose address changed is replaced), and it is the object that
was stored before when that one already had these addresses, else the row's own object. -/
theorem C16_refresh_first_row_wins (r : Ring.Ring) (hw : WF r.byId) (hn : (keys r.byId).Nodup) (filter : RHost → Bool)
    (reported : List RHost) (id : Nat) (h : RHost) (hf : firstRow filter reported id = some h) :
    ∃ s, (r.refresh filter reported).1.getHost id = some s ∧ s.addr = h.addr ∧ s.caddr = h.caddr ∧
      (r.getHost id = some s ∨ s = h) :=
  refresh_stored r hw hn filter reported id h (by rw [lookup_reportedMap]; exact hf)

/-- non-vacuity: host id 1 reported twice (a stale row next to the current one) between two other hosts — the
refresh completes, the first row counts, the host after the duplicate is added, the vanished host removed -/
example :
    let a : RHost := ⟨1, 1, 7, 7⟩
    let a2 : RHost := ⟨2, 1, 8, 8⟩
    let c : RHost := ⟨3, 3, 9, 9⟩
    let r0 := (Ring.empty.refresh (fun _ => false) [⟨9, 5, 4, 4⟩]).1
    firstRow (fun _ => false) [a, a2, c] 1 = some a ∧
    (r0.refresh (fun _ => false) [a, a2, c]).1.ids = [3, 1] ∧ (r0.refresh (fun _ => false) [a, a2, c]).1.getHost 1 = some a ∧
    (r0.refresh (fun _ => false) [a, a2, c]).2.filled = [a, c] := by decide

/-! ### index consistency (KF-C16-1 repaired)

The property: node details are looked up by id and by address consistently — after every history of
topology refreshes every host of the ring is found by its id and by its address:
`getHost h.id = some h ∧ getHostByIP h.addr = (some h, true)`. -/

/-- a cluster report as the diff loop sees it: the host filter and the reported hosts (local host + valid peers) -/
abbrev Report := (RHost → Bool) × List RHost

/-- the accepted (not filtered) reported hosts have pairwise distinct node addresses — every report of a
real cluster (host ids need not be distinct any more: of a host id reported twice the first row counts) -/
def GoodReport (x : Report) : Prop := ((x.2.filter (fun h => !x.1 h)).map (·.addr)).Nodup

instance (x : Report) : Decidable (GoodReport x) := by unfold GoodReport; infer_instance

/-- a history of refreshes -/
def runRefreshes (r : Ring.Ring) (hist : List Report) : Ring.Ring :=
  hist.foldl (fun r x => (r.refresh x.1 x.2).1) r

theorem RInv_runRefreshes (r0 : Ring.Ring) (h0 : RInv r0) (hist : List Report) (hg : ∀ x ∈ hist, GoodReport x) :
    RInv (runRefreshes r0 hist) := by
  induction hist generalizing r0 with
  | nil => exact h0
  | cons x t ih =>
    have hx := hg x List.mem_cons_self
    exact ih _ (refresh_RInv r0 h0 x.1 x.2 hx) (fun y hy => hg y (List.mem_cons_of_mem _ hy))

/-- FULL theorem (was `C16_index_consistent_partial` before the repair of KF-C16-1).
For every consistent prior ring `r0` (`RInv`: hosts stored under their own id, every host indexed by its
address, no two hosts on one address — in particular the empty ring) and EVERY history of refreshes whose
accepted reported hosts have pairwise distinct node addresses — including
refreshes that replace a host id on the same address (dead node replaced), hosts whose address changed,
hosts that swap addresses, filtered hosts — every host of the resulting ring is found by its id and by
its address. -/
theorem C16_refresh_index_consistent (r0 : Ring.Ring) (h0 : RInv r0) (hist : List Report)
    (hg : ∀ x ∈ hist, GoodReport x) :
    let r := runRefreshes r0 hist
    ∀ h ∈ r.allHosts, r.getHost h.id = some h ∧ r.getHostByIP h.addr = (some h, true) := by
  intro r h hh
  exact RInv_lookup r (RInv_runRefreshes r0 h0 hist hg) h hh

/-- the same from the empty ring (a new session) -/
theorem C16_refresh_index_consistent_from_empty (hist : List Report) (hg : ∀ x ∈ hist, GoodReport x) :
    let r := runRefreshes Ring.empty hist
    ∀ h ∈ r.allHosts, r.getHost h.id = some h ∧ r.getHostByIP h.addr = (some h, true) :=
  C16_refresh_index_consistent Ring.empty RInv_empty hist hg

/-- after such a history the ring holds exactly the accepted hosts of the LAST report and each of them is
found by id and by address -/
theorem C16_refresh_history_follows_last_report (r0 : Ring.Ring) (h0 : RInv r0) (pre : List Report) (x : Report)
    (hg : ∀ y ∈ pre ++ [x], GoodReport y) :
    let r := runRefreshes r0 (pre ++ [x])
    (∀ id, id ∈ r.ids ↔ ∃ h ∈ x.2, x.1 h = false ∧ h.id = id) ∧
    (∀ h ∈ r.allHosts, r.getHost h.id = some h ∧ r.getHostByIP h.addr = (some h, true)) := by
  intro r
  have hpre := RInv_runRefreshes r0 h0 pre (fun y hy => hg y (List.mem_append_left _ hy))
  have hr : r = ((runRefreshes r0 pre).refresh x.1 x.2).1 := by
    simp only [r, runRefreshes, List.foldl_append, List.foldl_cons, List.foldl_nil]
  have hex := C16_refresh_exact (runRefreshes r0 pre) hpre.wf x.1 x.2
  refine ⟨?_, C16_refresh_index_consistent r0 h0 (pre ++ [x]) hg⟩
  rw [hr]
  exact hex.1

/-- non-vacuity: the history of KF-C16-1 — a dead node (id 1 on address 7) replaced by a new host id
on the same address — and two hosts swapping their addresses in one report -/
example :
    let h1 : RHost := ⟨1, 1, 7, 7⟩
    let h2 : RHost := ⟨2, 2, 7, 7⟩
    let hist : List Report := [(fun _ => false, [h1]), (fun _ => false, [h2])]
    (∀ x ∈ hist, GoodReport x) ∧ (runRefreshes Ring.empty hist).ids = [2] ∧
    (runRefreshes Ring.empty hist).getHostByIP 7 = (some h2, true) := by
  refine ⟨?_, by decide, by decide⟩
  intro x hx
  simp only [List.mem_cons, List.not_mem_nil, or_false] at hx
  rcases hx with rfl | rfl <;> decide

example :
    let a : RHost := ⟨1, 1, 7, 7⟩
    let b : RHost := ⟨2, 2, 8, 8⟩
    let a' : RHost := ⟨3, 1, 8, 8⟩
    let b' : RHost := ⟨4, 2, 7, 7⟩
    let r := runRefreshes Ring.empty [(fun _ => false, [a, b]), (fun _ => false, [a', b'])]
    GoodReport (fun _ => false, [a', b']) ∧
    r.getHostByIP 8 = (some a', true) ∧ r.getHostByIP 7 = (some b', true) ∧ r.getHost 1 = some a' := by
  refine ⟨by decide, by decide, by decide, by decide⟩

/-! ### arbitrary add / remove histories -/

/-- For EVERY history of `addHostIfMissing` / `addOrUpdate` / `removeHost` (additions unrestricted: hosts
may be added on the address of another live host) in which every removal is harmless (`RemOk`: the removed
host is the only host of the ring on its address, or its address is indexed to another host id):
every host of the ring is found by its id, its address always leads to a host of the ring WITH THAT
ADDRESS, and to the host itself whenever no other host of the ring has its address. -/
theorem C16_ops_index_consistent (ops : List ROp) (hg : RemGuarded Ring.empty ops) :
    let r := ops.foldl applyOp Ring.empty
    ∀ h ∈ r.allHosts, r.getHost h.id = some h ∧
      (∃ h' ∈ r.allHosts, h'.addr = h.addr ∧ r.getHostByIP h.addr = (some h', true)) ∧
      ((∀ h' ∈ r.allHosts, h'.addr = h.addr → h' = h) → r.getHostByIP h.addr = (some h, true)) := by
  intro r h hh
  have hi : CInv r := CInv_run _ ⟨RInv_empty.wf, RInv_empty.knodup, RInv_cov _ RInv_empty⟩ ops hg
  exact Cov_lookup r hi.wf hi.knodup hi.cov h hh

/-- the history of KF-C16-1 at the level of ring operations is covered now: add(id1@7), add(id2@7),
removeHost(id1) — `RemOk` holds (address 7 is indexed to id 2) and the live node is found by its address -/
example :
    let h1 : RHost := ⟨1, 1, 7, 7⟩
    let h2 : RHost := ⟨2, 2, 7, 7⟩
    let ops := [ROp.addIfMissing h1, .addIfMissing h2, .remove 1]
    RemGuarded Ring.empty ops ∧ (ops.foldl applyOp Ring.empty).getHostByIP 7 = (some h2, true) := by
  refine ⟨⟨?_, trivial⟩, by decide⟩
  decide

/-- For every history in which no host is added while a host with a DIFFERENT id has its address
(removals unrestricted) every host of the ring is found by its id and by its address. -/
theorem C16_ops_index_consistent_distinct_addr (ops : List ROp) (hg : Guarded Ring.empty ops) :
    let r := ops.foldl applyOp Ring.empty
    ∀ h ∈ r.allHosts, r.getHost h.id = some h ∧ r.getHostByIP h.addr = (some h, true) := by
  intro r h hh
  exact RInv_lookup r (RInv_run _ RInv_empty ops hg) h hh

example : Guarded Ring.empty [.addIfMissing ⟨1, 1, 7, 7⟩, .addIfMissing ⟨2, 2, 8, 8⟩, .remove 1, .addOrUpdate ⟨3, 3, 7, 7⟩] := by
  refine ⟨?_, ?_, ?_, trivial⟩ <;> decide

/-- a ring operation, a refresh with an ARBITRARY report (duplicates, shared addresses), or `addOrUpdate`
finding the host id stored and `HostInfo.update` leaving the stored object with node address `a` and
connectAddress field `c` (ANY values: `update` only fills unset fields, this covers more) -/
inductive HOp | op (o : ROp) | refresh (filter : RHost → Bool) (reported : List RHost) | update (id a c : Nat)

def applyH (r : Ring.Ring) : HOp → Ring.Ring
  | .op o => applyOp r o
  | .refresh f rep => (r.refresh f rep).1
  | .update id a c => r.updateStored id a c

/-- FULL theorem since the repair of KF-C16-5 (before it, histories in which `HostInfo.update` changed the
node address of a stored host were excluded: the old key stayed behind).
After EVERY history of ring operations, refreshes and in-place address updates (no hypothesis at all) the by-address index has
no stale entry: when `getHostByIP a` answers "known address" the host it returns is a host of the ring
with address `a` — never nil (`handleNodeUp` / `handleNodeDown` dereference it). -/
theorem C16_byip_never_stale (ops : List HOp) :
    let r := ops.foldl applyH Ring.empty
    ∀ a x, r.getHostByIP a = (x, true) → ∃ h, x = some h ∧ h ∈ r.allHosts ∧ h.addr = a := by
  intro r a x hx
  have hi : SInv r := by
    have : ∀ (ops : List HOp) (r : Ring.Ring), SInv r → SInv (ops.foldl applyH r) := by
      intro ops
      induction ops with
      | nil => intro r h; exact h
      | cons o t ih =>
        intro r h
        apply ih
        cases o with
        | op o =>
          cases o with
          | addIfMissing h' => exact SInv_addIfMissing r h h'
          | addOrUpdate h' => exact SInv_addIfMissing r h h'
          | remove k => exact SInv_remove r h k
        | refresh f rep => exact refresh_preserves SInv (fun r h' hp => SInv_addIfMissing r hp h') (fun r k hp => SInv_remove r hp k) r h f rep
        | update id a c => exact SInv_updateStored r h id a c
    exact this ops _ SInv_empty
  exact NoStale_lookup r hi.knodup hi.ns a x hx

/-- along the history: no host is added by a ring operation, or moved by an address update, while a host
with another id has its (new) address, and every refresh has a `GoodReport`; removals are unrestricted,
everything may be interleaved -/
def HGuarded : Ring.Ring → List HOp → Prop
  | _, [] => True
  | r, .op (.addIfMissing h) :: t => AddrFree r h ∧ HGuarded (r.addIfMissing h).1 t
  | r, .op (.addOrUpdate h) :: t => AddrFree r h ∧ HGuarded (r.addOrUpdate h).1 t
  | r, .op (.remove id) :: t => HGuarded (r.remove id).1 t
  | r, .refresh f rep :: t => GoodReport (f, rep) ∧ HGuarded (r.refresh f rep).1 t
  | r, .update id a c :: t => AddrFreeFor r id a ∧ HGuarded (r.updateStored id a c) t

theorem RInv_runH (r : Ring.Ring) (hr : RInv r) (ops : List HOp) (hg : HGuarded r ops) : RInv (ops.foldl applyH r) := by
  induction ops generalizing r with
  | nil => exact hr
  | cons o t ih =>
    cases o with
    | op o =>
      cases o with
      | addIfMissing h => exact ih _ (RInv_addIfMissing r hr h hg.1) hg.2
      | addOrUpdate h => exact ih _ (RInv_addIfMissing r hr h hg.1) hg.2
      | remove id => exact ih _ (RInv_remove r hr id) hg
    | refresh f rep => exact ih _ (refresh_RInv r hr f rep hg.1) hg.2
    | update id a c => exact ih _ (RInv_updateStored r hr id a c hg.1) hg.2

theorem notFound_nil_of (r : Ring.Ring)
    (h : ∀ h ∈ r.allHosts, r.getHost h.id = some h ∧ r.getHostByIP h.addr = (some h, true)) : r.notFound = [] := by
  unfold Ring.notFound
  rw [List.filter_eq_nil_iff]
  intro a ha
  have := h a ha
  simp [this.1, this.2]

/-- The interleaved form (subsumes `C16_refresh_index_consistent_from_empty` and
`C16_ops_index_consistent_distinct_addr`; it is the condition under which the differential run treats the
observation `consistent` = `Ring.notFound` as specified): for every history of ring operations and
refreshes satisfying `HGuarded`, every host of the ring is found by its id and by its address. -/
theorem C16_history_index_consistent (ops : List HOp) (hg : HGuarded Ring.empty ops) :
    let r := ops.foldl applyH Ring.empty
    (∀ h ∈ r.allHosts, r.getHost h.id = some h ∧ r.getHostByIP h.addr = (some h, true)) ∧ r.notFound = [] := by
  intro r
  have h1 : ∀ h ∈ r.allHosts, r.getHost h.id = some h ∧ r.getHostByIP h.addr = (some h, true) :=
    fun h hh => RInv_lookup r (RInv_runH _ RInv_empty ops hg) h hh
  exact ⟨h1, notFound_nil_of r h1⟩

/-- non-vacuity: a session's first host, then a report that replaces it by a new host id on its address, an
address update of that host, then a removal -/
example : HGuarded Ring.empty [.op (.addOrUpdate ⟨1, 1, 7, 7⟩), .refresh (fun _ => false) [⟨2, 2, 7, 7⟩, ⟨3, 3, 8, 8⟩],
    .update 2 9 7, .op (.remove 3)] := by
  refine ⟨by decide, by decide, by decide, trivial⟩

/-- the observation `covered` = `Ring.uncovered` of the differential run is empty after every
`RemGuarded` history of ring operations -/
theorem C16_ops_uncovered_nil (ops : List ROp) (hg : RemGuarded Ring.empty ops) :
    (ops.foldl applyOp Ring.empty).uncovered = [] := by
  have hall := C16_ops_index_consistent ops hg
  dsimp only at hall
  generalize ops.foldl applyOp Ring.empty = r at hall
  unfold Ring.uncovered
  rw [List.filter_eq_nil_iff]
  intro a ha
  obtain ⟨h1, ⟨h', hm, hadr, hget⟩, _⟩ := hall a ha
  rw [hget]
  by_cases e : h' = a
  · subst e
    simp [h1, ha]
  · simp only [h1, hm, hadr, decide_true, beq_self_eq_true, Bool.and_true, Bool.true_and, e, decide_false,
      Bool.false_or, Bool.not_eq_eq_eq_not, Bool.not_true, Bool.not_eq_false]
    exact List.any_eq_true.mpr ⟨h', hm, by simp [e, hadr]⟩

theorem staleAddrs_nil_of_SInv (r : Ring.Ring) (hi : SInv r) (n : Nat) : r.staleAddrs n = [] := by
  unfold Ring.staleAddrs
  rw [List.filter_eq_nil_iff]
  intro a _
  have := NoStale_lookup r hi.knodup hi.ns a
  generalize r.getHostByIP a = res at this
  obtain ⟨x, b⟩ := res
  cases b with
  | false => cases x <;> simp
  | true =>
    obtain ⟨h, rfl, hm, ha⟩ := this x rfl
    simp [hm, ha]

theorem SInv_runH (ops : List HOp) : ∀ (r : Ring.Ring), SInv r → SInv (ops.foldl applyH r) := by
  induction ops with
  | nil => intro r h; exact h
  | cons o t ih =>
    intro r h
    apply ih
    cases o with
    | op o =>
      cases o with
      | addIfMissing h' => exact SInv_addIfMissing r h h'
      | addOrUpdate h' => exact SInv_addIfMissing r h h'
      | remove k => exact SInv_remove r h k
    | refresh f rep => exact refresh_preserves SInv (fun r h' hp => SInv_addIfMissing r hp h') (fun r k hp => SInv_remove r hp k) r h f rep
    | update id a c => exact SInv_updateStored r h id a c

/-- the observation `nostale` = `Ring.staleAddrs` of the differential run is empty after EVERY history -/
theorem C16_stale_nil (ops : List HOp) (n : Nat) : (ops.foldl applyH Ring.empty).staleAddrs n = [] :=
  staleAddrs_nil_of_SInv _ (SInv_runH ops _ SInv_empty) n

/-- RESIDUAL case (kernel-checked), outside what the property demands: two LIVE hosts on one address is
not a state a cluster reports (`GoodReport`) and, since refreshRing removes what is gone before it adds
anything, not a state inside a refresh with a `GoodReport` either. With the repaired code the by-address index
still points to only one of two live hosts that share an address, and removing THAT one un-indexes the
address: add(id1@7), add(id2@7), removeHost(id2) — id1 is in the ring and is not found by address 7.
The history violates `RemOk` at the removal. -/
theorem C16_cex_residual_shared_address :
    let h1 : RHost := ⟨1, 1, 7, 7⟩
    let h2 : RHost := ⟨2, 2, 7, 7⟩
    let ops := [ROp.addIfMissing h1, .addIfMissing h2, .remove 2]
    let r := ops.foldl applyOp Ring.empty
    h1 ∈ r.allHosts ∧ r.getHost 1 = some h1 ∧ r.getHostByIP 7 = (none, false) ∧ ¬ RemGuarded Ring.empty ops := by
  refine ⟨by decide, by decide, by decide, fun hg => ?_⟩
  have h : RemOk ((Ring.empty.addIfMissing ⟨1, 1, 7, 7⟩).1.addIfMissing ⟨2, 2, 7, 7⟩).1 2 := hg.1
  revert h
  decide

/-! ### regression: the definition before the repair (`Ring.removeOld`) fails on the histories of KF-C16-1 -/

example :
    let h1 : RHost := ⟨1, 1, 7, 7⟩
    let h2 : RHost := ⟨2, 2, 7, 7⟩
    let r := (((Ring.empty.addIfMissing h1).1.addIfMissing h2).1.removeOld 1).1
    h2 ∈ r.allHosts ∧ r.getHost 2 = some h2 ∧ r.getHostByIP 7 = (none, false) := by decide

example :
    let h1 : RHost := ⟨1, 1, 7, 7⟩
    let h2 : RHost := ⟨2, 2, 7, 7⟩
    let r := (((Ring.empty.addIfMissing h1).1.addIfMissing h2).1.remove 1).1
    h2 ∈ r.allHosts ∧ r.getHost 2 = some h2 ∧ r.getHostByIP 7 = (some h2, true) := by decide

/-! ### regression: `addOrUpdate` before the repair of KF-C16-5 (`Ring.updateStoredOld`) — a peer-sourced
host (peer 7) receives broadcast_address 8 and is removed: the by-address entry of 7 is left behind and
`getHostByIP 7` answers (nil, true), which `handleNodeDown` / `handleNodeUp` dereferenced -/

example :
    let r := (((Ring.empty.addIfMissing ⟨1, 1, 7, 7⟩).1.updateStoredOld 1 8 7).remove 1).1
    r.getHostByIP 7 = (none, true) ∧ r.staleAddrs 9 = [7] := by decide

example :
    let r1 := (Ring.empty.addIfMissing ⟨1, 1, 7, 7⟩).1.updateStored 1 8 7
    r1.getHostByIP 8 = (some ⟨1, 1, 8, 7⟩, true) ∧ r1.getHostByIP 7 = (none, false) ∧
    (r1.remove 1).1.getHostByIP 7 = (none, false) ∧ (r1.remove 1).1.staleAddrs 9 = [] := by decide

end C16
