import Model.Ring
import Proofs.C16Ring
import Proofs.C16Refresh
import Proofs.C16Index
/-! # C16 — the driver's picture of the cluster follows what the cluster reports (ring level)

Model: `Model/Ring.lean` — the three indexes of `ring` (ring.go) and the diff loop of `refreshRing`
(host_source.go). Events, debouncing, pool and policy propagation are NOT covered here. -/
namespace C16
open Ring

/-- every ring reachable by ring operations and refreshes stores each host under its own id -/
theorem WF_refresh (r : Ring.Ring) (hw : WF r.byId) (filter : RHost → Bool) (reported : List RHost)
    (hn : (acceptedIds filter reported).Nodup) : WF (r.refresh filter reported).1.byId := by
  have h0 : LoopInv r [] (r, r.byId, {}) := ⟨by simp, by simp, hw, hw⟩
  have ⟨hok, hi⟩ := loop_inv filter r reported [] _ h0 hn (by simp)
  unfold Ring.refresh
  generalize refreshLoop filter reported (r, r.byId, {}) = res at hok hi
  obtain ⟨⟨r1, prev, eff⟩, res'⟩ := res
  dsimp only at hok hi
  subst hok
  dsimp only
  have : ∀ (p : List (Nat × RHost)) (r : Ring.Ring), WF r.byId → WF (removeAll r p).byId := by
    intro p
    induction p with
    | nil => intro r h; exact h
    | cons e t ih => intro r h; obtain ⟨k, v⟩ := e; exact ih _ (WF_remove r v.id h)
  exact this prev r1 hi.wf

/-- For every prior ring (well-formed: entries stored under their own id — true of every reachable ring),
every host filter and every reported host list in which the accepted hosts have distinct host ids:
the refresh succeeds and afterwards the ids in the ring are EXACTLY the ids of the accepted reported
hosts (new ones added, vanished ones removed, filtered ones absent). -/
theorem C16_refresh_exact (r : Ring.Ring) (hw : WF r.byId) (filter : RHost → Bool) (reported : List RHost)
    (hn : ((reported.filter (fun h => !filter h)).map (·.id)).Nodup) :
    (r.refresh filter reported).2.1 = .ok ∧
    (∀ id, id ∈ (r.refresh filter reported).1.ids ↔ ∃ h ∈ reported, filter h = false ∧ h.id = id) ∧
    WF (r.refresh filter reported).1.byId := by
  have ⟨h1, h2⟩ := refresh_exact r hw filter reported hn
  refine ⟨h1, ?_, WF_refresh r hw filter reported hn⟩
  intro id
  have := h2 id
  simp only [keys, acceptedIds] at this
  simp only [Ring.ids]
  rw [this]
  simp only [List.mem_map, List.mem_filter]
  constructor
  · rintro ⟨h, ⟨hm, hf⟩, rfl⟩; exact ⟨h, hm, by simpa using hf, rfl⟩
  · rintro ⟨h, hm, hf, rfl⟩; exact ⟨h, ⟨hm, by simp [hf]⟩, rfl⟩

example :
    let a : RHost := ⟨1, 1, 7, 7⟩
    let b : RHost := ⟨2, 2, 8, 8⟩
    let b' : RHost := ⟨3, 2, 9, 9⟩   -- id 2 moved to address 9
    let c : RHost := ⟨4, 3, 5, 5⟩
    let r := (Ring.empty.refresh (fun _ => false) [a, b]).1
    (r.refresh (fun _ => false) [b', c]).1.getHost 2 = some b' ∧
    (r.refresh (fun _ => false) [b', c]).1.ids = [3, 2] ∧
    (r.refresh (fun _ => false) [b', c]).1.getHostByIP 9 = (some b', true) ∧
    (r.refresh (fun _ => false) [b', c]).1.getHostByIP 8 = (none, false) := by decide

/-- a reported list with the same host id twice makes the refresh fail half way (mirrors the code:
`ErrCannotFindHost`; the remaining hosts are not processed and nothing is removed) -/
theorem C16_refresh_duplicate_id_fails :
    let a : RHost := ⟨1, 1, 7, 7⟩
    let a2 : RHost := ⟨2, 1, 8, 8⟩
    (Ring.empty.refresh (fun _ => false) [a, a2]).2.1 = .errCannotFind := by decide

/-! ### index consistency — known defect D3

Full statement (FAILS for the unchanged code): after every history of ring operations every host of the
ring is found by its id and by its address: `getHost h.id = some h ∧ getHostByIP h.addr = (some h, true)`.
`removeHost` deletes the by-address entry of the removed host's address even when that entry belongs
to another (live) host id. -/

/-- holds for every history in which no host is added while a host with a DIFFERENT id has its address -/
theorem C16_index_consistent_partial (ops : List ROp) (hg : Guarded Ring.empty ops) :
    let r := ops.foldl applyOp Ring.empty
    ∀ h ∈ r.allHosts, r.getHost h.id = some h ∧ r.getHostByIP h.addr = (some h, true) := by
  intro r h hh
  exact RInv_lookup r (RInv_run _ RInv_empty ops hg) h hh

example : Guarded Ring.empty [.addIfMissing ⟨1, 1, 7, 7⟩, .addIfMissing ⟨2, 2, 8, 8⟩, .remove 1, .addOrUpdate ⟨3, 3, 7, 7⟩] := by
  refine ⟨?_, ?_, ?_, trivial⟩ <;> decide

/-- Known defect D3 (kernel-checked): add(id1@X), add(id2@X), removeHost(id1) — the live node id2
is still in the ring but is no longer found by its address. -/
theorem C16_cex_index_consistent :
    let h1 : RHost := ⟨1, 1, 7, 7⟩
    let h2 : RHost := ⟨2, 2, 7, 7⟩
    let r := [ROp.addIfMissing h1, .addIfMissing h2, .remove 1].foldl applyOp Ring.empty
    h2 ∈ r.allHosts ∧ r.getHost 2 = some h2 ∧ r.getHostByIP 7 = (none, false) := by
  decide

/-- the same defect through a refresh: a dead node (id1@X) replaced by a new host id on the same
address (id2@X) — after the refresh the only node of the ring is not found by its address -/
theorem C16_cex_refresh_replaced_node :
    let h1 : RHost := ⟨1, 1, 7, 7⟩
    let h2 : RHost := ⟨2, 2, 7, 7⟩
    let r := ((Ring.empty.refresh (fun _ => false) [h1]).1.refresh (fun _ => false) [h2]).1
    r.ids = [2] ∧ r.getHostByIP 7 = (none, false) := by
  decide

end C16
