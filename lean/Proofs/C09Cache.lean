import Model.RoutingCache
/-!
# C09 — helper lemmas: the routing-key info cache is transparent on every safe history, and bounded
-/
namespace RoutingCache
open Routing
variable {τ ν : Type}

/-- what a finished computation leaves in the cache for a statement, given what the server / schema say now -/
def entryOK (stmts : List (Stmt τ)) (p : Nat × Entry τ) : Prop :=
  match stmts[p.1]? with
  | none => False
  | some st =>
    match routingKeyInfo st.md st.schema with
    | .info i => p.2 = .info i
    | .none => p.2 = .nothing
    | _ => False

/-- every cached entry is the one a fresh computation would produce -/
def Coherent (s : State τ) : Prop := ∀ p ∈ s.lru, entryOK s.stmts p

theorem lookup_some {k : Nat} {l : LRU τ} {e : Entry τ} (h : lookup k l = some e) : (k, e) ∈ l := by
  unfold lookup at h
  cases hf : l.find? (isKey k) with
  | none => simp [hf] at h
  | some p =>
    simp [hf] at h
    have hm := List.mem_of_find?_eq_some hf
    have hk := List.find?_some hf
    simp [isKey] at hk
    obtain ⟨a, b⟩ := p
    simp at h hk
    subst h; subst hk; exact hm

theorem lookup_none {k : Nat} {l : LRU τ} (h : lookup k l = none) : ∀ p ∈ l, p.1 ≠ k := by
  intro p hp hk
  unfold lookup at h
  cases hf : l.find? (isKey k) with
  | some q => simp [hf] at h
  | none =>
    have := List.find?_eq_none.mp hf p hp
    simp [isKey, hk] at this

theorem mem_remove {k : Nat} {l : LRU τ} {p : Nat × Entry τ} (h : p ∈ remove k l) : p ∈ l :=
  List.mem_of_mem_eraseP h

theorem mem_add_miss {max k : Nat} {e : Entry τ} {l : LRU τ} (hl : lookup k l = none) {p : Nat × Entry τ}
    (h : p ∈ add max k e l) : p = (k, e) ∨ p ∈ l := by
  unfold add at h
  rw [hl] at h
  simp only at h
  split at h
  · have := List.dropLast_subset _ h
    simpa using this
  · simpa using h

theorem mem_setEntry {k : Nat} {e : Entry τ} {l : LRU τ} {p : Nat × Entry τ} (h : p ∈ setEntry k e l) :
    p = (k, e) ∨ (p ∈ l ∧ p.1 ≠ k) := by
  unfold setEntry at h
  rw [List.mem_map] at h
  obtain ⟨q, hq, hqp⟩ := h
  by_cases hk : isKey k q = true
  · simp [hk] at hqp; exact Or.inl hqp.symm
  · simp [hk] at hqp
    subst hqp
    right
    refine ⟨hq, ?_⟩
    intro h1
    apply hk
    simp [isKey, h1]

theorem mem_remove_add_miss {max k : Nat} {e : Entry τ} {l : LRU τ} (hl : lookup k l = none) {p : Nat × Entry τ}
    (h : p ∈ remove k (add max k e l)) : p ∈ l := by
  unfold add at h
  rw [hl] at h
  simp only at h
  have hhead : ∀ t : LRU τ, remove k ((k, e) :: t) = t := by
    intro t; unfold remove; rw [List.eraseP_cons_of_pos]; simp [isKey]
  split at h
  · cases l with
    | nil => simp [remove] at h
    | cons a t =>
      rw [List.dropLast_cons_cons, hhead] at h
      exact List.dropLast_subset _ h
  · rw [hhead] at h; exact h

theorem getRoutingKey_eq (enc : τ → ν → Enc) (m : Meta τ) (schema : Option (List String)) (vals : List ν) :
    getRoutingKey enc m schema vals =
      match routingKeyInfo m schema with
      | .none => .nokey
      | .errMeta => .errMeta
      | .crash => .crash
      | .info i => createRoutingKey enc i vals := rfl

/-- a use finds the info cached or a connection to compute it -/
def connected (s : State τ) : Step τ ν → Bool
  | .use k _ => s.up || (lookup k s.lru).isSome
  | _ => true

/-- ONE safe, connected step from a coherent state answers what the specification (no cache) answers, and leaves a coherent state -/
theorem step_safe (enc : τ → ν → Enc) (s : State τ) (st : Step τ ν) (hc : Coherent s) (hs : safeStep s st = true)
    (hcn : connected s st = true) :
    (step enc s st).1 = Spec.stepOut enc s.stmts st ∧ Coherent (step enc s st).2 ∧
      (step enc s st).2.stmts = Spec.stmtsAfter s.stmts st := by
  cases st with
  | useExplicit key k vals => exact ⟨rfl, hc, rfl⟩
  | useBinding k => exact ⟨rfl, hc, rfl⟩
  | batchEmpty => exact ⟨rfl, hc, rfl⟩
  | down => exact ⟨rfl, hc, rfl⟩
  | up => exact ⟨rfl, hc, rfl⟩
  | setMax n =>
    refine ⟨rfl, ?_, rfl⟩
    intro p hp
    exact hc p (List.mem_of_mem_take hp)
  | change k st' =>
    refine ⟨rfl, ?_, rfl⟩
    simp only [safeStep, Option.isNone_iff_eq_none] at hs
    intro p hp
    have hne := lookup_none hs p hp
    have := hc p hp
    simp only [step] at hp ⊢
    unfold entryOK at this ⊢
    rw [List.getElem?_set_ne (Ne.symm hne)]
    exact this
  | use k vals =>
    simp only [safeStep] at hs
    cases hst : s.stmts[k]? with
    | none => simp [hst] at hs
    | some st0 =>
      simp only [hst, Bool.not_eq_true'] at hs
      have hcr := hs
      simp only [connected, Bool.or_eq_true] at hcn
      have hup := hcn
      simp only [step, Spec.stepOut, hst, Spec.stmtsAfter]
      unfold routingKeyInfoC
      cases hl : lookup k s.lru with
      | some e =>
        have hmem := lookup_some hl
        have hok := hc _ hmem
        simp only
        refine ⟨?_, ?_, by first | rfl | trivial⟩
        · unfold entryOK at hok
          simp only [hst] at hok
          rw [getRoutingKey_eq]
          cases hr : routingKeyInfo st0.md st0.schema with
          | info i => simp only [hr] at hok; simp [hok, entryOut, keyOut]
          | none => simp only [hr] at hok; simp [hok, entryOut, keyOut]
          | errMeta => simp [hr] at hok
          | crash => simp [hr] at hok
        · intro p hp
          simp only [List.mem_cons] at hp
          rcases hp with hp | hp
          · subst hp; exact hok
          · exact hc p (mem_remove hp)
      | none =>
        have hup' : s.up = true := by
          rcases hup with h | h
          · exact h
          · simp [hl] at h
        simp only [hst, hup', Bool.not_true, Bool.false_eq_true, if_false]
        rw [getRoutingKey_eq]
        unfold crashes at hcr
        cases hr : routingKeyInfo st0.md st0.schema with
        | crash => simp [hr] at hcr
        | info i =>
          refine ⟨by simp [keyOut], ?_, rfl⟩
          intro p hp
          rcases mem_setEntry hp with h | ⟨h, hne⟩
          · subst h; unfold entryOK; simp [hst, hr]
          · rcases mem_add_miss hl h with h2 | h2
            · subst h2; exact absurd rfl hne
            · exact hc p h2
        | none =>
          refine ⟨by simp [keyOut], ?_, rfl⟩
          intro p hp
          rcases mem_add_miss hl hp with h2 | h2
          · subst h2; unfold entryOK; simp [hst, hr]
          · exact hc p h2
        | errMeta =>
          refine ⟨by simp [keyOut], ?_, rfl⟩
          intro p hp
          exact hc p (mem_remove_add_miss hl hp)

theorem lookup_none_of {k : Nat} {l : LRU τ} (h : ∀ p ∈ l, p.1 ≠ k) : lookup k l = none := by
  unfold lookup
  have : l.find? (isKey k) = none := by
    rw [List.find?_eq_none]
    intro p hp
    simp [isKey, h p hp]
  simp [this]

/-- a first use of a statement while no connection is available: the error, and NOTHING is cached for the statement -/
theorem use_noconn (enc : τ → ν → Enc) (s : State τ) (k : Nat) (vals : List ν) (st0 : Stmt τ)
    (hup : s.up = false) (hl : lookup k s.lru = none) (hst : s.stmts[k]? = some st0) :
    (step enc s (.use k vals)).1 = some .errNoConn ∧
    (∀ p ∈ (step enc s (.use k vals)).2.lru, p ∈ s.lru) ∧
    (step enc s (.use k vals)).2.stmts = s.stmts ∧ (step enc s (.use k vals)).2.up = s.up := by
  simp only [step]
  unfold routingKeyInfoC
  simp only [hl, hst, hup, Bool.not_false, if_true, keyOut]
  refine ⟨by first | rfl | trivial, fun p hp => mem_remove_add_miss hl hp, by first | rfl | trivial, by first | rfl | trivial⟩

/-- ONE safe step, connected or not -/
theorem step_accepts (enc : τ → ν → Enc) (s : State τ) (st : Step τ ν) (hc : Coherent s) (hs : safeStep s st = true) :
    Spec.accepts enc s.stmts s.up st (step enc s st).1 = true ∧ Coherent (step enc s st).2 ∧
      (step enc s st).2.stmts = Spec.stmtsAfter s.stmts st ∧ (step enc s st).2.up = Spec.upAfter s.up st := by
  by_cases hcn : connected s st = true
  · obtain ⟨ho, hc', hst⟩ := step_safe enc s st hc hs hcn
    refine ⟨by simp [Spec.accepts, ho], hc', hst, ?_⟩
    cases st <;> first | rfl | skip
    rename_i k vals
    simp only [step, Spec.upAfter]
    unfold routingKeyInfoC
    split
    · rfl
    · split
      · rfl
      · split
        · rfl
        · split <;> rfl
  · cases st with
    | use k vals =>
      simp only [connected, Bool.or_eq_true, not_or, Bool.not_eq_true, Option.isSome_eq_false_iff,
        Option.isNone_iff_eq_none] at hcn
      obtain ⟨hup, hl⟩ := hcn
      simp only [safeStep] at hs
      cases hst : s.stmts[k]? with
      | none => simp [hst] at hs
      | some st0 =>
        obtain ⟨ho, hsub, hstm, hu⟩ := use_noconn enc s k vals st0 hup hl hst
        refine ⟨by simp [Spec.accepts, ho, hup, Spec.isUse], ?_, by simpa [Spec.stmtsAfter] using hstm, by simpa [Spec.upAfter] using hu⟩
        intro p hp
        rw [hstm]
        exact hc p (hsub p hp)
    | useExplicit key k vals => simp [connected] at hcn
    | useBinding k => simp [connected] at hcn
    | batchEmpty => simp [connected] at hcn
    | down => simp [connected] at hcn
    | up => simp [connected] at hcn
    | setMax n => simp [connected] at hcn
    | change k st' => simp [connected] at hcn

/-- the whole history -/
theorem run_accepts (enc : τ → ν → Enc) (steps : List (Step τ ν)) :
    ∀ s : State τ, Coherent s → safe enc s steps = true →
      Spec.acceptsRun enc s.stmts s.up steps (run enc s steps) = true := by
  induction steps with
  | nil => intro s _ _; rfl
  | cons st rest ih =>
    intro s hc hs
    simp only [safe, Bool.and_eq_true] at hs
    obtain ⟨h1, h2⟩ := hs
    obtain ⟨ho, hc', hst, hu⟩ := step_accepts enc s st hc h1
    simp only [run, Spec.acceptsRun, Bool.and_eq_true]
    refine ⟨ho, ?_⟩
    have := ih _ hc' h2
    rw [hst, hu] at this
    exact this

/-- while a connection is available the acceptable answer is THE specification's answer -/
theorem accepts_up (enc : τ → ν → Enc) (stmts : List (Stmt τ)) (st : Step τ ν) (o : Option Out)
    (h : Spec.accepts enc stmts true st o = true) : o = Spec.stepOut enc stmts st := by
  simpa [Spec.accepts] using h

/-! ### the cache is bounded -/

theorem length_add_le {max k : Nat} {e : Entry τ} {l : LRU τ} (hb : max ≠ 0 → l.length ≤ max) (hl : lookup k l = none) :
    max ≠ 0 → (add max k e l).length ≤ max := by
  intro hm
  unfold add
  rw [hl]
  simp only
  have := hb hm
  split
  · simp; omega
  · rename_i h
    simp [hm] at h
    simp; omega

theorem length_hit {k : Nat} {e : Entry τ} {l : LRU τ} (hl : lookup k l = some e) :
    ((k, e) :: remove k l).length = l.length := by
  have hm := lookup_some hl
  have : (remove k l).length = l.length - 1 := by
    unfold remove
    exact List.length_eraseP_of_mem hm (by simp [isKey])
  have hpos : 0 < l.length := List.length_pos_of_mem hm
  simp [this]; omega

/-- EVERY step (safe or not) keeps the cache within `MaxEntries` -/
theorem step_bounded (enc : τ → ν → Enc) (s : State τ) (st : Step τ ν) (hb : s.max ≠ 0 → s.lru.length ≤ s.max) :
    (step enc s st).2.max ≠ 0 → (step enc s st).2.lru.length ≤ (step enc s st).2.max := by
  cases st with
  | useExplicit key k vals => exact hb
  | useBinding k => exact hb
  | batchEmpty => exact hb
  | down => exact hb
  | up => exact hb
  | change k st' => exact hb
  | setMax n =>
    intro _
    simp only [step, trim, List.length_take]
    omega
  | use k vals =>
    simp only [step]
    unfold routingKeyInfoC
    cases hl : lookup k s.lru with
    | some e => simp only; rw [length_hit hl]; exact hb
    | none =>
      cases hst : s.stmts[k]? with
      | none => exact hb
      | some st0 =>
        simp only
        have hadd := length_add_le (e := Entry.nothing) hb hl
        split
        · intro hm
          have := hadd hm
          have h2 : (remove k (add s.max k Entry.nothing s.lru)).length ≤ (add s.max k Entry.nothing s.lru).length := by
            unfold remove; exact List.length_eraseP_le
          simp only at this ⊢
          omega
        · split
          · simp only [setEntry, List.length_map]; exact hadd
          · exact hadd
          · intro hm
            have := hadd hm
            have h2 : (remove k (add s.max k Entry.nothing s.lru)).length ≤ (add s.max k Entry.nothing s.lru).length := by
              unfold remove; exact List.length_eraseP_le
            simp only at this ⊢
            omega
          · exact hadd

/-! ### concurrent first uses of one statement -/
namespace Conc
open Routing

def entryFresh (st : Stmt τ) (e : Entry τ) : Prop :=
  match routingKeyInfo st.md st.schema with
  | .info i => e = .info i
  | .none => e = .nothing
  | _ => False

def Rel (st : Stmt τ) : Bool × CState τ ν → Bool × List (Nat × List ν) → Prop
  | (p, .idle), (p', infl) => p = p' ∧ infl = []
  | (p, .pending o ws), (p', infl) => p = false ∧ p' = false ∧ infl = o :: ws
  | (p, .cached e), (p', infl) => p = true ∧ p' = true ∧ infl = [] ∧ entryFresh st e

/-- the owner's computation answers every goroutine with the key of ITS values, and leaves a fresh entry (or none) -/
theorem compute_spec (enc : τ → ν → Enc) (st : Stmt τ) (hcr : crashes st = false) (gs : List (Nat × List ν)) :
    (compute enc st gs).1 = gs.map (fun p => (p.1, COut.res (getRoutingKey enc st.md st.schema p.2))) ∧
    Rel st (true, (compute enc st gs).2) (true, ([] : List (Nat × List ν))) := by
  unfold compute crashes at *
  cases hr : routingKeyInfo st.md st.schema with
  | crash => simp [hr] at hcr
  | info i => simp [getRoutingKey_eq, hr, Rel, entryFresh]
  | none => simp [getRoutingKey_eq, hr, Rel, entryFresh]
  | errMeta => simp [getRoutingKey_eq, hr, Rel]

theorem step_rel (enc : τ → ν → Enc) (st : Stmt τ) (hcr : crashes st = false)
    (s : Bool × CState τ ν) (t : Bool × List (Nat × List ν)) (e : Ev ν) (h : Rel st s t) :
    (step enc st s e).1 = (Spec.step enc st t e).1 ∧ Rel st (step enc st s e).2 (Spec.step enc st t e).2 := by
  obtain ⟨p, cs⟩ := s
  obtain ⟨p', infl⟩ := t
  cases cs with
  | idle =>
    obtain ⟨hp, hi⟩ := h
    subst hp; subst hi
    cases e with
    | go g vals =>
      cases p with
      | false => simp [step, Spec.step, Rel]
      | true =>
        obtain ⟨h1, h2⟩ := compute_spec enc st hcr [(g, vals)]
        simp only [step, Spec.step]
        exact ⟨by simpa using h1, h2⟩
    | ansOk => cases p <;> simp [step, Spec.step, Rel]
    | ansFail => cases p <;> simp [step, Spec.step, Rel]
  | pending o ws =>
    obtain ⟨hp, hp', hi⟩ := h
    subst hp; subst hp'; subst hi
    cases e with
    | go g vals => simp [step, Spec.step, Rel]
    | ansOk =>
      obtain ⟨h1, h2⟩ := compute_spec enc st hcr (o :: ws)
      simp only [step, Spec.step]
      exact ⟨h1, h2⟩
    | ansFail => simp [step, Spec.step, Rel]
  | cached en =>
    obtain ⟨hp, hp', hi, hf⟩ := h
    subst hp; subst hp'; subst hi
    cases e with
    | go g vals =>
      simp only [step, Spec.step]
      refine ⟨?_, ⟨rfl, rfl, rfl, hf⟩⟩
      unfold entryFresh at hf
      rw [getRoutingKey_eq]
      cases hr : routingKeyInfo st.md st.schema with
      | info i => simp only [hr] at hf; simp [hf, entryKey]
      | none => simp only [hr] at hf; simp [hf, entryKey]
      | errMeta => simp [hr] at hf
      | crash => simp [hr] at hf
    | ansOk => exact ⟨by simp [step, Spec.step], by simpa [step, Spec.step, Rel] using hf⟩
    | ansFail => exact ⟨by simp [step, Spec.step], by simpa [step, Spec.step, Rel] using hf⟩

theorem run_spec (enc : τ → ν → Enc) (st : Stmt τ) (hcr : crashes st = false) (evs : List (Ev ν)) :
    ∀ (s : Bool × CState τ ν) (t : Bool × List (Nat × List ν)), Rel st s t →
      run enc st s evs = Spec.run enc st t evs := by
  induction evs with
  | nil => intro s t _; rfl
  | cons e rest ih =>
    intro s t h
    obtain ⟨h1, h2⟩ := step_rel enc st hcr s t e h
    simp only [run, Spec.run]
    rw [h1, ih _ _ h2]

end Conc

end RoutingCache
