import Proofs.C13Exec
import Proofs.C13Conc
/-! The interleaving machine (`ExecutorConc`) run with ONE execution in a static environment makes exactly the
    requests and counts of the sequential model of `queryExecutor.do` (`Executor.doLoop`). -/
namespace ExecutorConc
open Executor

/-- the schedule of one execution left alone: its attempt completes (with the scripted outcome), it decides, … -/
def seqSched (outcome : Nat → Res) : Nat → Nat → List Act
  | 0, _ => []
  | n+1, k => .complete 0 (outcome k) :: .decide 0 :: seqSched outcome n (k+1)

def allUp : Nat → Nat → Bool := fun _ _ => true

theorem run_seq_succ (pol : Option Policy) (outcome : Nat → Res) (n k : Nat) (m : M) :
    run pol m (seqSched outcome (n+1) k) =
      run pol (step pol (step pol m (.complete 0 (outcome k))) (.decide 0)) (seqSched outcome n (k+1)) := rfl

theorem nextUsable_allUp (k : Nat) (h : Nat) (rest : List Nat) : nextUsable (allUp k) (h :: rest) = some (h, rest) := by
  simp [nextUsable, allUp]

/-- an execution that has returned takes no further step -/
theorem run_done (pol : Option Policy) (outcome : Nat → Res) : ∀ (n k : Nat) (m : M), m.exs = [.done] →
    run pol m (seqSched outcome n k) = m
  | 0, _, _, _ => rfl
  | n+1, k, m, h => by
    simp only [seqSched, run, List.foldl_cons]
    have h1 : step pol m (.complete 0 (outcome k)) = m := by simp [step, h]
    rw [h1]
    have h2 : step pol m (.decide 0) = m := by simp [step, h]
    rw [h2]
    exact run_done pol outcome n (k+1) m h

theorem push_final (o : Out) (a : Att) : (o.push a).final = o.final := rfl
theorem push_cnt (o : Out) (a : Att) : (o.push a).cnt = o.cnt := rfl
theorem push_len (o : Out) (a : Att) : (o.push a).attempts.length = o.attempts.length + 1 := by simp [Out.push]

/-- one round of the loop on a usable host -/
theorem doLoop_step (req : Req) (pol : Option Policy) (outcome : Nat → Res) (fuel h : Nat) (rest : List Nat)
    (k cnt cons : Nat) (lastErr : Option (Nat × Nat)) :
    doLoop req pol outcome allUp (fuel+1) (h :: rest) k cnt cons lastErr =
      (match outcome k with
        | .logical => (⟨[⟨h, cnt, cons, outcome k⟩], .last (outcome k), cnt + 1, cons⟩ : Out)
        | .ok => ⟨[⟨h, cnt, cons, outcome k⟩], .last (outcome k), cnt + 1, cons⟩
        | .err e =>
          match pol with
          | none => ⟨[⟨h, cnt, cons, outcome k⟩], .last (outcome k), cnt + 1, cons⟩
          | some p =>
            if !p.attempt (cnt + 1) then ⟨[⟨h, cnt, cons, outcome k⟩], .last (outcome k), cnt + 1, cons⟩
            else match p.rtype e with
              | .retry => (doLoop req pol outcome allUp fuel (h :: rest) (k+1) (cnt+1) ((p.newCons (cnt+1)).getD cons) (some (e, k))).push ⟨h, cnt, cons, outcome k⟩
              | .rethrow => ⟨[⟨h, cnt, cons, outcome k⟩], .last (outcome k), cnt + 1, (p.newCons (cnt+1)).getD cons⟩
              | .ignore => ⟨[⟨h, cnt, cons, outcome k⟩], .last (outcome k), cnt + 1, (p.newCons (cnt+1)).getD cons⟩
              | .nextHost => (doLoop req pol outcome allUp fuel rest (k+1) (cnt+1) ((p.newCons (cnt+1)).getD cons) (some (e, k))).push ⟨h, cnt, cons, outcome k⟩
              | .unknown => ⟨[⟨h, cnt, cons, outcome k⟩], .unknownRetryType, cnt + 1, (p.newCons (cnt+1)).getD cons⟩) := by
  conv => lhs; unfold doLoop
  simp only [nextUsable_allUp, Req.record_eq]
  cases outcome k <;> rfl

/-- from a request in flight on host `h` (the iterator still holding `rest`): the machine's further requests and
    its counter are those of the loop -/
theorem refine_flight (req : Req) (pol : Option Policy) (outcome : Nat → Res) :
    ∀ (fuel : Nat) (h : Nat) (rest : List Nat) (k cnt cons : Nat) (lastErr : Option (Nat × Nat)) (m0 : M),
      m0.exs = [.inflight] → m0.left = rest.length → m0.cnt = cnt →
      (doLoop req pol outcome allUp (fuel+1) (h :: rest) k cnt cons lastErr).final ≠ .outOfFuel →
        (run pol m0 (seqSched outcome (fuel+1) k)).sent + 1 =
          m0.sent + (doLoop req pol outcome allUp (fuel+1) (h :: rest) k cnt cons lastErr).attempts.length ∧
        (run pol m0 (seqSched outcome (fuel+1) k)).cnt = (doLoop req pol outcome allUp (fuel+1) (h :: rest) k cnt cons lastErr).cnt ∧
        (run pol m0 (seqSched outcome (fuel+1) k)).exs = [.done] := by
  intro fuel
  induction fuel with
  | zero =>
    intro h rest k cnt cons lastErr m0 hex hleft hcnt
    rw [run_seq_succ, doLoop_step]
    simp only [seqSched, run, List.foldl_nil, doLoop]
    have hc : step pol m0 (.complete 0 (outcome k)) = { m0.count with exs := [.counted (outcome k)] } := by
      simp [step, hex]
    rw [hc]
    cases ho : outcome k with
    | ok => intro _; simp [step, M.count, hcnt]
    | logical => intro _; simp [step, M.count, hcnt]
    | err e =>
      cases pol with
      | none => intro _; simp [step, M.count, hcnt]
      | some p =>
        by_cases hat : p.attempt (cnt + 1) = true
        · simp only [step, M.count, hcnt, hat, Bool.not_true, Bool.false_eq_true, if_false, List.getElem?_cons_zero]
          cases hrt : p.rtype e with
          | retry => intro hf; exact absurd rfl hf
          | nextHost => intro hf; exact absurd rfl hf
          | rethrow => intro _; simp
          | ignore => intro _; simp
          | unknown => intro _; simp
        · have hat' : p.attempt (cnt + 1) = false := by simpa using hat
          intro _
          simp [step, M.count, hcnt, hat']
  | succ f ih =>
    intro h rest k cnt cons lastErr m0 hex hleft hcnt
    rw [run_seq_succ, doLoop_step]
    have hc : step pol m0 (.complete 0 (outcome k)) = { m0.count with exs := [.counted (outcome k)] } := by
      simp [step, hex]
    rw [hc]
    cases ho : outcome k with
    | ok =>
      intro _
      have hd : step pol { m0.count with exs := [.counted .ok] } (.decide 0) = { m0.count with exs := [.done] } := by simp [step]
      rw [hd, run_done pol outcome _ _ _ rfl]
      simp [M.count, hcnt]
    | logical =>
      intro _
      have hd : step pol { m0.count with exs := [.counted .logical] } (.decide 0) = { m0.count with exs := [.done] } := by simp [step]
      rw [hd, run_done pol outcome _ _ _ rfl]
      simp [M.count, hcnt]
    | err e =>
      cases pol with
      | none =>
        intro _
        have hd : step none { m0.count with exs := [.counted (.err e)] } (.decide 0) = { m0.count with exs := [.done] } := by simp [step]
        rw [hd, run_done none outcome _ _ _ rfl]
        simp [M.count, hcnt]
      | some p =>
        by_cases hat : p.attempt (cnt + 1) = true
        · simp only [hat, Bool.not_true, Bool.false_eq_true, if_false]
          cases hrt : p.rtype e with
          | retry =>
            have hd : step (some p) { m0.count with exs := [.counted (.err e)] } (.decide 0) =
                { m0.count with sent := m0.sent + 1, exs := [.inflight] } := by
              simp [step, M.count, hcnt, hat, hrt]
            rw [hd]
            simp only [push_final, push_cnt, push_len]
            intro hf
            have := ih h rest (k+1) (cnt+1) ((p.newCons (cnt+1)).getD cons) (some (e, k))
              { m0.count with sent := m0.sent + 1, exs := [.inflight] } rfl (by simpa [M.count] using hleft)
              (by simp [M.count, hcnt]) hf
            simp only at this
            exact ⟨by omega, this.2.1, this.2.2⟩
          | nextHost =>
            cases rest with
            | nil =>
              have hd : step (some p) { m0.count with exs := [.counted (.err e)] } (.decide 0) = { m0.count with exs := [.done] } := by
                have hl : m0.left = 0 := by simpa using hleft
                simp [step, M.count, hcnt, hat, hrt, M.sendNext, hl]
              rw [hd, run_done (some p) outcome _ _ _ rfl]
              intro _
              simp [doLoop, nextUsable, Out.push, M.count, hcnt]
            | cons h' rest' =>
              have hl : m0.left = rest'.length + 1 := by simpa using hleft
              have hd : step (some p) { m0.count with exs := [.counted (.err e)] } (.decide 0) =
                  { m0.count with sent := m0.sent + 1, left := rest'.length, exs := [.inflight] } := by
                simp [step, M.count, hcnt, hat, hrt, M.sendNext, hl]
              rw [hd]
              simp only [push_final, push_cnt, push_len]
              intro hf
              have := ih h' rest' (k+1) (cnt+1) ((p.newCons (cnt+1)).getD cons) (some (e, k))
                { m0.count with sent := m0.sent + 1, left := rest'.length, exs := [.inflight] } rfl rfl
                (by simp [M.count, hcnt]) hf
              simp only at this
              exact ⟨by omega, this.2.1, this.2.2⟩
          | rethrow =>
            intro _
            have hd : step (some p) { m0.count with exs := [.counted (.err e)] } (.decide 0) = { m0.count with exs := [.done] } := by
              simp [step, M.count, hcnt, hat, hrt]
            rw [hd, run_done (some p) outcome _ _ _ rfl]
            simp [M.count, hcnt]
          | ignore =>
            intro _
            have hd : step (some p) { m0.count with exs := [.counted (.err e)] } (.decide 0) = { m0.count with exs := [.done] } := by
              simp [step, M.count, hcnt, hat, hrt]
            rw [hd, run_done (some p) outcome _ _ _ rfl]
            simp [M.count, hcnt]
          | unknown =>
            intro _
            have hd : step (some p) { m0.count with exs := [.counted (.err e)] } (.decide 0) = { m0.count with exs := [.done] } := by
              simp [step, M.count, hcnt, hat, hrt]
            rw [hd, run_done (some p) outcome _ _ _ rfl]
            simp [M.count, hcnt]
        · have hat' : p.attempt (cnt + 1) = false := by simpa using hat
          intro _
          have hd : step (some p) { m0.count with exs := [.counted (.err e)] } (.decide 0) = { m0.count with exs := [.done] } := by
            simp [step, M.count, hcnt, hat']
          rw [hd, run_done (some p) outcome _ _ _ rfl]
          simp [M.count, hcnt, hat']

end ExecutorConc
