import Model.Pool
/-!
# C17 — refreshDebouncer with broadcaster and refreshNow waiters (helper lemmas; property theorems in Proofs/C17.lean)
-/
namespace C17Deb
open Pool

/-- invariant of the debouncer machine (`fixed` = the variant whose refreshNow looks at `stopped`) -/
structure WInv (fixed : Bool) (d : WDeb) : Prop where
  cover : ∀ w, w < d.nextW → w ∈ d.served ∨ w ∈ d.shut ∨ w ∈ ls d.pend ∨ w ∈ ls d.cur
  curRef : d.f ≠ .refreshing → d.cur = none
  exitedStopped : d.f = .exited → d.stopped = true
  stopQuit : d.stopped = true → d.quitClosed = true
  noPend : d.f = .exited → (fixed = true ∨ d.late = false) → d.pend = none

theorem winv_init (fixed : Bool) : WInv fixed WDeb.init := by
  constructor <;> simp [WDeb.init]

theorem winv_refreshNow (fixed : Bool) (d : WDeb) (h : WInv fixed d) : WInv fixed (wRefreshNow fixed d) := by
  obtain ⟨h1, h2, h3, h4, h5⟩ := h
  unfold wRefreshNow
  split
  · rename_i hc
    simp only [Bool.and_eq_true] at hc
    refine ⟨?_, h2, h3, h4, h5⟩
    intro w hw
    simp only at hw
    by_cases hx : w = d.nextW
    · subst hx; simp
    · have := h1 w (by omega)
      simp only [List.mem_append]
      rcases this with a | a | a | a
      · exact Or.inl a
      · exact Or.inr (Or.inl (Or.inl a))
      · exact Or.inr (Or.inr (Or.inl a))
      · exact Or.inr (Or.inr (Or.inr a))
  · rename_i hc
    have hne : d.f = .exited → fixed = false := by
      intro he
      have := h3 he
      cases fixed <;> simp_all
    split
    · rename_i hp
      refine ⟨?_, h2, h3, h4, ?_⟩
      · intro w hw
        simp only at hw
        by_cases hx : w = d.nextW
        · subst hx; simp [ls]
        · have := h1 w (by omega)
          simp only [hp, ls, Option.getD_none, List.not_mem_nil, false_or] at this
          rcases this with a | a | a
          · exact Or.inl a
          · exact Or.inr (Or.inl a)
          · exact Or.inr (Or.inr (Or.inr a))
      · intro he hl
        simp only at he
        have hf := hne he
        simp [hf, he] at hl
    · rename_i l hp
      refine ⟨?_, h2, h3, h4, ?_⟩
      · intro w hw
        simp only at hw
        by_cases hx : w = d.nextW
        · subst hx; simp [ls]
        · have := h1 w (by omega)
          simp only [hp, ls, Option.getD_some] at this
          simp only [ls, Option.getD_some, List.mem_append]
          rcases this with a | a | a | a
          · exact Or.inl a
          · exact Or.inr (Or.inl a)
          · exact Or.inr (Or.inr (Or.inl (Or.inl a)))
          · exact Or.inr (Or.inr (Or.inr a))
      · intro he hl
        simp only at he
        have hf := hne he
        simp [hf, he] at hl

theorem winv_step (fixed : Bool) (d d' : WDeb) (a : WAct) (h : WInv fixed d) (hs : wstepG fixed d a = some d') :
    WInv fixed d' := by
  cases a with
  | refreshNow => simp only [wstepG] at hs; injection hs with hs; subst hs; exact winv_refreshNow fixed d h
  | debounce =>
    obtain ⟨h1, h2, h3, h4, h5⟩ := h
    simp only [wstepG] at hs
    split at hs <;> (injection hs with hs; subst hs)
    · exact ⟨h1, h2, h3, h4, h5⟩
    · exact ⟨h1, h2, h3, h4, h5⟩
  | wake b =>
    obtain ⟨h1, h2, h3, h4, h5⟩ := h
    simp only [wstepG] at hs
    split at hs
    · rename_i hc
      injection hs with hs; subst hs
      have hcur : d.cur = none := h2 (by rw [hc.1]; decide)
      cases b <;> (constructor <;> simp_all [wConsume])
    · simp at hs
  | lock =>
    obtain ⟨h1, h2, h3, h4, h5⟩ := h
    simp only [wstepG] at hs
    split at hs
    · rename_i hc
      have hcur : d.cur = none := h2 (by rw [hc]; decide)
      split at hs
      · rename_i hst
        injection hs with hs; subst hs
        refine ⟨?_, ?_, ?_, h4, ?_⟩
        · intro w hw
          have := h1 w hw
          simp only [hcur, ls, Option.getD_none, List.not_mem_nil, or_false] at this
          rcases this with a | a | a <;> simp [a, ls]
        · intro _; exact hcur
        · intro _; exact hst
        · intro _ _; rfl
      · injection hs with hs; subst hs
        refine ⟨?_, ?_, ?_, h4, ?_⟩
        · intro w hw
          have := h1 w hw
          simp only [hcur, ls, Option.getD_none, List.not_mem_nil, or_false] at this
          simp only [ls, Option.getD_none, List.not_mem_nil, false_or]
          exact this
        · intro hne; simp at hne
        · intro he; simp at he
        · intro he; simp at he
    · simp at hs
  | refreshDone =>
    obtain ⟨h1, h2, h3, h4, h5⟩ := h
    simp only [wstepG] at hs
    split at hs
    · injection hs with hs; subst hs
      refine ⟨?_, ?_, ?_, h4, ?_⟩
      · intro w hw
        have := h1 w hw
        simp only [ls, Option.getD_none, List.not_mem_nil, or_false, List.mem_append]
        rcases this with a | a | a | a
        · exact Or.inl (Or.inl a)
        · exact Or.inr (Or.inl a)
        · exact Or.inr (Or.inr a)
        · exact Or.inl (Or.inr a)
      · intro _; rfl
      · intro he; simp at he
      · intro he; simp at he
    · simp at hs
  | stop =>
    obtain ⟨h1, h2, h3, h4, h5⟩ := h
    simp only [wstepG] at hs
    injection hs with hs; subst hs
    exact ⟨h1, h2, fun _ => rfl, fun _ => rfl, h5⟩

theorem winv_run (fixed : Bool) : ∀ (as : List WAct) (d d' : WDeb), WInv fixed d → wrunG fixed d as = some d' → WInv fixed d'
  | [], d, d', h, hr => by simp [wrunG] at hr; subst hr; exact h
  | a :: as, d, d', h, hr => by
    simp only [wrunG] at hr
    split at hr
    · rename_i d1 hs1; exact winv_run fixed as d1 d' (winv_step fixed d d1 a h hs1) hr
    · simp at hr

/-- a released waiter stays released, the waiter counter never decreases -/
theorem released_mono (fixed : Bool) (d d' : WDeb) (a : WAct) (hs : wstepG fixed d a = some d') :
    (∀ w, w ∈ d.served → w ∈ d'.served) ∧ (∀ w, w ∈ d.shut → w ∈ d'.shut) ∧ d.nextW ≤ d'.nextW := by
  cases a with
  | refreshNow =>
    simp only [wstepG] at hs; injection hs with hs; subst hs
    unfold wRefreshNow
    split
    · refine ⟨fun _ h => h, fun w h => ?_, by simp⟩
      simp [h]
    · split <;> exact ⟨fun _ h => h, fun _ h => h, by simp⟩
  | debounce =>
    simp only [wstepG] at hs
    split at hs <;> (injection hs with hs; subst hs; exact ⟨fun _ h => h, fun _ h => h, Nat.le_refl _⟩)
  | wake b =>
    simp only [wstepG] at hs
    split at hs
    · injection hs with hs; subst hs
      cases b <;> exact ⟨fun _ h => h, fun _ h => h, Nat.le_refl _⟩
    · simp at hs
  | lock =>
    simp only [wstepG] at hs
    split at hs
    · split at hs <;> (injection hs with hs; subst hs)
      · exact ⟨fun _ h => h, fun w h => by simp [h], Nat.le_refl _⟩
      · exact ⟨fun _ h => h, fun _ h => h, Nat.le_refl _⟩
    · simp at hs
  | refreshDone =>
    simp only [wstepG] at hs
    split at hs
    · injection hs with hs; subst hs
      exact ⟨fun w h => by simp [h], fun _ h => h, Nat.le_refl _⟩
    · simp at hs
  | stop =>
    simp only [wstepG] at hs; injection hs with hs; subst hs
    exact ⟨fun _ h => h, fun _ h => h, Nat.le_refl _⟩

/-- after stop the flusher reaches its exit by at most three steps of its own, and with it every waiter that is
    registered in `d` is released — given that the pending broadcaster is still reachable by the flusher
    (`d.f = exited → d.pend = none`) -/
theorem drain (fixed : Bool) (d : WDeb) (h : WInv fixed d) (hs : d.stopped = true)
    (hp : d.f = .exited → d.pend = none) :
    ∃ bs d', bs.length ≤ 3 ∧ (∀ b ∈ bs, b = .wake .quit ∨ b = .lock ∨ b = .refreshDone) ∧
      wrunG fixed d bs = some d' ∧ d'.f = .exited ∧ ∀ w, w < d.nextW → d'.released w := by
  obtain ⟨h1, h2, h3, h4, h5⟩ := h
  have hq := h4 hs
  cases hf : d.f with
  | exited =>
    refine ⟨[], d, by simp, by simp, rfl, hf, ?_⟩
    intro w hw
    have := h1 w hw
    have hc : d.cur = none := h2 (by rw [hf]; decide)
    simp only [hp hf, hc, ls, Option.getD_none, List.not_mem_nil, or_false] at this
    exact this
  | woken =>
    have hc : d.cur = none := h2 (by rw [hf]; decide)
    refine ⟨[.lock], { d with f := .exited, timerArmed := false, shut := d.shut ++ ls d.pend, pend := none },
      by simp, by simp, by simp [wrunG, wstepG, hf, hs], rfl, ?_⟩
    intro w hw
    have := h1 w hw
    simp only [hc, ls, Option.getD_none, List.not_mem_nil, or_false] at this
    unfold WDeb.released
    simp only [List.mem_append, ls]
    rcases this with a | a | a
    · exact Or.inl a
    · exact Or.inr (Or.inl a)
    · exact Or.inr (Or.inr a)
  | select =>
    have hc : d.cur = none := h2 (by rw [hf]; decide)
    refine ⟨[.wake .quit, .lock], { d with f := .exited, timerArmed := false, shut := d.shut ++ ls d.pend, pend := none },
      by simp, by simp, by simp [wrunG, wstepG, hf, hs, hq, wReady, wConsume], rfl, ?_⟩
    intro w hw
    have := h1 w hw
    simp only [hc, ls, Option.getD_none, List.not_mem_nil, or_false] at this
    unfold WDeb.released
    simp only [List.mem_append, ls]
    rcases this with a | a | a
    · exact Or.inl a
    · exact Or.inr (Or.inl a)
    · exact Or.inr (Or.inr a)
  | refreshing =>
    refine ⟨[.refreshDone, .wake .quit, .lock],
      { d with f := .exited, timerArmed := false, served := d.served ++ ls d.cur, cur := none,
               shut := d.shut ++ ls d.pend, pend := none },
      by simp, by simp, by simp [wrunG, wstepG, hf, hs, hq, wReady, wConsume], rfl, ?_⟩
    intro w hw
    have := h1 w hw
    unfold WDeb.released
    simp only [List.mem_append]
    rcases this with a | a | a | a
    · exact Or.inl (Or.inl a)
    · exact Or.inr (Or.inl a)
    · exact Or.inr (Or.inr a)
    · exact Or.inl (Or.inr a)

end C17Deb
