import Model.Placement
import Proofs.C10Nts
import Proofs.C10NtsSpec
/-! C10 helper lemmas: Cassandra's NetworkTopologyStrategy walks ring POSITIONS, so with vnodes it meets a node again at
every further token the node owns.  Such a revisit never changes the replicas (all collections are sets; the only
trace it can leave is the node being put on the `skipped` list although it already is a replica, which the drain then
passes over).  Hence `Spec.walk` on a list of hosts = `Spec.walk` on the first occurrences (`spec_walk_dedup`). -/
namespace C10SpecDedup
open Placement C10Nts C10NtsSpec

/-! ### set insertion -/

theorem mem_sadd {α : Type} [DecidableEq α] (s : List α) (x y : α) : y ∈ Spec.sadd s x ↔ y ∈ s ∨ y = x := by
  unfold Spec.sadd
  by_cases h : x ∈ s
  · simp only [h, if_true]
    constructor
    · exact Or.inl
    · rintro (h' | rfl)
      · exact h'
      · exact h
  · simp [h]

theorem sadd_of_mem {α : Type} [DecidableEq α] (s : List α) (x : α) (h : x ∈ s) : Spec.sadd s x = s := by
  simp [Spec.sadd, h]

theorem length_sadd_ge {α : Type} [DecidableEq α] (s : List α) (x : α) : s.length ≤ (Spec.sadd s x).length := by
  unfold Spec.sadd
  by_cases h : x ∈ s <;> simp [h]

theorem mem_sadd_left {α : Type} [DecidableEq α] (s : List α) (x y : α) (h : y ∈ s) : y ∈ Spec.sadd s x :=
  (mem_sadd s x y).mpr (Or.inl h)

theorem mem_sadd_self {α : Type} [DecidableEq α] (s : List α) (x : α) : x ∈ Spec.sadd s x :=
  (mem_sadd s x x).mpr (Or.inr rfl)

/-! ### `sufficient` only looks at the size of the DC's replica set -/

theorem suff_congr (tp : Spec.Topo) (rf : Nat → Nat) (a b : Spec.St) (d : Nat)
    (h : b.dcReplicas d = a.dcReplicas d) : Spec.sufficient tp rf b d = Spec.sufficient tp rf a d := by
  unfold Spec.sufficient; rw [h]

theorem suff_false_of_le (tp : Spec.Topo) (rf : Nat → Nat) (a b : Spec.St) (d : Nat)
    (h : (a.dcReplicas d).length ≤ (b.dcReplicas d).length) (hb : Spec.sufficient tp rf b d = false) :
    Spec.sufficient tp rf a d = false := by
  simp only [Spec.sufficient, ge_iff_le, decide_eq_false_iff_not] at hb ⊢
  omega

/-! ### the drain -/

theorem drain_suff (tp : Spec.Topo) (rf : Nat → Nat) (dc : Nat) (s : Spec.St)
    (h : Spec.sufficient tp rf s dc = true) : ∀ l, Spec.drainSk tp rf dc s l = s := by
  intro l
  cases l with
  | nil => rfl
  | cons a r => simp [Spec.drainSk, h]

structure DrainFacts (tp : Spec.Topo) (rf : Nat → Nat) (dc : Nat) (s r : Spec.St) (sk : List Host) : Prop where
  seen : r.seenRacks = s.seenRacks
  skipped : r.skipped = s.skipped
  other : ∀ d, d ≠ dc → r.dcReplicas d = s.dcReplicas d
  rmono : ∀ x ∈ s.replicas, x ∈ r.replicas
  dmono : ∀ x ∈ s.dcReplicas dc, x ∈ r.dcReplicas dc
  len : (s.dcReplicas dc).length ≤ (r.dcReplicas dc).length
  exhaust : Spec.sufficient tp rf r dc = false → ∀ x ∈ sk, x ∈ r.replicas ∧ x ∈ r.dcReplicas dc
  src : ∀ x ∈ r.replicas, x ∈ s.replicas ∨ (x ∈ sk ∧ x ∈ r.dcReplicas dc)

theorem drain_facts (tp : Spec.Topo) (rf : Nat → Nat) (dc : Nat) : ∀ (sk : List Host) (s : Spec.St),
    DrainFacts tp rf dc s (Spec.drainSk tp rf dc s sk) sk := by
  intro sk
  induction sk with
  | nil =>
    intro s
    exact ⟨rfl, rfl, fun _ _ => rfl, fun _ h => h, fun _ h => h, Nat.le_refl _,
      fun _ x hx => (by simp at hx), fun x hx => Or.inl hx⟩
  | cons x xs ih =>
    intro s
    by_cases hs : Spec.sufficient tp rf s dc = true
    · rw [drain_suff tp rf dc s hs]
      exact ⟨rfl, rfl, fun _ _ => rfl, fun _ h => h, fun _ h => h, Nat.le_refl _,
        fun hf => (by rw [hs] at hf; cases hf), fun x hx => Or.inl hx⟩
    · have hstep : Spec.drainSk tp rf dc s (x :: xs) =
          Spec.drainSk tp rf dc { s with dcReplicas := upd s.dcReplicas dc (Spec.sadd (s.dcReplicas dc) x),
                                         replicas := Spec.sadd s.replicas x } xs := by
        simp [Spec.drainSk, hs]
      rw [hstep]
      have f := ih { s with dcReplicas := upd s.dcReplicas dc (Spec.sadd (s.dcReplicas dc) x),
                            replicas := Spec.sadd s.replicas x }
      refine ⟨f.seen, f.skipped, ?_, ?_, ?_, ?_, ?_, ?_⟩
      · intro d hd; rw [f.other d hd]; exact upd_other _ _ _ _ hd
      · intro y hy; exact f.rmono y (mem_sadd_left _ _ _ hy)
      · intro y hy; apply f.dmono; simp only [upd_same]; exact mem_sadd_left _ _ _ hy
      · have h1 := f.len
        simp only [upd_same] at h1
        have h2 := length_sadd_ge (s.dcReplicas dc) x
        omega
      · intro hf y hy
        rcases List.mem_cons.mp hy with rfl | hy
        · exact ⟨f.rmono _ (mem_sadd_self _ _), f.dmono _ (by simp only [upd_same]; exact mem_sadd_self _ _)⟩
        · exact f.exhaust hf y hy
      · intro y hy
        rcases f.src y hy with h | ⟨h1, h2⟩
        · rcases (mem_sadd _ _ _).mp h with h | rfl
          · exact Or.inl h
          · exact Or.inr ⟨List.mem_cons_self .., f.dmono _ (by simp only [upd_same]; exact mem_sadd_self _ _)⟩
        · exact Or.inr ⟨List.mem_cons_of_mem _ h1, h2⟩

/-- draining a list = draining it without the elements that already are replicas -/
theorem drain_filter (tp : Spec.Topo) (rf : Nat → Nat) (dc : Nat) (P : List Host) :
    ∀ (sk : List Host) (a a' : Spec.St), a'.replicas = a.replicas → a'.dcReplicas = a.dcReplicas →
    (∀ x ∈ sk, x ∈ P → x ∈ a.replicas ∧ x ∈ a.dcReplicas dc) →
    (Spec.drainSk tp rf dc a' (sk.filter (fun x => decide (x ∉ P)))).replicas
        = (Spec.drainSk tp rf dc a sk).replicas ∧
    (Spec.drainSk tp rf dc a' (sk.filter (fun x => decide (x ∉ P)))).dcReplicas
        = (Spec.drainSk tp rf dc a sk).dcReplicas := by
  intro sk
  induction sk with
  | nil => intro a a' h1 h2 _; simp [Spec.drainSk, h1, h2]
  | cons x xs ih =>
    intro a a' h1 h2 hP
    have hsuf : Spec.sufficient tp rf a' dc = Spec.sufficient tp rf a dc := suff_congr tp rf a a' dc (by rw [h2])
    by_cases hs : Spec.sufficient tp rf a dc = true
    · rw [drain_suff tp rf dc a hs, drain_suff tp rf dc a' (by rw [hsuf]; exact hs)]
      exact ⟨h1, h2⟩
    · have hs' : ¬ Spec.sufficient tp rf a' dc = true := by rw [hsuf]; exact hs
      have hstep : Spec.drainSk tp rf dc a (x :: xs) =
          Spec.drainSk tp rf dc { a with dcReplicas := upd a.dcReplicas dc (Spec.sadd (a.dcReplicas dc) x),
                                         replicas := Spec.sadd a.replicas x } xs := by
        simp [Spec.drainSk, hs]
      rw [hstep]
      by_cases hx : x ∈ P
      · obtain ⟨hx1, hx2⟩ := hP x (List.mem_cons_self ..) hx
        have hf : (x :: xs).filter (fun x => decide (x ∉ P)) = xs.filter (fun x => decide (x ∉ P)) := by
          simp [hx]
        rw [hf, sadd_of_mem _ _ hx1, sadd_of_mem _ _ hx2, upd_self]
        exact ih a a' h1 h2 (fun y hy => hP y (List.mem_cons_of_mem _ hy))
      · have hf : (x :: xs).filter (fun x => decide (x ∉ P)) = x :: xs.filter (fun x => decide (x ∉ P)) := by
          simp [hx]
        have hstep' : Spec.drainSk tp rf dc a' (x :: xs.filter (fun x => decide (x ∉ P))) =
            Spec.drainSk tp rf dc { a' with dcReplicas := upd a'.dcReplicas dc (Spec.sadd (a'.dcReplicas dc) x),
                                            replicas := Spec.sadd a'.replicas x }
              (xs.filter (fun x => decide (x ∉ P))) := by
          simp [Spec.drainSk, hs']
        rw [hf, hstep']
        apply ih
        · simp only [h1]
        · simp only [h2]
        · intro y hy hyP
          obtain ⟨hy1, hy2⟩ := hP y (List.mem_cons_of_mem _ hy) hyP
          exact ⟨mem_sadd_left _ _ _ hy1, by simp only [upd_same]; exact mem_sadd_left _ _ _ hy2⟩

/-! ### one step of the walk, case by case -/

/-- take the endpoint -/
def stAdd (s : Spec.St) (ep : Host) : Spec.St :=
  { s with dcReplicas := upd s.dcReplicas ep.dc (Spec.sadd (s.dcReplicas ep.dc) ep),
           replicas := Spec.sadd s.replicas ep }

/-- remember the endpoint -/
def stSkip (s : Spec.St) (ep : Host) : Spec.St :=
  { s with skipped := upd s.skipped ep.dc (Spec.sadd (s.skipped ep.dc) ep) }

/-- `st1` followed by the drain when the last rack has just been seen -/
def stNew (tp : Spec.Topo) (rf : Nat → Nat) (s : Spec.St) (ep : Host) : Spec.St :=
  if ((st1 s ep).seenRacks ep.dc).length = tp.racksIn ep.dc
  then Spec.drainSk tp rf ep.dc (st1 s ep) ((st1 s ep).skipped ep.dc) else st1 s ep

theorem spec_step_cases (tp : Spec.Topo) (dcs : List Nat) (rf : Nat → Nat) (s : Spec.St) (ep : Host) :
    ((ep.dc ∉ dcs ∨ Spec.sufficient tp rf s ep.dc = true) ∧ Spec.step tp dcs rf s ep = s) ∨
    (ep.dc ∈ dcs ∧ Spec.sufficient tp rf s ep.dc = false ∧
      (((s.seenRacks ep.dc).length = tp.racksIn ep.dc ∧ Spec.step tp dcs rf s ep = stAdd s ep) ∨
       ((s.seenRacks ep.dc).length ≠ tp.racksIn ep.dc ∧ ep.rack ∈ s.seenRacks ep.dc ∧
          Spec.step tp dcs rf s ep = stSkip s ep) ∨
       ((s.seenRacks ep.dc).length ≠ tp.racksIn ep.dc ∧ ep.rack ∉ s.seenRacks ep.dc ∧
          Spec.step tp dcs rf s ep = stNew tp rf s ep))) := by
  by_cases h1 : ep.dc ∈ dcs
  · by_cases h2 : Spec.sufficient tp rf s ep.dc = true
    · exact Or.inl ⟨Or.inr h2, spec_step_skip tp dcs rf s ep (Or.inr h2)⟩
    · have h2' : Spec.sufficient tp rf s ep.dc = false := by simpa using h2
      right
      refine ⟨h1, h2', ?_⟩
      by_cases h3 : (s.seenRacks ep.dc).length = tp.racksIn ep.dc
      · exact Or.inl ⟨h3, spec_step_A tp dcs rf s ep h1 h2' h3⟩
      · by_cases h4 : ep.rack ∈ s.seenRacks ep.dc
        · exact Or.inr (Or.inl ⟨h3, h4, spec_step_C tp dcs rf s ep h1 h2' h3 h4⟩)
        · exact Or.inr (Or.inr ⟨h3, h4, spec_step_B tp dcs rf s ep h1 h2' h3 h4⟩)
  · exact Or.inl ⟨Or.inl h1, spec_step_skip tp dcs rf s ep (Or.inl h1)⟩

/-! ### monotonicity facts of one step (for every datacenter `d`) -/

structure Mono (tp : Spec.Topo) (rf : Nat → Nat) (s s2 : Spec.St) : Prop where
  len : ∀ d, (s.dcReplicas d).length ≤ (s2.dcReplicas d).length
  reps : ∀ y ∈ s.replicas, y ∈ s2.replicas
  dcr : ∀ d, ∀ y ∈ s.dcReplicas d, y ∈ s2.dcReplicas d
  seen : ∀ d, ∀ r ∈ s.seenRacks d, r ∈ s2.seenRacks d
  sk : ∀ d, ∀ y ∈ s.skipped d, y ∈ s2.skipped d
  comp : ∀ d, (s.seenRacks d).length = tp.racksIn d → (s2.seenRacks d).length = tp.racksIn d
  exh : ∀ d, (s.seenRacks d).length ≠ tp.racksIn d → (s2.seenRacks d).length = tp.racksIn d →
    Spec.sufficient tp rf s2 d = false → ∀ y ∈ s.skipped d, y ∈ s2.replicas ∧ y ∈ s2.dcReplicas d

theorem mono_refl (tp : Spec.Topo) (rf : Nat → Nat) (s : Spec.St) : Mono tp rf s s :=
  ⟨fun _ => Nat.le_refl _, fun _ h => h, fun _ _ h => h, fun _ _ h => h, fun _ _ h => h, fun _ h => h,
   fun _ h1 h2 => absurd h2 h1⟩

theorem mono_add (tp : Spec.Topo) (rf : Nat → Nat) (s : Spec.St) (ep : Host) : Mono tp rf s (stAdd s ep) := by
  refine ⟨?_, ?_, ?_, fun _ _ h => h, fun _ _ h => h, fun _ h => h, fun _ h1 h2 => absurd h2 h1⟩
  · intro d
    by_cases hd : d = ep.dc
    · subst hd; simp only [stAdd, upd_same]; exact length_sadd_ge _ _
    · simp only [stAdd, upd_other _ _ _ _ hd]; exact Nat.le_refl _
  · intro y hy; exact mem_sadd_left _ _ _ hy
  · intro d y hy
    by_cases hd : d = ep.dc
    · subst hd; simp only [stAdd, upd_same]; exact mem_sadd_left _ _ _ hy
    · simp only [stAdd, upd_other _ _ _ _ hd]; exact hy

theorem mono_skip (tp : Spec.Topo) (rf : Nat → Nat) (s : Spec.St) (ep : Host) : Mono tp rf s (stSkip s ep) := by
  refine ⟨fun _ => Nat.le_refl _, fun _ h => h, fun _ _ h => h, fun _ _ h => h, ?_, fun _ h => h,
    fun _ h1 h2 => absurd h2 h1⟩
  intro d y hy
  by_cases hd : d = ep.dc
  · subst hd; simp only [stSkip, upd_same]; exact mem_sadd_left _ _ _ hy
  · simp only [stSkip, upd_other _ _ _ _ hd]; exact hy

theorem st1_seen_other (s : Spec.St) (ep : Host) (d : Nat) (hd : d ≠ ep.dc) :
    (st1 s ep).seenRacks d = s.seenRacks d := by simp only [st1, upd_other _ _ _ _ hd]

theorem st1_seen_same (s : Spec.St) (ep : Host) :
    (st1 s ep).seenRacks ep.dc = Spec.sadd (s.seenRacks ep.dc) ep.rack := by simp only [st1, upd_same]

theorem st1_dcr_other (s : Spec.St) (ep : Host) (d : Nat) (hd : d ≠ ep.dc) :
    (st1 s ep).dcReplicas d = s.dcReplicas d := by simp only [st1, upd_other _ _ _ _ hd]

theorem st1_dcr_same (s : Spec.St) (ep : Host) :
    (st1 s ep).dcReplicas ep.dc = Spec.sadd (s.dcReplicas ep.dc) ep := by simp only [st1, upd_same]

/-- the fields of `stNew` in terms of `st1` and the drain facts -/
theorem stNew_facts (tp : Spec.Topo) (rf : Nat → Nat) (s : Spec.St) (ep : Host) :
    (stNew tp rf s ep).seenRacks = (st1 s ep).seenRacks ∧
    (stNew tp rf s ep).skipped = s.skipped ∧
    (∀ d, d ≠ ep.dc → (stNew tp rf s ep).dcReplicas d = s.dcReplicas d) ∧
    (∀ x ∈ (st1 s ep).replicas, x ∈ (stNew tp rf s ep).replicas) ∧
    (∀ x ∈ (st1 s ep).dcReplicas ep.dc, x ∈ (stNew tp rf s ep).dcReplicas ep.dc) ∧
    ((st1 s ep).dcReplicas ep.dc).length ≤ ((stNew tp rf s ep).dcReplicas ep.dc).length ∧
    (((st1 s ep).seenRacks ep.dc).length = tp.racksIn ep.dc → Spec.sufficient tp rf (stNew tp rf s ep) ep.dc = false →
        ∀ x ∈ s.skipped ep.dc, x ∈ (stNew tp rf s ep).replicas ∧ x ∈ (stNew tp rf s ep).dcReplicas ep.dc) ∧
    (∀ x ∈ (stNew tp rf s ep).replicas,
        x ∈ (st1 s ep).replicas ∨ (x ∈ s.skipped ep.dc ∧ x ∈ (stNew tp rf s ep).dcReplicas ep.dc)) := by
  unfold stNew
  by_cases hc : ((st1 s ep).seenRacks ep.dc).length = tp.racksIn ep.dc
  · rw [if_pos hc]
    have f := drain_facts tp rf ep.dc ((st1 s ep).skipped ep.dc) (st1 s ep)
    have hk : (st1 s ep).skipped = s.skipped := rfl
    rw [hk] at f ⊢
    exact ⟨f.seen, f.skipped, fun d hd => by rw [f.other d hd]; exact st1_dcr_other s ep d hd, f.rmono, f.dmono,
      f.len, fun _ hf => f.exhaust hf, f.src⟩
  · rw [if_neg hc]
    exact ⟨rfl, rfl, fun d hd => st1_dcr_other s ep d hd, fun _ h => h, fun _ h => h, Nat.le_refl _,
      fun h => absurd h hc, fun x hx => Or.inl hx⟩

theorem mono_new (tp : Spec.Topo) (rf : Nat → Nat) (s : Spec.St) (ep : Host)
    (hn : (s.seenRacks ep.dc).length ≠ tp.racksIn ep.dc) : Mono tp rf s (stNew tp rf s ep) := by
  obtain ⟨f1, f2, f3, f4, f5, f6, f7, _⟩ := stNew_facts tp rf s ep
  refine ⟨?_, ?_, ?_, ?_, ?_, ?_, ?_⟩
  · intro d
    by_cases hd : d = ep.dc
    · subst hd
      have := length_sadd_ge (s.dcReplicas ep.dc) ep
      rw [st1_dcr_same] at f6
      omega
    · rw [f3 d hd]; exact Nat.le_refl _
  · intro y hy; exact f4 y (by simp only [st1]; exact mem_sadd_left _ _ _ hy)
  · intro d y hy
    by_cases hd : d = ep.dc
    · subst hd; exact f5 y (by rw [st1_dcr_same]; exact mem_sadd_left _ _ _ hy)
    · rw [f3 d hd]; exact hy
  · intro d r hr
    rw [f1]
    by_cases hd : d = ep.dc
    · subst hd; rw [st1_seen_same]; exact mem_sadd_left _ _ _ hr
    · rw [st1_seen_other s ep d hd]; exact hr
  · intro d y hy; rw [f2]; exact hy
  · intro d hc
    rw [f1]
    by_cases hd : d = ep.dc
    · subst hd; exact absurd hc hn
    · rw [st1_seen_other s ep d hd]; exact hc
  · intro d hnc hc hsuf y hy
    rw [f1] at hc
    by_cases hd : d = ep.dc
    · subst hd; exact f7 hc hsuf y hy
    · rw [st1_seen_other s ep d hd] at hc; exact absurd hc hnc

theorem mono_step (tp : Spec.Topo) (dcs : List Nat) (rf : Nat → Nat) (s : Spec.St) (ep : Host) :
    Mono tp rf s (Spec.step tp dcs rf s ep) := by
  rcases spec_step_cases tp dcs rf s ep with ⟨_, e⟩ | ⟨_, _, ⟨_, e⟩ | ⟨_, _, e⟩ | ⟨hn, _, e⟩⟩
  · rw [e]; exact mono_refl tp rf s
  · rw [e]; exact mono_add tp rf s ep
  · rw [e]; exact mono_skip tp rf s ep
  · rw [e]; exact mono_new tp rf s ep hn

/-! ### the invariant of the walk with revisits -/

/-- what is known of a host met before, as long as its datacenter still needs replicas -/
def VisOK (tp : Spec.Topo) (dcs : List Nat) (rf : Nat → Nat) (s : Spec.St) (x : Host) : Prop :=
  x.dc ∈ dcs → Spec.sufficient tp rf s x.dc = false →
    ((s.seenRacks x.dc).length = tp.racksIn x.dc → x ∈ s.replicas ∧ x ∈ s.dcReplicas x.dc) ∧
    ((s.seenRacks x.dc).length ≠ tp.racksIn x.dc →
      x.rack ∈ s.seenRacks x.dc ∧ ((x ∈ s.replicas ∧ x ∈ s.dcReplicas x.dc) ∨ x ∈ s.skipped x.dc))

theorem visOK_mono (tp : Spec.Topo) (dcs : List Nat) (rf : Nat → Nat) (s s2 : Spec.St) (x : Host)
    (m : Mono tp rf s s2) (hv : VisOK tp dcs rf s x) : VisOK tp dcs rf s2 x := by
  intro hdc hsuf2
  have hsuf := suff_false_of_le tp rf s s2 x.dc (m.len x.dc) hsuf2
  obtain ⟨v1, v2⟩ := hv hdc hsuf
  constructor
  · intro hc2
    by_cases hc : (s.seenRacks x.dc).length = tp.racksIn x.dc
    · obtain ⟨a, b⟩ := v1 hc
      exact ⟨m.reps x a, m.dcr _ x b⟩
    · obtain ⟨_, ⟨a, b⟩ | h⟩ := v2 hc
      · exact ⟨m.reps x a, m.dcr _ x b⟩
      · exact m.exh x.dc hc hc2 hsuf2 x h
  · intro hnc2
    have hnc : (s.seenRacks x.dc).length ≠ tp.racksIn x.dc := fun h => hnc2 (m.comp x.dc h)
    obtain ⟨r, ⟨a, b⟩ | h⟩ := v2 hnc
    · exact ⟨m.seen _ _ r, Or.inl ⟨m.reps x a, m.dcr _ x b⟩⟩
    · exact ⟨m.seen _ _ r, Or.inr (m.sk _ x h)⟩

structure Inv (tp : Spec.Topo) (dcs : List Nat) (rf : Nat → Nat) (seen : List Host) (s : Spec.St) : Prop where
  vis : ∀ x ∈ seen, VisOK tp dcs rf s x
  sk : ∀ d x, x ∈ s.skipped d → x ∈ seen ∧ x.dc = d
  rp : ∀ x ∈ s.replicas, x ∈ seen
  rd : ∀ x ∈ s.replicas, x ∈ s.dcReplicas x.dc

theorem inv_init (tp : Spec.Topo) (dcs : List Nat) (rf : Nat → Nat) : Inv tp dcs rf [] Spec.init :=
  ⟨by intro x hx; simp at hx, by intro d x hx; simp [Spec.init] at hx, by intro x hx; simp [Spec.init] at hx,
   by intro x hx; simp [Spec.init] at hx⟩

theorem inv_subset (tp : Spec.Topo) (dcs : List Nat) (rf : Nat → Nat) (seen seen' : List Host) (s : Spec.St)
    (h1 : ∀ x ∈ seen', x ∈ seen) (h2 : ∀ x ∈ seen, x ∈ seen') (i : Inv tp dcs rf seen s) : Inv tp dcs rf seen' s :=
  ⟨fun x hx => i.vis x (h1 x hx), fun d x hx => ⟨h2 x (i.sk d x hx).1, (i.sk d x hx).2⟩,
   fun x hx => h2 x (i.rp x hx), i.rd⟩

/-- the endpoint just processed satisfies `VisOK` -/
theorem visOK_self (tp : Spec.Topo) (dcs : List Nat) (rf : Nat → Nat) (s : Spec.St) (ep : Host) :
    VisOK tp dcs rf (Spec.step tp dcs rf s ep) ep := by
  rcases spec_step_cases tp dcs rf s ep with ⟨hc, e⟩ | ⟨_, _, ⟨hcomp, e⟩ | ⟨hn, hr, e⟩ | ⟨hn, hr, e⟩⟩
  · rw [e]
    intro hdc hsuf
    rcases hc with hc | hc
    · exact absurd hdc hc
    · rw [hc] at hsuf; cases hsuf
  · rw [e]
    intro _ _
    have h1 : ep ∈ (stAdd s ep).replicas := mem_sadd_self _ _
    have h2 : ep ∈ (stAdd s ep).dcReplicas ep.dc := by simp only [stAdd, upd_same]; exact mem_sadd_self _ _
    exact ⟨fun _ => ⟨h1, h2⟩, fun hnc => absurd hcomp hnc⟩
  · rw [e]
    intro _ _
    refine ⟨fun hc => absurd hc hn, fun _ => ⟨hr, Or.inr ?_⟩⟩
    simp only [stSkip, upd_same]; exact mem_sadd_self _ _
  · rw [e]
    intro _ _
    obtain ⟨f1, _, _, f4, f5, _, _, _⟩ := stNew_facts tp rf s ep
    have h1 : ep ∈ (stNew tp rf s ep).replicas := f4 ep (by simp only [st1]; exact mem_sadd_self _ _)
    have h2 : ep ∈ (stNew tp rf s ep).dcReplicas ep.dc := f5 ep (by rw [st1_dcr_same]; exact mem_sadd_self _ _)
    refine ⟨fun _ => ⟨h1, h2⟩, fun _ => ⟨?_, Or.inl ⟨h1, h2⟩⟩⟩
    rw [f1, st1_seen_same]; exact mem_sadd_self _ _

theorem inv_step (tp : Spec.Topo) (dcs : List Nat) (rf : Nat → Nat) (seen : List Host) (s : Spec.St) (ep : Host)
    (i : Inv tp dcs rf seen s) : Inv tp dcs rf (seen ++ [ep]) (Spec.step tp dcs rf s ep) := by
  have hvis : ∀ x ∈ seen ++ [ep], VisOK tp dcs rf (Spec.step tp dcs rf s ep) x := by
    intro x hx
    rcases List.mem_append.mp hx with hx | hx
    · exact visOK_mono tp dcs rf s _ x (mono_step tp dcs rf s ep) (i.vis x hx)
    · have : x = ep := by simpa using hx
      subst this; exact visOK_self tp dcs rf s x
  refine ⟨hvis, ?_, ?_, ?_⟩
  · -- skipped ⊆ seen, with the right datacenter
    intro d x hx
    have hold : x ∈ s.skipped d → x ∈ seen ++ [ep] ∧ x.dc = d := fun h =>
      ⟨List.mem_append_left _ (i.sk d x h).1, (i.sk d x h).2⟩
    rcases spec_step_cases tp dcs rf s ep with ⟨_, e⟩ | ⟨_, _, ⟨_, e⟩ | ⟨_, _, e⟩ | ⟨_, _, e⟩⟩
    · rw [e] at hx; exact hold hx
    · rw [e] at hx; exact hold hx
    · rw [e] at hx
      by_cases hd : d = ep.dc
      · subst hd
        simp only [stSkip, upd_same] at hx
        rcases (mem_sadd _ _ _).mp hx with h | rfl
        · exact hold h
        · exact ⟨by simp, rfl⟩
      · simp only [stSkip, upd_other _ _ _ _ hd] at hx; exact hold hx
    · rw [e] at hx
      rw [(stNew_facts tp rf s ep).2.1] at hx; exact hold hx
  · -- replicas ⊆ seen
    intro x hx
    rcases spec_step_cases tp dcs rf s ep with ⟨_, e⟩ | ⟨_, _, ⟨_, e⟩ | ⟨_, _, e⟩ | ⟨_, _, e⟩⟩
    · rw [e] at hx; exact List.mem_append_left _ (i.rp x hx)
    · rw [e] at hx
      rcases (mem_sadd _ _ _).mp hx with h | rfl
      · exact List.mem_append_left _ (i.rp x h)
      · simp
    · rw [e] at hx; exact List.mem_append_left _ (i.rp x hx)
    · rw [e] at hx
      rcases (stNew_facts tp rf s ep).2.2.2.2.2.2.2 x hx with h | ⟨h, _⟩
      · rcases (mem_sadd _ _ _).mp h with h | rfl
        · exact List.mem_append_left _ (i.rp x h)
        · simp
      · exact List.mem_append_left _ (i.sk _ x h).1
  · -- a replica is in its datacenter's replica set
    intro x hx
    rcases spec_step_cases tp dcs rf s ep with ⟨_, e⟩ | ⟨_, _, ⟨_, e⟩ | ⟨_, _, e⟩ | ⟨_, _, e⟩⟩
    · rw [e] at hx ⊢; exact i.rd x hx
    · rw [e] at hx ⊢
      rcases (mem_sadd _ _ _).mp hx with h | rfl
      · exact (mono_add tp rf s ep).dcr _ x (i.rd x h)
      · simp only [stAdd, upd_same]; exact mem_sadd_self _ _
    · rw [e] at hx ⊢; exact i.rd x hx
    · rw [e] at hx ⊢
      obtain ⟨_, _, f3, _, f5, _, _, f8⟩ := stNew_facts tp rf s ep
      rcases f8 x hx with h | ⟨h, h'⟩
      · rcases (mem_sadd _ _ _).mp h with h | rfl
        · by_cases hd : x.dc = ep.dc
          · rw [hd]; apply f5; rw [st1_dcr_same]; apply mem_sadd_left; rw [← hd]; exact i.rd x h
          · rw [f3 _ hd]; exact i.rd x h
        · apply f5; rw [st1_dcr_same]; exact mem_sadd_self _ _
      · rw [(i.sk _ x h).2]; exact h'

/-! ### the relation between the walk with revisits (`s`) and the walk on first occurrences (`s'`) -/

structure Rel (tp : Spec.Topo) (s s' : Spec.St) : Prop where
  reps : s'.replicas = s.replicas
  dcr : s'.dcReplicas = s.dcReplicas
  seen : s'.seenRacks = s.seenRacks
  skip : ∀ d, (s.seenRacks d).length ≠ tp.racksIn d →
    s'.skipped d = (s.skipped d).filter (fun x => decide (x ∉ s.replicas))

theorem rel_init (tp : Spec.Topo) : Rel tp Spec.init Spec.init :=
  ⟨rfl, rfl, rfl, by intro d _; simp [Spec.init]⟩

theorem suff_rel (tp : Spec.Topo) (rf : Nat → Nat) (s s' : Spec.St) (r : Rel tp s s') (d : Nat) :
    Spec.sufficient tp rf s' d = Spec.sufficient tp rf s d := suff_congr tp rf s s' d (by rw [r.dcr])

/-- a filter by "not a replica" does not notice replicas that are not in the list -/
theorem filter_congr_reps (l R R' : List Host) (h : ∀ x ∈ l, x ∈ R' ↔ x ∈ R) :
    l.filter (fun x => decide (x ∉ R')) = l.filter (fun x => decide (x ∉ R)) := by
  apply List.filter_congr
  intro x hx
  simp only [h x hx]

/-- meeting a host again leaves the state as it is, up to the host being added to `skipped` while already a replica -/
theorem rel_revisit (tp : Spec.Topo) (dcs : List Nat) (rf : Nat → Nat) (seen : List Host) (s s' : Spec.St) (ep : Host)
    (hep : ep ∈ seen) (i : Inv tp dcs rf seen s) (r : Rel tp s s') : Rel tp (Spec.step tp dcs rf s ep) s' := by
  rcases spec_step_cases tp dcs rf s ep with ⟨_, e⟩ | ⟨hdc, hsuf, ⟨hc, e⟩ | ⟨hn, hr, e⟩ | ⟨hn, hr, e⟩⟩
  · rw [e]; exact r
  · obtain ⟨v1, _⟩ := i.vis ep hep hdc hsuf
    obtain ⟨a, b⟩ := v1 hc
    have : stAdd s ep = s := by
      simp only [stAdd, sadd_of_mem _ _ a, sadd_of_mem _ _ b, upd_self]
    rw [e, this]; exact r
  · obtain ⟨_, v2⟩ := i.vis ep hep hdc hsuf
    obtain ⟨_, hcase⟩ := v2 hn
    by_cases hsk : ep ∈ s.skipped ep.dc
    · have : stSkip s ep = s := by simp only [stSkip, sadd_of_mem _ _ hsk, upd_self]
      rw [e, this]; exact r
    · rcases hcase with ⟨a, _⟩ | h
      · rw [e]
        refine ⟨r.reps, r.dcr, r.seen, ?_⟩
        intro d hnd
        have hnd' : (s.seenRacks d).length ≠ tp.racksIn d := hnd
        rw [r.skip d hnd']
        by_cases hd : d = ep.dc
        · subst hd
          simp only [stSkip, upd_same, sadd_new _ _ hsk, List.filter_append]
          have : [ep].filter (fun x => decide (x ∉ s.replicas)) = [] := by simp [a]
          rw [this, List.append_nil]
        · simp only [stSkip, upd_other _ _ _ _ hd]
          rfl
      · exact absurd h hsk
  · obtain ⟨_, v2⟩ := i.vis ep hep hdc hsuf
    exact absurd (v2 hn).1 hr

/-- a host met for the first time: both walks make the same move -/
theorem rel_new (tp : Spec.Topo) (dcs : List Nat) (rf : Nat → Nat) (seen : List Host) (s s' : Spec.St) (ep : Host)
    (hep : ep ∉ seen) (i : Inv tp dcs rf seen s) (r : Rel tp s s') :
    Rel tp (Spec.step tp dcs rf s ep) (Spec.step tp dcs rf s' ep) := by
  have hsf := suff_rel tp rf s s' r ep.dc
  have hne : ∀ d, ∀ x ∈ s.skipped d, x ≠ ep := by
    intro d x hx e; subst e; exact hep (i.sk d x hx).1
  have hnr : ep ∉ s.replicas := fun h => hep (i.rp ep h)
  -- adding `ep` to the replicas does not change what the filters keep
  have hfilt : ∀ d, (s.skipped d).filter (fun x => decide (x ∉ Spec.sadd s.replicas ep))
      = (s.skipped d).filter (fun x => decide (x ∉ s.replicas)) := by
    intro d
    apply filter_congr_reps
    intro x hx
    rw [mem_sadd]
    constructor
    · rintro (h | h)
      · exact h
      · exact absurd h (hne d x hx)
    · exact Or.inl
  rcases spec_step_cases tp dcs rf s ep with ⟨hc, e⟩ | ⟨hdc, hsuf, ⟨hc, e⟩ | ⟨hn, hr, e⟩ | ⟨hn, hr, e⟩⟩
  · rw [e, spec_step_skip tp dcs rf s' ep (by rw [hsf]; exact hc)]; exact r
  · rw [e, spec_step_A tp dcs rf s' ep hdc (by rw [hsf]; exact hsuf) (by rw [r.seen]; exact hc)]
    refine ⟨by simp only [stAdd, r.reps], by simp only [stAdd, r.dcr], r.seen, ?_⟩
    intro d hnd
    have hnd' : (s.seenRacks d).length ≠ tp.racksIn d := hnd
    show s'.skipped d = (s.skipped d).filter (fun x => decide (x ∉ Spec.sadd s.replicas ep))
    rw [hfilt d, r.skip d hnd']
  · rw [e, spec_step_C tp dcs rf s' ep hdc (by rw [hsf]; exact hsuf) (by rw [r.seen]; exact hn) (by rw [r.seen]; exact hr)]
    refine ⟨r.reps, r.dcr, r.seen, ?_⟩
    intro d hnd
    have hnd' : (s.seenRacks d).length ≠ tp.racksIn d := hnd
    by_cases hd : d = ep.dc
    · subst hd
      have h1 : ep ∉ s.skipped ep.dc := fun h => hne _ ep h rfl
      have h2 : ep ∉ s'.skipped ep.dc := by
        rw [r.skip _ hnd']; intro h; exact h1 (List.mem_filter.mp h).1
      simp only [stSkip, upd_same, sadd_new _ _ h1, sadd_new _ _ h2, List.filter_append]
      have : [ep].filter (fun x => decide (x ∉ s.replicas)) = [ep] := by simp [hnr]
      rw [this, r.skip _ hnd']
    · simp only [stSkip, upd_other _ _ _ _ hd]; exact r.skip d hnd'
  · rw [e, spec_step_B tp dcs rf s' ep hdc (by rw [hsf]; exact hsuf) (by rw [r.seen]; exact hn) (by rw [r.seen]; exact hr)]
    have h1r : (st1 s' ep).replicas = (st1 s ep).replicas := by simp only [st1, r.reps]
    have h1d : (st1 s' ep).dcReplicas = (st1 s ep).dcReplicas := by simp only [st1, r.dcr]
    have h1s : (st1 s' ep).seenRacks = (st1 s ep).seenRacks := by simp only [st1, r.seen]
    have h1k : (st1 s' ep).skipped = s'.skipped := rfl
    have h1k' : (st1 s ep).skipped = s.skipped := rfl
    have h1rep : (st1 s ep).replicas = Spec.sadd s.replicas ep := rfl
    unfold stNew
    rw [h1s]
    by_cases hcomp : ((st1 s ep).seenRacks ep.dc).length = tp.racksIn ep.dc
    · simp only [hcomp, if_true]
      rw [h1k, h1k', r.skip ep.dc hn, ← hfilt ep.dc, ← h1rep]
      obtain ⟨g1, g2⟩ := drain_filter tp rf ep.dc (st1 s ep).replicas (s.skipped ep.dc) (st1 s ep) (st1 s' ep) h1r h1d
        (by
          intro x hx hxP
          refine ⟨hxP, ?_⟩
          rw [h1rep] at hxP
          rcases (mem_sadd _ _ _).mp hxP with h | h
          · rw [st1_dcr_same]; apply mem_sadd_left
            have := i.rd x h
            rwa [(i.sk _ x hx).2] at this
          · exact absurd h (hne _ x hx))
      have fa := drain_facts tp rf ep.dc (s.skipped ep.dc) (st1 s ep)
      have fb := drain_facts tp rf ep.dc
        ((s.skipped ep.dc).filter (fun x => decide (x ∉ (st1 s ep).replicas))) (st1 s' ep)
      refine ⟨g1, g2, by rw [fb.seen, fa.seen, h1s], ?_⟩
      intro d hnd
      rw [fa.seen] at hnd
      by_cases hd : d = ep.dc
      · subst hd; exact absurd hcomp hnd
      · rw [st1_seen_other s ep d hd] at hnd
        rw [fb.skipped, fa.skipped, h1k, h1k', r.skip d hnd]
        apply (filter_congr_reps _ _ _ _).symm
        intro x hx
        constructor
        · intro h
          rcases fa.src x h with h | ⟨h, _⟩
          · rw [h1rep] at h
            rcases (mem_sadd _ _ _).mp h with h | h
            · exact h
            · exact absurd h (hne d x hx)
          · exact absurd ((i.sk _ x hx).2.symm.trans (i.sk _ x h).2) hd
        · intro h; exact fa.rmono x (by rw [h1rep]; exact mem_sadd_left _ _ _ h)
    · simp only [hcomp, if_false]
      refine ⟨h1r, h1d, h1s, ?_⟩
      intro d hnd
      rw [h1k, h1k', h1rep, hfilt d]
      by_cases hd : d = ep.dc
      · subst hd; exact r.skip _ hn
      · rw [st1_seen_other s ep d hd] at hnd; exact r.skip d hnd

/-! ### the walk -/

/-- Cassandra's walk over ring positions = its walk over the first occurrences of the nodes -/
theorem spec_walk_dedup (tp : Spec.Topo) (dcs : List Nat) (rf : Nat → Nat) :
    ∀ (l seen : List Host) (s s' : Spec.St), Inv tp dcs rf seen s → Rel tp s s' →
    (Spec.walk tp dcs rf s l).replicas = (Spec.walk tp dcs rf s' (dedup seen l)).replicas := by
  intro l
  induction l with
  | nil => intro seen s s' _ r; simp [Spec.walk, dedup, r.reps]
  | cons ep rest ih =>
    intro seen s s' i r
    have hall : dcs.all (fun dc => Spec.sufficient tp rf s' dc) = dcs.all (fun dc => Spec.sufficient tp rf s dc) := by
      congr 1; funext d; exact suff_rel tp rf s s' r d
    by_cases hS : dcs.all (fun dc => Spec.sufficient tp rf s dc) = true
    · rw [spec_walk_stop tp dcs rf s hS, spec_walk_stop tp dcs rf s' (by rw [hall]; exact hS), r.reps]
    · have hstep : Spec.walk tp dcs rf s (ep :: rest) = Spec.walk tp dcs rf (Spec.step tp dcs rf s ep) rest := by
        simp [Spec.walk, hS]
      rw [hstep]
      have i2 := inv_step tp dcs rf seen s ep i
      unfold dedup
      by_cases hm : ep ∈ seen
      · simp only [hm, if_true]
        apply ih seen _ s'
        · exact inv_subset tp dcs rf (seen ++ [ep]) seen _
            (fun x hx => List.mem_append_left _ hx)
            (fun x hx => by
              rcases List.mem_append.mp hx with h | h
              · exact h
              · have : x = ep := by simpa using h
                subst this; exact hm) i2
        · exact rel_revisit tp dcs rf seen s s' ep hm i r
      · simp only [hm, if_false]
        have hstep' : Spec.walk tp dcs rf s' (ep :: dedup (seen ++ [ep]) rest)
            = Spec.walk tp dcs rf (Spec.step tp dcs rf s' ep) (dedup (seen ++ [ep]) rest) := by
          have hS' : ¬ dcs.all (fun dc => Spec.sufficient tp rf s' dc) = true := by rw [hall]; exact hS
          simp [Spec.walk, hS']
        rw [hstep']
        exact ih (seen ++ [ep]) _ _ i2 (rel_new tp dcs rf seen s s' ep hm i r)

/-- from the initial state: the walk over `l` yields the replicas of the walk over the first occurrences of `l` -/
theorem spec_walk_firsts (tp : Spec.Topo) (dcs : List Nat) (rf : Nat → Nat) (l : List Host) :
    (Spec.walk tp dcs rf Spec.init l).replicas = (Spec.walk tp dcs rf Spec.init (Spec.firsts l)).replicas := by
  rw [spec_walk_dedup tp dcs rf l [] Spec.init Spec.init (inv_init tp dcs rf) (rel_init tp), dedup_nil_eq_firsts]

end C10SpecDedup
