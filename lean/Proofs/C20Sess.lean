import Model.TlsAuthSess
import Proofs.C20Lemmas
/-! helper lemmas for C20: several connections of one session -/
namespace TlsAuth

/-- a `Conn.init` that leaves the configuration object alone makes every connection of the session a function of
    the configuration, the host and the node's answers alone -/
theorem sessRun_readonly (init : AuthCfg → Nat → List SFrame → AuthCfg × Trace)
    (hro : ∀ c h fs, (init c h fs).1 = c) (cfg : AuthCfg) (ds : List Dial) :
    sessRun init cfg ds = ds.map (fun d => (init cfg d.host d.fs).2) ∧ sessFinal init cfg ds = cfg := by
  induction ds with
  | nil => exact ⟨rfl, rfl⟩
  | cons d ds ih =>
    have hs : (sessStep init cfg d).1 = cfg := by
      simp only [sessStep]
      cases d.via <;> simp [hro]
    simp only [sessRun, sessFinal, hs, List.map_cons]
    exact ⟨by rw [ih.1]; rfl, ih.2⟩

theorem firstToken_mem (l : List Sent) (t : List UInt8) (h : firstToken l = some t) : Sent.authResponse t ∈ l := by
  induction l with
  | nil => cases h
  | cons s r ih =>
    cases s with
    | authResponse u => simp only [firstToken, Option.some.injEq] at h; simp [h]
    | options => exact List.mem_cons_of_mem _ (ih (by simpa [firstToken] using h))
    | startup => exact List.mem_cons_of_mem _ (ih (by simpa [firstToken] using h))

/-- one connection to a node of the scenarios, resolved credentials `a` -/
theorem observe_handshake_node (a : Option AuthImpl) (n : Spec.Node) :
    firstToken (handshake a n.script).sent =
      (match a, n with
       | _, .noauth => none
       | none, .auth _ => none
       | some (.pw p), .auth cls => if approve cls p.allowed then some (plainToken p.user p.pass) else none
       | some (.custom [] _), .auth _ => none
       | some (.custom (r :: _) _), .auth _ => if r.fail then none else some r.resp) ∧
    decide ((handshake a n.script).outcome = .ready) =
      (match a, n with
       | _, .noauth => true
       | none, .auth _ => false
       | some (.pw p), .auth cls => approve cls p.allowed
       | some (.custom [] _), .auth _ => false
       | some (.custom (r :: _) sf), .auth _ => !r.fail && (r.last || !sf)) := by
  cases n with
  | noauth => cases a <;> simp [Spec.Node.script, handshake, afterStartup, Trace.pre, Trace.stop, firstToken]
  | auth cls =>
    rcases a with _ | a
    · simp [Spec.Node.script, handshake, afterStartup, Trace.pre, Trace.stop, firstToken]
    · cases a with
      | pw p =>
        by_cases ha : approve cls p.allowed = true
        · simp [Spec.Node.script, handshake, afterStartup, authLoop, AuthImpl.challenge, challenge, Trace.pre, Trace.stop,
            firstToken, ha]
        · simp [Spec.Node.script, handshake, afterStartup, authLoop, AuthImpl.challenge, challenge, Trace.pre, Trace.stop,
            firstToken, ha]
      | custom rs sf =>
        rcases rs with _ | ⟨r, rs⟩
        · simp [Spec.Node.script, handshake, afterStartup, AuthImpl.challenge, Trace.pre, Trace.stop, firstToken]
        · by_cases hf : r.fail = true
          · simp [Spec.Node.script, handshake, afterStartup, AuthImpl.challenge, Trace.pre, Trace.stop, firstToken, hf]
          · by_cases hl : r.last = true
            · simp [Spec.Node.script, handshake, afterStartup, authLoop, AuthImpl.challenge, Trace.pre, Trace.stop,
                firstToken, hf, hl]
            · cases sf <;>
              simp [Spec.Node.script, handshake, afterStartup, authLoop, AuthImpl.challenge, AuthImpl.success,
                Trace.pre, Trace.stop, firstToken, hf, hl]

end TlsAuth
