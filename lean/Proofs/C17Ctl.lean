import Model.PoolCtl
/-! Helper lemmas for the controlConn / Session.Close machine (`Model/PoolCtl.lean`). -/
namespace C17Ctl
open Ctl

/-- invariant of the code that exists (and of the variant whose close() swaps the state), any schedule -/
structure Inv (c : Bool) (s : St) : Prop where
  sending : s.cl = .sending → s.state = .closing ∧ (s.hb = .select ∨ s.hb = .beat ∨ s.hb = .inReconn)
  started : s.state = .started → (s.hb = .select ∨ s.hb = .beat ∨ s.hb = .inReconn)
  own : s.hb = .inReconn ↔ ∃ k, s.rc = .hb k
  closingCl : s.state = .closing → s.cl ≠ .idle
  closed : s.state = .closing → (s.cl = .closeConn ∨ s.cl = .done) → (s.hb = .exited ∨ s.hb = .notStarted)
  fresh : s.hb = .notStarted → s.state ≠ .started
  startingHb : s.state = .starting → s.hb = .notStarted
  freshCas : c = false → s.hb = .notStarted → s.state = .starting
  swapClosing : c = true → s.cl ≠ .idle → s.state = .closing

theorem inv_init (c : Bool) : Inv c init := by
  constructor <;> simp [init]

theorem inv_step (c : Bool) (s s' : St) (a : Act) (h : Inv c s) (hs : stepG false c s a = some s') : Inv c s' := by
  obtain ⟨h1, h2, h3, h4, h5, h6, h7, h8, h9⟩ := h
  obtain ⟨st, hb, cl, rc⟩ := s
  cases a <;> simp only [stepG] at hs <;> (repeat' split at hs) <;>
    (first
      | (simp at hs; done)
      | (injection hs with hs; subst hs; constructor <;> simp_all <;> (cases st <;> cases hb <;> simp_all)))

theorem inv_run (c : Bool) : ∀ (as : List Act) (s s' : St), Inv c s → runG false c s as = some s' → Inv c s'
  | [], s, s', h, hr => by simp [runG] at hr; subst hr; exact h
  | a :: as, s, s', h, hr => by
    simp only [runG] at hr
    split at hr
    · rename_i s1 hs1; exact inv_run c as s1 s' (inv_step c s s1 a h hs1) hr
    · simp at hr


/-- steps the heartbeat goroutine takes along a run -/
def hbSteps : St → List Act → Nat
  | _, [] => 0
  | s, a :: as => match step s a with
    | some s' => (if hbAct s a then 1 else 0) + hbSteps s' as
    | none => 0

/-- the closer, once past the quit handshake, never waits again -/
theorem past_send_step (b c : Bool) (s s' : St) (a : Act) (hs : stepG b c s a = some s')
    (h : s.cl = .closeConn ∨ s.cl = .done) : s'.cl = .closeConn ∨ s'.cl = .done := by
  obtain ⟨st, hb, cl, rc⟩ := s
  cases a <;> simp only [stepG] at hs <;> (repeat' split at hs) <;>
    (first
      | (simp at hs; done)
      | (injection hs with hs; subst hs; simp_all))

theorem past_send_run (b c : Bool) : ∀ (as : List Act) (s s' : St), runG b c s as = some s' →
    (s.cl = .closeConn ∨ s.cl = .done) → (s'.cl = .closeConn ∨ s'.cl = .done)
  | [], s, s', hr, h => by simp [runG] at hr; subst hr; exact h
  | a :: as, s, s', hr, h => by
    simp only [runG] at hr
    split at hr
    · rename_i s1 hs1; exact past_send_run b c as s1 s' hr (past_send_step b c s s1 a hs1 h)
    · simp at hr

/-- one step while the closer is blocked: it is released (`closeConn`), or it is still blocked and the measure did not
    grow — and it shrank when the step was the heartbeat goroutine's -/
theorem mu_stepG (c : Bool) (s s' : St) (a : Act) (h : Inv c s) (hc : s.cl = .sending) (hs : stepG false c s a = some s') :
    s'.cl = .closeConn ∨ (s'.cl = .sending ∧ (if hbAct s a then 1 else 0) + mu s' ≤ mu s) := by
  obtain ⟨h1, h2, h3, _, _, _, _, _, _⟩ := h
  obtain ⟨st, hb, cl, rc⟩ := s
  simp only at hc; subst hc
  have hst := (h1 rfl).1
  simp only at hst; subst hst
  cases a <;> simp only [stepG] at hs <;> (repeat' split at hs) <;>
    (first
      | (simp at hs; done)
      | (injection hs with hs; subst hs; simp_all [mu, hbAct] <;> (cases hb <;> simp_all) <;> omega))

theorem mu_step (s s' : St) (a : Act) (h : Inv true s) (hc : s.cl = .sending) (hs : step s a = some s') :
    s'.cl = .closeConn ∨ (s'.cl = .sending ∧ (if hbAct s a then 1 else 0) + mu s' ≤ mu s) :=
  mu_stepG true s s' a h hc hs

theorem mu_run : ∀ (as : List Act) (s s' : St), Inv true s → s.cl = .sending → run s as = some s' → s'.cl = .sending →
    hbSteps s as + mu s' ≤ mu s
  | [], s, s', _, _, hr, _ => by simp [run, runG] at hr; subst hr; simp [hbSteps]
  | a :: as, s, s', h, hc, hr, hc' => by
    simp only [run, runG] at hr
    split at hr
    · rename_i s1 hs1
      have hs1' : step s a = some s1 := hs1
      rcases mu_step s s1 a h hc hs1' with h1 | ⟨h1, h2⟩
      · have := past_send_run false true as s1 s' hr (Or.inl h1)
        rcases this with h | h <;> simp [h] at hc'
      · have ih := mu_run as s1 s' (inv_step true s s1 a h hs1) h1 hr hc'
        simp only [hbSteps, hs1']
        omega
    · simp at hr

/-- while the closer is blocked the heartbeat goroutine can move -/
theorem hb_enabled (s : St) (h : Inv true s) (hc : s.cl = .sending) : ∃ a, hbAct s a = true ∧ (step s a).isSome = true := by
  obtain ⟨h1, h2, h3, _, _, _, _, _, _⟩ := h
  obtain ⟨st, hb, cl, rc⟩ := s
  simp only at hc; subst hc
  rcases (h1 rfl).2 with h | h | h <;> simp only at h <;> subst h
  · exact ⟨.hbQuit, rfl, by simp [step, stepG]⟩
  · exact ⟨.hbBeatOk, rfl, by simp [step, stepG]⟩
  · obtain ⟨k, hk⟩ := h3.mp rfl
    simp only at hk; subst hk
    cases k with
    | zero => exact ⟨.rcDone, by simp [hbAct], by simp [step, stepG]⟩
    | succ k => exact ⟨.rcStep, by simp [hbAct], by simp [step, stepG]⟩

/-- OLD close() (CAS, before the repair of KF-C17-4): the heartbeat goroutine started after close() gave up its CAS runs for good -/
structure Late (s : St) : Prop where
  cl : s.cl = .done
  st : s.state = .started
  hb : s.hb = .select ∨ s.hb = .beat ∨ s.hb = .inReconn

theorem late_step (s s' : St) (a : Act) (h : Late s) (hs : stepG false false s a = some s') : Late s' := by
  obtain ⟨h1, h2, h3⟩ := h
  obtain ⟨st, hb, cl, rc⟩ := s
  cases a <;> simp only [stepG] at hs <;> (repeat' split at hs) <;>
    (first
      | (simp at hs; done)
      | (injection hs with hs; subst hs; constructor <;> simp_all))

theorem late_run : ∀ (as : List Act) (s s' : St), Late s → runG false false s as = some s' → Late s'
  | [], s, s', h, hr => by simp [runG] at hr; subst hr; exact h
  | a :: as, s, s', h, hr => by
    simp only [runG] at hr
    split at hr
    · rename_i s1 hs1; exact late_run as s1 s' (late_step s s1 a h hs1) hr
    · simp at hr

/-- seeded variant (the heartbeat goroutine returns after a reconnect when it sees Closing): the closer stays blocked -/
structure Stranded (s : St) : Prop where
  cl : s.cl = .sending
  hb : s.hb = .exited
  st : s.state = .closing
  rc : s.rc = .free

theorem stranded_step (s s' : St) (a : Act) (h : Stranded s) (hs : stepG true false s a = some s') : Stranded s' := by
  obtain ⟨h1, h2, h3, h4⟩ := h
  obtain ⟨st, hb, cl, rc⟩ := s
  cases a <;> simp only [stepG] at hs <;> (repeat' split at hs) <;>
    (first
      | (simp at hs; done)
      | (injection hs with hs; subst hs; constructor <;> simp_all))

theorem stranded_run : ∀ (as : List Act) (s s' : St), Stranded s → runG true false s as = some s' → Stranded s'
  | [], s, s', h, hr => by simp [runG] at hr; subst hr; exact h
  | a :: as, s, s', h, hr => by
    simp only [runG] at hr
    split at hr
    · rename_i s1 hs1; exact stranded_run as s1 s' (stranded_step s s1 a h hs1) hr
    · simp at hr

end C17Ctl

namespace C17Retry
open Retry

theorem go_spec (f : Nat → Dial) : ∀ (n i : Nat) (failed : Bool),
    (go f n i failed).2 ≤ i + n ∧ i ≤ (go f n i failed).2 ∧
    (∀ k, (go f n i failed).1 = .conn k → i ≤ k ∧ k < i + n ∧ f k = .ok ∧ (go f n i failed).2 = k + 1 ∧ ∀ j, i ≤ j → j < k → f j = .temp) ∧
    ((go f n i failed).1 = .nilNoErr → n = 0 ∧ failed = false)
  | 0, i, failed => by cases failed <;> simp [go]
  | n + 1, i, failed => by
    have ih := go_spec f n (i + 1) true
    unfold go
    cases h : f i with
    | ok =>
      simp only
      refine ⟨by omega, by omega, ?_, by simp⟩
      intro k hk
      injection hk with hk; subst hk
      exact ⟨Nat.le_refl _, by omega, h, rfl, fun j h1 h2 => by omega⟩
    | perm => simp only; exact ⟨by omega, by omega, by simp, by simp⟩
    | temp =>
      simp only
      obtain ⟨a, b, c, d⟩ := ih
      refine ⟨by omega, by omega, ?_, ?_⟩
      · intro k hk
        obtain ⟨c1, c2, c3, c4, c5⟩ := c k hk
        refine ⟨by omega, by omega, c3, c4, ?_⟩
        intro j h1 h2
        by_cases hj : j = i
        · subst hj; exact h
        · exact c5 j (by omega) h2
      · intro hn; have := (d hn).2; simp at this

end C17Retry

namespace C17EvDeb
open EvStop

/-- invariant of the code that exists: stop() never holds (or waits for) e.mu; the flusher holds it exactly while
    flushing; a stop() in its send has a live flusher -/
structure Inv (x : St) : Prop where
  noS : x.mu ≠ .S
  sNoLock : x.s ≠ .wantLock
  fHolds : x.mu = .F ↔ x.f = .flushing
  alive : x.s = .sending → x.f ≠ .exited
  gone : (x.s = .closing ∨ x.s = .done) → x.f = .exited
  early : x.s = .idle → x.f ≠ .exited

theorem inv_init : Inv init := by constructor <;> simp [init]

theorem inv_step (x x' : St) (a : Act) (h : Inv x) (hs : step x a = some x') : Inv x' := by
  obtain ⟨h1, h2, h3, h4, h5, h6⟩ := h
  obtain ⟨m, ar, fi, ev, f, s, cb⟩ := x
  cases a <;> simp only [step, stepG] at hs <;> (repeat' split at hs) <;>
    (first
      | (simp at hs; done)
      | (injection hs with hs; subst hs; constructor <;> simp_all <;> (cases m <;> cases f <;> simp_all)))

theorem inv_run : ∀ (as : List Act) (x x' : St), Inv x → run x as = some x' → Inv x'
  | [], x, x', h, hr => by simp [run, runG] at hr; subst hr; exact h
  | a :: as, x, x', h, hr => by
    simp only [run, runG] at hr
    split at hr
    · rename_i x1 hx1; exact inv_run as x1 x' (inv_step x x1 a h hx1) hr
    · simp at hr

/-- a blocked stop(): some step of the flusher is enabled, unless somebody else is inside e.mu — who can leave -/
theorem progress (x : St) (h : Inv x) (hs : x.s = .sending) :
    (∃ a, fAct a = true ∧ (step x a).isSome = true) ∨ (x.mu = .H ∧ (step x .hunlock).isSome = true) := by
  obtain ⟨h1, h2, h3, h4, h5, h6⟩ := h
  obtain ⟨m, ar, fi, ev, f, s, cb⟩ := x
  simp only at hs; subst hs
  cases f with
  | select => cases fi with
    | true => exact Or.inl ⟨.fTimer, rfl, by simp [step, stepG]⟩
    | false => exact Or.inl ⟨.fQuit, rfl, by simp [step, stepG]⟩
  | wantLock =>
    cases m with
    | none => exact Or.inl ⟨.fLock, rfl, by simp [step, stepG]⟩
    | H => exact Or.inr ⟨rfl, by simp [step, stepG]⟩
    | F => simp at h3
    | S => simp at h1
  | flushing => exact Or.inl ⟨.fFlush, rfl, by simp [step, stepG]⟩
  | exited => simp at h4

/-- every flusher step while stop() is blocked shrinks the measure (or releases stop) -/
theorem mu_step (x x' : St) (a : Act) (hs : x.s = .sending) (hst : step x a = some x') (hf : fAct a = true) :
    x'.s = .closing ∨ (x'.s = .sending ∧ EvStop.mu x' < EvStop.mu x) := by
  obtain ⟨m, ar, fi, ev, f, s, cb⟩ := x
  simp only at hs; subst hs
  cases a <;> simp [fAct] at hf <;> simp only [step, stepG] at hst <;> (repeat' split at hst) <;>
    (first
      | (simp at hst; done)
      | (injection hst with hst; subst hst; simp_all [EvStop.mu] <;> (try (cases fi <;> simp)) ))

/-- seeded variant: stop() holds e.mu in its send while the flusher wants it -/
structure Dead (x : St) : Prop where
  mu : x.mu = .S
  f : x.f = .wantLock
  s : x.s = .sending

theorem dead_step (x x' : St) (a : Act) (h : Dead x) (hs : stepG true x a = some x') : Dead x' := by
  obtain ⟨h1, h2, h3⟩ := h
  obtain ⟨m, ar, fi, ev, f, s, cb⟩ := x
  cases a <;> simp only [stepG] at hs <;> (repeat' split at hs) <;>
    (first
      | (simp at hs; done)
      | (injection hs with hs; subst hs; constructor <;> simp_all))

theorem dead_run : ∀ (as : List Act) (x x' : St), Dead x → runG true x as = some x' → Dead x'
  | [], x, x', h, hr => by simp [runG] at hr; subst hr; exact h
  | a :: as, x, x', h, hr => by
    simp only [runG] at hr
    split at hr
    · rename_i x1 hx1; exact dead_run as x1 x' (dead_step x x1 a h hx1) hr
    · simp at hr

end C17EvDeb
