/- C03 helper lemmas: whatever the specification decoder yields is expressible in the decoded version -/
import Model.FrameSpec
namespace C03
open FrameSpec

theorem rdByte_post {bs : Bytes} {n : Nat} {r : Bytes} (h : rdByte bs = some (n, r)) : n < 256 := by
  cases bs with
  | nil => simp [rdByte] at h
  | cons b t => simp only [rdByte, Option.some.injEq, Prod.mk.injEq] at h; have := b.toNat_lt; omega

theorem rdShort_post {bs : Bytes} {n : Nat} {r : Bytes} (h : rdShort bs = some (n, r)) : n < 65536 := by
  match bs, h with
  | a :: b :: t, h =>
    simp only [rdShort, Option.some.injEq, Prod.mk.injEq] at h
    have := a.toNat_lt; have := b.toNat_lt; omega

theorem rdUInt_post {bs : Bytes} {n : Nat} {r : Bytes} (h : rdUInt bs = some (n, r)) : n < 4294967296 := by
  match bs, h with
  | a :: b :: c :: d :: t, h =>
    simp only [rdUInt, Option.some.injEq, Prod.mk.injEq] at h
    have := a.toNat_lt; have := b.toNat_lt; have := c.toNat_lt; have := d.toNat_lt; omega

theorem rdInt_post {bs : Bytes} {z : Int} {r : Bytes} (h : rdInt bs = some (z, r)) : isInt32 z = true := by
  unfold rdInt at h
  cases hu : rdUInt bs with
  | none => simp [hu] at h
  | some p =>
    obtain ⟨n, r'⟩ := p
    have := rdUInt_post hu
    simp only [hu, Option.some.injEq, Prod.mk.injEq] at h
    simp only [isInt32, Bool.and_eq_true, decide_eq_true_eq]
    obtain ⟨h1, _⟩ := h
    split at h1 <;> omega

theorem rdLong_post {bs : Bytes} {z : Int} {r : Bytes} (h : rdLong bs = some (z, r)) : isInt64 z = true := by
  unfold rdLong at h
  cases hu : rdUInt bs with
  | none => simp [hu] at h
  | some p =>
    obtain ⟨hi, r'⟩ := p
    have h1 := rdUInt_post hu
    simp only [hu] at h
    cases hu2 : rdUInt r' with
    | none => simp [hu2] at h
    | some p2 =>
      obtain ⟨lo, r''⟩ := p2
      have h2 := rdUInt_post hu2
      simp only [hu2, Option.some.injEq, Prod.mk.injEq] at h
      simp only [isInt64, Bool.and_eq_true, decide_eq_true_eq]
      obtain ⟨h3, _⟩ := h
      split at h3 <;> omega

theorem takeN_post {n : Nat} {bs t r : Bytes} (h : takeN n bs = some (t, r)) : t.length = n := by
  unfold takeN at h
  simp only at h
  split at h
  · rename_i hl
    simp only [Option.some.injEq, Prod.mk.injEq] at h
    rw [← h.1]; exact hl
  · cases h

theorem rdString_post {bs s r : Bytes} (h : rdString bs = some (s, r)) : fitsShort s = true := by
  unfold rdString at h
  cases hs : rdShort bs with
  | none => simp [hs] at h
  | some p =>
    obtain ⟨n, r'⟩ := p
    simp only [hs] at h
    have := rdShort_post hs
    have := takeN_post h
    simp only [fitsShort, decide_eq_true_eq]; omega

theorem rdLongString_post {bs s r : Bytes} (h : rdLongString bs = some (s, r)) : fitsInt s = true := by
  unfold rdLongString at h
  cases hs : rdInt bs with
  | none => simp [hs] at h
  | some p =>
    obtain ⟨n, r'⟩ := p
    simp only [hs] at h
    have hi := rdInt_post hs
    simp only [isInt32, Bool.and_eq_true, decide_eq_true_eq] at hi
    split at h
    · cases h
    · have := takeN_post h
      simp only [fitsInt, decide_eq_true_eq]; omega

theorem rdBytes_post {bs : Bytes} {ob : Option Bytes} {r : Bytes} (h : rdBytes bs = some (ob, r)) :
    optAll fitsInt ob = true := by
  unfold rdBytes at h
  cases hs : rdInt bs with
  | none => simp [hs] at h
  | some p =>
    obtain ⟨n, r'⟩ := p
    simp only [hs] at h
    have hi := rdInt_post hs
    simp only [isInt32, Bool.and_eq_true, decide_eq_true_eq] at hi
    split at h
    · simp only [Option.some.injEq, Prod.mk.injEq] at h; rw [← h.1]; rfl
    · cases ht : takeN n.toNat r' with
      | none => simp [ht] at h
      | some q =>
        obtain ⟨b, r''⟩ := q
        simp only [ht, Option.some.injEq, Prod.mk.injEq] at h
        have := takeN_post ht
        rw [← h.1]
        simp only [optAll, fitsInt, decide_eq_true_eq]; omega

theorem rdValue_post {v : Nat} {bs : Bytes} {x : Val} {r : Bytes} (h : rdValue v bs = some (x, r)) :
    x.ok v = true := by
  unfold rdValue at h
  cases hs : rdInt bs with
  | none => simp [hs] at h
  | some p =>
    obtain ⟨n, r'⟩ := p
    simp only [hs] at h
    have hi := rdInt_post hs
    simp only [isInt32, Bool.and_eq_true, decide_eq_true_eq] at hi
    split at h
    · split at h
      · simp only [Option.some.injEq, Prod.mk.injEq] at h; rw [← h.1]; rfl
      · split at h
        · simp only [Option.some.injEq, Prod.mk.injEq] at h; rw [← h.1]; rfl
        · split at h
          · simp only [Option.some.injEq, Prod.mk.injEq] at h; rw [← h.1]
            simp only [Val.ok, decide_eq_true_eq]; omega
          · cases h
    · cases ht : takeN n.toNat r' with
      | none => simp [ht] at h
      | some q =>
        obtain ⟨b, r''⟩ := q
        simp only [ht, Option.some.injEq, Prod.mk.injEq] at h
        have := takeN_post ht
        rw [← h.1]
        simp only [Val.ok, fitsInt, decide_eq_true_eq]; omega

theorem rdList_post {α : Type} (rd : Bytes → Option (α × Bytes)) (P : α → Prop)
    (hrd : ∀ bs x r, rd bs = some (x, r) → P x) :
    ∀ (n : Nat) (bs : Bytes) (xs : List α) (r : Bytes), rdList rd n bs = some (xs, r) →
      xs.length = n ∧ ∀ x ∈ xs, P x := by
  intro n
  induction n with
  | zero =>
    intro bs xs r h
    simp only [rdList, Option.some.injEq, Prod.mk.injEq] at h
    rw [← h.1]; simp
  | succ n ih =>
    intro bs xs r h
    simp only [rdList] at h
    cases h1 : rd bs with
    | none => simp [h1] at h
    | some p =>
      obtain ⟨x, r1⟩ := p
      simp only [h1] at h
      cases h2 : rdList rd n r1 with
      | none => simp [h2] at h
      | some q =>
        obtain ⟨ys, r2⟩ := q
        simp only [h2, Option.some.injEq, Prod.mk.injEq] at h
        obtain ⟨hl, hp⟩ := ih r1 ys r2 h2
        rw [← h.1]
        refine ⟨by simp [hl], ?_⟩
        intro y hy
        simp only [List.mem_cons] at hy
        cases hy with
        | inl e => rw [e]; exact hrd bs x r1 h1
        | inr m => exact hp y m

theorem rdCounted_post {α : Type} (rd : Bytes → Option (α × Bytes)) (P : α → Prop)
    (hrd : ∀ bs x r, rd bs = some (x, r) → P x) {bs : Bytes} {xs : List α} {r : Bytes}
    (h : rdCounted rd bs = some (xs, r)) : xs.length ≤ 65535 ∧ ∀ x ∈ xs, P x := by
  unfold rdCounted at h
  cases hs : rdShort bs with
  | none => simp [hs] at h
  | some p =>
    obtain ⟨n, r'⟩ := p
    simp only [hs] at h
    have := rdShort_post hs
    obtain ⟨hl, hp⟩ := rdList_post rd P hrd n r' xs r h
    exact ⟨by omega, hp⟩

theorem rdPair_post {α β : Type} {ra : Bytes → Option (α × Bytes)} {rb : Bytes → Option (β × Bytes)}
    {bs : Bytes} {a : α} {b : β} {r : Bytes} (h : rdPair ra rb bs = some ((a, b), r)) :
    ∃ r1, ra bs = some (a, r1) ∧ rb r1 = some (b, r) := by
  unfold rdPair at h
  cases h1 : ra bs with
  | none => simp [h1] at h
  | some p =>
    obtain ⟨a', r1⟩ := p
    simp only [h1] at h
    cases h2 : rb r1 with
    | none => simp [h2] at h
    | some q =>
      obtain ⟨b', r2⟩ := q
      simp only [h2, Option.some.injEq, Prod.mk.injEq] at h
      obtain ⟨⟨e1, e2⟩, e3⟩ := h
      subst e1; subst e2; subst e3
      exact ⟨r1, rfl, h2⟩

theorem rdNVal_post {v : Nat} {names : Bool} {bs : Bytes} {x : NVal} {r : Bytes}
    (h : rdNVal v names bs = some (x, r)) : NVal.ok v x = true ∧ x.name.isSome = names := by
  unfold rdNVal at h
  cases names with
  | true =>
    simp only [if_true] at h
    cases h1 : rdString bs with
    | none => simp [h1] at h
    | some p =>
      obtain ⟨nm, r1⟩ := p
      simp only [h1] at h
      cases h2 : rdValue v r1 with
      | none => simp [h2] at h
      | some q =>
        obtain ⟨y, r2⟩ := q
        simp only [h2, Option.some.injEq, Prod.mk.injEq] at h
        rw [← h.1]
        simp [NVal.ok, optAll, rdString_post h1, rdValue_post h2]
  | false =>
    simp only [Bool.false_eq_true, if_false] at h
    cases h2 : rdValue v bs with
    | none => simp [h2] at h
    | some q =>
      obtain ⟨y, r2⟩ := q
      simp only [h2, Option.some.injEq, Prod.mk.injEq] at h
      rw [← h.1]
      simp [NVal.ok, optAll, rdValue_post h2]

theorem rdValues_post {v : Nat} {names allow : Bool} {bs : Bytes} {xs : List NVal} {r : Bytes}
    (h : rdCounted (rdNVal v names) bs = some (xs, r)) (hn : names = true → allow = true ∧ v ≥ 3) :
    valuesOk v allow xs = true := by
  obtain ⟨hl, hp⟩ := rdCounted_post (rdNVal v names) (fun x => NVal.ok v x = true ∧ x.name.isSome = names)
    (fun bs x r h => rdNVal_post h) h
  simp only [valuesOk, Bool.and_eq_true, Bool.or_eq_true, decide_eq_true_eq, List.all_eq_true]
  refine ⟨⟨hl, fun x hx => (hp x hx).1⟩, ?_⟩
  cases names with
  | false =>
    left; intro x hx
    have := (hp x hx).2
    cases hq : x.name <;> simp [hq] at this ⊢
  | true =>
    right
    obtain ⟨ha, hv⟩ := hn rfl
    exact ⟨⟨ha, hv⟩, fun x hx => (hp x hx).2⟩

theorem rdOpt_post {α : Type} {c : Bool} {rd : Bytes → Option (α × Bytes)} {bs : Bytes} {o : Option α} {r : Bytes}
    (P : α → Prop) (hrd : ∀ bs x r, rd bs = some (x, r) → P x)
    (h : rdOpt c rd bs = some (o, r)) : (o.isSome = c) ∧ ∀ x, o = some x → P x := by
  unfold rdOpt at h
  cases c with
  | true =>
    simp only [if_true] at h
    cases h1 : rd bs with
    | none => simp [h1] at h
    | some p =>
      obtain ⟨x, r1⟩ := p
      simp only [h1, Option.some.injEq, Prod.mk.injEq] at h
      rw [← h.1]
      exact ⟨rfl, fun y hy => by injection hy with hy; rw [← hy]; exact hrd bs x r1 h1⟩
  | false =>
    simp only [Bool.false_eq_true, if_false, Option.some.injEq, Prod.mk.injEq] at h
    rw [← h.1]
    exact ⟨rfl, fun y hy => by cases hy⟩

end C03

namespace C03
open FrameSpec

theorem rdQueryParams_post {v : Nat} {bs : Bytes} {p : QParams} {r : Bytes}
    (h : rdQueryParams v bs = some (p, r)) : paramsOk v p = true := by
  unfold rdQueryParams at h
  split at h
  · cases h
  rename_i cons r1 hcons
  split at h
  · cases h
  rename_i fl r2 hfl
  split at h
  · cases h
  rename_i g1
  split at h
  · cases h
  rename_i g2
  split at h
  · cases h
  rename_i g3
  split at h
  · cases h
  rename_i g4
  split at h
  · cases h
  rename_i vals r3 hvals
  split at h
  · cases h
  rename_i ps r4 hps
  split at h
  · cases h
  rename_i pst r5 hpst
  split at h
  · cases h
  rename_i ser r6 hser
  split at h
  · cases h
  rename_i ts r7 hts
  split at h
  · cases h
  rename_i ks r8 hks
  have hc : isShort cons = true := by simp [isShort, rdShort_post hcons]
  have hv : valuesOk v true vals = true := by
    cases h0 : bit fl 0 with
    | true =>
      simp only [h0, if_true] at hvals
      exact rdValues_post hvals (fun h6 => ⟨rfl, by
        have : ¬ v < 3 := fun hlt => g2 ⟨hlt, Or.inr h6⟩
        omega⟩)
    | false =>
      simp only [h0, Bool.false_eq_true, if_false, Option.some.injEq, Prod.mk.injEq] at hvals
      rw [← hvals.1]; rfl
  obtain ⟨_, hps'⟩ := rdOpt_post (fun z => isInt32 z = true) (fun _ _ _ h => rdInt_post h) hps
  obtain ⟨_, hpst'⟩ := rdOpt_post (fun ob => optAll fitsInt ob = true) (fun _ _ _ h => rdBytes_post h) hpst
  obtain ⟨_, hser'⟩ := rdOpt_post (fun n => isShort n = true)
    (fun _ _ _ h => by simp [isShort, rdShort_post h]) hser
  obtain ⟨hts0, hts'⟩ := rdOpt_post (fun z => isInt64 z = true) (fun _ _ _ h => rdLong_post h) hts
  obtain ⟨hks0, hks'⟩ := rdOpt_post (fun s => fitsShort s = true) (fun _ _ _ h => rdString_post h) hks
  have hpsok : optAll isInt32 ps = true := by
    cases ps with
    | none => rfl
    | some z => exact hps' z rfl
  have hserok : optAll isShort ser = true := by
    cases ser with
    | none => rfl
    | some z => exact hser' z rfl
  have htsok : (ts.isNone || (decide (v ≥ 3) && optAll isInt64 ts)) = true := by
    cases ts with
    | none => rfl
    | some z =>
      have h5 : bit fl 5 = true := by simpa using hts0.symm
      have : ¬ v < 3 := fun hlt => g2 ⟨hlt, Or.inl h5⟩
      have hv3 : v ≥ 3 := by omega
      simp [optAll, hts' z rfl, hv3]
  have hksok : (ks.isNone || (decide (v ≥ 5) && optAll fitsShort ks)) = true := by
    cases ks with
    | none => rfl
    | some z =>
      have h7 : bit fl 7 = true := by simpa using hks0.symm
      have : ¬ v < 5 := fun hlt => g3 ⟨hlt, h7⟩
      have hv5 : v ≥ 5 := by omega
      simp [optAll, hks' z rfl, hv5]
  cases pst with
  | none =>
    simp only [Option.some.injEq, Prod.mk.injEq] at h
    rw [← h.1]
    have : optAll fitsInt (none : Option Bytes) = true := rfl
    simp only [paramsOk, hc, hv, hpsok, this, hserok, htsok, hksok, Bool.and_self]
  | some ob =>
    cases ob with
    | none => simp at h
    | some pb =>
      simp only [Option.some.injEq, Prod.mk.injEq] at h
      rw [← h.1]
      have : optAll fitsInt (some pb) = true := hpst' (some pb) rfl
      simp only [paramsOk, hc, hv, hpsok, this, hserok, htsok, hksok, Bool.and_self]

theorem rdBStmt_post {v : Nat} {bs : Bytes} {s : BStmt} {r : Bytes} (h : rdBStmt v bs = some (s, r)) :
    BStmt.ok v s = true := by
  unfold rdBStmt at h
  split at h
  · cases h
  rename_i k r1 hk
  split at h
  · split at h
    · cases h
    rename_i st r2 hst
    split at h
    · cases h
    rename_i vals r3 hvals
    simp only [Option.some.injEq, Prod.mk.injEq] at h
    rw [← h.1]
    simp [BStmt.ok, rdLongString_post hst, rdValues_post (allow := false) hvals (by simp)]
  · split at h
    · split at h
      · cases h
      rename_i id r2 hid
      split at h
      · cases h
      rename_i vals r3 hvals
      simp only [Option.some.injEq, Prod.mk.injEq] at h
      rw [← h.1]
      simp [BStmt.ok, rdString_post hid, rdValues_post (allow := false) hvals (by simp)]
    · cases h

end C03

namespace C03
open FrameSpec

theorem noParams_okV1 (cons : Nat) (vals : List NVal) (b : Bool) (hc : cons < 65536)
    (hv : (if b then valuesOk 1 false vals else vals.isEmpty) = true) : paramsOkV1 (noParams cons vals) b = true := by
  have hc' : isShort cons = true := by simp [isShort, hc]
  unfold paramsOkV1 noParams
  simp only [hc', Bool.not_false, Option.isNone_none, Bool.and_self, Bool.true_and]
  exact hv

theorem rdBody_post {v op : Nat} {pl : Payload} {bs : Bytes} {req : Req} {r : Bytes}
    (hv1 : 1 ≤ v) (hv5 : v ≤ 5) (hpl : payloadOk v pl = true)
    (h : rdBody v op pl bs = some (req, r)) : Expressible v req = true := by
  unfold rdBody at h
  by_cases hop0 : op = 0x01
  · rw [if_pos hop0] at h
    -- STARTUP
    split at h
    · rename_i m r1 hm
      simp only [Option.some.injEq, Prod.mk.injEq] at h
      rw [← h.1]
      obtain ⟨hl, hp⟩ := rdCounted_post (rdPair rdString rdString)
        (fun kv : Bytes × Bytes => (fitsShort kv.1 && fitsShort kv.2) = true)
        (fun bs x r h => by
          obtain ⟨a, b⟩ := x
          obtain ⟨r1, h1, h2⟩ := rdPair_post h
          simp [rdString_post h1, rdString_post h2]) hm
      simp only [Expressible, Bool.and_eq_true, decide_eq_true_eq, List.all_eq_true]
      exact ⟨hl, fun x hx => by simpa using hp x hx⟩
    · cases h
  rw [if_neg hop0] at h
  by_cases hop1 : op = 0x05
  · rw [if_pos hop1] at h
    -- OPTIONS
    simp only [Option.some.injEq, Prod.mk.injEq] at h
    rw [← h.1]; rfl
  rw [if_neg hop1] at h
  by_cases hop2 : op = 0x0F
  · rw [if_pos hop2] at h
    -- AUTH_RESPONSE
    split at h
    · cases h
    rename_i hv2
    split at h
    · rename_i t r1 ht
      simp only [Option.some.injEq, Prod.mk.injEq] at h
      rw [← h.1]
      have : v ≥ 2 := by omega
      simp [Expressible, rdBytes_post ht, this]
    · cases h
  rw [if_neg hop2] at h
  by_cases hop3 : op = 0x0B
  · rw [if_pos hop3] at h
    -- REGISTER
    split at h
    · rename_i l r1 hl
      simp only [Option.some.injEq, Prod.mk.injEq] at h
      rw [← h.1]
      obtain ⟨hn, hp⟩ := rdCounted_post rdString (fun s => fitsShort s = true) (fun _ _ _ h => rdString_post h) hl
      simp only [Expressible, Bool.and_eq_true, decide_eq_true_eq, List.all_eq_true]
      exact ⟨hn, hp⟩
    · cases h
  rw [if_neg hop3] at h
  by_cases hop4 : op = 0x07
  · rw [if_pos hop4] at h
    -- QUERY
    split at h
    · cases h
    rename_i stmt r1 hst
    have hs := rdLongString_post hst
    split at h
    · rename_i h1
      subst h1
      split at h
      · rename_i cons r2 hc
        simp only [Option.some.injEq, Prod.mk.injEq] at h
        rw [← h.1]
        have := noParams_okV1 cons [] false (rdShort_post hc) (by simp)
        simp [Expressible, hs, hpl, this]
      · cases h
    · rename_i h1
      split at h
      · rename_i p r2 hp
        simp only [Option.some.injEq, Prod.mk.injEq] at h
        rw [← h.1]
        simp [Expressible, hs, hpl, h1, rdQueryParams_post hp]
      · cases h
  rw [if_neg hop4] at h
  by_cases hop5 : op = 0x09
  · rw [if_pos hop5] at h
    -- PREPARE
    split at h
    · cases h
    rename_i stmt r1 hst
    have hs := rdLongString_post hst
    split at h
    · simp only [Option.some.injEq, Prod.mk.injEq] at h
      rw [← h.1]
      simp [Expressible, hs, hpl]
    · rename_i hv
      split at h
      · cases h
      rename_i fl r2 hfl
      split at h
      · cases h
      split at h
      · rename_i ks r3 hks
        simp only [Option.some.injEq, Prod.mk.injEq] at h
        rw [← h.1]
        obtain ⟨_, hk⟩ := rdOpt_post (fun s => fitsShort s = true) (fun _ _ _ h => rdString_post h) hks
        have h5 : v ≥ 5 := by omega
        cases ks with
        | none => simp [Expressible, hs, hpl]
        | some k => simp [Expressible, hs, hpl, h5, optAll, hk k rfl]
      · cases h
  rw [if_neg hop5] at h
  by_cases hop6 : op = 0x0A
  · rw [if_pos hop6] at h
    -- EXECUTE
    split at h
    · cases h
    rename_i id r1 hid
    have hs := rdString_post hid
    split at h
    · rename_i h1
      subst h1
      split at h
      · cases h
      rename_i vals r2 hvals
      split at h
      · rename_i cons r3 hc
        simp only [Option.some.injEq, Prod.mk.injEq] at h
        rw [← h.1]
        have hvv : valuesOk 1 false vals = true :=
          rdValues_post (allow := false) hvals (by simp)
        have := noParams_okV1 cons vals true (rdShort_post hc) (by simpa using hvv)
        simp [Expressible, hs, hpl, this]
      · cases h
    · rename_i h1
      split at h
      · rename_i p r2 hp
        simp only [Option.some.injEq, Prod.mk.injEq] at h
        rw [← h.1]
        simp [Expressible, hs, hpl, h1, rdQueryParams_post hp]
      · cases h
  rw [if_neg hop6] at h
  by_cases hop7 : op = 0x0D
  · rw [if_pos hop7] at h
    -- BATCH
    split at h
    · cases h
    rename_i hv2
    split at h
    · cases h
    rename_i typ r1 htyp
    split at h
    · cases h
    rename_i stmts r2 hst
    split at h
    · cases h
    rename_i cons r3 hcons
    obtain ⟨hn, hsp⟩ := rdCounted_post (rdBStmt v) (fun s => BStmt.ok v s = true) (fun _ _ _ h => rdBStmt_post h) hst
    have hty := rdByte_post htyp
    have hc := rdShort_post hcons
    have hv2' : v ≥ 2 := by omega
    have hall : stmts.all (BStmt.ok v) = true := List.all_eq_true.mpr hsp
    split at h
    · simp only [Option.some.injEq, Prod.mk.injEq] at h
      rw [← h.1]
      simp [Expressible, hv2', hty, hn, hall, isShort, hc, hpl]
    · split at h
      · cases h
      rename_i fl r4 hfl
      split at h
      · cases h
      split at h
      · cases h
      rename_i g2
      split at h
      · cases h
      rename_i ser r5 hser
      split at h
      · cases h
      rename_i ts r6 hts
      split at h
      · cases h
      rename_i ks r7 hks
      simp only [Option.some.injEq, Prod.mk.injEq] at h
      rw [← h.1]
      obtain ⟨_, hser'⟩ := rdOpt_post (fun n => isShort n = true)
        (fun _ _ _ h => by simp [isShort, rdShort_post h]) hser
      obtain ⟨_, hts'⟩ := rdOpt_post (fun z => isInt64 z = true) (fun _ _ _ h => rdLong_post h) hts
      obtain ⟨hks0, hks'⟩ := rdOpt_post (fun s => fitsShort s = true) (fun _ _ _ h => rdString_post h) hks
      have hv3 : v ≥ 3 := by omega
      have e1 : (ser.isNone || (decide (v ≥ 3) && optAll isShort ser)) = true := by
        cases ser with
        | none => rfl
        | some z => simp [optAll, hser' z rfl, hv3]
      have e2 : (ts.isNone || (decide (v ≥ 3) && optAll isInt64 ts)) = true := by
        cases ts with
        | none => rfl
        | some z => simp [optAll, hts' z rfl, hv3]
      have e3 : (ks.isNone || (decide (v ≥ 5) && optAll fitsShort ks)) = true := by
        cases ks with
        | none => rfl
        | some z =>
          have h7 : bit fl 7 = true := by simpa using hks0.symm
          have : ¬ v < 5 := fun hlt => g2 ⟨hlt, h7⟩
          have hv5' : v ≥ 5 := by omega
          simp [optAll, hks' z rfl, hv5']
      simp [Expressible, hv2', hty, hn, hall, isShort, hc, hpl, e1, e2, e3]
  rw [if_neg hop7] at h
  cases h

/-- whatever the decoder yields is a request of a supported version that this version can express -/
theorem decodeReq_post {bs : Bytes} {d : Decoded} (h : decodeReq bs = some d) :
    1 ≤ d.version ∧ d.version ≤ 5 ∧ Expressible d.version d.req = true := by
  unfold decodeReq at h
  split at h
  · cases h
  rename_i v r1 _
  split at h
  · cases h
  rename_i hv
  split at h
  · cases h
  rename_i fl r2 _
  split at h
  · cases h
  rename_i stream r3 _
  split at h
  · cases h
  rename_i op r4 _
  split at h
  · cases h
  rename_i len r5 _
  split at h
  · cases h
  split at h
  · cases h
  rename_i body rest _
  unfold decodeBody at h
  split at h
  · cases h
  split at h
  · cases h
  split at h
  · cases h
  rename_i g3
  split at h
  · cases h
  rename_i pl body' hpl
  split at h
  · rename_i req hreq
    simp only [Option.some.injEq] at h
    rw [← h]
    simp only
    have hv1 : 1 ≤ v := by omega
    have hv5 : v ≤ 5 := by omega
    refine ⟨hv1, hv5, ?_⟩
    have hplok : payloadOk v (pl.getD []) = true := by
      obtain ⟨h0, hp⟩ := rdOpt_post (fun m : Payload => m.length ≤ 65535 ∧
          ∀ kv ∈ m, (fitsShort kv.1 && optAll fitsInt kv.2) = true)
        (fun bs m r hm => rdCounted_post (rdPair rdString rdBytes)
          (fun kv : Bytes × Option Bytes => (fitsShort kv.1 && optAll fitsInt kv.2) = true)
          (fun bs x r h => by
            obtain ⟨a, b⟩ := x
            obtain ⟨r1, h1, h2⟩ := rdPair_post h
            simp [rdString_post h1, rdBytes_post h2]) hm) hpl
      cases pl with
      | none => rfl
      | some m =>
        have h2 : bit fl 2 = true := by simpa using h0.symm
        have : ¬ v < 4 := fun hlt => g3 ⟨h2, Or.inl hlt⟩
        have hv4 : v ≥ 4 := by omega
        obtain ⟨hl, hm⟩ := hp m rfl
        simp only [Option.getD_some, payloadOk, Bool.or_eq_true, Bool.and_eq_true, decide_eq_true_eq,
          List.all_eq_true]
        right
        exact ⟨⟨hv4, hl⟩, fun kv hkv => by simpa using hm kv hkv⟩
    exact rdBody_post hv1 hv5 hplok hreq
  · cases h

end C03
