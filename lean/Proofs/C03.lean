/-
C03 — request frames on the wire are exactly what the CQL protocol specifies.

Model  : FrameWrite.encodeReq  (gocql's frame builders, frame.go, byte for byte, Go-shaped input)
Spec   : FrameSpec.decodeReq   (independent decoder written from the protocol documents v1..v5)
         FrameSpec.Expressible (which logical requests a protocol version can carry)
`FrameWrite.ask` maps the builder's Go struct to the logical request that was asked for.
Property theorems only; helper lemmas are in Proofs/C03Prim, C03Values, C03Params, C03Frame, C03Body.
-/
import Proofs.C03Body
import Proofs.C03Sound
import Proofs.C03Reject
import Proofs.C03Cex
import Proofs.C03Handshake
import Proofs.C03HsCache
import Proofs.C03Compress
namespace C03
open FrameSpec FrameWrite

/-- **C03_roundtrip.** For every protocol version 1..5, tracing on or off, every stream id in the
    version's range, every request (of any of the eight kinds, with any number of values / batch
    entries) that the version can express: if the builder produces a frame `bs`, the independent
    decoder reads back — from `bs` followed by any further bytes `rest` — exactly the version, the
    tracing flag, the stream id, the request that was asked for, and leaves exactly `rest`
    (so the header's length field equals the body that follows, and the opcode is the request's). -/
theorem C03_roundtrip (v : Nat) (tracing : Bool) (stream now : Int) (g : GReq) (bs rest : Bytes)
    (hv1 : 1 ≤ v) (hv5 : v ≤ 5) (hs : StreamInRange v stream)
    (hx : Expressible v (ask now g) = true)
    (he : encodeReq v tracing stream now g = .ok bs) :
    decodeReq (bs ++ rest) = some ⟨v, tracing, stream, ask now g, rest⟩ :=
  roundtrip_of_body v tracing stream now g bs rest hv1 hv5 hs hx
    (fun body hb => rdBody_w v now g body hv1 hv5 hx hb) he

/-- an expressible request is never rejected by a panic or the named-values error: the only
    failure left is ErrFrameTooBig (more than 256 MiB) -/
theorem C03_expressible_built (v : Nat) (tracing : Bool) (stream now : Int) (g : GReq)
    (hv1 : 1 ≤ v) (hv5 : v ≤ 5) (hx : Expressible v (ask now g) = true) :
    (∃ bs, encodeReq v tracing stream now g = .ok bs) ∨ encodeReq v tracing stream now g = .error .frameTooBig := by
  have hpl := payloadOk_of_expressible v now g hx
  have hnp : ¬ ((payloadOf g).length > 0 ∧ v < 4) := by
    intro ⟨h1, h2⟩
    cases hq : payloadOf g with
    | nil => rw [hq] at h1; simp at h1
    | cons a l =>
      rw [hq] at hpl
      simp only [payloadOk, List.isEmpty_cons, Bool.false_or, Bool.and_eq_true, decide_eq_true_eq] at hpl
      omega
  have hbody : ∃ body, wBody v now g = .ok body := by
    cases g with
    | startup opts => exact ⟨_, rfl⟩
    | options => exact ⟨_, rfl⟩
    | authResponse d => exact ⟨_, rfl⟩
    | register l => exact ⟨_, rfl⟩
    | query s p pl =>
      simp only [Expressible, ask, Bool.and_eq_true] at hx
      by_cases h1 : v = 1
      · exact ⟨_, by simp only [wBody]; rw [if_neg (fun h => h.1 h1)]⟩
      · have hp := hx.2; simp only [h1, if_false] at hp
        have := no_keyspace_panic v now p hp
        exact ⟨_, by simp only [wBody]; rw [if_neg (fun h => this h.2)]⟩
    | prepare s ks pl =>
      simp only [Expressible, ask, Bool.and_eq_true, Bool.or_eq_true, decide_eq_true_eq] at hx
      have : ¬ (ks ≠ [] ∧ ¬ v > 4) := by
        intro ⟨hk, hv⟩
        have h := hx.2
        simp only [hk, if_false, Option.isNone_some, Bool.false_eq_true, false_or] at h
        omega
      exact ⟨_, by simp only [wBody]; rw [if_neg this]⟩
    | execute id p pl =>
      simp only [Expressible, ask, Bool.and_eq_true] at hx
      by_cases h1 : v = 1
      · have hgt : ¬ v > 1 := by omega
        exact ⟨_, by simp only [wBody]; rw [if_neg hgt]⟩
      · have hp := hx.2; simp only [h1, if_false] at hp
        have := no_keyspace_panic v now p hp
        have hgt : v > 1 := by omega
        exact ⟨_, by simp only [wBody]; rw [if_pos hgt, if_neg this]⟩
    | batch typ stmts cons ser dts tsv pl =>
      simp only [Expressible, ask, Bool.and_eq_true, List.all_eq_true, List.mem_map, forall_exists_index,
        and_imp, forall_apply_eq_imp_iff₂] at hx
      have hst := hx.1.1.1.1.1.2
      have : ¬ (v > 2 ∧ stmts.any (fun s => s.values.any (fun x => decide (x.name ≠ []))) = true) := by
        intro ⟨_, h⟩
        simp only [List.any_eq_true] at h
        obtain ⟨s, hs, x, hx1, hx2⟩ := h
        have := stmt_unnamed v s (hst s hs)
        rw [List.any_eq_false] at this
        exact this x hx1 hx2
      exact ⟨_, by simp only [wBody]; rw [if_neg this]⟩
  obtain ⟨body, hb⟩ := hbody
  rw [encodeReq_eq0 v tracing stream now g (by rw [← tooManyR_ask now g]; exact expressible_not_tooManyR v _ hx)]
  unfold encodeReq0
  simp only [hnp, if_false, hb]
  by_cases hsz : (if v > 2 then 9 else 8) + (wPayload (payloadOf g) ++ body).length > maxFrameSize
  · right; rw [if_pos hsz]
  · left; exact ⟨_, by rw [if_neg hsz]⟩

/-- a frame that is produced never exceeds the protocol's 256 MiB limit -/
theorem C03_frame_size (v : Nat) (tracing : Bool) (stream now : Int) (g : GReq) (bs : Bytes)
    (he : encodeReq v tracing stream now g = .ok bs) : bs.length ≤ maxFrameSize := by
  have he := (encodeReq_ok he).2
  unfold encodeReq0 at he
  by_cases hnp : (payloadOf g).length > 0 ∧ v < 4
  · simp [hnp] at he
  · simp only [hnp, if_false] at he
    cases hb : wBody v now g with
    | error e => simp [hb] at he
    | ok body =>
      simp only [hb] at he
      by_cases hsz : (if v > 2 then 9 else 8) + (wPayload (payloadOf g) ++ body).length > maxFrameSize
      · rw [if_pos hsz] at he; cases he
      · rw [if_neg hsz] at he
        injection he with he
        subst he
        simp only [wHeader, wUInt, List.length_append, List.length_cons, List.length_nil] at hsz ⊢
        split at hsz <;> rename_i hv <;> simp only [hv, if_true, if_false, List.length_cons, List.length_nil] <;> omega

/-- **C03_decoded_expressible.** Whatever the specification decoder reads out of any byte string is a
    request of a version 1..5 which that version can express (so `Expressible` is not stricter than
    the wire format: it is exactly the decoder's range, together with C03_roundtrip). -/
theorem C03_decoded_expressible (bs : Bytes) (d : Decoded) (h : decodeReq bs = some d) :
    1 ≤ d.version ∧ d.version ≤ 5 ∧ Expressible d.version d.req = true :=
  decodeReq_post h

/-- no byte string at all decodes to a request the version cannot express -/
theorem C03_inexpressible_never_decodes (v : Nat) (req : Req) (hx : Expressible v req = false)
    (bs : Bytes) (tr : Bool) (s : Int) (rest : Bytes) : decodeReq bs ≠ some ⟨v, tr, s, req, rest⟩ := by
  intro h
  have := (decodeReq_post h).2.2
  simp only at this
  rw [hx] at this; cases this

/-- **C03_rejected_iff.** The builders refuse a request (panic in the caller's goroutine or error, nothing
    is sent) exactly when it carries a custom payload below v4, a keyspace below v5 (v2+ QUERY/EXECUTE,
    any PREPARE), or a named value inside a BATCH from v3 — for every version, every request. -/
theorem C03_rejected_iff (v : Nat) (tracing : Bool) (stream now : Int) (g : GReq) :
    (∃ e, encodeReq v tracing stream now g = .error e ∧ e ≠ .frameTooBig) ↔ Rejectable v (ask now g) = true :=
  encodeReq_rejects_iff v tracing stream now g

/-- the refusals of the builders proper (before the count checks) are never spurious -/
theorem rejected0_inexpressible (v : Nat) (req : Req) (h : Rejectable0 v req = true) :
    Expressible v req = false := by
  apply Bool.eq_false_iff.mpr
  intro hE
  cases req with
  | startup _ => simp [Rejectable0] at h
  | options => simp [Rejectable0] at h
  | authResponse _ => simp [Rejectable0] at h
  | register _ => simp [Rejectable0] at h
  | query s p pl =>
    simp only [Rejectable0, Bool.or_eq_true, Bool.and_eq_true, decide_eq_true_eq] at h
    simp only [Expressible, Bool.and_eq_true] at hE
    obtain ⟨⟨_, hpl⟩, hp⟩ := hE
    rcases h with ⟨hne, hv⟩ | ⟨⟨hv1, hks⟩, hv5⟩
    · exact payload_contra v pl hpl hne hv
    · simp only [hv1, if_false, paramsOk, Bool.and_eq_true, Bool.or_eq_true, decide_eq_true_eq] at hp
      rcases hp.2 with hn | ⟨h5, _⟩
      · cases hq : p.keyspace <;> simp [hq] at hn hks
      · omega
  | prepare s ks pl =>
    simp only [Rejectable0, Bool.or_eq_true, Bool.and_eq_true, decide_eq_true_eq] at h
    simp only [Expressible, Bool.and_eq_true, Bool.or_eq_true, decide_eq_true_eq] at hE
    obtain ⟨⟨_, hpl⟩, hp⟩ := hE
    rcases h with ⟨hne, hv⟩ | ⟨hks, hv5⟩
    · exact payload_contra v pl hpl hne hv
    · rcases hp with hn | ⟨h5, _⟩
      · cases hq : ks <;> simp [hq] at hn hks
      · omega
  | execute id p pl =>
    simp only [Rejectable0, Bool.or_eq_true, Bool.and_eq_true, decide_eq_true_eq] at h
    simp only [Expressible, Bool.and_eq_true] at hE
    obtain ⟨⟨_, hpl⟩, hp⟩ := hE
    rcases h with ⟨hne, hv⟩ | ⟨⟨hv1, hks⟩, hv5⟩
    · exact payload_contra v pl hpl hne hv
    · have hv1' : ¬ v = 1 := by omega
      simp only [hv1', if_false, paramsOk, Bool.and_eq_true, Bool.or_eq_true, decide_eq_true_eq] at hp
      rcases hp.2 with hn | ⟨h5, _⟩
      · cases hq : p.keyspace <;> simp [hq] at hn hks
      · omega
  | batch typ stmts cons ser ts ks pl =>
    simp only [Rejectable0, Bool.or_eq_true, Bool.and_eq_true, decide_eq_true_eq, List.any_eq_true] at h
    simp only [Expressible, Bool.and_eq_true, List.all_eq_true] at hE
    have hpl := hE.1.1.1.2
    have hst := hE.1.1.1.1.1.2
    rcases h with ⟨hne, hv⟩ | ⟨hv2, st, hst1, x, hx1, hx2⟩
    · exact payload_contra v pl hpl hne hv
    · have hok := hst st hst1
      have hv : valuesOk v false (bstmtVals st) = true := by
        cases st <;> simp only [BStmt.ok, Bool.and_eq_true] at hok <;> exact hok.2
      simp only [valuesOk, Bool.and_eq_true, Bool.or_eq_true, List.all_eq_true, Bool.false_and,
        Bool.false_eq_true, or_false] at hv
      have := hv.2 x hx1
      cases hq : x.name <;> simp [hq] at this hx2


/-- every rejected request is indeed inexpressible in the version: rejection is never spurious — including
    the two count refusals (more than 65535 bound values / batch entries) -/
theorem C03_rejected_inexpressible (v : Nat) (req : Req) (h : Rejectable v req = true) :
    Expressible v req = false := by
  simp only [Rejectable, Bool.or_eq_true] at h
  rcases h with h | h
  · exact rejected0_inexpressible v req h
  · apply Bool.eq_false_iff.mpr
    intro hE
    rw [expressible_not_tooManyR v req hE] at h; cases h

/-- **C03_inexpressible_rejected_partial.** The property's last sentence ("a request that cannot be
    expressed in the negotiated version is never sent in a malformed form") in the form that holds
    of the unchanged code: an inexpressible request *of the rejectable kinds* is refused.
    Full statement (FALSE on the unchanged code, see the counterexample theorems below):
      `Expressible v (ask now g) = false → ∃ e, encodeReq v tracing stream now g = .error e`. -/
theorem C03_inexpressible_rejected_partial (v : Nat) (tracing : Bool) (stream now : Int) (g : GReq)
    (_hx : Expressible v (ask now g) = false) (hr : Rejectable v (ask now g) = true) :
    ∃ e, encodeReq v tracing stream now g = .error e ∧ e ≠ .frameTooBig :=
  (C03_rejected_iff v tracing stream now g).mpr hr

/-- **C03_gap_malformed.** Exactly the remaining inexpressible requests are the violations: each is
    built without complaint (unless larger than 256 MiB), and the bytes that go out do not decode
    to what was asked — under no tracing flag, stream id or continuation. -/
theorem C03_gap_malformed (v : Nat) (tracing : Bool) (stream now : Int) (g : GReq)
    (hx : Expressible v (ask now g) = false) (hr : Rejectable v (ask now g) = false) :
    encodeReq v tracing stream now g = .error .frameTooBig ∨
    ∃ bs, encodeReq v tracing stream now g = .ok bs ∧
      ∀ tr s rest, decodeReq (bs ++ rest) ≠ some ⟨v, tr, s, ask now g, rest⟩ := by
  cases he : encodeReq v tracing stream now g with
  | error e =>
    left
    by_cases hne : e = .frameTooBig
    · rw [hne]
    · have := (C03_rejected_iff v tracing stream now g).mp ⟨e, he, hne⟩
      rw [hr] at this; cases this
  | ok bs =>
    right
    exact ⟨bs, rfl, fun tr s rest => C03_inexpressible_never_decodes v _ hx _ tr s rest⟩

/-- **C03_outcome_judged.** Both clauses of the property as ONE judgement of what happens to a request
    handed to a connection (`judge`: sent → must be expressible and decode to exactly what was asked;
    inexpressible → must not be sent; the known gaps excluded by ¬ Rejectable): for every version 1..5,
    tracing flag, in-range stream id and EVERY request of the eight kinds (any values, any positional /
    named pattern over the values of any batch entry), the outcome of the model of the builders is judged
    `ok`, `refusedOk` or `gap` — never `sentInexpressible`, `differs`, `undecodable` or
    `refusedExpressible` (apart from frames over 256 MiB, which are refused). -/
theorem C03_outcome_judged (eqv : Req → Req → Bool) (hrefl : ∀ r, eqv r r = true)
    (v : Nat) (tracing : Bool) (stream now : Int) (g : GReq)
    (hv1 : 1 ≤ v) (hv5 : v ≤ 5) (hs : StreamInRange v stream) :
    judge eqv v tracing (ask now g) (outcomeOf (encodeReq v tracing stream now g)) = .ok ∨
    judge eqv v tracing (ask now g) (outcomeOf (encodeReq v tracing stream now g)) = .refusedOk ∨
    judge eqv v tracing (ask now g) (outcomeOf (encodeReq v tracing stream now g)) = .gap ∨
    encodeReq v tracing stream now g = .error .frameTooBig := by
  cases hx : Expressible v (ask now g) with
  | true =>
    rcases C03_expressible_built v tracing stream now g hv1 hv5 hx with ⟨bs, hb⟩ | hb
    · left
      have hr := C03_roundtrip v tracing stream now g bs [] hv1 hv5 hs hx hb
      simp only [List.append_nil] at hr
      simp [hb, outcomeOf, judge, hx, hr, hrefl]
    · right; right; right; exact hb
  | false =>
    cases hr : Rejectable v (ask now g) with
    | true =>
      obtain ⟨e, he, _⟩ := (C03_rejected_iff v tracing stream now g).mpr hr
      right; left
      simp [he, outcomeOf, judge, hx, hr]
    | false =>
      right; right; left
      cases he : encodeReq v tracing stream now g <;> simp [outcomeOf, judge, hx, hr]

/-- the other direction, on the wire: whatever frame goes out for an inexpressible request of the refused
    kinds (e.g. a BATCH from v3 with a name on ANY value of ANY entry — first, later, some, all) is a
    violation, and so is silence about an expressible one -/
theorem C03_sent_inexpressible_bad (eqv : Req → Req → Bool) (v : Nat) (tracing : Bool) (want : Req) (f : Bytes)
    (hx : Expressible v want = false) (hr : Rejectable v want = true) :
    judge eqv v tracing want (.sent f) = .sentInexpressible := by
  simp [judge, hx, hr]

/-! ## counterexamples: inexpressible requests the unchanged builders send anyway (DESIGN D14)

Each is confirmed on the real code (the `enc` op of the differential run reproduces the bytes).
Format: the request is not expressible, is not rejected, the bytes that go out, what they mean. -/

/-- the full last sentence of the property is false of the unchanged code -/
theorem C03_cex_inexpressible_not_rejected :
    ¬ (∀ v tracing stream now g, Expressible v (ask now g) = false →
        ∃ e, encodeReq v tracing stream now g = .error e) := by
  intro h
  obtain ⟨e, he⟩ := h 3 false 1 0 cexUnset (by decide)
  have : encodeReq 3 false 1 0 cexUnset =
      .ok [3, 0, 0, 1, 10, 0, 0, 0, 12, 0, 1, 171, 0, 1, 1, 0, 1, 255, 255, 255, 254] := rfl
  rw [this] at he; cases he

/-- UnsetValue under protocol 3: written as length -2, which a v3 server reads as NULL (a tombstone
    is written where the application asked for "leave the column alone") -/
theorem C03_cex_unset_below_v4 :
    Expressible 3 (ask 0 cexUnset) = false ∧ Rejectable 3 (ask 0 cexUnset) = false ∧
    encodeReq 3 false 1 0 cexUnset =
      .ok [3, 0, 0, 1, 10, 0, 0, 0, 12, 0, 1, 171, 0, 1, 1, 0, 1, 255, 255, 255, 254] ∧
    (decodeReq [3, 0, 0, 1, 10, 0, 0, 0, 12, 0, 1, 171, 0, 1, 1, 0, 1, 255, 255, 255, 254]).map (·.req) =
      some (Req.execute [0xab] (noParams 1 [⟨none, Val.null⟩]) []) :=
  ⟨by decide, by decide, rfl, by decide⟩

/-- a name on a value other than the first is silently dropped (only values[0].name is looked at) -/
theorem C03_cex_name_dropped :
    Expressible 4 (ask 0 cexNameLater) = false ∧ Rejectable 4 (ask 0 cexNameLater) = false ∧
    encodeReq 4 false 1 0 cexNameLater =
      .ok [4, 0, 0, 1, 10, 0, 0, 0, 18, 0, 1, 171, 0, 1, 1, 0, 2, 0, 0, 0, 1, 1, 0, 0, 0, 1, 2] ∧
    (decodeReq [4, 0, 0, 1, 10, 0, 0, 0, 18, 0, 1, 171, 0, 1, 1, 0, 2, 0, 0, 0, 1, 1, 0, 0, 0, 1, 2]).map (·.req) =
      some (Req.execute [0xab] (noParams 1 [⟨none, Val.bytes [1]⟩, ⟨none, Val.bytes [2]⟩]) []) :=
  ⟨by decide, by decide, rfl, by decide⟩

/-- first value named, second positional: the names flag is set and the second value goes out
    under the empty name -/
theorem C03_cex_mixed_names :
    Expressible 4 (ask 0 cexNameFirst) = false ∧ Rejectable 4 (ask 0 cexNameFirst) = false ∧
    encodeReq 4 false 1 0 cexNameFirst =
      .ok [4, 0, 0, 1, 10, 0, 0, 0, 23, 0, 1, 171, 0, 1, 65, 0, 2, 0, 1, 110, 0, 0, 0, 1, 1, 0, 0, 0, 0, 0, 1, 2] ∧
    (decodeReq [4, 0, 0, 1, 10, 0, 0, 0, 23, 0, 1, 171, 0, 1, 65, 0, 2, 0, 1, 110, 0, 0, 0, 1, 1, 0, 0, 0, 0, 0, 1,
        2]).map (·.req) =
      some (Req.execute [0xab] (noParams 1 [⟨some [0x6e], Val.bytes [1]⟩, ⟨some [], Val.bytes [2]⟩]) []) :=
  ⟨by decide, by decide, rfl, by decide⟩

/-- named values under protocol 2 (and 1): the names are silently dropped -/
theorem C03_cex_named_below_v3 :
    Expressible 2 (ask 0 cexNamed) = false ∧ Rejectable 2 (ask 0 cexNamed) = false ∧
    encodeReq 2 false 1 0 cexNamed = .ok [2, 0, 1, 10, 0, 0, 0, 13, 0, 1, 171, 0, 1, 1, 0, 1, 0, 0, 0, 1, 1] ∧
    (decodeReq [2, 0, 1, 10, 0, 0, 0, 13, 0, 1, 171, 0, 1, 1, 0, 1, 0, 0, 0, 1, 1]).map (·.req) =
      some (Req.execute [0xab] (noParams 1 [⟨none, Val.bytes [1]⟩]) []) :=
  ⟨by decide, by decide, rfl, by decide⟩

/-- timestamp (and serial consistency) of a BATCH under protocol 2: silently dropped -/
theorem C03_cex_batch_timestamp_v2 :
    Expressible 2 (ask 0 cexBatchTs) = false ∧ Rejectable 2 (ask 0 cexBatchTs) = false ∧
    encodeReq 2 false 1 0 cexBatchTs = .ok [2, 0, 1, 13, 0, 0, 0, 13, 0, 0, 1, 0, 0, 0, 0, 1, 120, 0, 0, 0, 1] ∧
    (decodeReq [2, 0, 1, 13, 0, 0, 0, 13, 0, 0, 1, 0, 0, 0, 0, 1, 120, 0, 0, 0, 1]).map (·.req) =
      some (Req.batch 0 [BStmt.query [0x78] []] 1 none none none []) :=
  ⟨by decide, by decide, rfl, by decide⟩

/-- timestamp of a QUERY under protocol 2: silently dropped -/
theorem C03_cex_query_timestamp_v2 :
    Expressible 2 (ask 0 cexQueryTs) = false ∧ Rejectable 2 (ask 0 cexQueryTs) = false ∧
    encodeReq 2 false 1 0 cexQueryTs = .ok [2, 0, 1, 7, 0, 0, 0, 8, 0, 0, 0, 1, 120, 0, 1, 0] ∧
    (decodeReq [2, 0, 1, 7, 0, 0, 0, 8, 0, 0, 0, 1, 120, 0, 1, 0]).map (·.req) =
      some (Req.query [0x78] (noParams 1 []) []) :=
  ⟨by decide, by decide, rfl, by decide⟩

/-- bound values of a QUERY under protocol 1: silently dropped -/
theorem C03_cex_query_values_v1 :
    Expressible 1 (ask 0 cexQueryValue) = false ∧ Rejectable 1 (ask 0 cexQueryValue) = false ∧
    encodeReq 1 false 1 0 cexQueryValue = .ok [1, 0, 1, 7, 0, 0, 0, 7, 0, 0, 0, 1, 120, 0, 1] ∧
    (decodeReq [1, 0, 1, 7, 0, 0, 0, 7, 0, 0, 0, 1, 120, 0, 1]).map (·.req) =
      some (Req.query [0x78] (noParams 1 []) []) :=
  ⟨by decide, by decide, rfl, by decide⟩

set_option maxRecDepth 20000 in
/-- page size 2^31: `int32(pageSize)` wraps, -2^31 goes out -/
theorem C03_cex_page_size_wraps :
    Expressible 4 (ask 0 cexPageSize) = false ∧ Rejectable 4 (ask 0 cexPageSize) = false ∧
    encodeReq 4 false 1 0 cexPageSize =
      .ok [4, 0, 0, 1, 7, 0, 0, 0, 12, 0, 0, 0, 1, 120, 0, 1, 4, 128, 0, 0, 0] ∧
    (decodeReq [4, 0, 0, 1, 7, 0, 0, 0, 12, 0, 0, 0, 1, 120, 0, 1, 4, 128, 0, 0, 0]).map (·.req) =
      some (Req.query [0x78] { noParams 1 [] with pageSize := some (-2147483648) } []) :=
  ⟨by decide, by decide, rfl, by decide⟩

/-- BATCH and AUTH_RESPONSE do not exist in protocol 1; the builders emit them all the same
    (Conn.executeBatch refuses v1 before calling the builder; AUTH_RESPONSE has no such guard) -/
theorem C03_cex_v1_opcodes :
    encodeReq 1 false 1 0 (cexManyStmts 0) = .ok [1, 0, 1, 13, 0, 0, 0, 5, 0, 0, 0, 0, 1] ∧
    decodeReq [1, 0, 1, 13, 0, 0, 0, 5, 0, 0, 0, 0, 1] = none ∧
    encodeReq 1 false 1 0 (.authResponse none) = .ok [1, 0, 1, 15, 0, 0, 0, 4, 255, 255, 255, 255] ∧
    decodeReq [1, 0, 1, 15, 0, 0, 0, 4, 255, 255, 255, 255] = none :=
  ⟨rfl, by decide, rfl, by decide⟩

/-- the counts and short-string lengths are truncated to 16 bits by `uint16(len(x))` -/
theorem C03_cex_short_wraps (s : Bytes) (h : s.length = 65536) :
    wShort 65536 = [0, 0] ∧ wShort 65537 = [0, 1] ∧ wString s = [0, 0] ++ s := by
  have e1 : wShort 65536 = [0, 0] := by
    simp only [wShort]
    rw [byteOf_congr (65536 / 256) 0 (by omega), byteOf_congr 65536 0 (by omega)]; rfl
  have e2 : wShort 65537 = [0, 1] := by
    simp only [wShort]
    rw [byteOf_congr (65537 / 256) 0 (by omega), byteOf_congr 65537 1 (by omega)]; rfl
  refine ⟨e1, e2, ?_⟩
  simp only [wString, h, e1]

/-- REGRESSION (KF-C03-5, repaired): more than 65535 bound values — any number, no upper bound — is refused
    before anything is written; the request is inexpressible and now of the refused kinds. Before the repair
    the count went out modulo 65536 (this was the counterexample C03_cex_too_many_values). -/
theorem C03_cex_too_many_values (n : Nat) (hn : 65535 < n) (v : Nat) (tracing : Bool) (stream : Int) :
    Expressible v (ask 0 (cexMany n)) = false ∧ Rejectable v (ask 0 (cexMany n)) = true ∧
    encodeReq v tracing stream 0 (cexMany n) = .error .tooMany := by
  have ht : tooManyG (cexMany n) = true := by simp [tooManyG, cexMany, p0]; omega
  have hr : Rejectable v (ask 0 (cexMany n)) = true := by
    simp only [Rejectable, tooManyR_ask, ht, Bool.or_true]
  exact ⟨C03_rejected_inexpressible v _ hr, hr, by simp [encodeReq, ht]⟩

/-- REGRESSION (KF-C03-6, repaired): more than 65535 batch entries — likewise refused -/
theorem C03_cex_too_many_batch_entries (n : Nat) (hn : 65535 < n) (v : Nat) (tracing : Bool) (stream : Int) :
    Expressible v (ask 0 (cexManyStmts n)) = false ∧ Rejectable v (ask 0 (cexManyStmts n)) = true ∧
    encodeReq v tracing stream 0 (cexManyStmts n) = .error .tooMany := by
  have ht : tooManyG (cexManyStmts n) = true := by simp [tooManyG, cexManyStmts]; omega
  have hr : Rejectable v (ask 0 (cexManyStmts n)) = true := by
    simp only [Rejectable, tooManyR_ask, ht, Bool.or_true]
  exact ⟨C03_rejected_inexpressible v _ hr, hr, by simp [encodeReq, ht]⟩

/-- a prepared id (any `[short bytes]` / `[string]`: keyspace, value name, event, option) longer
    than 65535 bytes: all bytes are written behind a length that says `len mod 65536` -/
theorem C03_cex_short_string_too_long (id : Bytes) (hn : 65535 < id.length) (hn2 : id.length ≤ 1000000) :
    Expressible 4 (ask 0 (cexLongId id)) = false ∧ Rejectable 4 (ask 0 (cexLongId id)) = false ∧
    ∃ bs, encodeReq 4 false 1 0 (cexLongId id) = .ok bs ∧
      ∀ tr s rest, decodeReq (bs ++ rest) ≠ some ⟨4, tr, s, ask 0 (cexLongId id), rest⟩ := by
  have hx : Expressible 4 (ask 0 (cexLongId id)) = false := by
    have : ¬ id.length ≤ 65535 := by omega
    simp [Expressible, ask, cexLongId, fitsShort, this]
  have hr : Rejectable 4 (ask 0 (cexLongId id)) = false := by
    simp [Rejectable, Rejectable0, tooManyR, ask, cexLongId, askParams, p0]
  refine ⟨hx, hr, ?_⟩
  rcases C03_gap_malformed 4 false 1 0 (cexLongId id) hx hr with h | h
  · exfalso
    rw [encodeReq_eq0 4 false 1 0 _ (by simp [tooManyG, cexLongId, p0])] at h
    unfold encodeReq0 at h
    simp only [cexLongId, payloadOf, wBody, p0] at h
    simp [wPayload, wQueryParams, wString, wShort, wFlags, maxFrameSize, queryFlags, namesFlag, b2n] at h
    omega
  · exact h

/-! ## compression on / off (the framing around the algorithm; the algorithms themselves are C18) -/

/-- **C03_roundtrip_compressed.** With ANY compressor configured whose decompression undoes its
    compression (and whose output for a frame-sized input fits the length field): for every version
    1..5, tracing flag, in-range stream id and every expressible request of the eight kinds, the frame
    the builder produces — header flag 0x01 set and the bytes after the header = Encode(custom payload ++
    message body), length field = the compressed size; STARTUP and OPTIONS left uncompressed — is read
    back by the compression-aware specification decoder as exactly the version, tracing flag, stream id
    and request that was asked for, leaving exactly the bytes that follow. -/
theorem C03_roundtrip_compressed (enc : Bytes → Bytes) (dec : Bytes → Option Bytes)
    (hinv : ∀ b, dec (enc b) = some b)
    (hsize : ∀ b, b.length ≤ maxFrameSize → (enc b).length < 2147483648)
    (v : Nat) (tracing : Bool) (stream now : Int) (g : GReq) (bs rest : Bytes)
    (hv1 : 1 ≤ v) (hv5 : v ≤ 5) (hs : StreamInRange v stream)
    (hx : Expressible v (ask now g) = true)
    (he : encodeReqC (some enc) v tracing stream now g = .ok bs) :
    decodeReqC dec (bs ++ rest) = some ⟨v, tracing, stream, ask now g, rest⟩ := by
  obtain ⟨full, he0, hsz, hbs⟩ := encodeReqC_some enc v tracing stream now g bs he
  have hr := C03_roundtrip v tracing stream now g _ rest hv1 hv5 hs hx he0
  obtain ⟨b0, b1, hfl1⟩ := headerFlags_even v tracing g
  have hfl : headerFlags v tracing g < 256 := by omega
  have hlen : full.length < 2147483648 := by unfold maxFrameSize at hsz; split at hsz <;> omega
  rw [decodeReq_frame v _ stream _ full rest hv1 hv5 hs hfl (opcode_lt g) hlen] at hr
  subst hbs
  by_cases hc : compressible g = true
  · simp only [hc, if_true]
    have hlen' : (enc full).length < 2147483648 := hsize full (by split at hsz <;> omega)
    rw [decodeReqC_frame dec v _ stream _ (enc full) rest hv1 hv5 hs hfl1 (opcode_lt g) hlen']
    rw [if_pos b1, if_neg (opcode_compressible g hc), hinv]
    simpa using hr
  · have hc' : compressible g = false := by simpa using hc
    simp only [hc', Bool.false_eq_true, if_false]
    rw [decodeReqC_frame dec v _ stream _ full rest hv1 hv5 hs hfl (opcode_lt g) hlen]
    simp only [b0, Bool.false_eq_true, if_false]
    exact hr

/-- **C03_compress_flag_iff.** Which frames carry the compression flag: exactly those built with a
    compressor configured, other than STARTUP and OPTIONS — for every version, request and compressor. -/
theorem C03_compress_flag_iff (comp : Option (Bytes → Bytes)) (v : Nat) (tracing : Bool) (stream now : Int) (g : GReq)
    (bs : Bytes) (he : encodeReqC comp v tracing stream now g = .ok bs) :
    ∃ a f r, bs = a :: f :: r ∧ (f.toNat % 2 = 1 ↔ (comp.isSome = true ∧ compressible g = true)) := by
  obtain ⟨b0, b1, hfl1⟩ := headerFlags_even v tracing g
  have hodd : (byteOf (headerFlags v tracing g + 1)).toNat % 2 = 1 := by
    have : (byteOf (headerFlags v tracing g + 1)).toNat = headerFlags v tracing g + 1 := by
      simp only [byteOf, UInt8.toNat_ofNat']; omega
    rw [this]; simpa [bit] using b1
  have heven : ¬ (byteOf (headerFlags v tracing g)).toNat % 2 = 1 := by
    have : (byteOf (headerFlags v tracing g)).toNat = headerFlags v tracing g := by
      simp only [byteOf, UInt8.toNat_ofNat']; omega
    rw [this]; simpa [bit] using b0
  cases comp with
  | none =>
    rw [encodeReqC_none] at he
    obtain ⟨full, hbs⟩ := encodeReq_shape v tracing stream now g bs he
    obtain ⟨r, hr⟩ := wHeader_shape v (headerFlags v tracing g) stream (opcode g) full.length full
    exact ⟨_, _, r, by rw [hbs, hr], by simp [heven]⟩
  | some enc =>
    obtain ⟨full, _, _, hbs⟩ := encodeReqC_some enc v tracing stream now g bs he
    by_cases hc : compressible g = true
    · simp only [hc, if_true] at hbs
      obtain ⟨r, hr⟩ := wHeader_shape v (headerFlags v tracing g + 1) stream (opcode g) (enc full).length (enc full)
      exact ⟨_, _, r, by rw [hbs, hr], by simp [hodd, hc]⟩
    · have hc' : compressible g = false := by simpa using hc
      simp only [hc', Bool.false_eq_true, if_false] at hbs
      obtain ⟨r, hr⟩ := wHeader_shape v (headerFlags v tracing g) stream (opcode g) full.length full
      exact ⟨_, _, r, by rw [hbs, hr], by simp [heven, hc']⟩

/-! ## map order -/

/-- **C03_map_order_irrelevant.** The STARTUP options and the custom payload are Go maps, written
    in whatever order the runtime iterates them. For two iteration orders of the same request
    (`mapEquiv`: everything equal, the map entries a permutation) both frames decode, to the same
    version / tracing / stream, and to requests that are equal as maps — and equal to what was asked. -/
theorem C03_map_order_irrelevant (v : Nat) (tracing : Bool) (stream now : Int) (g1 g2 : GReq) (bs1 bs2 : Bytes)
    (hv1 : 1 ≤ v) (hv5 : v ≤ 5) (hs : StreamInRange v stream)
    (hperm : mapEquiv (ask now g1) (ask now g2))
    (hx : Expressible v (ask now g1) = true)
    (he1 : encodeReq v tracing stream now g1 = .ok bs1) (he2 : encodeReq v tracing stream now g2 = .ok bs2) :
    ∃ d1 d2, decodeReq bs1 = some d1 ∧ decodeReq bs2 = some d2 ∧
      d1.version = d2.version ∧ d1.tracing = d2.tracing ∧ d1.stream = d2.stream ∧ d1.rest = d2.rest ∧
      mapEquiv d1.req d2.req ∧ d1.req = ask now g1 := by
  have hx2 : Expressible v (ask now g2) = true := by rw [← expressible_mapEquiv v _ _ hperm]; exact hx
  have r1 := C03_roundtrip v tracing stream now g1 bs1 [] hv1 hv5 hs hx he1
  have r2 := C03_roundtrip v tracing stream now g2 bs2 [] hv1 hv5 hs hx2 he2
  simp only [List.append_nil] at r1 r2
  exact ⟨_, _, r1, r2, rfl, rfl, rfl, rfl, hperm, rfl⟩


/-! ## multi-step exchanges: handshake, authentication rounds, USE, REGISTER, PREPARE → EXECUTE

Model  : Handshake.step / modelReqs / encodeAll (conn.go: startupCoordinator.options / startup /
         authenticateHandshake, UseKeyspace, registerEvents, prepareStatement / executeQuery → the
         frame builders of FrameWrite)
Spec   : Handshake.specReqs — a pure function from (configuration, authenticator as a function of the
         challenge history, plan, the peer's answers) to the logical requests due, decoded from the
         wire by FrameSpec.decodeReq. -/

open Handshake in
/-- **C03_hs_requests.** For every configuration, every authenticator chain (any function from the
    challenge history to a reply), every plan and EVERY list of peer answers (any length, any order,
    protocol-conforming or not): the requests the model of conn.go writes — the Go structs handed to
    the frame builders — ask for exactly the logical requests of the specification, in the same order,
    with the same "body compressed" marks. -/
theorem C03_hs_requests (cfg : Config) (au : Authn) (now : Int) (answers : List PeerAnswer) :
    (modelReqs cfg au answers).map (fun p => (ask now p.1, p.2)) = specReqs cfg au answers := by
  have h := (run_sim cfg au now answers (Handshake.init cfg) (init_inv cfg au)).1
  simp only [modelReqs, specReqs, List.map_cons]
  exact congrArg (List.cons _) h

open Handshake in
/-- where the exchange ends (handshake abandoned / a request of the plan failed / plan finished /
    waiting for an answer) and the calls of Authenticator.Success — exactly once, with the token of
    AUTH_SUCCESS, iff the last reply came with a challenger — are those of the specification -/
theorem C03_hs_outcome (cfg : Config) (au : Authn) (answers : List PeerAnswer) :
    toSpec (final cfg au (Handshake.init cfg) answers) = specFinal cfg au .options answers ∧
    (final cfg au (Handshake.init cfg) answers).successArgs = specSuccess cfg au .options answers := by
  have h := run_sim cfg au 0 answers (Handshake.init cfg) (init_inv cfg au)
  refine ⟨h.2.1, ?_⟩
  rw [h.2.2]; rfl

open Handshake in
/-- **C03_hs_frames.** The bytes: for every peer script, if the model's frames `frames` go out on
    the streams `streams` (in range), and every request the specification lists is expressible in the
    version, then the k-th frame decodes — by the independent decoder, after undoing the negotiated
    (identity) compression exactly where the specification says compression is in effect — to
    version, no tracing, stream k, the k-th request of the specification, nothing left over; for all k,
    and there are exactly as many frames as requests due. -/
theorem C03_hs_frames (cfg : Config) (au : Authn) (now : Int) (answers : List PeerAnswer)
    (streams : List Int) (frames : List Bytes) (hv1 : 1 ≤ cfg.v) (hv5 : cfg.v ≤ 5)
    (hs : ∀ s ∈ streams, StreamInRange cfg.v s)
    (hx : ∀ r ∈ specReqs cfg au answers, Expressible cfg.v r.1 = true)
    (he : encodeAll cfg.v now streams (modelReqs cfg au answers) = some frames) :
    expectAll cfg.v streams (specReqs cfg au answers) frames := by
  rw [← C03_hs_requests cfg au now answers]
  apply encodeAll_expect cfg.v now hv1 hv5 streams _ frames hs _ he
  intro p hp
  apply hx (ask now p.1, p.2)
  rw [← C03_hs_requests cfg au now answers]
  exact List.mem_map.mpr ⟨p, hp, rfl⟩

open Handshake in
/-- **C03_hs_auth_token_round.** Request k+2 of an exchange SUPPORTED, AUTHENTICATE cls, then
    challenges c₁ c₂ … is AUTH_RESPONSE with the token the authenticator chain produces for the
    history (cls, c₁ … c_k) — for every k, every authenticator, as long as the chain carries on
    (a challenger came with each earlier reply, no error). The token of round k is never that of
    another round. -/
theorem C03_hs_auth_token_round (cfg : Config) (au : Authn) (m : List (Bytes × List Bytes)) (cls : Bytes)
    (cs : List (Option Bytes)) (more : List PeerAnswer) (k : Nat) (hk : k ≤ cs.length)
    (hA : cfg.hasAuth = true) (h0 : au.challenge [some cls] ≠ .fail)
    (hc : ∀ i, i < k → nextOf (au.challenge (some cls :: cs.take i)) = true ∧
                       au.challenge (some cls :: cs.take (i + 1)) ≠ .fail) :
    (specReqs cfg au (.supported m :: .authenticate cls :: (cs.map PeerAnswer.authChallenge ++ more)))[k + 2]? =
      some (Req.authResponse (tokenOf (au.challenge (some cls :: cs.take k))), negotiated cfg m) := by
  have hstep : specStep cfg au (.startup (negotiated cfg m)) (.authenticate cls) =
      (.auth (negotiated cfg m) [some cls], some (Req.authResponse (tokenOf (au.challenge [some cls])), negotiated cfg m), none) := by
    simp only [specStep]; rw [if_pos ⟨hA, h0⟩]
  have hstep0 : specStep cfg au .options (.supported m) =
      (.startup (negotiated cfg m), some (specStartup cfg m, false), none) := rfl
  cases k with
  | zero => simp [specReqs, specRun, hstep0, hstep]
  | succ k =>
    have := specRun_auth_round cfg au (negotiated cfg m) cs [some cls] k more (by omega) (by
      intro i hi
      simpa using hc i (by omega))
    simpa [specReqs, specRun, hstep0, hstep] using this

open Handshake in
/-- the same on the wire: frame k+2 of the model decodes to the AUTH_RESPONSE carrying
    `au.challenge (cls, c₁ … c_k)`'s token -/
theorem C03_hs_auth_frame_round (cfg : Config) (au : Authn) (now : Int) (m : List (Bytes × List Bytes)) (cls : Bytes)
    (cs : List (Option Bytes)) (more : List PeerAnswer) (k : Nat) (hk : k ≤ cs.length)
    (streams : List Int) (frames : List Bytes) (hv1 : 1 ≤ cfg.v) (hv5 : cfg.v ≤ 5)
    (hs : ∀ s ∈ streams, StreamInRange cfg.v s)
    (hx : ∀ r ∈ specReqs cfg au (.supported m :: .authenticate cls :: (cs.map PeerAnswer.authChallenge ++ more)),
      Expressible cfg.v r.1 = true)
    (he : encodeAll cfg.v now streams
      (modelReqs cfg au (.supported m :: .authenticate cls :: (cs.map PeerAnswer.authChallenge ++ more))) = some frames)
    (hA : cfg.hasAuth = true) (h0 : au.challenge [some cls] ≠ .fail)
    (hc : ∀ i, i < k → nextOf (au.challenge (some cls :: cs.take i)) = true ∧
                       au.challenge (some cls :: cs.take (i + 1)) ≠ .fail) :
    ∃ s f, streams[k + 2]? = some s ∧ frames[k + 2]? = some f ∧
      decodeZ (negotiated cfg m) f =
        some ⟨cfg.v, false, s, Req.authResponse (tokenOf (au.challenge (some cls :: cs.take k))), []⟩ :=
  expectAll_get cfg.v _ _ _ (C03_hs_frames cfg au now _ streams frames hv1 hv5 hs hx he) (k + 2) _ _
    (C03_hs_auth_token_round cfg au m cls cs more k hk hA h0 hc)

/-! ### the prepared-statement cache across executions, and UNPREPARED → re-PREPARE -/

open Handshake in
/-- **C03_hs_execute_id_from_peer.** For every configuration, authenticator, plan and EVERY peer script
    (protocol-conforming or not, any number of executions of the same or of different statements, any
    number of UNPREPARED errors): an EXECUTE the model of conn.go (executeQuery + the session's
    prepared-statement cache) ever writes carries an id that the peer handed out in a PREPARED answer of
    this very exchange — never an invented, truncated or stale-from-elsewhere id. -/
theorem C03_hs_execute_id_from_peer (cfg : Config) (au : Authn) (answers : List PeerAnswer) (id : Bytes) (p : GParams)
    (pl : GPayload) (z : Bool) (h : (GReq.execute id p pl, z) ∈ modelReqs cfg au answers) :
    ∃ n, PeerAnswer.prepared id n ∈ answers := by
  have hm : (ask 0 (GReq.execute id p pl), z) ∈ (modelReqs cfg au answers).map (fun q => (ask 0 q.1, q.2)) :=
    List.mem_map.mpr ⟨_, h, rfl⟩
  have h1 : (List.map (tagP 0) (run cfg au (Handshake.init cfg) answers)) = specRun cfg au .options answers :=
    (run_sim cfg au 0 answers (Handshake.init cfg) (init_inv cfg au)).1
  simp only [modelReqs, List.map_cons, List.mem_cons] at hm
  rcases hm with hm | hm
  · simp [ask] at hm
  · have hm' : (ask 0 (GReq.execute id p pl), z) ∈ specRun cfg au .options answers := by
      rw [← h1]; exact hm
    exact specRun_ids (fun i => ∃ n, PeerAnswer.prepared i n ∈ answers) cfg au answers .options
      (fun i n hmem => ⟨n, hmem⟩) (idsFrom_nil _) _ hm'

open Handshake in
/-- **C03_hs_cache_hit.** Wherever in a plan a statement is prepared and executed, and the next action
    executes the same statement again (other consistency, other values of the same number): the requests
    are EXECUTE id, EXECUTE id — no second PREPARE, the id of the PREPARED answer both times, each
    with its own values. For every state of the exchange, every continuation. -/
theorem C03_hs_cache_hit (cfg : Config) (au : Authn) (z : Bool) (curKs : Bytes) (known : Known) (stmt : Bytes)
    (cons cons2 : Nat) (vals vals2 : List (Option Bytes)) (rest : List Action) (id : Bytes) (more : List PeerAnswer)
    (hn : vals2.length = vals.length) :
    specRun cfg au (.prep z curKs known stmt cons vals (.exec stmt cons2 vals2 :: rest))
        (.prepared id vals.length :: .void :: more) =
      (specExecute cfg curKs id cons vals, z) :: (specExecute cfg curKs id cons2 vals2, z) ::
        specRun cfg au (.exe z curKs (((curKs, stmt), (id, vals.length)) :: known) stmt cons2 vals2 rest) more := by
  simp [specRun, specStep, specNext, specExec, hn]

open Handshake in
/-- **C03_hs_unprepared_reprepare.** An EXECUTE answered by ERROR Unprepared naming the known id of the
    statement: the next requests are PREPARE of that very statement (with the per-request keyspace of the
    version) and then EXECUTE with the id of the NEW PREPARED answer and the same consistency and values —
    whatever else is known, wherever in the plan. -/
theorem C03_hs_unprepared_reprepare (cfg : Config) (au : Authn) (z : Bool) (curKs : Bytes) (known : Known) (stmt : Bytes)
    (cons : Nat) (vals : List (Option Bytes)) (rest : List Action) (id : Bytes) (n0 : Nat) (id2 : Bytes)
    (more : List PeerAnswer) (hk : known.lookup (curKs, stmt) = some (id, n0)) :
    specRun cfg au (.exe z curKs known stmt cons vals rest) (.unprepared id :: .prepared id2 vals.length :: more) =
      (specPrepare cfg.v curKs stmt, z) :: (specExecute cfg curKs id2 cons vals, z) ::
        specRun cfg au (.exe z curKs (((curKs, stmt), (id2, vals.length)) :: known.filter (fun e => e.1 != (curKs, stmt)))
          stmt cons vals rest) more := by
  have hf : specForget known (curKs, stmt) id = known.filter (fun e => e.1 != (curKs, stmt)) := by
    simp [specForget, hk]
  simp [specRun, specStep, hf, specExec, lookup_filter_ne]

open Handshake in
/-- an UNPREPARED that names ANOTHER id says nothing about the known one: the EXECUTE is repeated
    unchanged (conn.go: evictPreparedID compares the ids; a conforming server never answers so) -/
theorem C03_hs_unprepared_other_id (cfg : Config) (au : Authn) (z : Bool) (curKs : Bytes) (known : Known) (stmt : Bytes)
    (cons : Nat) (vals : List (Option Bytes)) (rest : List Action) (id uid : Bytes) (more : List PeerAnswer)
    (hk : known.lookup (curKs, stmt) = some (id, vals.length)) (hne : id ≠ uid) :
    specRun cfg au (.exe z curKs known stmt cons vals rest) (.unprepared uid :: more) =
      (specExecute cfg curKs id cons vals, z) :: specRun cfg au (.exe z curKs known stmt cons vals rest) more := by
  have hf : specForget known (curKs, stmt) uid = known := by simp [specForget, hk, hne]
  simp [specRun, specStep, hf, specExec, hk]

open Handshake in
/-- **C03_hs_execute_from_plan.** For every configuration, authenticator, plan and EVERY peer script: an
    EXECUTE that is due is the execution of an `exec` action of the plan — its consistency, its values
    (null / bytes as given, positional, in order), skip-metadata as configured, the per-request keyspace
    of the version, nothing else set, no custom payload; however often the statement was executed
    before and however many UNPREPARED rounds were needed. -/
theorem C03_hs_execute_from_plan (cfg : Config) (au : Authn) (answers : List PeerAnswer) (id : Bytes) (p : QParams)
    (pl : Payload) (z : Bool) (h : (Req.execute id p pl, z) ∈ specReqs cfg au answers) :
    ∃ stmt cons vals curKs, Action.exec stmt cons vals ∈ cfg.plan ∧
      Req.execute id p pl = specExecute cfg curKs id cons vals := by
  simp only [specReqs, List.mem_cons] at h
  rcases h with h | h
  · cases h
  · exact specRun_plan cfg au answers .options (fromPlan_nil _) _ h

open Handshake in
/-- every PREPARE that is due carries the statement text of an `exec` action of the plan, unchanged -/
theorem C03_hs_prepare_from_plan (cfg : Config) (au : Authn) (answers : List PeerAnswer) (stmt : Bytes) (ks : Option Bytes)
    (pl : Payload) (z : Bool) (h : (Req.prepare stmt ks pl, z) ∈ specReqs cfg au answers) :
    ∃ cons vals curKs, Action.exec stmt cons vals ∈ cfg.plan ∧ Req.prepare stmt ks pl = specPrepare cfg.v curKs stmt := by
  simp only [specReqs, List.mem_cons] at h
  rcases h with h | h
  · cases h
  · exact specRun_plan cfg au answers .options (fromPlan_nil _) _ h

/-! ## non-vacuity -/

/-- a v4 EXECUTE with named values, an unset value, page size, paging state, serial consistency,
    timestamp, tracing and a two-entry custom payload is expressible, is built, and is read back -/
def exRich : GReq :=
  .execute [1, 2, 3]
    ⟨6, true, [⟨[0x61], false, some [9]⟩, ⟨[0x62], true, none⟩, ⟨[0x63], false, none⟩], 5000, [7, 7], 8, true, -1, []⟩
    [([0x6b], some [1]), ([0x6c], none)]

example : Expressible 4 (ask 0 exRich) = true := by decide
example : StreamInRange 4 32767 := ⟨by decide, by decide⟩
example : ∃ bs, encodeReq 4 true 32767 0 exRich = .ok bs ∧
    decodeReq bs = some ⟨4, true, 32767, ask 0 exRich, []⟩ := by
  obtain ⟨bs, h⟩ | h := C03_expressible_built 4 true 32767 0 exRich (by omega) (by omega) (by decide)
  · refine ⟨bs, h, ?_⟩
    have := C03_roundtrip 4 true 32767 0 exRich bs [] (by omega) (by omega) ⟨by decide, by decide⟩ (by decide) h
    simpa using this
  · have hok : (encodeReq 4 true 32767 0 exRich).toOption.isSome = true := by decide
    rw [h] at hok; cases hok
example : Rejectable 3 (ask 0 exRich) = true := by decide
example : mapEquiv (Req.startup [([1], [2]), ([3], [4])]) (Req.startup [([3], [4]), ([1], [2])]) :=
  List.Perm.swap _ _ _



/-! non-vacuity of the judgement: a v4 BATCH whose entry has a positional first value and a NAMED later one -/
def exBatchLaterNamed : GReq :=
  .batch 0 [⟨[7], [], [⟨[], false, some [1]⟩, ⟨[0x62], false, some [2]⟩]⟩] 1 0 false 0 []
example : Expressible 4 (ask 0 exBatchLaterNamed) = false ∧ Rejectable 4 (ask 0 exBatchLaterNamed) = true := by decide
example : judge (fun a b => a == b) 4 false (ask 0 exBatchLaterNamed) (outcomeOf (encodeReq 4 false 1 0 exBatchLaterNamed)) = .refusedOk := by
  decide
example : judge (fun a b => a == b) 4 true (ask 0 (.register [[0x41]])) (outcomeOf (encodeReq 4 true 5 0 (.register [[0x41]]))) = .ok := by decide

/-! non-vacuity of the compression theorems: the toy algorithm of the harness (FrameWrite.toyEnc: marker byte,
    every byte xor 0x5A) satisfies the hypotheses -/
theorem toy_inv (b : Bytes) : toyDec (toyEnc b) = some b := by
  simp only [toyEnc, toyDec, List.map_map, Option.some.injEq]
  have : ((fun x : UInt8 => x ^^^ 0x5A) ∘ fun x => x ^^^ 0x5A) = id := by
    funext x; simp [UInt8.xor_assoc]
  rw [this, List.map_id]

example : ∃ bs, encodeReqC (some toyEnc) 4 true 32767 0 exRich = .ok bs ∧
    decodeReqC toyDec bs = some ⟨4, true, 32767, ask 0 exRich, []⟩ ∧ decodeReq bs = none := by
  refine ⟨_, rfl, ?_, by decide⟩
  have := C03_roundtrip_compressed toyEnc toyDec toy_inv (by intro b hb; simp [toyEnc]; unfold maxFrameSize at hb; omega)
    4 true 32767 0 exRich _ [] (by omega) (by omega) ⟨by decide, by decide⟩ (by decide) rfl
  simpa using this

/-! non-vacuity of the handshake theorems: a v4 connection with a compressor the peer offers, a
    three-round authenticator whose token is `t` ++ the latest challenge, then USE, REGISTER,
    PREPARE → EXECUTE with the id of the PREPARED answer -/
section HsExample
open Handshake

def hsExAuth : Authn := ⟨fun hist => .reply (some ([0x74] ++ (hist.getLast?.join).getD [])) true, fun _ _ => true⟩
def hsExCfg : Config := ⟨4, [0x33], [0x64], [0x31], some [0x7a], true, 1, true,
  [.useKs [0x6b], .register true false true, .exec [0x73] 6 [some [1], none]], id⟩
def hsExAnswers : List PeerAnswer :=
  [.supported [(kCompression, [[0x7a]])], .authenticate [0x63], .authChallenge (some [0x41]), .authChallenge none,
   .authSuccess (some [0x5a]), .setKeyspace, .ready, .prepared [9, 9] 2, .void]

example : (specReqs hsExCfg hsExAuth hsExAnswers).length = 9 := by decide
example : (specReqs hsExCfg hsExAuth hsExAnswers)[3]? = some (Req.authResponse (some [0x74, 0x41]), true) := by decide
example : (specReqs hsExCfg hsExAuth hsExAnswers)[4]? = some (Req.authResponse (some [0x74]), true) := by decide
example : (specReqs hsExCfg hsExAuth hsExAnswers)[8]? =
    some (Req.execute [9, 9] ⟨6, true, [⟨none, Val.bytes [1]⟩, ⟨none, Val.null⟩], none, none, none, none, none⟩ [], true) := by decide
example : specFinal hsExCfg hsExAuth .options hsExAnswers = .stop .finished := by decide
example : specSuccess hsExCfg hsExAuth .options hsExAnswers = [some [0x5a]] := by decide
example : (specReqs hsExCfg hsExAuth hsExAnswers).all (fun r => Expressible 4 r.1) = true := by decide
example : ∃ frames, encodeAll 4 0 [0, 0, 0, 0, 0, 0, 0, 0, 0] (modelReqs hsExCfg hsExAuth hsExAnswers) = some frames ∧ frames.length = 9 := by
  refine ⟨_, rfl, ?_⟩
  decide

/-- the hypotheses of C03_hs_auth_token_round / C03_hs_auth_frame_round hold for this authenticator, any k -/
example (cls : Bytes) (cs : List (Option Bytes)) (i : Nat) :
    nextOf (hsExAuth.challenge (some cls :: cs.take i)) = true ∧
    hsExAuth.challenge (some cls :: cs.take (i + 1)) ≠ .fail := ⟨rfl, by simp [hsExAuth]⟩

/-! non-vacuity of the cache theorems: a statement executed twice, then lost by the server -/
def hsExCfg2 : Config := ⟨4, [0x33], [0x64], [0x31], none, false, 1, true,
  [.exec [0x73] 6 [some [1]], .exec [0x73] 2 [none]], id⟩
def hsExAnswers2 : List PeerAnswer :=
  [.supported [], .ready, .prepared [9] 1, .void, .unprepared [9], .prepared [8, 8] 1, .void]

example : (specReqs hsExCfg2 hsExAuth hsExAnswers2).map (·.1) =
    [Req.options, Req.startup [(kCql, [0x33]), (kName, [0x64]), (kVersion, [0x31])],
     Req.prepare [0x73] none [],
     Req.execute [9] ⟨6, true, [⟨none, Val.bytes [1]⟩], none, none, none, none, none⟩ [],
     Req.execute [9] ⟨2, true, [⟨none, Val.null⟩], none, none, none, none, none⟩ [],
     Req.prepare [0x73] none [],
     Req.execute [8, 8] ⟨2, true, [⟨none, Val.null⟩], none, none, none, none, none⟩ []] := by decide
example : specFinal hsExCfg2 hsExAuth .options hsExAnswers2 = .stop .finished := by decide
example : (GReq.execute [8, 8] (execParams hsExCfg2 [] 2 [none]) [], false) ∈ modelReqs hsExCfg2 hsExAuth hsExAnswers2 := by
  decide
example : ∃ n, PeerAnswer.prepared [8, 8] n ∈ hsExAnswers2 :=
  C03_hs_execute_id_from_peer hsExCfg2 hsExAuth hsExAnswers2 [8, 8] (execParams hsExCfg2 [] 2 [none]) [] false (by decide)
example : ∃ stmt cons vals curKs, Action.exec stmt cons vals ∈ hsExCfg2.plan ∧
    Req.execute [8, 8] ⟨2, true, [⟨none, Val.null⟩], none, none, none, none, none⟩ [] = specExecute hsExCfg2 curKs [8, 8] cons vals :=
  C03_hs_execute_from_plan hsExCfg2 hsExAuth hsExAnswers2 _ _ _ false (by decide)
end HsExample

end C03
