/-
C03 — request frames on the wire are exactly what the CQL protocol specifies.

Model  : FrameWrite.encodeReq  (gocql's frame builders, frame.go, byte for byte, Go-shaped input)
Spec   : FrameSpec.decodeReq   (independent decoder written from the protocol documents v1..v5)
         FrameSpec.Expressible (which logical requests a protocol version can carry)
`FrameWrite.ask` maps the builder's Go struct to the logical request that was asked for.
Property theorems only; helper lemmas are in Proofs/C03Prim, C03Values, C03Params, C03Frame, C03Body.
-/
import Proofs.C03Body
namespace C03
open FrameSpec FrameWrite

/-- every message body is decoded to the request that was asked for -/
theorem rdBody_w (v : Nat) (now : Int) (g : GReq) (body : Bytes) (hv1 : 1 ≤ v) (hv5 : v ≤ 5)
    (hx : Expressible v (ask now g) = true) (hb : wBody v now g = .ok body) :
    rdBody v (opcode g) (payloadOf g) body = some (ask now g, []) := by
  cases g with
  | startup opts => exact rdBody_startup v now opts body hx hb
  | options => exact rdBody_options v now body hb
  | authResponse d => exact rdBody_auth v now d body hx hb
  | register l => exact rdBody_register v now l body hx hb
  | query s p pl => exact rdBody_query v now s p pl body hv1 hv5 hx hb
  | prepare s ks pl => exact rdBody_prepare v now s ks pl body hv5 hx hb
  | execute id p pl => exact rdBody_execute v now id p pl body hv1 hv5 hx hb
  | batch typ stmts cons ser dts tsv pl => exact rdBody_batch v now typ stmts cons ser dts tsv pl body hv5 hx hb

/-- **C03_roundtrip.** For every protocol version 1..5, tracing on or off, every stream id in the
    version's range, every request (of any of the eight kinds, with any number of values / batch
    entries) that the version can express: if the builder produces a frame `bs`, the independent
    decoder reads back — from `bs` followed by any further bytes `rest` — exactly the version, the
    tracing flag, the stream id, the request that was asked for, and leaves exactly `rest`
    (so the header's length field equals the body that follows, and the opcode is the request's). -/
theorem C03_roundtrip (v : Nat) (tracing : Bool) (stream now : Int) (g : GReq) (bs rest : Bytes)
    (hv1 : 1 ≤ v) (hv5 : v ≤ 5) (hs : StreamInRange v stream)
    (hx : Expressible v (ask now g) = true)
    (he : encodeReq v tracing stream now g = .ok bs) :
    decodeReq (bs ++ rest) = some ⟨v, tracing, stream, ask now g, rest⟩ :=
  roundtrip_of_body v tracing stream now g bs rest hv1 hv5 hs hx
    (fun body hb => rdBody_w v now g body hv1 hv5 hx hb) he

/-- an expressible request is never rejected by a panic or the named-values error: the only
    failure left is ErrFrameTooBig (more than 256 MiB) -/
theorem C03_expressible_built (v : Nat) (tracing : Bool) (stream now : Int) (g : GReq)
    (hv1 : 1 ≤ v) (hv5 : v ≤ 5) (hx : Expressible v (ask now g) = true) :
    (∃ bs, encodeReq v tracing stream now g = .ok bs) ∨ encodeReq v tracing stream now g = .error .frameTooBig := by
  have hpl := payloadOk_of_expressible v now g hx
  have hnp : ¬ ((payloadOf g).length > 0 ∧ v < 4) := by
    intro ⟨h1, h2⟩
    cases hq : payloadOf g with
    | nil => rw [hq] at h1; simp at h1
    | cons a l =>
      rw [hq] at hpl
      simp only [payloadOk, List.isEmpty_cons, Bool.false_or, Bool.and_eq_true, decide_eq_true_eq] at hpl
      omega
  have hbody : ∃ body, wBody v now g = .ok body := by
    cases g with
    | startup opts => exact ⟨_, rfl⟩
    | options => exact ⟨_, rfl⟩
    | authResponse d => exact ⟨_, rfl⟩
    | register l => exact ⟨_, rfl⟩
    | query s p pl =>
      simp only [Expressible, ask, Bool.and_eq_true] at hx
      by_cases h1 : v = 1
      · exact ⟨_, by simp only [wBody]; rw [if_neg (fun h => h.1 h1)]⟩
      · have hp := hx.2; simp only [h1, if_false] at hp
        have := no_keyspace_panic v now p hp
        exact ⟨_, by simp only [wBody]; rw [if_neg (fun h => this h.2)]⟩
    | prepare s ks pl =>
      simp only [Expressible, ask, Bool.and_eq_true, Bool.or_eq_true, decide_eq_true_eq] at hx
      have : ¬ (ks ≠ [] ∧ ¬ v > 4) := by
        intro ⟨hk, hv⟩
        have h := hx.2
        simp only [hk, if_false, Option.isNone_some, Bool.false_eq_true, false_or] at h
        omega
      exact ⟨_, by simp only [wBody]; rw [if_neg this]⟩
    | execute id p pl =>
      simp only [Expressible, ask, Bool.and_eq_true] at hx
      by_cases h1 : v = 1
      · have hgt : ¬ v > 1 := by omega
        exact ⟨_, by simp only [wBody]; rw [if_neg hgt]⟩
      · have hp := hx.2; simp only [h1, if_false] at hp
        have := no_keyspace_panic v now p hp
        have hgt : v > 1 := by omega
        exact ⟨_, by simp only [wBody]; rw [if_pos hgt, if_neg this]⟩
    | batch typ stmts cons ser dts tsv pl =>
      simp only [Expressible, ask, Bool.and_eq_true, List.all_eq_true, List.mem_map, forall_exists_index,
        and_imp, forall_apply_eq_imp_iff₂] at hx
      have hst := hx.1.1.1.1.1.2
      have : ¬ (v > 2 ∧ stmts.any (fun s => s.values.any (fun x => decide (x.name ≠ []))) = true) := by
        intro ⟨_, h⟩
        simp only [List.any_eq_true] at h
        obtain ⟨s, hs, x, hx1, hx2⟩ := h
        have := stmt_unnamed v s (hst s hs)
        rw [List.any_eq_false] at this
        exact this x hx1 hx2
      exact ⟨_, by simp only [wBody]; rw [if_neg this]⟩
  obtain ⟨body, hb⟩ := hbody
  unfold encodeReq
  simp only [hnp, if_false, hb]
  by_cases hsz : (if v > 2 then 9 else 8) + (wPayload (payloadOf g) ++ body).length > maxFrameSize
  · right; rw [if_pos hsz]
  · left; exact ⟨_, by rw [if_neg hsz]⟩

/-- a frame that is produced never exceeds the protocol's 256 MiB limit -/
theorem C03_frame_size (v : Nat) (tracing : Bool) (stream now : Int) (g : GReq) (bs : Bytes)
    (he : encodeReq v tracing stream now g = .ok bs) : bs.length ≤ maxFrameSize := by
  unfold encodeReq at he
  by_cases hnp : (payloadOf g).length > 0 ∧ v < 4
  · simp [hnp] at he
  · simp only [hnp, if_false] at he
    cases hb : wBody v now g with
    | error e => simp [hb] at he
    | ok body =>
      simp only [hb] at he
      by_cases hsz : (if v > 2 then 9 else 8) + (wPayload (payloadOf g) ++ body).length > maxFrameSize
      · rw [if_pos hsz] at he; cases he
      · rw [if_neg hsz] at he
        injection he with he
        subst he
        simp only [wHeader, wUInt, List.length_append, List.length_cons, List.length_nil] at hsz ⊢
        split at hsz <;> rename_i hv <;> simp only [hv, if_true, if_false, List.length_cons, List.length_nil] <;> omega

end C03
