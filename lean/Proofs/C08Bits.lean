import Model.Streams
/-! C08 helper lemmas: bit-level facts about `mask`, `bitAt`, point updates of the bitset, counting -/
namespace C08
open Streams

theorem streamOffset_lt (j : Nat) : streamOffset j < 64 := by unfold streamOffset; omega

theorem mask_getLsbD (j i : Nat) : (mask j).getLsbD i = decide (i = streamOffset j) := by
  have h := streamOffset_lt j
  unfold mask
  rw [BitVec.getLsbD_shiftLeft]
  by_cases hi : i = streamOffset j
  · subst hi; simp [h]
  · simp [hi, BitVec.getLsbD_one]
    omega

theorem and_mask_eq_zero (b : Word) (j : Nat) : (b &&& mask j == 0#64) = !b.getLsbD (streamOffset j) := by
  have h := streamOffset_lt j
  cases hb : b.getLsbD (streamOffset j)
  · simp
    apply BitVec.eq_of_getLsbD_eq
    intro i hi
    simp [mask_getLsbD]
    intro h1 h2; subst h2; simp [hb] at h1
  · simp
    intro heq
    have := congrArg (fun v => v.getLsbD (streamOffset j)) heq
    simp [mask_getLsbD, hb] at this

theorem and_mask_ne_mask (b : Word) (j : Nat) : (b &&& mask j ≠ mask j) ↔ b.getLsbD (streamOffset j) = false := by
  have h := streamOffset_lt j
  cases hb : b.getLsbD (streamOffset j)
  · simp
    intro heq
    have := congrArg (fun v => v.getLsbD (streamOffset j)) heq
    simp [mask_getLsbD, hb] at this
  · simp
    apply BitVec.eq_of_getLsbD_eq
    intro i hi
    simp [mask_getLsbD]
    intro h2; subst h2; exact hb

theorem mask_getElem (j i : Nat) (h : i < 64) : (mask j)[i] = decide (i = streamOffset j) := by
  rw [← BitVec.getLsbD_eq_getElem]; exact mask_getLsbD j i

def setBit (ws : List Word) (id : Nat) : List Word := ws.set (id / 64) (ws.getD (id / 64) 0 ||| mask id)
def clrBit (ws : List Word) (id : Nat) : List Word := ws.set (id / 64) (ws.getD (id / 64) 0 &&& ~~~ mask id)

theorem getD_set_eq (ws : List Word) (p : Nat) (w : Word) (h : p < ws.length) : (ws.set p w).getD p 0 = w := by
  simp [List.getD_eq_getElem?_getD, h]
theorem getD_set_ne (ws : List Word) (p q : Nat) (w : Word) (h : p ≠ q) : (ws.set p w).getD q 0 = ws.getD q 0 := by
  simp [List.getD_eq_getElem?_getD, h]

theorem streamOffset_inj {a b : Nat} (h : a / 64 = b / 64) (h2 : streamOffset a = streamOffset b) : a = b := by
  unfold streamOffset at h2; omega

theorem bitAt_setBit (ws : List Word) (id id' : Nat) (h : id / 64 < ws.length) :
    bitAt (setBit ws id) id' = (decide (id' = id) || bitAt ws id') := by
  unfold bitAt setBit
  by_cases hw : id / 64 = id' / 64
  · rw [← hw, getD_set_eq _ _ _ h]
    simp [mask_getLsbD]
    by_cases he : id' = id
    · subst he; simp
    · have : streamOffset id' ≠ streamOffset id := fun h2 => he (streamOffset_inj hw.symm h2)
      simp [he, this]
  · rw [getD_set_ne _ _ _ _ hw]
    have : id' ≠ id := by intro h2; subst h2; exact hw rfl
    simp [this]

theorem bitAt_clrBit (ws : List Word) (id id' : Nat) (h : id / 64 < ws.length) :
    bitAt (clrBit ws id) id' = (!decide (id' = id) && bitAt ws id') := by
  unfold bitAt clrBit
  by_cases hw : id / 64 = id' / 64
  · rw [← hw, getD_set_eq _ _ _ h]
    have hlt := streamOffset_lt id'
    simp [mask_getElem, hlt]
    by_cases he : id' = id
    · subst he; simp
    · have : streamOffset id' ≠ streamOffset id := fun h2 => he (streamOffset_inj hw.symm h2)
      simp [he, this]
  · rw [getD_set_ne _ _ _ _ hw]
    have : id' ≠ id := by intro h2; subst h2; exact hw rfl
    simp [this]

theorem length_setBit (ws : List Word) (id : Nat) : (setBit ws id).length = ws.length := by simp [setBit]
theorem length_clrBit (ws : List Word) (id : Nat) : (clrBit ws id).length = ws.length := by simp [clrBit]

/-- number of ids below `k` satisfying `p` -/
def countBelow (p : Nat → Bool) : Nat → Nat
  | 0 => 0
  | k + 1 => countBelow p k + (if p k then 1 else 0)

theorem countBelow_congr {p q : Nat → Bool} (k : Nat) (h : ∀ x, x < k → p x = q x) : countBelow p k = countBelow q k := by
  induction k with
  | zero => rfl
  | succ k ih => simp [countBelow, ih (fun x hx => h x (by omega)), h k (by omega)]

theorem countBelow_set {p q : Nat → Bool} (a : Nat) (hq : ∀ x, q x = (decide (x = a) || p x)) (hp : p a = false) (k : Nat) :
    countBelow q k = countBelow p k + (if a < k then 1 else 0) := by
  induction k with
  | zero => simp [countBelow]
  | succ k ih =>
    simp only [countBelow, ih, hq k]
    by_cases h1 : k = a
    · subst h1; simp [hp]
    · by_cases h2 : a < k
      · have : a < k + 1 := by omega
        simp [h1, h2, this]; omega
      · have : ¬ a < k + 1 := by omega
        simp [h1, h2, this]

theorem countBelow_clr {p q : Nat → Bool} (a : Nat) (hq : ∀ x, q x = (!decide (x = a) && p x)) (hp : p a = true) (k : Nat) :
    countBelow q k + (if a < k then 1 else 0) = countBelow p k := by
  induction k with
  | zero => simp [countBelow]
  | succ k ih =>
    simp only [countBelow, ← ih, hq k]
    by_cases h1 : k = a
    · subst h1; simp [hp]
    · by_cases h2 : a < k
      · have : a < k + 1 := by omega
        simp [h1, h2, this]; omega
      · have : ¬ a < k + 1 := by omega
        simp [h1, h2, this]

theorem countBelow_le (p : Nat → Bool) (k : Nat) : countBelow p k ≤ k := by
  induction k with
  | zero => simp [countBelow]
  | succ k ih => simp only [countBelow]; split <;> omega

theorem countBelow_eq_all {p : Nat → Bool} (k : Nat) (h : countBelow p k = k) : ∀ x, x < k → p x = true := by
  induction k with
  | zero => intro x hx; omega
  | succ k ih =>
    simp only [countBelow] at h
    have hle := countBelow_le p k
    intro x hx
    by_cases hpk : p k
    · simp [hpk] at h
      by_cases hxk : x = k
      · subst hxk; exact hpk
      · exact ih h x (by omega)
    · simp [hpk] at h; omega

theorem countBelow_lt_exists {p : Nat → Bool} (k : Nat) (h : countBelow p k < k) : ∃ x, x < k ∧ p x = false := by
  induction k with
  | zero => omega
  | succ k ih =>
    simp only [countBelow] at h
    by_cases hpk : p k
    · simp [hpk] at h
      obtain ⟨x, hx, hpx⟩ := ih h
      exact ⟨x, by omega, hpx⟩
    · exact ⟨k, by omega, by simpa using hpk⟩

theorem countP_set {α : Type} (f : α → Bool) (l : List α) (t : Nat) (x a : α) (h : l[t]? = some a) :
    (l.set t x).countP f + (if f a then 1 else 0) = l.countP f + (if f x then 1 else 0) := by
  induction l generalizing t with
  | nil => simp at h
  | cons y ys ih =>
    cases t with
    | zero =>
      simp at h; subst h
      simp [List.countP_cons]; omega
    | succ t =>
      simp at h
      have := ih t h
      simp [List.countP_cons]; omega

theorem get_set {α : Type} {l : List α} {t : Nat} {a : α} (ht : l[t]? = some a) (x : α) (u : Nat) :
    (l.set t x)[u]? = if t = u then some x else l[u]? := by
  have hlt : t < l.length := by
    rcases Nat.lt_or_ge t l.length with h | h
    · exact h
    · rw [List.getElem?_eq_none h] at ht; cases ht
  rw [List.getElem?_set]; simp [hlt]

end C08
