import Model.Policies
import Proofs.C11Cow
/-! helper lemmas: `cowHostList.add` / `remove` run by several threads — every schedule of the atomic steps under
the mutex discipline is a linearisation; calls on different addresses commute and none is lost -/
namespace C11
open Policies Policies.Cow

variable {σ : Type}

/-- what the holder `h` of the mutex has done so far (the calls `pre` are complete) -/
def holderOk (fs : Nat → σ → σ) (x : σ) (pre : List Nat) (h : Nat) (shared : σ) : Pc σ → Prop
  | .locked => shared = seq fs pre x
  | .loaded snap => shared = seq fs pre x ∧ snap = shared
  | .computed new => shared = seq fs pre x ∧ new = fs h (seq fs pre x)
  | .stored => shared = seq fs (pre ++ [h]) x
  | _ => False

/-- invariant of the locked discipline: `order` = the calls in the order in which they took the mutex -/
structure LInv (n : Nat) (fs : Nat → σ → σ) (x : σ) (s : Sys σ) (order : List Nat) : Prop where
  nodup : order.Nodup
  lt : ∀ i ∈ order, i < n
  idle : ∀ i, i ∉ order → s.pcs i = .idle
  free : s.mu = none → (∀ i ∈ order, s.pcs i = .done) ∧ s.shared = seq fs order x
  held : ∀ h, s.mu = some h → ∃ pre, order = pre ++ [h] ∧ (∀ i ∈ pre, s.pcs i = .done) ∧
    holderOk fs x pre h s.shared (s.pcs h)

theorem seq_snoc (fs : Nat → σ → σ) (pre : List Nat) (h : Nat) (x : σ) : seq fs (pre ++ [h]) x = fs h (seq fs pre x) := by
  simp [seq, List.foldl_append]

theorem holder_of {n : Nat} {fs : Nat → σ → σ} {x : σ} {s : Sys σ} {order : List Nat} (hI : LInv n fs x s order) (i : Nat)
    (h1 : s.pcs i ≠ .idle) (h2 : s.pcs i ≠ .done) :
    ∃ pre, s.mu = some i ∧ order = pre ++ [i] ∧ (∀ j ∈ pre, s.pcs j = .done) ∧ holderOk fs x pre i s.shared (s.pcs i) := by
  have hi : i ∈ order := by
    apply Classical.byContradiction
    intro hn
    exact h1 (hI.idle i hn)
  cases hm : s.mu with
  | none => exact absurd ((hI.free hm).1 i hi) h2
  | some h =>
    obtain ⟨pre, e, hd, hk⟩ := hI.held h hm
    have : i = h := by
      rw [e, List.mem_append, List.mem_singleton] at hi
      rcases hi with hi | hi
      · exact absurd (hd i hi) h2
      · exact hi
    subst this
    exact ⟨pre, rfl, e, hd, hk⟩

theorem pre_ne {pre : List Nat} {i : Nat} (hn : (pre ++ [i]).Nodup) {j : Nat} (hj : j ∈ pre) : j ≠ i := by
  intro e
  subst e
  rw [List.nodup_append] at hn
  exact hn.2.2 j hj j (by simp) rfl

/-- the holder of the mutex moves on (load, copy, store): nobody else is touched -/
theorem holder_advance {n : Nat} {fs : Nat → σ → σ} {x : σ} {s : Sys σ} {order : List Nat} (hI : LInv n fs x s order)
    (i : Nat) (pre : List Nat) (hm : s.mu = some i) (e : order = pre ++ [i]) (hd : ∀ j ∈ pre, s.pcs j = .done)
    (v : Pc σ) (sh : σ) (hk : holderOk fs x pre i sh v) :
    LInv n fs x { s with shared := sh, pcs := fun j => if j = i then v else s.pcs j } order := by
  have hio : i ∈ order := by rw [e]; simp
  constructor
  · exact hI.nodup
  · exact hI.lt
  · intro j hj
    have : j ≠ i := fun e' => hj (e' ▸ hio)
    simp only [if_neg this]
    exact hI.idle j hj
  · intro h; simp only at h; rw [hm] at h; cases h
  · intro h hh
    simp only at hh
    rw [hm] at hh
    simp only [Option.some.injEq] at hh
    subst hh
    refine ⟨pre, e, ?_, ?_⟩
    · intro j hj
      have : j ≠ i := pre_ne (e ▸ hI.nodup) hj
      simp only [if_neg this]
      exact hd j hj
    · simp only [if_true]
      exact hk

theorem step_inv (n : Nat) (fs : Nat → σ → σ) (x : σ) (s : Sys σ) (order : List Nat) (hI : LInv n fs x s order) (i : Nat) :
    ∃ order', LInv n fs x (step true n fs s i) order' := by
  unfold step
  simp only
  split
  · exact ⟨order, hI⟩
  · rename_i hlt
    have hlt : i < n := Nat.lt_of_not_le hlt
    split
    · -- idle: takes the mutex if it is free
      rename_i hp
      simp only [if_true]
      split
      · rename_i hm
        have hm : s.mu = none := by cases h : s.mu <;> simp_all
        obtain ⟨hd, hs⟩ := hI.free hm
        have hni : i ∉ order := fun hi => by have := hd i hi; rw [hp] at this; cases this
        refine ⟨order ++ [i], ?_⟩
        constructor
        · exact List.nodup_append.mpr ⟨hI.nodup, by simp, fun a ha b hb => by
            simp only [List.mem_singleton] at hb; subst hb; exact fun e => hni (e ▸ ha)⟩
        · intro j hj
          rw [List.mem_append, List.mem_singleton] at hj
          rcases hj with hj | hj
          · exact hI.lt j hj
          · rw [hj]; exact hlt
        · intro j hj
          rw [List.mem_append, List.mem_singleton, not_or] at hj
          simp only [if_neg hj.2]
          exact hI.idle j hj.1
        · intro h; cases h
        · intro h hh
          simp only [Option.some.injEq] at hh
          subst hh
          refine ⟨order, rfl, ?_, ?_⟩
          · intro j hj
            have : j ≠ i := fun e => hni (e ▸ hj)
            simp only [if_neg this]
            exact hd j hj
          · simp only [if_true, holderOk]
            exact hs
      · exact ⟨order, hI⟩
    · -- locked: loads the snapshot
      rename_i hp
      obtain ⟨pre, hm, e, hd, hk⟩ := holder_of hI i (by rw [hp]; simp) (by rw [hp]; simp)
      rw [hp] at hk
      exact ⟨order, holder_advance hI i pre hm e hd _ s.shared ⟨hk, rfl⟩⟩
    · -- loaded: builds the new list
      rename_i snap hp
      obtain ⟨pre, hm, e, hd, hk⟩ := holder_of hI i (by rw [hp]; simp) (by rw [hp]; simp)
      rw [hp] at hk
      simp only [if_true]
      refine ⟨order, holder_advance hI i pre hm e hd _ s.shared ⟨hk.1, ?_⟩⟩
      rw [hk.2, hk.1]
    · -- waiting: not a state of the locked discipline
      rename_i new hp
      obtain ⟨pre, hm, e, hd, hk⟩ := holder_of hI i (by rw [hp]; simp) (by rw [hp]; simp)
      rw [hp] at hk
      exact hk.elim
    · -- computed: publishes
      rename_i new hp
      obtain ⟨pre, hm, e, hd, hk⟩ := holder_of hI i (by rw [hp]; simp) (by rw [hp]; simp)
      rw [hp] at hk
      refine ⟨order, holder_advance hI i pre hm e hd _ new ?_⟩
      show new = seq fs (pre ++ [i]) x
      rw [seq_snoc, hk.2]
    · -- stored: releases the mutex
      rename_i hp
      obtain ⟨pre, hm, e, hd, hk⟩ := holder_of hI i (by rw [hp]; simp) (by rw [hp]; simp)
      rw [hp] at hk
      have hio : i ∈ order := by rw [e]; simp
      refine ⟨order, ?_⟩
      constructor
      · exact hI.nodup
      · exact hI.lt
      · intro j hj
        have : j ≠ i := fun e' => hj (e' ▸ hio)
        simp only [if_neg this]
        exact hI.idle j hj
      · intro _
        refine ⟨?_, ?_⟩
        · intro j hj
          by_cases hji : j = i
          · simp only [if_pos hji]
          · simp only [if_neg hji]
            rw [e, List.mem_append, List.mem_singleton] at hj
            rcases hj with hj | hj
            · exact hd j hj
            · exact absurd hj hji
        · show s.shared = seq fs order x
          rw [e]; exact hk
      · intro h hh; cases hh
    · exact ⟨order, hI⟩

theorem run_inv (n : Nat) (fs : Nat → σ → σ) (x : σ) (sched : List Nat) (s : Sys σ) (order : List Nat)
    (hI : LInv n fs x s order) : ∃ order', LInv n fs x (run true n fs s sched) order' := by
  induction sched generalizing s order with
  | nil => exact ⟨order, hI⟩
  | cons i r ih =>
    obtain ⟨o1, h1⟩ := step_inv n fs x s order hI i
    exact ih _ o1 h1

theorem init_inv (n : Nat) (fs : Nat → σ → σ) (x : σ) : LInv n fs x (init x) [] := by
  constructor
  · exact List.nodup_nil
  · intro i hi; cases hi
  · intro i _; rfl
  · intro _; exact ⟨fun i hi => (by cases hi), rfl⟩
  · intro h hh; cases hh

/-- LINEARIZABILITY of the copy-on-write list under the mutex discipline the unchanged code has: for EVERY
schedule of the atomic steps (lock; load; copy; store; unlock) of `n` concurrent calls, once all calls have
returned the list is the result of the calls applied one after the other in SOME order of all of them (the order
in which they took the mutex) -/
theorem cow_linearizable (n : Nat) (fs : Nat → σ → σ) (x : σ) (sched : List Nat)
    (hd : (run true n fs (init x) sched).allDone n = true) :
    ∃ order : List Nat, order.Perm (List.range n) ∧ (run true n fs (init x) sched).shared = seq fs order x := by
  obtain ⟨order, hI⟩ := run_inv n fs x sched (init x) [] (init_inv n fs x)
  generalize run true n fs (init x) sched = s at hd hI
  have hall : ∀ i, i < n → s.pcs i = .done := by
    intro i hi
    unfold Sys.allDone at hd
    rw [List.all_eq_true] at hd
    have := hd i (List.mem_range.mpr hi)
    cases h : s.pcs i <;> simp_all [Pc.isDone]
  refine ⟨order, ?_, ?_⟩
  · rw [List.perm_ext_iff_of_nodup hI.nodup List.nodup_range]
    intro i
    rw [List.mem_range]
    constructor
    · exact hI.lt i
    · intro hi
      apply Classical.byContradiction
      intro hn
      have h1 := hI.idle i hn
      rw [hall i hi] at h1
      cases h1
  · cases hm : s.mu with
    | none => exact (hI.free hm).2
    | some h =>
      obtain ⟨pre, e, _, hk⟩ := hI.held h hm
      have hlt : h < n := hI.lt h (by rw [e]; simp)
      rw [hall h hlt] at hk
      exact hk.elim

/-! ### the calls of the copy-on-write host list -/

inductive CowOp
  | add (h : Host)       -- `cowHostList.add(h)`
  | remove (ip : Nat)    -- `cowHostList.remove(ip)`
deriving DecidableEq

def CowOp.apply : CowOp → List Host → List Host
  | .add h, l => (cowAdd l h).1
  | .remove ip, l => (cowRemove l ip).1

/-- the connect address a call is about -/
def CowOp.touch : CowOp → Nat
  | .add h => h.addr
  | .remove ip => ip

/-- what is in the list after the calls `ord` (pairwise about different addresses), in whatever order they are
applied: the hosts that were there and whose address no call removes, and the added hosts whose address was free -/
theorem seq_mem_char (ops : Nat → CowOp) (ord : List Nat)
    (hd : ∀ a ∈ ord, ∀ b ∈ ord, (ops a).touch = (ops b).touch → a = b) (hn : ord.Nodup) :
    ∀ (l : List Host) (x : Host), x ∈ seq (fun i => (ops i).apply) ord l ↔
      (x ∈ l ∧ ∀ i ∈ ord, ops i ≠ .remove x.addr) ∨ (∃ i ∈ ord, ops i = .add x ∧ ∀ y ∈ l, y.addr ≠ x.addr) := by
  induction ord with
  | nil => intro l x; simp [seq]
  | cons i r ih =>
    intro l x
    have hd' : ∀ a ∈ r, ∀ b ∈ r, (ops a).touch = (ops b).touch → a = b :=
      fun a ha b hb => hd a (List.mem_cons_of_mem _ ha) b (List.mem_cons_of_mem _ hb)
    have hir : i ∉ r := (List.nodup_cons.mp hn).1
    have hne : ∀ j ∈ r, (ops j).touch ≠ (ops i).touch := by
      intro j hj e
      have := hd j (List.mem_cons_of_mem _ hj) i List.mem_cons_self e
      exact hir (this ▸ hj)
    have hs : seq (fun i => (ops i).apply) (i :: r) l = seq (fun i => (ops i).apply) r ((ops i).apply l) := rfl
    rw [hs, ih hd' (List.nodup_cons.mp hn).2]
    cases hi : ops i with
    | add h =>
      have hm : ∀ y, y ∈ (CowOp.add h).apply l ↔ y ∈ l ∨ (y = h ∧ ∀ z ∈ l, z.addr ≠ h.addr) := fun y => mem_cowAdd l h y
      constructor
      · rintro (⟨h1, h2⟩ | ⟨j, hj, h1, h2⟩)
        · rcases (hm x).mp h1 with h3 | ⟨h3, h4⟩
          · left
            refine ⟨h3, ?_⟩
            intro k hk
            rcases List.mem_cons.mp hk with rfl | hk
            · rw [hi]; simp
            · exact h2 k hk
          · right
            exact ⟨i, List.mem_cons_self, by rw [hi, h3], by rw [h3]; exact h4⟩
        · right
          exact ⟨j, List.mem_cons_of_mem _ hj, h1, fun y hy => h2 y ((hm y).mpr (Or.inl hy))⟩
      · rintro (⟨h1, h2⟩ | ⟨j, hj, h1, h2⟩)
        · left
          exact ⟨(hm x).mpr (Or.inl h1), fun k hk => h2 k (List.mem_cons_of_mem _ hk)⟩
        · rcases List.mem_cons.mp hj with rfl | hj
          · left
            rw [hi] at h1
            injection h1 with h1
            subst h1
            refine ⟨(hm h).mpr (Or.inr ⟨rfl, h2⟩), ?_⟩
            intro k hk e
            apply hne k hk
            rw [e, hi]; rfl
          · right
            refine ⟨j, hj, h1, ?_⟩
            intro y hy
            rcases (hm y).mp hy with h3 | ⟨h3, _⟩
            · exact h2 y h3
            · rw [h3]
              intro e
              apply hne j hj
              rw [h1, hi]; exact e.symm
    | remove ip =>
      have hm : ∀ y, y ∈ (CowOp.remove ip).apply l ↔ y ∈ l ∧ y.addr ≠ ip := fun y => mem_cowRemove l ip y
      constructor
      · rintro (⟨h1, h2⟩ | ⟨j, hj, h1, h2⟩)
        · left
          obtain ⟨h3, h4⟩ := (hm x).mp h1
          refine ⟨h3, ?_⟩
          intro k hk
          rcases List.mem_cons.mp hk with rfl | hk
          · rw [hi]; intro e; injection e with e; exact h4 e.symm
          · exact h2 k hk
        · right
          refine ⟨j, List.mem_cons_of_mem _ hj, h1, ?_⟩
          intro y hy
          by_cases hya : y.addr = ip
          · rw [hya]
            intro e
            apply hne j hj
            rw [h1, hi]; exact e.symm
          · exact h2 y ((hm y).mpr ⟨hy, hya⟩)
      · rintro (⟨h1, h2⟩ | ⟨j, hj, h1, h2⟩)
        · left
          refine ⟨(hm x).mpr ⟨h1, ?_⟩, fun k hk => h2 k (List.mem_cons_of_mem _ hk)⟩
          intro e
          exact h2 i List.mem_cons_self (by rw [hi, e])
        · rcases List.mem_cons.mp hj with rfl | hj
          · rw [hi] at h1; cases h1
          · right
            exact ⟨j, hj, h1, fun y hy => h2 y ((hm y).mp hy).1⟩

end C11
