import Model.CompressLz4Block
/-! helper lemmas for C18: the LZ4 block format (length extension round trip, the literal-only block
    decoded by the format's decoder, its size against CompressBlockBound) -/
namespace Compress

theorem lz4LenExt_put (k : Nat) : ∀ (acc : Nat) (b : UInt8) (rest : Bytes), b ≠ 255 →
    lz4LenExt acc (List.replicate k 255 ++ b :: rest) = some (acc + 255 * k + b.toNat, rest) := by
  induction k with
  | zero => intro acc b rest hb; simp [lz4LenExt, hb]
  | succ k ih =>
    intro acc b rest hb
    simp only [List.replicate_succ, List.cons_append, lz4LenExt, if_true]
    rw [ih (acc + 255) b rest hb]; congr 2; omega

theorem lz4PutLenExt_dec (m : Nat) (acc : Nat) (rest : Bytes) :
    lz4LenExt acc (lz4PutLenExt m ++ rest) = some (acc + m, rest) := by
  have hb : (UInt8.ofNat (m % 255)) ≠ 255 := by
    intro h
    have := congrArg UInt8.toNat h
    simp [UInt8.toNat_ofNat'] at this
    omega
  have hn : (UInt8.ofNat (m % 255)).toNat = m % 255 := by simp [UInt8.toNat_ofNat']; omega
  unfold lz4PutLenExt
  rw [List.append_assoc, List.singleton_append, lz4LenExt_put _ _ _ _ hb, hn]
  congr 2
  have := Nat.div_add_mod m 255
  omega

theorem lz4PutLenExt_length (m : Nat) : (lz4PutLenExt m).length = m / 255 + 1 := by
  simp [lz4PutLenExt]

theorem tok_lit : ∀ k : Fin 15, ((UInt8.ofNat (k.val * 16)) >>> 4).toNat = k.val := by decide

theorem lz4LitBlock_length (x : Bytes) : (lz4LitBlock x).length ≤ blockBound x.length := by
  unfold lz4LitBlock blockBound
  split
  · simp; omega
  · simp [lz4PutLenExt_length]; omega

theorem lz4Seq_lit_short (tok : UInt8) (x : Bytes) (ht : (tok >>> 4).toNat = x.length) (h15 : x.length < 15) :
    lz4Seq tok x x.length #[] = .done x.toArray := by
  have h15' : ¬ x.length = 15 := by omega
  unfold lz4Seq
  simp only [ht, h15', if_false]
  simp

theorem lz4Seq_lit_long (tok : UInt8) (x : Bytes) (ht : (tok >>> 4).toNat = 15) (h15 : ¬ x.length < 15) :
    lz4Seq tok (lz4PutLenExt (x.length - 15) ++ x) x.length #[] = .done x.toArray := by
  have e : 15 + (x.length - 15) = x.length := by omega
  unfold lz4Seq
  simp only [ht, if_true, lz4PutLenExt_dec, e]
  simp

theorem lz4LitBlock_decodes (x : Bytes) (hx : x ≠ []) : lz4BlockDecode (lz4LitBlock x) x.length = .ok x := by
  have hne : lz4LitBlock x ≠ [] := by unfold lz4LitBlock; split <;> simp
  unfold lz4BlockDecode
  rw [if_neg hne]
  by_cases h15 : x.length < 15
  · have ht := tok_lit ⟨x.length, h15⟩
    simp only at ht
    have hseq := lz4Seq_lit_short _ x ht h15
    have hb : lz4LitBlock x = UInt8.ofNat (x.length * 16) :: x := by simp only [lz4LitBlock, h15, if_true]
    rw [hb]
    simp only [lz4Loop, hseq]
  · have hF : ((0xF0 : UInt8) >>> 4).toNat = 15 := by decide
    have hseq := lz4Seq_lit_long _ x hF h15
    have hb : lz4LitBlock x = 0xF0 :: (lz4PutLenExt (x.length - 15) ++ x) := by simp only [lz4LitBlock, h15, if_false]
    rw [hb]
    simp only [lz4Loop, hseq]

end Compress
