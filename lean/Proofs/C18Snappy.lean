import Model.CompressSnappy
/-! helper lemmas for C18: the snappy block format (uvarint round trip, the literal-only encoder
    decoded by the format's decoder, the declared length is checked) -/
namespace Compress

theorem toNat_ofNat8' (n : Nat) : (UInt8.ofNat n).toNat = n % 256 := by
  simp [UInt8.toNat_ofNat']

theorem uvarintGo_put (f : Nat) : ∀ (i m x n : Nat) (rest : Bytes), n < 128 ^ (f + 1) → i + f < 9 →
    uvarintGo i m x (putUvarint f n ++ rest) = some (x + n * m, rest) := by
  induction f with
  | zero =>
    intro i m x n rest hn hi
    have h10 : ¬ i = 10 := by omega
    have h9 : ¬ i = 9 := by omega
    have hn' : n < 128 := by simpa using hn
    have hb : (UInt8.ofNat n).toNat = n := by rw [toNat_ofNat8']; omega
    simp [putUvarint, uvarintGo, h10, h9, hb, hn']
  | succ f ih =>
    intro i m x n rest hn hi
    have h10 : ¬ i = 10 := by omega
    have h9 : ¬ i = 9 := by omega
    by_cases hlt : n < 128
    · have hb : (UInt8.ofNat n).toNat = n := by rw [toNat_ofNat8']; omega
      simp [putUvarint, uvarintGo, h10, h9, hb, hlt]
    · have hb : (UInt8.ofNat (n % 128 + 128)).toNat = n % 128 + 128 := by rw [toNat_ofNat8']; omega
      have hge : ¬ (n % 128 + 128 < 128) := by omega
      have hdiv : n / 128 < 128 ^ (f + 1) := by
        apply Nat.div_lt_of_lt_mul
        rw [Nat.pow_succ, Nat.mul_comm] at hn; exact hn
      have := ih (i + 1) (m * 128) (x + (n % 128) * m) (n / 128) rest hdiv (by omega)
      simp only [putUvarint, hlt, if_false, List.cons_append, uvarintGo, h10, hb, hge]
      rw [show n % 128 + 128 - 128 = n % 128 by omega, this]
      congr 2
      have hdm := Nat.div_add_mod n 128
      calc x + n % 128 * m + n / 128 * (m * 128)
          = x + (128 * (n / 128) + n % 128) * m := by
            rw [Nat.add_mul, Nat.mul_comm m 128, ← Nat.mul_assoc, Nat.mul_comm (n / 128) 128]; omega
        _ = x + n * m := by rw [hdm]

theorem tag_lit : ∀ k : Fin 60, (UInt8.ofNat (k.val * 4)) &&& 3 = 0 ∧ ((UInt8.ofNat (k.val * 4)) >>> 2).toNat = k.val := by
  decide

theorem snapLoop_lit (f : Nat) : ∀ (x : Bytes) (out : Array UInt8) (n g : Nat), x.length ≤ f →
    out.size + x.length = n → (litChunks f x).length < g →
    snapLoop g (litChunks f x) n out = .ok (out ++ x.toArray) := by
  induction f with
  | zero =>
    intro x out n g hx hn hg
    have : x = [] := List.eq_nil_of_length_eq_zero (by omega)
    subst this
    cases g with
    | zero => omega
    | succ g => simp at hn; simp [litChunks, snapLoop, hn]
  | succ f ih =>
    intro x out n g hx hn hg
    by_cases hx0 : x = []
    · subst hx0
      cases g with
      | zero => omega
      | succ g => simp at hn; simp [litChunks, snapLoop, hn]
    · have hpos : 0 < x.length := List.length_pos_iff.mpr hx0
      have hc : (x.take 60).length = min 60 x.length := List.length_take
      have hc1 : 1 ≤ (x.take 60).length := by rw [hc]; omega
      have hc60 : (x.take 60).length - 1 < 60 := by rw [hc]; omega
      obtain ⟨hk, hh⟩ := tag_lit ⟨(x.take 60).length - 1, hc60⟩
      simp only at hk hh
      simp only [litChunks, hx0, if_false] at hg ⊢
      cases g with
      | zero => omega
      | succ g =>
        have hrestlen : (List.take 60 x).length ≤ (List.take 60 x ++ litChunks f (List.drop 60 x)).length := by
          simp
        have hA : ¬ ((List.take 60 x).length - 1 + 1 > n - out.size ∨
              (List.take 60 x).length - 1 + 1 > (List.take 60 x ++ litChunks f (List.drop 60 x)).length) := by
          rw [hc] at *; omega
        have hdl : (x.drop 60).length ≤ f := by simp; omega
        have hsz : (out ++ (x.take 60).toArray).size + (x.drop 60).length = n := by
          simp; omega
        have hg' : (litChunks f (x.drop 60)).length < g := by
          simp at hg; omega
        have ih' := ih (x.drop 60) (out ++ (x.take 60).toArray) n g hdl hsz hg'
        have e1 : (x.take 60).length - 1 + 1 = (x.take 60).length := by omega
        have hel : snapElem (UInt8.ofNat (((x.take 60).length - 1) * 4)) (x.take 60 ++ litChunks f (x.drop 60)) n out
            = some (litChunks f (x.drop 60), out ++ (x.take 60).toArray) := by
          simp only [snapElem, hk, hh, hc60, if_true, Nat.not_lt_zero, if_false, List.drop_zero, hA]
          rw [e1, List.take_left' rfl, List.drop_left' rfl]
        simp only [snapLoop, hel]
        rw [ih', Array.append_assoc]
        simp

theorem snappyLit_decodes (x : Bytes) (hx : x.length ≤ 0xffffffff) : snappyDecode (snappyLit x) = .ok x := by
  have hu : uvarint (putUvarint 4 x.length ++ litChunks x.length x) = some (x.length, litChunks x.length x) := by
    have := uvarintGo_put 4 0 1 0 x.length (litChunks x.length x) (by
      have : (128:Nat) ^ (4 + 1) = 34359738368 := by decide
      rw [this]; omega) (by omega)
    simpa [uvarint] using this
  have hl := snapLoop_lit x.length x #[] x.length ((litChunks x.length x).length + 1) (Nat.le_refl _) (by simp) (by omega)
  have hgt : ¬ x.length > 0xffffffff := by omega
  simp [snappyDecode, snappyDecodedLen, snappyLit, hu, hgt, hl]

/-- whatever the elements are: a successful run of the element loop has produced exactly `n` bytes -/
theorem snapLoop_size (g : Nat) : ∀ (src : Bytes) (n : Nat) (out o : Array UInt8),
    snapLoop g src n out = .ok o → o.size = n := by
  induction g with
  | zero => intro src n out o h; simp [snapLoop] at h
  | succ g ih =>
    intro src n out o h
    cases src with
    | nil =>
      simp only [snapLoop] at h
      split at h
      · injection h with h; subst h; assumption
      · cases h
    | cons tag rest =>
      simp only [snapLoop] at h
      cases he : snapElem tag rest n out with
      | none => simp [he] at h
      | some p => obtain ⟨r, o'⟩ := p; simp only [he] at h; exact ih _ _ _ _ h

end Compress
