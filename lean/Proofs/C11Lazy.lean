import Proofs.C11
/-! # C11 — the iterator with the up/down state read at every call (`Policies.LIter`)

The state of a host object may change between two calls of an iterator (a node goes down while a query is being
retried on the next host). The code reads `h.IsUp()` at the call that reaches `h`. The theorems here are stated for
ARBITRARY sequences of calls in which EVERY call sees an arbitrary policy state and an arbitrary up/down assignment
(so any interleaving with AddHost / RemoveHost / HostUp / HostDown / state changes / other picks is an instance). -/
namespace C11
open Policies

theorem dropWhile_head {α : Type} (p : α → Bool) (l : List α) (x : α) (r : List α) (h : l.dropWhile p = x :: r) :
    p x = false ∧ (x :: r).Sublist l := by
  induction l with
  | nil => simp at h
  | cons a t ih =>
    rw [List.dropWhile_cons] at h
    split at h
    · obtain ⟨h1, h2⟩ := ih h
      exact ⟨h1, h2.trans (List.sublist_cons_self a t)⟩
    · rename_i hp
      injection h with e1 e2
      subst e1 e2
      exact ⟨by simpa using hp, List.Sublist.refl _⟩

theorem scanPos_host (up : Nat → Bool) (used : List Host) (ps : List (Option Host)) (x : Host) (rest : List (Option Host))
    (h : scanPos up used ps = (.host x, rest)) : up x.id = true ∧ x ∉ used := by
  induction ps with
  | nil => simp [scanPos] at h
  | cons a t ih =>
    cases a with
    | none => simp [scanPos] at h
    | some y =>
      unfold scanPos at h
      split at h
      · rename_i hc
        injection h with e1 _
        injection e1 with e1
        subst e1
        simp only [Bool.and_eq_true, Bool.not_eq_true', List.contains_eq_mem, decide_eq_false_iff_not] at hc
        exact hc
      · exact ih h

/-- ONLY UP HOSTS, at the moment of the call: whatever the policy state `t` and the up/down assignment `up` at a
call of the iterator, a host it returns is up NOW, was not offered by this iterator before, and is appended to what
the iterator has offered -/
theorem C11_lazy_iterator_only_up (t : TA) (up : Nat → Bool) (it : LIter) (x : Host)
    (h : (t.nextL up it).2.2 = .host x) :
    up x.id = true ∧ (t.nextL up it).2.1.given = it.given ++ [x] := by
  unfold TA.nextL at h ⊢
  split at h
  · rename_i y r hq
    simp only at h
    injection h with h
    subst h
    exact ⟨by simpa using (dropWhile_head _ _ _ _ hq).1, by simp only⟩
  · rename_i hq
    split at h
    · rename_i y r hq2
      simp only at h
      injection h with h
      subst h
      exact ⟨by simpa using (dropWhile_head _ _ _ _ hq2).1, by simp only⟩
    · rename_i hq2
      simp only at h
      split at h
      · rename_i y rest hs
        simp only at h
        injection h with h
        subst h
        refine ⟨(scanPos_host up _ _ _ _ hs).1, ?_⟩
        simp only [hs]
      · rename_i e rest hne hs
        simp only at h
        subst h
        exact (hne x rfl).elim

/-- what a live iterator keeps: the hosts it has offered and the replicas it has still to look at are pairwise
different -/
def LzInv (it : LIter) : Prop := (it.given ++ (it.q1 ++ it.q2)).Nodup

theorem nextL_plain (t : TA) (up : Nat → Bool) (it : LIter) : (t.nextL up it).2.1.plain = it.plain := by
  unfold TA.nextL
  split
  · rfl
  · split
    · rfl
    · simp only []
      generalize scanPos up (if it.plain = true then [] else it.given)
          (match it.fb with
            | some ps => (t, ps)
            | none => ({ t with pol := t.pol.bump }, t.pol.positions)).2 = p
      obtain ⟨e, rest⟩ := p
      cases e <;> rfl

theorem LzInv_next (t : TA) (up : Nat → Bool) (it : LIter) (hpl : it.plain = false) (hi : LzInv it) :
    LzInv (t.nextL up it).2.1 := by
  unfold LzInv at hi ⊢
  unfold TA.nextL
  split
  · rename_i y r hq
    simp only
    have hs := (dropWhile_head _ _ _ _ hq).2
    have : (it.given ++ ([y] ++ (r ++ it.q2))).Sublist (it.given ++ (it.q1 ++ it.q2)) := by
      apply List.Sublist.append_left
      have : ([y] ++ (r ++ it.q2)) = (y :: r) ++ it.q2 := by simp
      rw [this]
      exact List.Sublist.append_right hs _
    simpa [List.append_assoc] using this.nodup hi
  · rename_i hq
    split
    · rename_i y r hq2
      simp only
      have hs := (dropWhile_head _ _ _ _ hq2).2
      have : (it.given ++ ([y] ++ r)).Sublist (it.given ++ (it.q1 ++ it.q2)) := by
        apply List.Sublist.append_left
        exact (show ([y] ++ r) = y :: r by simp) ▸ hs.trans (List.sublist_append_right _ _)
      simpa [List.append_assoc] using this.nodup hi
    · rename_i hq2
      have hg : it.given.Nodup := (List.nodup_append.mp hi).1
      simp only
      split
      · rename_i y rest hs
        simp only [List.append_nil]
        rw [List.nodup_append]
        refine ⟨hg, (by simp), ?_⟩
        intro a ha b hb e
        subst e
        simp only [List.mem_singleton] at hb
        subst hb
        have := (scanPos_host up _ _ _ _ hs).2
        rw [hpl] at this
        exact this ha
      · simp only [List.append_nil]
        exact hg

/-! a query handed to the fallback policy as it is: the iterator is the fallback policy's own, which keeps no `used`
map - what it offers is a subsequence of the hosts at the positions of its ONE snapshot -/

theorem scanPos_nil_sub (up : Nat → Bool) (ps rest : List (Option Host)) (x : Host)
    (h : scanPos up [] ps = (.host x, rest)) : (x :: rest.filterMap id).Sublist (ps.filterMap id) := by
  induction ps with
  | nil => simp [scanPos] at h
  | cons a t ih =>
    cases a with
    | none => simp [scanPos] at h
    | some y =>
      unfold scanPos at h
      split at h
      · injection h with e1 e2
        injection e1 with e1
        subst e1 e2
        simp
      · have := ih h
        simp only [List.filterMap_cons, id_eq]
        exact this.trans (List.sublist_cons_self _ _)

theorem scanPos_rest_sub (up : Nat → Bool) (used : List Host) (ps : List (Option Host)) :
    ((scanPos up used ps).2.filterMap id).Sublist (ps.filterMap id) := by
  induction ps with
  | nil => simp [scanPos]
  | cons a t ih =>
    cases a with
    | none => simp [scanPos]
    | some y =>
      unfold scanPos
      split
      · simp
      · simp only [List.filterMap_cons, id_eq]
        exact ih.trans (List.sublist_cons_self _ _)

/-- the plain iterator: no replicas to look at, fallback positions exist, and what was offered followed by the hosts at
the positions still to come is a subsequence of the hosts of the snapshot `P` -/
def PlainInv (P : List Host) (it : LIter) : Prop :=
  it.plain = true ∧ it.q1 = [] ∧ it.q2 = [] ∧ ∃ ps, it.fb = some ps ∧ (it.given ++ ps.filterMap id).Sublist P

theorem PlainInv_next (P : List Host) (t : TA) (up : Nat → Bool) (it : LIter) (hi : PlainInv P it) :
    PlainInv P (t.nextL up it).2.1 := by
  obtain ⟨h1, h2, h3, ps, h4, h5⟩ := hi
  obtain ⟨given, q1, q2, fb, plain⟩ := it
  simp only at h1 h2 h3 h4 h5
  subst h1 h2 h3 h4
  simp only [TA.nextL, List.dropWhile_nil, if_true]
  split
  · rename_i y rest hs
    refine ⟨rfl, rfl, rfl, rest, rfl, ?_⟩
    have := scanPos_nil_sub up ps rest y hs
    simp only [List.append_assoc, List.singleton_append]
    exact (List.Sublist.append_left this given).trans h5
  · rename_i e rest hne hs
    refine ⟨rfl, rfl, rfl, rest, rfl, ?_⟩
    have := scanPos_rest_sub up [] ps
    rw [hs] at this
    exact (List.Sublist.append_left this given).trans h5

theorem runScan_true (l : List (Option Host)) (h : (runScan (fun _ => true) l).crashed = false) :
    (runScan (fun _ => true) l).offered = l.filterMap id := by
  induction l with
  | nil => rfl
  | cons a t ih =>
    cases a with
    | none => simp [runScan] at h
    | some y =>
      simp only [runScan, if_true] at h ⊢
      simp only [List.filterMap_cons, id_eq]
      rw [ih h]

/-- below the counter bound the hosts at the positions of the fallback policy's next iterator are pairwise different -/
theorem positions_nodup (p : Pol) (hp : Inv p) (hb : Pol.below p) : (p.positions.filterMap id).Nodup := by
  have hs := pickScan_small p (fun _ => true) hb
  have hc : (runScan (fun _ => true) p.positions).crashed = false := by
    have : (p.pickScan (fun _ => true)).crashed = false := by rw [hs]
    exact this
  have ho : (runScan (fun _ => true) p.positions).offered = p.pickSeq (fun _ => true) := by
    have : (p.pickScan (fun _ => true)).offered = p.pickSeq (fun _ => true) := by rw [hs]
    exact this
  rw [← runScan_true _ hc, ho]
  exact pickSeq_nodup p hp _

theorem lazy_routed_nodup (calls : List (TA × (Nat → Bool))) :
    ∀ it : LIter, it.plain = false → LzInv it → LzInv (calls.foldl (fun it c => (c.1.nextL c.2 it).2.1) it) := by
  induction calls with
  | nil => intro it _ hi; exact hi
  | cons c r ih =>
    intro it hpl hi
    exact ih _ ((nextL_plain c.1 c.2 it).trans hpl) (LzInv_next c.1 c.2 it hpl hi)

theorem lazy_plain_inv (P : List Host) (calls : List (TA × (Nat → Bool))) :
    ∀ it : LIter, PlainInv P it → PlainInv P (calls.foldl (fun it c => (c.1.nextL c.2 it).2.1) it) := by
  induction calls with
  | nil => intro it hi; exact hi
  | cons c r ih => intro it hi; exact ih _ (PlainInv_next P c.1 c.2 it hi)

/-- NO HOST TWICE, whatever happens between the calls: an iterator opened by `Pick` in ANY policy state `t0` on a replica
list without duplicates (tables with duplicate-free lists, the shuffle a permutation), then called any number of times,
EVERY call in an arbitrary policy state and under an arbitrary up/down assignment of the host objects (any
interleaving with topology calls, state changes and other iterators), never offers a host twice. (For a query handed
to the fallback policy as it is the iterator is `roundRobbin`'s own - no `used` map -: there the hosts at the positions
of its one snapshot must be pairwise different, which `positions_nodup` gives below the counter bound of KF-C11-3.) -/
theorem C11_lazy_iterator_no_host_twice (t0 : TA) (σ : List Host → List Host) (hσ : ∀ l, (σ l).Perm l)
    (rk : Option (Nat × Nat)) (hrep : ∀ e ∈ t0.replicas, ∀ f ∈ e.2, f.2.Nodup)
    (hpos : (t0.pol.positions.filterMap id).Nodup) (calls : List (TA × (Nat → Bool))) :
    (calls.foldl (fun it c => (c.1.nextL c.2 it).2.1) (t0.openL σ rk).2).given.Nodup := by
  have plainCase : (t0.openL σ rk).2 = ⟨[], [], [], some t0.pol.positions, true⟩ →
      (calls.foldl (fun it c => (c.1.nextL c.2 it).2.1) (t0.openL σ rk).2).given.Nodup := by
    intro e
    rw [e]
    have h0 : PlainInv (t0.pol.positions.filterMap id) ⟨[], [], [], some t0.pol.positions, true⟩ :=
      ⟨rfl, rfl, rfl, t0.pol.positions, rfl, by simp⟩
    obtain ⟨_, _, _, ps, _, hsub⟩ := lazy_plain_inv _ calls _ h0
    exact (List.nodup_append.mp (hsub.nodup hpos)).1
  cases rk with
  | none => exact plainCase rfl
  | some kt =>
    obtain ⟨ks, tok⟩ := kt
    cases hr : t0.replicasFor ks tok with
    | noRing => exact plainCase (by simp only [TA.openL, hr])
    | emptyRing => exact plainCase (by simp only [TA.openL, hr])
    | hosts l ft =>
      have hreps : l.Nodup := replicasFor_nodup t0 hrep ks tok l ft hr
      have hreps' : (if (ft && t0.shuffle) = true then σ l else l).Nodup := by
        split
        · exact (hσ l).nodup_iff.mpr hreps
        · exact hreps
      have hn := taHead_nodup t0.pol.tier t0.pol.maxTier (fun _ => true) t0.nonlocal _ hreps'
      have h1 : (t0.openL σ (some (ks, tok))).2.plain = false := by simp only [TA.openL, hr]
      have h2 : LzInv (t0.openL σ (some (ks, tok))).2 := by
        unfold LzInv
        simp only [TA.openL, hr, List.nil_append]
        exact hn
      exact (List.nodup_append.mp (lazy_routed_nodup calls _ h1 h2)).1

/-- non-vacuity, and what the eager model cannot say: replicas a (local rack), c; iterator opened with everything up;
a is returned; then c goes DOWN before the second call and d before the third: neither is offered although both were
up at the `Pick`; b (up throughout) is; a is not offered again by the fallback phase -/
example :
    let it0 := (cexTAok.openL id (some (0, 50))).2
    let s1 := cexTAok.nextL (fun _ => true) it0
    let s2 := s1.1.nextL (fun i => i != 3) s1.2.1
    let s3 := s2.1.nextL (fun i => i != 3 && i != 4) s2.2.1
    s1.2.2 = .host cexA' ∧ s2.2.2 = .host cexB' ∧ s3.2.2 = .done ∧ s3.2.1.given = [cexA', cexB'] := by
  decide

/-! ### completeness while states and lists change -/

theorem mem_dropWhile_of_not {α : Type} (p : α → Bool) (l : List α) (x : α) (hx : x ∈ l) (hp : p x = false) :
    x ∈ l.dropWhile p := by
  induction l with
  | nil => cases hx
  | cons a t ih =>
    rw [List.dropWhile_cons]
    split
    · rename_i hpa
      rcases List.mem_cons.mp hx with e | e
      · subst e; rw [hp] at hpa; cases hpa
      · exact ih e
    · exact hx

theorem scanPos_done (up : Nat → Bool) (used : List Host) (ps rest : List (Option Host))
    (h : scanPos up used ps = (.done, rest)) : ∀ y, some y ∈ ps → up y.id = true → y ∈ used := by
  induction ps with
  | nil => intro y hy; cases hy
  | cons a t ih =>
    cases a with
    | none => simp [scanPos] at h
    | some z =>
      unfold scanPos at h
      split at h
      · simp at h
      · rename_i hc
        intro y hy hu
        rcases List.mem_cons.mp hy with e | e
        · injection e with e
          subst e
          simp only [Bool.and_eq_true, Bool.not_eq_true', List.contains_eq_mem, decide_eq_false_iff_not, not_and,
            Classical.not_not] at hc
          exact hc hu
        · exact ih h y e hu

theorem scanPos_host_rest (up : Nat → Bool) (used : List Host) (ps rest : List (Option Host)) (x : Host)
    (h : scanPos up used ps = (.host x, rest)) :
    ∀ y, some y ∈ ps → up y.id = true → y ∈ used ∨ y = x ∨ some y ∈ rest := by
  induction ps with
  | nil => simp [scanPos] at h
  | cons a t ih =>
    cases a with
    | none => simp [scanPos] at h
    | some z =>
      unfold scanPos at h
      split at h
      · injection h with e1 e2
        injection e1 with e1
        subst e1 e2
        intro y hy _
        rcases List.mem_cons.mp hy with e | e
        · injection e with e; exact Or.inr (Or.inl e)
        · exact Or.inr (Or.inr e)
      · rename_i hc
        intro y hy hu
        rcases List.mem_cons.mp hy with e | e
        · injection e with e
          subst e
          simp only [Bool.and_eq_true, Bool.not_eq_true', List.contains_eq_mem, decide_eq_false_iff_not, not_and,
            Classical.not_not] at hc
          exact Or.inl (hc hu)
        · exact ih h y e hu

/-- the calls of one iterator, every call in its own policy state and under its own up/down assignment; the results
are collected -/
def runLR (it : LIter) : List (TA × (Nat → Bool)) → LIter × List Next
  | [] => (it, [])
  | c :: r => ((runLR (c.1.nextL c.2 it).2.1 r).1, (c.1.nextL c.2 it).2.2 :: (runLR (c.1.nextL c.2 it).2.1 r).2)

/-- where a host that must still be offered is: offered already, among the replicas still to be looked at, at a
position of the fallback iterator still to be looked at - or the fallback iterator does not exist yet -/
def Pending (it : LIter) (h : Host) : Prop :=
  h ∈ it.given ∨ h ∈ it.q1 ∨ h ∈ it.q2 ∨ (∃ ps, it.fb = some ps ∧ some h ∈ ps) ∨ it.fb = none

theorem pending_next (t : TA) (up : Nat → Bool) (it : LIter) (h : Host) (hu : up h.id = true)
    (hl : some h ∈ t.pol.positions) (hk : Pending it h) (hnp : (t.nextL up it).2.2 ≠ .panic) :
    Pending (t.nextL up it).2.1 h ∧ ((t.nextL up it).2.2 = .done → h ∈ (t.nextL up it).2.1.given) := by
  have hnot : (fun x : Host => !up x.id) h = false := by simp [hu]
  have hnp' := hnp
  unfold TA.nextL at hnp' ⊢
  split
  · -- a tier-0 replica is returned
    rename_i y r hq
    refine ⟨?_, fun hd => by cases hd⟩
    simp only
    rcases hk with hk | hk | hk | hk | hk
    · exact Or.inl (List.mem_append_left _ hk)
    · have := mem_dropWhile_of_not (fun x : Host => !up x.id) _ h hk hnot
      rw [hq] at this
      rcases List.mem_cons.mp this with e | e
      · exact Or.inl (by rw [e]; simp)
      · exact Or.inr (Or.inl e)
    · exact Or.inr (Or.inr (Or.inl hk))
    · exact Or.inr (Or.inr (Or.inr (Or.inl hk)))
    · exact Or.inr (Or.inr (Or.inr (Or.inr hk)))
  · rename_i hq
    have hq1 : h ∉ it.q1 := fun hm => by
      have := mem_dropWhile_of_not (fun x : Host => !up x.id) _ h hm hnot
      rw [hq] at this; cases this
    split
    · -- a replica of a farther tier is returned
      rename_i y r hq2
      refine ⟨?_, fun hd => by cases hd⟩
      simp only
      rcases hk with hk | hk | hk | hk | hk
      · exact Or.inl (List.mem_append_left _ hk)
      · exact absurd hk hq1
      · have := mem_dropWhile_of_not (fun x : Host => !up x.id) _ h hk hnot
        rw [hq2] at this
        rcases List.mem_cons.mp this with e | e
        · exact Or.inl (by rw [e]; simp)
        · exact Or.inr (Or.inr (Or.inl e))
      · exact Or.inr (Or.inr (Or.inr (Or.inl hk)))
      · exact Or.inr (Or.inr (Or.inr (Or.inr hk)))
    · -- the fallback phase
      rename_i hq2
      have hq2' : h ∉ it.q2 := fun hm => by
        have := mem_dropWhile_of_not (fun x : Host => !up x.id) _ h hm hnot
        rw [hq2] at this; cases this
      -- the positions walked now contain h unless it was offered
      have hpos : h ∈ it.given ∨ some h ∈ (match it.fb with | some ps => (t, ps) | none => ({ t with pol := t.pol.bump }, t.pol.positions)).2 := by
        rcases hk with hk | hk | hk | ⟨ps, hps, hm⟩ | hk
        · exact Or.inl hk
        · exact absurd hk hq1
        · exact absurd hk hq2'
        · right; rw [hps]; exact hm
        · right; rw [hk]; exact hl
      simp only at ⊢
      split
      · rename_i y rest hs
        refine ⟨?_, fun hd => by cases hd⟩
        simp only
        rcases hpos with hg | hm
        · exact Or.inl (List.mem_append_left _ hg)
        · rcases scanPos_host_rest up _ _ _ _ hs h hm hu with e | e | e
          · refine Or.inl (List.mem_append_left _ ?_)
            split at e
            · cases e
            · exact e
          · exact Or.inl (by rw [e]; simp)
          · exact Or.inr (Or.inr (Or.inr (Or.inl ⟨rest, rfl, e⟩)))
      · rename_i e rest hne hs
        simp only
        cases e with
        | host x => exact (hne x rfl).elim
        | panic =>
          exfalso
          apply hnp
          simp only [TA.nextL, hq, hq2, hs]
        | done =>
          have hg : h ∈ it.given := by
            rcases hpos with hg | hm
            · exact hg
            · have e := scanPos_done up _ _ _ hs h hm hu
              split at e
              · cases e
              · exact e
          exact ⟨Or.inl hg, fun _ => hg⟩

/-- COMPLETENESS WHILE STATES AND LISTS CHANGE: an iterator (any iterator `Pick` can return: `fb = none`, or its
fallback positions contain `h`) is called any number of times, every call in an arbitrary policy state and under an
arbitrary up/down assignment, no call panics, and the LAST call returns nil. Then every host `h` that during the whole
life of the iterator was up at every call and stood at a position of the fallback policy's lists in the state of every
call (it stayed listed and up - whatever was added, removed, reported or changed state around it) HAS BEEN OFFERED. -/
theorem C11_lazy_iterator_complete (it0 : LIter) (calls : List (TA × (Nat → Bool))) (last : TA × (Nat → Bool)) (h : Host)
    (h0 : Pending it0 h)
    (hall : ∀ c ∈ calls ++ [last], c.2 h.id = true ∧ some h ∈ c.1.pol.positions)
    (hnp : ∀ r ∈ (runLR it0 (calls ++ [last])).2, r ≠ .panic)
    (hend : (runLR it0 (calls ++ [last])).2.getLast? = some .done) :
    h ∈ (runLR it0 (calls ++ [last])).1.given := by
  induction calls generalizing it0 with
  | nil =>
    simp only [List.nil_append, runLR] at hnp hend ⊢
    have hc := hall last (by simp)
    have hr : (last.1.nextL last.2 it0).2.2 = .done := by simpa using hend
    exact (pending_next last.1 last.2 it0 h hc.1 hc.2 h0 (by rw [hr]; simp)).2 hr
  | cons c r ih =>
    simp only [List.cons_append, runLR] at hnp hend ⊢
    have hc := hall c (by simp)
    have hn1 : (c.1.nextL c.2 it0).2.2 ≠ .panic := hnp _ (by simp)
    have hp := (pending_next c.1 c.2 it0 h hc.1 hc.2 h0 hn1).1
    apply ih _ hp (fun d hd => hall d (by simp at hd ⊢; exact Or.inr hd))
      (fun x hx => hnp x (List.mem_cons_of_mem _ hx))
    have hne : (runLR (c.1.nextL c.2 it0).2.1 (r ++ [last])).2 ≠ [] := by
      cases r <;> simp [runLR]
    rw [List.getLast?_cons_of_ne_nil hne] at hend
    exact hend

/-- every host the fallback policy knows stands at a position of its next iterator (below the counter bound) -/
theorem known_position (p : Pol) (hp : Inv p) (hb : Pol.below p) (h : Host) (hk : known p h) : some h ∈ p.positions := by
  have hs := pickScan_small p (fun _ => true) hb
  have hm : h ∈ p.pickSeq (fun _ => true) := (mem_pickSeq p hp _ h).mpr ⟨hk, rfl⟩
  have : h ∈ (p.pickScan (fun _ => true)).offered := by rw [hs]; exact hm
  have key : ∀ l : List (Option Host), ∀ x, x ∈ (runScan (fun _ => true) l).offered → some x ∈ l := by
    intro l
    induction l with
    | nil => intro x hx; simp [runScan] at hx
    | cons a t ih =>
      cases a with
      | none => intro x hx; simp [runScan] at hx
      | some y =>
        intro x hx
        simp only [runScan, if_true, List.mem_cons] at hx
        rcases hx with e | e
        · rw [e]; exact List.mem_cons_self
        · exact List.mem_cons_of_mem _ (ih x e)
  exact key _ h this

/-- non-vacuity of the completeness theorem: replicas a, c; c goes down after the first call and d is REMOVED from
the lists before the iterator reaches its fallback phase; b stays up and listed: it is offered, the last call returns nil -/
example :
    let it0 := (cexTAok.openL id (some (0, 50))).2
    let t1 := cexTAok.apply (.remove cexD')
    let r := runLR it0 [(cexTAok, fun _ => true), (t1, fun i => i != 3), (t1, fun i => i != 3)]
    r.2 = [.host cexA', .host cexB', .done] ∧ r.1.given = [cexA', cexB'] ∧ Pending it0 cexB' ∧
      some cexB' ∈ cexTAok.pol.positions ∧ some cexB' ∈ t1.pol.positions := by
  refine ⟨by decide, by decide, Or.inr (Or.inr (Or.inr (Or.inr rfl))), by decide, by decide⟩

end C11
