import Proofs.C11
/-! # C11 — the iterator with the up/down state read at every call (`Policies.LIter`)

The state of a host object may change between two calls of an iterator (a node goes down while a query is being
retried on the next host). The code reads `h.IsUp()` at the call that reaches `h`. The theorems here are stated for
ARBITRARY sequences of calls in which EVERY call sees an arbitrary policy state and an arbitrary up/down assignment
(so any interleaving with AddHost / RemoveHost / HostUp / HostDown / state changes / other picks is an instance). -/
namespace C11
open Policies

theorem dropWhile_head {α : Type} (p : α → Bool) (l : List α) (x : α) (r : List α) (h : l.dropWhile p = x :: r) :
    p x = false ∧ (x :: r).Sublist l := by
  induction l with
  | nil => simp at h
  | cons a t ih =>
    rw [List.dropWhile_cons] at h
    split at h
    · obtain ⟨h1, h2⟩ := ih h
      exact ⟨h1, h2.trans (List.sublist_cons_self a t)⟩
    · rename_i hp
      injection h with e1 e2
      subst e1 e2
      exact ⟨by simpa using hp, List.Sublist.refl _⟩

theorem scanPos_host (up : Nat → Bool) (used : List Host) (ps : List (Option Host)) (x : Host) (rest : List (Option Host))
    (h : scanPos up used ps = (.host x, rest)) : up x.id = true ∧ x ∉ used := by
  induction ps with
  | nil => simp [scanPos] at h
  | cons a t ih =>
    cases a with
    | none => simp [scanPos] at h
    | some y =>
      unfold scanPos at h
      split at h
      · rename_i hc
        injection h with e1 _
        injection e1 with e1
        subst e1
        simp only [Bool.and_eq_true, Bool.not_eq_true', List.contains_eq_mem, decide_eq_false_iff_not] at hc
        exact hc
      · exact ih h

/-- ONLY UP HOSTS, at the moment of the call: whatever the policy state `t` and the up/down assignment `up` at a
call of the iterator, a host it returns is up NOW, was not offered by this iterator before, and is appended to what
the iterator has offered -/
theorem C11_lazy_iterator_only_up (t : TA) (up : Nat → Bool) (it : LIter) (x : Host)
    (h : (t.nextL up it).2.2 = .host x) :
    up x.id = true ∧ (t.nextL up it).2.1.given = it.given ++ [x] := by
  unfold TA.nextL at h ⊢
  split at h
  · rename_i y r hq
    simp only at h
    injection h with h
    subst h
    exact ⟨by simpa using (dropWhile_head _ _ _ _ hq).1, by simp only⟩
  · rename_i hq
    split at h
    · rename_i y r hq2
      simp only at h
      injection h with h
      subst h
      exact ⟨by simpa using (dropWhile_head _ _ _ _ hq2).1, by simp only⟩
    · rename_i hq2
      simp only at h
      split at h
      · rename_i y rest hs
        simp only at h
        injection h with h
        subst h
        refine ⟨(scanPos_host up it.given _ _ _ hs).1, ?_⟩
        simp only [hs]
      · rename_i e rest hne hs
        simp only at h
        subst h
        exact (hne x rfl).elim

/-- what a live iterator keeps: the hosts it has offered and the replicas it has still to look at are pairwise
different -/
def LzInv (it : LIter) : Prop := (it.given ++ (it.q1 ++ it.q2)).Nodup

theorem LzInv_next (t : TA) (up : Nat → Bool) (it : LIter) (hi : LzInv it) : LzInv (t.nextL up it).2.1 := by
  unfold LzInv at hi ⊢
  unfold TA.nextL
  split
  · rename_i y r hq
    simp only
    have hs := (dropWhile_head _ _ _ _ hq).2
    have : (it.given ++ ([y] ++ (r ++ it.q2))).Sublist (it.given ++ (it.q1 ++ it.q2)) := by
      apply List.Sublist.append_left
      have : ([y] ++ (r ++ it.q2)) = (y :: r) ++ it.q2 := by simp
      rw [this]
      exact List.Sublist.append_right hs _
    simpa [List.append_assoc] using this.nodup hi
  · rename_i hq
    split
    · rename_i y r hq2
      simp only
      have hs := (dropWhile_head _ _ _ _ hq2).2
      have : (it.given ++ ([y] ++ r)).Sublist (it.given ++ (it.q1 ++ it.q2)) := by
        apply List.Sublist.append_left
        exact (show ([y] ++ r) = y :: r by simp) ▸ hs.trans (List.sublist_append_right _ _)
      simpa [List.append_assoc] using this.nodup hi
    · rename_i hq2
      have hg : it.given.Nodup := (List.nodup_append.mp hi).1
      simp only
      split
      · rename_i y rest hs
        simp only [List.append_nil]
        rw [List.nodup_append]
        refine ⟨hg, (by simp), ?_⟩
        intro a ha b hb e
        subst e
        simp only [List.mem_singleton] at hb
        subst hb
        exact (scanPos_host up it.given _ _ _ hs).2 ha
      · simp only [List.append_nil]
        exact hg

/-- NO HOST TWICE, whatever happens between the calls: an iterator opened by `Pick` in ANY policy state on a replica
list without duplicates (tables with duplicate-free lists, the shuffle a permutation), then called any number of times,
EVERY call in an arbitrary policy state and under an arbitrary up/down assignment of the host objects (any
interleaving with topology calls, state changes and other iterators), never offers a host twice. -/
theorem C11_lazy_iterator_no_host_twice (t0 : TA) (σ : List Host → List Host) (hσ : ∀ l, (σ l).Perm l)
    (rk : Option (Nat × Nat)) (hrep : ∀ e ∈ t0.replicas, ∀ f ∈ e.2, f.2.Nodup) (calls : List (TA × (Nat → Bool))) :
    (calls.foldl (fun it c => (c.1.nextL c.2 it).2.1) (t0.openL σ rk).2).given.Nodup := by
  have hopen : LzInv (t0.openL σ rk).2 := by
    unfold LzInv
    have plain : (t0.openL σ rk).2 = ⟨[], [], [], some t0.pol.positions⟩ →
        ((t0.openL σ rk).2.given ++ ((t0.openL σ rk).2.q1 ++ (t0.openL σ rk).2.q2)).Nodup := by
      intro e; rw [e]; simp
    cases rk with
    | none => exact plain rfl
    | some kt =>
      obtain ⟨ks, tok⟩ := kt
      cases hr : t0.replicasFor ks tok with
      | noRing => exact plain (by simp only [TA.openL, hr])
      | emptyRing => exact plain (by simp only [TA.openL, hr])
      | hosts l ft =>
        have hreps : l.Nodup := replicasFor_nodup t0 hrep ks tok l ft hr
        have hreps' : (if (ft && t0.shuffle) = true then σ l else l).Nodup := by
          split
          · exact (hσ l).nodup_iff.mpr hreps
          · exact hreps
        have := taHead_nodup t0.pol.tier t0.pol.maxTier (fun _ => true) t0.nonlocal _ hreps'
        simp only [TA.openL, hr, List.nil_append]
        exact this
  suffices h : ∀ it, LzInv it → LzInv (calls.foldl (fun it c => (c.1.nextL c.2 it).2.1) it) from
    (List.nodup_append.mp (h _ hopen)).1
  induction calls with
  | nil => intro it hi; exact hi
  | cons c r ih => intro it hi; exact ih _ (LzInv_next c.1 c.2 it hi)

/-- non-vacuity, and what the eager model cannot say: replicas a (local rack), c; iterator opened with everything up;
a is returned; then c goes DOWN before the second call and d before the third: neither is offered although both were
up at the `Pick`; b (up throughout) is; a is not offered again by the fallback phase -/
example :
    let it0 := (cexTAok.openL id (some (0, 50))).2
    let s1 := cexTAok.nextL (fun _ => true) it0
    let s2 := s1.1.nextL (fun i => i != 3) s1.2.1
    let s3 := s2.1.nextL (fun i => i != 3 && i != 4) s2.2.1
    s1.2.2 = .host cexA' ∧ s2.2.2 = .host cexB' ∧ s3.2.2 = .done ∧ s3.2.1.given = [cexA', cexB'] := by
  decide

end C11
