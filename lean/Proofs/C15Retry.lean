import Model.PagingRetry
import Proofs.C15Paging
/-! Lemmas about the retry model (Model/PagingRetry.lean); the property theorems are in Proofs/C15.lean -/
namespace C15Retry
open Paging PagingRetry

theorem noVoid_tail {r : RReply} {rest : List RReply} (h : NoVoid (r :: rest)) : NoVoid rest := by
  cases r <;> simp [NoVoid] at h ⊢ <;> exact h

theorem noEmpty_tail {r : RReply} {rest : List RReply} (h : NoEmptyStateR (r :: rest)) : NoEmptyStateR rest := by
  cases r with
  | page rows st => cases st <;> simp [NoEmptyStateR] at h ⊢ <;> first | exact h | exact h.2
  | _ => simpa [NoEmptyStateR] using h

/-- rows: a prefix of the full result, and the whole of it when no error is reported -/
theorem rows_prefix_full (pol : Option Policy) (nodes : Nat) (q0 : Qry) (manualC : Bool)
    (script : List RReply) (c : Bool) (att h : Nat) (q : Qry)
    (hv : NoVoid script) (he : manualC = false ∨ NoEmptyStateR script) :
    (runR pol nodes q0 manualC script c att h q).rows <+: full script ∧
    ((runR pol nodes q0 manualC script c att h q).err = none →
      (runR pol nodes q0 manualC script c att h q).rows = full script) := by
  induction script generalizing c att h q with
  | nil => simp [runR, full]
  | cons r rest ih =>
    have hv' := noVoid_tail hv
    have he' : manualC = false ∨ NoEmptyStateR rest := he.imp id noEmpty_tail
    cases r with
    | void => simp [NoVoid] at hv
    | unprepared =>
      simpa [runR, full] using ih false att h q hv' he'
    | page rows st =>
      cases st with
      | none => simp [runR, full]
      | some s =>
        have hs : (manualC && s.isEmpty) = false := by
          rcases he with he | he
          · simp [he]
          · have : s ≠ [] := by simpa [NoEmptyStateR] using he.1
            cases s <;> simp_all
        have := ih true 0 (nodes - 1) { (if manualC then q0 else q) with pageState := s } hv' he'
        simp only [runR, full, hs]
        simpa using this
    | fail f d =>
      simp only [runR, full]
      split
      · simp
      · cases pol with
        | none => simp
        | some p =>
          simp only
          split
          · simp
          · simp
          · simp
          · simp
          · simpa using ih true (att + 1) h _ hv' he'
          · cases h with
            | zero => simp
            | succ h' => simpa using ih true (att + 1) h' _ hv' he'

theorem reqState_request (q : Qry) : reqState (request q) = some (firstState q) := by
  simp [reqState, request, firstState]

theorem filterMap_prep (c : Bool) (q : Qry) : (prep c q).filterMap reqState = [] := by
  unfold prep; split <;> simp [reqState]

theorem firstState_setIdent (q : Qry) (id : Option Nat) : firstState (setIdent q id) = firstState q := by
  cases id <;> simp [setIdent, firstState]

/-- requests: every request carries the paging state of the last page served before it -/
theorem req_states (pol : Option Policy) (nodes : Nat) (q0 : Qry) (manualC : Bool)
    (script : List RReply) (c : Bool) (att h : Nat) (q : Qry) (he : NoEmptyStateR script) :
    (runR pol nodes q0 manualC script c att h q).reqs.filterMap reqState <+: stateSeq script (firstState q) := by
  induction script generalizing c att h q with
  | nil => simp [runR, stateSeq, filterMap_prep, reqState_request]
  | cons r rest ih =>
    have he' := noEmpty_tail he
    have one : ((prep c q ++ [request q]).filterMap reqState) = [firstState q] := by
      simp [filterMap_prep, reqState_request]
    have pre1 : ∀ l, [firstState q] <+: firstState q :: l := fun l => ⟨l, rfl⟩
    cases r with
    | void => simp [runR, stateSeq, filterMap_prep, reqState_request, pre1]
    | unprepared =>
      have := ih false att h q he'
      simpa [runR, stateSeq, filterMap_prep, reqState_request, List.cons_prefix_cons] using this
    | page rows st =>
      cases st with
      | none => simp [runR, stateSeq, filterMap_prep, reqState_request, pre1]
      | some s =>
        have hne : s ≠ [] := by simpa [NoEmptyStateR] using he.1
        have hs : (manualC && s.isEmpty) = false := by cases s <;> simp_all
        have hfs : firstState { (if manualC then q0 else q) with pageState := s } = some s := by
          cases s with
          | nil => exact absurd rfl hne
          | cons a t => simp [firstState]
        have := ih true 0 (nodes - 1) { (if manualC then q0 else q) with pageState := s } he'
        rw [hfs] at this
        simp only [runR, stateSeq, hs]
        simpa [filterMap_prep, reqState_request, List.cons_prefix_cons] using this
    | fail f d =>
      simp only [runR, stateSeq]
      split
      · simp [filterMap_prep, reqState_request, pre1]
      · cases pol with
        | none => simp [filterMap_prep, reqState_request, pre1]
        | some p =>
          simp only
          split
          · simp [filterMap_prep, reqState_request, pre1]
          · simp [filterMap_prep, reqState_request, pre1]
          · simp [filterMap_prep, reqState_request, pre1]
          · simp [filterMap_prep, reqState_request, pre1]
          · have := ih true (att + 1) h (setIdent q ‹Option Nat›) he'
            rw [firstState_setIdent] at this
            simpa [filterMap_prep, reqState_request, List.cons_prefix_cons] using this
          · cases h with
            | zero => simp [filterMap_prep, reqState_request, pre1]
            | succ h' =>
              have := ih true (att + 1) h' (setIdent q ‹Option Nat›) he'
              rw [firstState_setIdent] at this
              simpa [filterMap_prep, reqState_request, List.cons_prefix_cons] using this

/-- without a retry policy the retry model is the base model of Model/Paging.lean -/
theorem none_is_base (pp : Nat → Nat) (nodes : Nat) (q0 : Qry) (script : List Reply) (c : Bool) (att h : Nat)
    (q : Qry) (hq : q.disableAutoPage = false) :
    let o := runR none nodes q0 false (script.map emb) c att h q
    (⟨o.rows, o.reqs, o.err⟩ : Out) = run pp script c q ∧ o.atts = [] := by
  induction script generalizing c att h q with
  | nil => simp [runR, run]
  | cons r rest ih =>
    cases r with
    | unprepared =>
      have := ih false att h q hq
      simp only [List.map_cons, emb, runR, run]
      constructor
      · rw [← this.1]
      · exact this.2
    | fail f =>
      simp only [List.map_cons, emb, runR, run, errIter]
      split <;> simp_all
    | page rows st =>
      cases st with
      | none => simp [emb, runR, run, pageIter]
      | some s =>
        obtain ⟨h1, h2⟩ := ih true 0 (nodes - 1) { q with pageState := s } hq
        simp only [List.map_cons, emb, runR, run, pageIter, hq]
        simp only [Bool.false_and, Bool.false_eq_true, if_false, hq] at h1 h2 ⊢
        refine ⟨?_, h2⟩
        rw [← h1]
        simp

/-- Ignore and Rethrow are the same decision about a failed fetch -/
def ignoreToRethrow : RReply → RReply
  | .fail f .ignore => .fail f .rethrow
  | r => r

theorem ignore_same (b : Option Nat) (nodes : Nat) (q0 : Qry) (manualC : Bool)
    (script : List RReply) (c : Bool) (att h : Nat) (q : Qry) :
    runR (some (scripted b)) nodes q0 manualC (script.map ignoreToRethrow) c att h q =
    runR (some (scripted b)) nodes q0 manualC script c att h q := by
  induction script generalizing c att h q with
  | nil => rfl
  | cons r rest ih =>
    cases r with
    | void => simp [ignoreToRethrow, runR]
    | unprepared => simp [ignoreToRethrow, runR, ih]
    | page rows st => cases st <;> simp [ignoreToRethrow, runR, ih]
    | fail f d =>
      have key : ∀ d', (d = .ignore → d' = .rethrow) → (d ≠ .ignore → d' = d) →
          runR (some (scripted b)) nodes q0 manualC (.fail f d' :: rest.map ignoreToRethrow) c att h q =
          runR (some (scripted b)) nodes q0 manualC (.fail f d :: rest) c att h q := by
        intro d' hi hn
        by_cases hd : d = .ignore
        · subst hd
          rw [hi rfl]
          simp only [runR]
          cases b with
          | none => simp [scripted]
          | some k => by_cases hk : att + 1 ≤ k <;> simp [scripted, hk]
        · rw [hn hd]
          simp only [runR, ih]
      cases d <;> simp only [List.map_cons, ignoreToRethrow] <;> apply key <;> simp
end C15Retry
