import Model.Placement
/-! C10 helper lemmas: networkTopology.replicaMap — case analysis of the loop body and the invariants that hold
for EVERY ring (vnodes or not): per-DC counters never exceed rf, the counters count the replicas per DC,
the "replica overflow" / "no replicas" / "not the primary" panics cannot fire. -/
namespace C10Nts
open Placement

theorem upd_same {β : Type} (f : Nat → β) (k : Nat) (v : β) : upd f k v k = v := by simp [upd]
theorem upd_other {β : Type} (f : Nat → β) (k d : Nat) (v : β) (h : d ≠ k) : upd f k v d = f d := by simp [upd, h]
theorem upd_self {β : Type} (f : Nat → β) (k : Nat) : upd f k (f k) = f := by
  funext x; by_cases h : x = k <;> simp [upd, h]

/-- closed form of the drain loop -/
theorem drain_eq (rf : Nat) : ∀ (sk : List Host) (r : Nat) (reps : List Host),
    drain rf r reps sk =
      (r + min sk.length (rf - r), reps ++ sk.take (min sk.length (rf - r)), sk.drop (min sk.length (rf - r))) := by
  intro sk
  induction sk with
  | nil => intro r reps; simp [drain]
  | cons sh sk ih =>
    intro r reps
    unfold drain
    by_cases h : r < rf
    · simp only [h, if_true]
      rw [ih]
      have hm : min (sh :: sk).length (rf - r) = min sk.length (rf - (r + 1)) + 1 := by
        simp only [List.length_cons]; omega
      rw [hm, List.take_succ_cons, List.drop_succ_cons]
      simp only [List.append_assoc, List.singleton_append, Prod.mk.injEq, and_true]
      omega
    · have : rf - r = 0 := by omega
      simp [h, this]

/-! ### the three effects of one loop iteration -/

/-- all racks of the DC already used: take the host -/
def stA (st : NtsSt) (h : Host) : NtsSt :=
  { st with replicas := st.replicas ++ [h], inDC := upd st.inDC h.dc (st.inDC h.dc + 1) }

/-- new rack: take the host, then `k` hosts from the skipped list -/
def stB (st : NtsSt) (h : Host) (k : Nat) : NtsSt :=
  { st with replicas := st.replicas ++ [h] ++ (st.skipped h.dc).take k,
            inDC := upd st.inDC h.dc (st.inDC h.dc + 1 + k),
            seen := upd st.seen h.dc (st.seen h.dc ++ [h.rack]),
            skipped := upd st.skipped h.dc ((st.skipped h.dc).drop k) }

/-- rack already used, other racks still unused: remember the host -/
def stC (st : NtsSt) (h : Host) : NtsSt :=
  { st with skipped := upd st.skipped h.dc (st.skipped h.dc ++ [h]) }

/-- number of skipped hosts drained when `h` brings a new rack -/
def drainCount (c : NtsCfg) (st : NtsSt) (h : Host) : Nat :=
  if (st.seen h.dc).length + 1 = (c.racks h.dc).length
  then min (st.skipped h.dc).length (rfOf c.rfs h.dc - (st.inDC h.dc + 1)) else 0

theorem ntsStep_cases (c : NtsCfg) (st : NtsSt) (h : Host) :
    ntsStep c st h = st ∨
    (rfOf c.rfs h.dc < st.inDC h.dc ∧ ntsStep c st h = { st with crash := true }) ∨
    (rfOf c.rfs h.dc ≠ 0 ∧ st.inDC h.dc < rfOf c.rfs h.dc ∧ h.rack ∈ c.racks h.dc ∧
      ((h.rack ∈ st.seen h.dc ∧ (st.seen h.dc).length = (c.racks h.dc).length ∧ ntsStep c st h = stA st h) ∨
       (h.rack ∉ st.seen h.dc ∧ ntsStep c st h = stB st h (drainCount c st h)) ∨
       (h.rack ∈ st.seen h.dc ∧ (st.seen h.dc).length ≠ (c.racks h.dc).length ∧ ntsStep c st h = stC st h))) := by
  unfold ntsStep
  by_cases h0 : rfOf c.rfs h.dc = 0
  · left; simp [h0]
  by_cases h1 : st.inDC h.dc ≥ rfOf c.rfs h.dc
  · by_cases h2 : st.inDC h.dc > rfOf c.rfs h.dc
    · right; left; simp [h0, h1, h2]
    · left; simp [h0, h1, h2]
  by_cases h3' : h.rack ∉ c.racks h.dc
  · left; simp [h0, h1, h3']
  have h3 : h.rack ∈ c.racks h.dc := Classical.not_not.mp h3'
  right; right
  refine ⟨h0, by omega, h3, ?_⟩
  by_cases h4 : h.rack ∈ st.seen h.dc
  · by_cases h5 : (st.seen h.dc).length = (c.racks h.dc).length
    · left; refine ⟨h4, h5, ?_⟩
      simp [h0, h1, h3, h4, h5, stA]
    · right; right; refine ⟨h4, h5, ?_⟩
      simp [h0, h1, h3, h4, h5, stC]
  · right; left; refine ⟨h4, ?_⟩
    simp only [h0, h1, h3, h4, if_false, not_true_eq_false, not_false_eq_true, false_and, if_true]
    unfold stB drainCount
    by_cases h5 : (st.seen h.dc).length + 1 = (c.racks h.dc).length
    · simp only [List.length_append, List.length_cons, List.length_nil, Nat.zero_add, h5, if_true, drain_eq]
    · simp only [List.length_append, List.length_cons, List.length_nil, Nat.zero_add, h5, if_false, List.take_zero,
        List.append_nil, Nat.add_zero, List.drop_zero, upd_self]

/-- the loop body when the host's DC still needs replicas and its rack is known -/
theorem ntsStep_active (c : NtsCfg) (st : NtsSt) (h : Host)
    (h0 : rfOf c.rfs h.dc ≠ 0) (hlt : st.inDC h.dc < rfOf c.rfs h.dc) (h3 : h.rack ∈ c.racks h.dc) :
    (h.rack ∈ st.seen h.dc ∧ (st.seen h.dc).length = (c.racks h.dc).length ∧ ntsStep c st h = stA st h) ∨
    (h.rack ∉ st.seen h.dc ∧ ntsStep c st h = stB st h (drainCount c st h)) ∨
    (h.rack ∈ st.seen h.dc ∧ (st.seen h.dc).length ≠ (c.racks h.dc).length ∧ ntsStep c st h = stC st h) := by
  have h1 : ¬ st.inDC h.dc ≥ rfOf c.rfs h.dc := by omega
  unfold ntsStep
  by_cases h4 : h.rack ∈ st.seen h.dc
  · by_cases h5 : (st.seen h.dc).length = (c.racks h.dc).length
    · left; refine ⟨h4, h5, ?_⟩
      simp [h0, h1, h3, h4, h5, stA]
    · right; right; refine ⟨h4, h5, ?_⟩
      simp [h0, h1, h3, h4, h5, stC]
  · right; left; refine ⟨h4, ?_⟩
    simp only [h0, h1, h3, h4, if_false, not_true_eq_false, not_false_eq_true, false_and, if_true]
    unfold stB drainCount
    by_cases h5 : (st.seen h.dc).length + 1 = (c.racks h.dc).length
    · simp only [List.length_append, List.length_cons, List.length_nil, Nat.zero_add, h5, if_true, drain_eq]
    · simp only [List.length_append, List.length_cons, List.length_nil, Nat.zero_add, h5, if_false, List.take_zero,
        List.append_nil, Nat.add_zero, List.drop_zero, upd_self]

theorem ntsStep_skip (c : NtsCfg) (st : NtsSt) (h : Host)
    (hc : rfOf c.rfs h.dc = 0 ∨ st.inDC h.dc = rfOf c.rfs h.dc) : ntsStep c st h = st := by
  unfold ntsStep
  rcases hc with hc | hc
  · simp [hc]
  · by_cases h0 : rfOf c.rfs h.dc = 0
    · simp [h0]
    · simp [h0, hc]

/-! ### the seen-host check: the inner loop is the check-free loop on the first occurrences -/

/-- the inner loop without the seen-host check (proof device; it is the loop of the code on a list that meets
every host at most once) -/
def walk0 (c : NtsCfg) : NtsSt → List Host → NtsSt
  | st, [] => st
  | st, h :: rest =>
    if st.crash then st
    else if st.replicas.length < c.totalRF ∧ haveRF c st = false then walk0 c (ntsStep c st h) rest
    else st

/-- the elements of `l` not in `sh`, first occurrences only, in order -/
def dedup {α : Type} [DecidableEq α] (sh : List α) : List α → List α
  | [] => []
  | h :: r => if h ∈ sh then dedup sh r else h :: dedup (sh ++ [h]) r

theorem walk0_stop (c : NtsCfg) (st : NtsSt)
    (h : st.crash = true ∨ ¬ (st.replicas.length < c.totalRF ∧ haveRF c st = false)) :
    ∀ l, walk0 c st l = st := by
  intro l
  cases l with
  | nil => rfl
  | cons a r =>
    unfold walk0
    rcases h with h | h
    · simp [h]
    · by_cases hc : st.crash = true
      · simp [hc]
      · simp only [hc, Bool.false_eq_true, if_false, h]

/-- KF-C10-1 repair: the loop with `seenHosts` is the loop without it on the de-duplicated walk -/
theorem ntsWalk_eq_walk0 (c : NtsCfg) : ∀ (l sh : List Host) (st : NtsSt),
    ntsWalk c st sh l = walk0 c st (dedup sh l) := by
  intro l
  induction l with
  | nil => intro sh st; simp [ntsWalk, dedup, walk0]
  | cons h rest ih =>
    intro sh st
    by_cases h1 : st.crash = true
    · rw [walk0_stop c st (Or.inl h1)]
      unfold ntsWalk; simp [h1]
    by_cases h2 : st.replicas.length < c.totalRF ∧ haveRF c st = false
    · unfold ntsWalk dedup
      simp only [h1, Bool.false_eq_true, if_false, h2, and_self, if_true]
      by_cases hm : h ∈ sh
      · simp only [hm, if_true]; exact ih sh st
      · simp only [hm, if_false]
        rw [ih]
        conv => rhs; unfold walk0
        simp only [h1, Bool.false_eq_true, if_false, h2, and_self, if_true]
    · rw [walk0_stop c st (Or.inr h2)]
      unfold ntsWalk
      simp only [h1, Bool.false_eq_true, if_false, h2]

theorem dedup_eq_filter_firsts {α : Type} [DecidableEq α] : ∀ (l sh : List α),
    dedup sh l = (Spec.firsts l).filter (fun x => decide (x ∉ sh)) := by
  intro l
  induction l with
  | nil => intro sh; simp [dedup, Spec.firsts]
  | cons h rest ih =>
    intro sh
    unfold dedup
    simp only [Spec.firsts, List.filter_cons]
    by_cases hm : h ∈ sh
    · simp only [hm, if_true, not_true_eq_false, decide_false, Bool.false_eq_true, if_false]
      rw [ih, List.filter_filter]
      apply List.filter_congr
      intro x _
      by_cases hx : x ∈ sh
      · simp [hx]
      · have : x ≠ h := by intro e; subst e; exact hx hm
        simp [hx, this]
    · simp only [hm, if_false, not_false_eq_true, decide_true, if_true]
      rw [ih, List.filter_filter]
      congr 1
      apply List.filter_congr
      intro x _
      by_cases hx : x ∈ sh
      · simp [hx]
      · by_cases hxh : x = h
        · simp [hxh]
        · simp [hx, hxh]

theorem dedup_nil_eq_firsts {α : Type} [DecidableEq α] (l : List α) : dedup [] l = Spec.firsts l := by
  rw [dedup_eq_filter_firsts]; simp

/-! ### invariants valid on every ring -/

structure Good (c : NtsCfg) (st : NtsSt) : Prop where
  le : ∀ d, st.inDC d ≤ rfOf c.rfs d
  nocrash : st.crash = false
  cnt : ∀ d, (st.replicas.filter (fun x => decide (x.dc = d))).length = st.inDC d
  skdc : ∀ d x, x ∈ st.skipped d → x.dc = d

theorem good_init (c : NtsCfg) : Good c ntsInit :=
  ⟨by intro d; simp [ntsInit], rfl, by intro d; simp [ntsInit], by intro d x hx; simp [ntsInit] at hx⟩

theorem filter_dc_length (l : List Host) (e d : Nat) (hl : ∀ x ∈ l, x.dc = e) :
    (l.filter (fun x => decide (x.dc = d))).length = if d = e then l.length else 0 := by
  by_cases hd : d = e
  · subst hd
    rw [List.filter_eq_self.mpr (by intro x hx; simp [hl x hx])]
    simp
  · rw [List.filter_eq_nil_iff.mpr (by intro x hx; rw [hl x hx]; simp; omega)]
    simp [hd]

theorem drainCount_le (c : NtsCfg) (st : NtsSt) (h : Host) :
    drainCount c st h ≤ (st.skipped h.dc).length ∧
    (st.inDC h.dc < rfOf c.rfs h.dc → st.inDC h.dc + 1 + drainCount c st h ≤ rfOf c.rfs h.dc) := by
  unfold drainCount
  by_cases h5 : (st.seen h.dc).length + 1 = (c.racks h.dc).length
  · simp only [h5, if_true]; omega
  · simp only [h5, if_false]; omega

theorem good_step (c : NtsCfg) (st : NtsSt) (h : Host) (g : Good c st) : Good c (ntsStep c st h) := by
  rcases ntsStep_cases c st h with e | ⟨hgt, _⟩ | ⟨h0, hlt, hr, hcase⟩
  · rw [e]; exact g
  · have := g.le h.dc; omega
  · rcases hcase with ⟨_, _, e⟩ | ⟨_, e⟩ | ⟨_, _, e⟩
    · rw [e]
      refine ⟨?_, g.nocrash, ?_, g.skdc⟩
      · intro d
        by_cases hd : d = h.dc
        · subst hd; simp only [stA, upd_same]; omega
        · simp only [stA, upd_other _ _ _ _ hd]; exact g.le d
      · intro d
        simp only [stA, List.filter_append, List.length_append]
        rw [g.cnt d, filter_dc_length [h] h.dc d (by simp)]
        by_cases hd : d = h.dc
        · subst hd; simp [upd_same]
        · simp [hd, upd_other _ _ _ _ hd]
    · rw [e]
      obtain ⟨hk1, hk2⟩ := drainCount_le c st h
      have hk2 := hk2 hlt
      refine ⟨?_, g.nocrash, ?_, ?_⟩
      · intro d
        by_cases hd : d = h.dc
        · subst hd; simp only [stB, upd_same]; exact hk2
        · simp only [stB, upd_other _ _ _ _ hd]; exact g.le d
      · intro d
        simp only [stB, List.filter_append, List.length_append]
        rw [g.cnt d, filter_dc_length [h] h.dc d (by simp),
          filter_dc_length ((st.skipped h.dc).take (drainCount c st h)) h.dc d
            (by intro x hx; exact g.skdc _ x (List.mem_of_mem_take hx))]
        by_cases hd : d = h.dc
        · subst hd
          simp only [if_true, upd_same, List.length_take, List.length_cons, List.length_nil]
          omega
        · simp [hd, upd_other _ _ _ _ hd]
      · intro d x hx
        by_cases hd : d = h.dc
        · subst hd
          simp only [stB, upd_same] at hx
          exact g.skdc _ x (List.mem_of_mem_drop hx)
        · simp only [stB, upd_other _ _ _ _ hd] at hx
          exact g.skdc d x hx
    · rw [e]
      refine ⟨g.le, g.nocrash, g.cnt, ?_⟩
      intro d x hx
      by_cases hd : d = h.dc
      · subst hd
        simp only [stC, upd_same, List.mem_append, List.mem_singleton] at hx
        rcases hx with hx | hx
        · exact g.skdc _ x hx
        · rw [hx]
      · simp only [stC, upd_other _ _ _ _ hd] at hx
        exact g.skdc d x hx

theorem good_walk (c : NtsCfg) : ∀ (l : List Host) (st : NtsSt), Good c st → Good c (walk0 c st l) := by
  intro l
  induction l with
  | nil => intro st g; exact g
  | cons h rest ih =>
    intro st g
    unfold walk0
    by_cases h1 : st.crash = true
    · simp [h1, g]
    · simp only [h1, Bool.false_eq_true, if_false]
      by_cases h2 : st.replicas.length < c.totalRF ∧ haveRF c st = false
      · simp only [h2, and_self, if_true]; exact ih _ (good_step c st h g)
      · simp only [h2, if_false]; exact g

/-- replicas only grow -/
theorem step_prefix (c : NtsCfg) (st : NtsSt) (h : Host) :
    ∃ ext, (ntsStep c st h).replicas = st.replicas ++ ext := by
  rcases ntsStep_cases c st h with e | ⟨_, e⟩ | ⟨_, _, _, ⟨_, _, e⟩ | ⟨_, e⟩ | ⟨_, _, e⟩⟩
  · exact ⟨[], by rw [e]; simp⟩
  · exact ⟨[], by rw [e]; simp⟩
  · exact ⟨[h], by rw [e]; rfl⟩
  · exact ⟨[h] ++ (st.skipped h.dc).take (drainCount c st h), by rw [e]; simp [stB]⟩
  · exact ⟨[], by rw [e]; simp [stC]⟩

theorem walk_prefix (c : NtsCfg) : ∀ (l : List Host) (st : NtsSt),
    ∃ ext, (walk0 c st l).replicas = st.replicas ++ ext := by
  intro l
  induction l with
  | nil => intro st; exact ⟨[], by simp [walk0]⟩
  | cons h rest ih =>
    intro st
    unfold walk0
    by_cases h1 : st.crash = true
    · exact ⟨[], by simp [h1]⟩
    · simp only [h1, Bool.false_eq_true, if_false]
      by_cases h2 : st.replicas.length < c.totalRF ∧ haveRF c st = false
      · simp only [h2, and_self, if_true]
        obtain ⟨e1, he1⟩ := step_prefix c st h
        obtain ⟨e2, he2⟩ := ih (ntsStep c st h)
        exact ⟨e1 ++ e2, by rw [he2, he1]; simp⟩
      · exact ⟨[], by simp [h2]⟩

theorem lookup_mem (rfs : List (Nat × Nat)) (d v : Nat) (h : rfs.lookup d = some v) : (d, v) ∈ rfs := by
  induction rfs with
  | nil => simp at h
  | cons p r ih =>
    obtain ⟨k, w⟩ := p
    simp only [List.lookup] at h
    by_cases hk : d == k
    · simp only [hk] at h
      have : d = k := by simpa using hk
      cases h; subst this; exact List.mem_cons_self ..
    · simp only [hk] at h
      exact List.mem_cons_of_mem _ (ih h)

theorem rfOf_mem (rfs : List (Nat × Nat)) (d : Nat) (h : rfOf rfs d ≠ 0) : (d, rfOf rfs d) ∈ rfs := by
  unfold rfOf at *
  cases hl : rfs.lookup d with
  | none => simp [hl] at h
  | some v => simpa using lookup_mem rfs d v hl

theorem sum_ge_of_mem (l : List Nat) (v : Nat) (h : v ∈ l) : v ≤ l.sum := by
  induction l with
  | nil => simp at h
  | cons a r ih =>
    simp only [List.sum_cons]
    rcases List.mem_cons.mp h with rfl | h
    · omega
    · have := ih h; omega

/-- from the fresh state the walk takes the first host when its DC has rf > 0 and its rack is known -/
theorem walk_head (c : NtsCfg) (htot : c.totalRF = (c.rfs.map (·.2)).sum) (h : Host) (rest : List Host)
    (hrf : rfOf c.rfs h.dc ≠ 0) (hr : h.rack ∈ c.racks h.dc) :
    (walk0 c ntsInit (h :: rest)).replicas.head? = some h := by
  have hmem := rfOf_mem c.rfs h.dc hrf
  have hpos : 0 < c.totalRF := by
    rw [htot]
    have := sum_ge_of_mem (c.rfs.map (·.2)) (rfOf c.rfs h.dc) (List.mem_map.mpr ⟨_, hmem, rfl⟩)
    omega
  have hhave : haveRF c ntsInit = false := by
    unfold haveRF
    have : c.rfs.all (fun p => p.2 == ntsInit.inDC p.1) = false := by
      rw [List.all_eq_false]
      exact ⟨_, hmem, by simp [ntsInit]; exact hrf⟩
    simp [this]
  unfold walk0
  simp only [ntsInit, Bool.false_eq_true, if_false, List.length_nil, hpos, true_and]
  have hh : haveRF c { replicas := [], inDC := fun _ => 0, seen := fun _ => [], skipped := fun _ => [], crash := false } = false := hhave
  simp only [hh, if_true]
  have hstep : (ntsStep c ntsInit h).replicas = [h] := by
    rcases ntsStep_cases c ntsInit h with e | ⟨hgt, _⟩ | ⟨_, _, _, ⟨hs, _, _⟩ | ⟨_, e⟩ | ⟨hs, _, _⟩⟩
    · exfalso
      unfold ntsStep at e
      simp [hrf, hr, ntsInit] at e
      have e' := congrArg NtsSt.replicas e
      by_cases hc : 1 = (c.racks h.dc).length <;> simp [hc, drain] at e'
    · simp [ntsInit] at hgt
    · simp [ntsInit] at hs
    · rw [e]; simp [stB, ntsInit]
    · simp [ntsInit] at hs
  obtain ⟨ext, hext⟩ := walk_prefix c rest (ntsStep c ntsInit h)
  have : (ntsStep c ntsInit h) = ntsStep c { replicas := [], inDC := fun _ => 0, seen := fun _ => [], skipped := fun _ => [], crash := false } h := rfl
  rw [← this, hext, hstep]
  rfl

/-! ### the outer loop -/

theorem ntsLoop_ok (c : NtsCfg) (tokens : List Entry) : ∀ (its : List (Nat × Entry)) (acc : ReplicaRing),
    (∀ p ∈ its, rfOf c.rfs p.2.2.dc ≠ 0 →
      (ntsReplicasAt c tokens p.1).crash = false ∧ (ntsReplicasAt c tokens p.1).replicas.head? = some p.2.2) →
    ntsLoop c tokens its acc =
      .ok (acc ++ (its.filter (fun p => decide (rfOf c.rfs p.2.2.dc ≠ 0))).map
              (fun p => (p.2.1, (ntsReplicasAt c tokens p.1).replicas))) := by
  intro its
  induction its with
  | nil => intro acc _; simp [ntsLoop]
  | cons p rest ih =>
    intro acc H
    obtain ⟨i, th⟩ := p
    unfold ntsLoop
    by_cases h0 : rfOf c.rfs th.2.dc = 0
    · simp only [h0, if_true]
      rw [ih acc (fun q hq => H q (List.mem_cons_of_mem _ hq))]
      simp [List.filter_cons, h0]
    · obtain ⟨hc, hh⟩ := H (i, th) (List.mem_cons_self ..) h0
      simp only [h0, if_false, hc, Bool.false_eq_true]
      cases hreps : (ntsReplicasAt c tokens i).replicas with
      | nil => rw [hreps] at hh; simp at hh
      | cons r0 rs =>
        rw [hreps] at hh
        simp only [List.head?_cons, Option.some.injEq] at hh
        simp only [hh, ne_eq, not_true_eq_false, if_false]
        rw [ih _ (fun q hq => H q (List.mem_cons_of_mem _ hq))]
        simp [List.filter_cons, h0, hreps, hh]

theorem mem_foldl_setAdd {α : Type} [DecidableEq α] (l : List α) : ∀ (acc : List α) (x : α),
    x ∈ l.foldl setAdd acc ↔ x ∈ acc ∨ x ∈ l := by
  induction l with
  | nil => intro acc x; simp
  | cons a r ih =>
    intro acc x
    simp only [List.foldl_cons, ih, List.mem_cons]
    unfold setAdd
    by_cases ha : a ∈ acc
    · simp only [ha, if_true]
      constructor
      · rintro (h | h); exact Or.inl h; exact Or.inr (Or.inr h)
      · rintro (h | h | h); exact Or.inl h; exact Or.inl (h ▸ ha); exact Or.inr h
    · simp only [ha, if_false, List.mem_append, List.mem_singleton]
      constructor
      · rintro ((h | h) | h); exact Or.inl h; exact Or.inr (Or.inl h); exact Or.inr (Or.inr h)
      · rintro (h | h | h); exact Or.inl (Or.inl h); exact Or.inl (Or.inr h); exact Or.inr h

theorem mem_toSet {α : Type} [DecidableEq α] (l : List α) (x : α) : x ∈ toSet l ↔ x ∈ l := by
  unfold toSet; rw [mem_foldl_setAdd]; simp

theorem rack_known (rfs : List (Nat × Nat)) (hosts : List Host) (h : Host) (hm : h ∈ hosts) :
    h.rack ∈ (mkCfg rfs hosts).racks h.dc := by
  simp only [mkCfg, mem_toSet, List.mem_map, List.mem_filter, decide_eq_true_eq]
  exact ⟨h, ⟨hm, rfl⟩, rfl⟩

theorem mem_indexed {α : Type} (l : List α) (p : Nat × α) (hp : p ∈ indexed l) :
    ∃ (h : p.1 < l.length), l[p.1] = p.2 := by
  unfold indexed at hp
  obtain ⟨i, hi, he⟩ := List.mem_iff_getElem.mp hp
  simp only [List.length_zip, List.length_range, Nat.min_self] at hi
  rw [List.getElem_zip] at he
  simp only [List.getElem_range] at he
  subst he
  exact ⟨hi, rfl⟩

theorem rot_head {α : Type} (l : List α) (i : Nat) (h : i < l.length) :
    rot l i = l[i] :: (l.drop (i + 1) ++ l.take i) := by
  unfold rot
  rw [List.drop_eq_getElem_cons h]; rfl

end C10Nts
