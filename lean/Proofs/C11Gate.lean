import Model.Policies
/-! helper lemmas for the GATED schedule of a burst (op `gburst`): every call takes its snapshot and builds its new
list while all the others are in progress too, then they publish one after the other. Under the mutex discipline
of the unchanged code only the holder of the mutex can take a snapshot, so the schedule degenerates into a
sequential one (covered by `cow_linearizable`, all schedules). For the variant that loads and copies OUTSIDE the
mutex (`locked = false`) this schedule is DECISIVE for any number of calls, any update functions and any list:
the published value is the last publisher's update of the ORIGINAL snapshot - every other call is lost. -/
namespace C11
open Policies Policies.Cow

variable {σ : Type}

/-- the gated schedule of `n` calls: all load, all copy, then each locks, stores, unlocks -/
def gatedSched (n : Nat) : List Nat :=
  List.range n ++ List.range n ++ (List.range n).flatMap (fun i => [i, i, i])

theorem run_append (b : Bool) (n : Nat) (fs : Nat → σ → σ) (s : Sys σ) (a c : List Nat) :
    run b n fs s (a ++ c) = run b n fs (run b n fs s a) c := by
  unfold run; rw [List.foldl_append]

theorem run_snoc (b : Bool) (n : Nat) (fs : Nat → σ → σ) (s : Sys σ) (a : List Nat) (i : Nat) :
    run b n fs s (a ++ [i]) = step b n fs (run b n fs s a) i := by
  rw [run_append]; rfl

/-- phase A: every call takes its snapshot of the original value -/
theorem phaseA (n : Nat) (fs : Nat → σ → σ) (x : σ) (k : Nat) (hk : k ≤ n) :
    let s := run false n fs (init x) (List.range k)
    s.shared = x ∧ s.mu = none ∧ ∀ j, s.pcs j = if j < k then Pc.loaded x else Pc.idle := by
  induction k with
  | zero => exact ⟨rfl, rfl, fun j => by simp [run, init]⟩
  | succ k ih =>
    obtain ⟨h1, h2, h3⟩ := ih (Nat.le_of_succ_le hk)
    rw [List.range_succ, run_snoc]
    have hkn : ¬ n ≤ k := by omega
    have hpk : (run false n fs (init x) (List.range k)).pcs k = Pc.idle := by rw [h3 k]; simp
    simp only [step, hkn, if_false, hpk]
    refine ⟨h1, h2, fun j => ?_⟩
    simp only [Bool.false_eq_true, if_false]
    by_cases hj : j = k
    · subst hj; simp [h1]
    · rw [if_neg hj, h3 j]
      by_cases hlt : j < k
      · simp [hlt, Nat.lt_succ_of_lt hlt]
      · have : ¬ j < k + 1 := by omega
        simp [hlt, this]

/-- phase B: every call builds its new list from that snapshot -/
theorem phaseB (n : Nat) (fs : Nat → σ → σ) (x : σ) (s0 : Sys σ)
    (h0 : s0.shared = x ∧ s0.mu = none ∧ ∀ j, s0.pcs j = if j < n then Pc.loaded x else Pc.idle) (k : Nat) (hk : k ≤ n) :
    let s := run false n fs s0 (List.range k)
    s.shared = x ∧ s.mu = none ∧
      ∀ j, s.pcs j = if j < k then Pc.waiting (fs j x) else if j < n then Pc.loaded x else Pc.idle := by
  induction k with
  | zero => exact ⟨h0.1, h0.2.1, fun j => by simpa [run] using h0.2.2 j⟩
  | succ k ih =>
    obtain ⟨h1, h2, h3⟩ := ih (Nat.le_of_succ_le hk)
    rw [List.range_succ, run_snoc]
    have hkn : ¬ n ≤ k := by omega
    have hpk : (run false n fs s0 (List.range k)).pcs k = Pc.loaded x := by
      rw [h3 k]; simp; omega
    simp only [step, hkn, if_false, hpk]
    refine ⟨h1, h2, fun j => ?_⟩
    simp only [Bool.false_eq_true, if_false]
    by_cases hj : j = k
    · subst hj; simp
    · rw [if_neg hj, h3 j]
      by_cases hlt : j < k
      · simp [hlt, Nat.lt_succ_of_lt hlt]
      · have : ¬ j < k + 1 := by omega
        simp [hlt, this]

/-- the three steps lock / store / unlock of call `k` -/
theorem publish (n : Nat) (fs : Nat → σ → σ) (s : Sys σ) (k : Nat) (hk : k < n) (v : σ)
    (hm : s.mu = none) (hp : s.pcs k = Pc.waiting v) :
    let s' := run false n fs s [k, k, k]
    s'.shared = v ∧ s'.mu = none ∧ ∀ j, s'.pcs j = if j = k then Pc.done else s.pcs j := by
  have hkn : ¬ n ≤ k := by omega
  simp only [run, List.foldl_cons, List.foldl_nil]
  -- lock
  have e1 : step false n fs s k = { s with mu := some k, pcs := fun j => if j = k then Pc.computed v else s.pcs j } := by
    simp [step, hkn, hp, hm]
  rw [e1]
  -- store
  have e2 : step false n fs { s with mu := some k, pcs := fun j => if j = k then Pc.computed v else s.pcs j } k =
      { shared := v, mu := some k,
        pcs := fun j => if j = k then Pc.stored else (if j = k then Pc.computed v else s.pcs j) } := by
    simp [step, hkn]
  rw [e2]
  -- unlock
  simp only [step, hkn, if_false, if_true]
  refine ⟨by trivial, by trivial, fun j => ?_⟩
  by_cases hj : j = k <;> simp [hj]

/-- phase C: the calls publish one after the other; after `k` of them the value is the `k`-th call's update of
the ORIGINAL snapshot -/
theorem phaseC (n : Nat) (fs : Nat → σ → σ) (x : σ) (s0 : Sys σ)
    (h0 : s0.shared = x ∧ s0.mu = none ∧ ∀ j, s0.pcs j = if j < n then Pc.waiting (fs j x) else Pc.idle) (k : Nat) (hk : k ≤ n) :
    let s := run false n fs s0 ((List.range k).flatMap (fun i => [i, i, i]))
    s.shared = (match k with | 0 => x | m + 1 => fs m x) ∧ s.mu = none ∧
      ∀ j, s.pcs j = if j < k then Pc.done else if j < n then Pc.waiting (fs j x) else Pc.idle := by
  induction k with
  | zero => exact ⟨h0.1, h0.2.1, fun j => by simpa [run] using h0.2.2 j⟩
  | succ k ih =>
    obtain ⟨_, h2, h3⟩ := ih (Nat.le_of_succ_le hk)
    rw [List.range_succ, List.flatMap_append, run_append]
    simp only [List.flatMap_cons, List.flatMap_nil, List.append_nil]
    have hpk : (run false n fs s0 ((List.range k).flatMap (fun i => [i, i, i]))).pcs k = Pc.waiting (fs k x) := by
      rw [h3 k]; simp; omega
    obtain ⟨p1, p2, p3⟩ := publish n fs _ k (by omega) (fs k x) h2 hpk
    refine ⟨p1, p2, fun j => ?_⟩
    rw [p3 j]
    by_cases hj : j = k
    · subst hj; simp
    · rw [if_neg hj, h3 j]
      by_cases hlt : j < k
      · simp [hlt, Nat.lt_succ_of_lt hlt]
      · have : ¬ j < k + 1 := by omega
        simp [hlt, this]

/-- the gated schedule without the mutex discipline: all `n + 1` calls return, and the published value is the LAST
publisher's update of the original value - the effect of every other call is lost -/
theorem gated_unlocked (n : Nat) (fs : Nat → σ → σ) (x : σ) :
    let s := run false (n + 1) fs (init x) (gatedSched (n + 1))
    s.allDone (n + 1) = true ∧ s.shared = fs n x ∧ s.mu = none := by
  intro s
  have hA := phaseA (n + 1) fs x (n + 1) (Nat.le_refl _)
  have hB := phaseB (n + 1) fs x _ hA (n + 1) (Nat.le_refl _)
  have hB' : (run false (n + 1) fs (run false (n + 1) fs (init x) (List.range (n + 1))) (List.range (n + 1))).shared = x ∧
      (run false (n + 1) fs (run false (n + 1) fs (init x) (List.range (n + 1))) (List.range (n + 1))).mu = none ∧
      ∀ j, (run false (n + 1) fs (run false (n + 1) fs (init x) (List.range (n + 1))) (List.range (n + 1))).pcs j =
        if j < n + 1 then Pc.waiting (fs j x) else Pc.idle := by
    refine ⟨hB.1, hB.2.1, fun j => ?_⟩
    rw [hB.2.2 j]
    by_cases hj : j < n + 1 <;> simp [hj]
  have hC := phaseC (n + 1) fs x _ hB' (n + 1) (Nat.le_refl _)
  have hs : s = run false (n + 1) fs (run false (n + 1) fs (run false (n + 1) fs (init x) (List.range (n + 1)))
      (List.range (n + 1))) ((List.range (n + 1)).flatMap (fun i => [i, i, i])) := by
    show run false (n + 1) fs (init x) (gatedSched (n + 1)) = _
    unfold gatedSched
    rw [run_append, run_append]
  rw [hs]
  refine ⟨?_, hC.1, hC.2.1⟩
  unfold Sys.allDone
  rw [List.all_eq_true]
  intro i hi
  rw [List.mem_range] at hi
  rw [hC.2.2 i]
  simp [hi, Pc.isDone]

end C11
