/- C03 helper lemmas: every primitive writer of the model is inverted by the specification's reader -/
import Model.FrameSpec
import Model.FrameWrite
namespace C03
open FrameSpec FrameWrite

theorem rdByte_byteOf (n : Nat) (r : Bytes) (h : n < 256) : rdByte (byteOf n :: r) = some (n, r) := by
  simp [rdByte, byteOf]; omega

theorem rdShort_wShort (n : Nat) (r : Bytes) (h : n < 65536) : rdShort (wShort n ++ r) = some (n, r) := by
  simp [rdShort, wShort, byteOf]; omega

theorem rdUInt_wUInt (n : Nat) (r : Bytes) (h : n < 4294967296) : rdUInt (wUInt n ++ r) = some (n, r) := by
  simp [rdUInt, wUInt, byteOf]; omega

theorem rdInt_wInt (z : Int) (r : Bytes) (h1 : -2147483648 ≤ z) (h2 : z < 2147483648) :
    rdInt (wInt z ++ r) = some (z, r) := by
  have : (z % 4294967296).toNat < 4294967296 := by omega
  simp [rdInt, wInt, rdUInt_wUInt _ _ this]; omega

theorem byteOf_congr (a b : Nat) (h : a % 256 = b % 256) : byteOf a = byteOf b := by
  apply UInt8.toNat_inj.mp
  simpa [byteOf] using h

theorem wUInt_mod (n : Nat) : wUInt n = wUInt (n % 4294967296) := by
  simp only [wUInt]
  rw [byteOf_congr (n / 16777216) (n % 4294967296 / 16777216) (by omega),
      byteOf_congr (n / 65536) (n % 4294967296 / 65536) (by omega),
      byteOf_congr (n / 256) (n % 4294967296 / 256) (by omega),
      byteOf_congr n (n % 4294967296) (by omega)]

theorem rdLong_wLong (z : Int) (r : Bytes) (h1 : -9223372036854775808 ≤ z) (h2 : z < 9223372036854775808) :
    rdLong (wLong z ++ r) = some (z, r) := by
  have h : (z % 18446744073709551616).toNat / 4294967296 < 4294967296 := by omega
  have h' : (z % 18446744073709551616).toNat % 4294967296 < 4294967296 := by omega
  have e2 : rdUInt (wUInt (z % 18446744073709551616).toNat ++ r) =
      some ((z % 18446744073709551616).toNat % 4294967296, r) := by
    rw [wUInt_mod]; exact rdUInt_wUInt _ _ h'
  simp only [rdLong, wLong, List.append_assoc, rdUInt_wUInt _ _ h, e2]
  simp; omega

theorem takeN_append (s r : Bytes) : takeN s.length (s ++ r) = some (s, r) := by
  simp [takeN]

theorem rdString_wString (s r : Bytes) (h : fitsShort s = true) : rdString (wString s ++ r) = some (s, r) := by
  have : s.length < 65536 := by simp [fitsShort] at h; omega
  simp only [rdString, wString, List.append_assoc, rdShort_wShort _ _ this, takeN_append]

theorem rdLongString_wLongString (s r : Bytes) (h : fitsInt s = true) :
    rdLongString (wLongString s ++ r) = some (s, r) := by
  have h2 : (s.length : Int) < 2147483648 := by simp [fitsInt] at h; omega
  have h1 : -2147483648 ≤ (s.length : Int) := by omega
  simp only [rdLongString, wLongString, List.append_assoc, rdInt_wInt _ _ h1 h2]
  simp [takeN_append]

theorem rdBytes_wBytes (ob : Option Bytes) (r : Bytes) (h : optAll fitsInt ob = true) :
    rdBytes (wBytes ob ++ r) = some (ob, r) := by
  cases ob with
  | none => simp [rdBytes, wBytes, rdInt_wInt]
  | some s =>
    have h2 : (s.length : Int) < 2147483648 := by simp [optAll, fitsInt] at h; omega
    have h1 : -2147483648 ≤ (s.length : Int) := by omega
    simp only [rdBytes, wBytes, List.append_assoc, rdInt_wInt _ _ h1 h2]
    simp [takeN_append]

/-- n items written one after the other are read back one after the other -/
theorem rdList_flatMap {α β : Type} (rd : Bytes → Option (β × Bytes)) (enc : α → Bytes) (f : α → β)
    (xs : List α) (r : Bytes) (h : ∀ x ∈ xs, ∀ r, rd (enc x ++ r) = some (f x, r)) :
    rdList rd xs.length (xs.flatMap enc ++ r) = some (xs.map f, r) := by
  induction xs with
  | nil => simp [rdList]
  | cons x xs ih =>
    have hx := h x (by simp)
    have ih' := ih (fun y hy => h y (by simp [hy]))
    simp only [List.length_cons, List.flatMap_cons, List.append_assoc, rdList, hx, ih', List.map_cons]

theorem rdCounted_flatMap {α β : Type} (rd : Bytes → Option (β × Bytes)) (enc : α → Bytes) (f : α → β)
    (xs : List α) (r : Bytes) (hn : xs.length ≤ 65535)
    (h : ∀ x ∈ xs, ∀ r, rd (enc x ++ r) = some (f x, r)) :
    rdCounted rd (wShort xs.length ++ xs.flatMap enc ++ r) = some (xs.map f, r) := by
  have : xs.length < 65536 := by omega
  simp only [rdCounted, List.append_assoc, rdShort_wShort _ _ this, rdList_flatMap rd enc f xs r h]

theorem rdPair_app {α β : Type} (ra : Bytes → Option (α × Bytes)) (rb : Bytes → Option (β × Bytes))
    (ea eb : Bytes) (a : α) (b : β) (r : Bytes)
    (ha : ∀ r, ra (ea ++ r) = some (a, r)) (hb : rb (eb ++ r) = some (b, r)) :
    rdPair ra rb (ea ++ eb ++ r) = some ((a, b), r) := by
  simp only [rdPair, List.append_assoc, ha, hb]

theorem rdOpt_app {α : Type} (c : Bool) (rd : Bytes → Option (α × Bytes)) (enc : Bytes) (x : α) (r : Bytes)
    (h : c = true → rd (enc ++ r) = some (x, r)) :
    rdOpt c rd ((if c then enc else []) ++ r) = some (if c then some x else none, r) := by
  cases c with
  | false => simp [rdOpt]
  | true => simp [rdOpt, h rfl]

theorem rdStringList_w (l : List Bytes) (r : Bytes) (hn : l.length ≤ 65535) (h : l.all fitsShort = true) :
    rdStringList (wStringList l ++ r) = some (l, r) := by
  have := rdCounted_flatMap rdString wString id l r hn
    (fun x hx r => rdString_wString x r (List.all_eq_true.mp h x hx))
  simpa [rdStringList, wStringList] using this

theorem rdStringMap_w (m : List (Bytes × Bytes)) (r : Bytes) (hn : m.length ≤ 65535)
    (h : m.all (fun kv => fitsShort kv.1 && fitsShort kv.2) = true) :
    rdStringMap (wStringMap m ++ r) = some (m, r) := by
  have := rdCounted_flatMap (rdPair rdString rdString) (fun kv : Bytes × Bytes => wString kv.1 ++ wString kv.2) id m r hn
    (fun x hx r => by
      have hx' := List.all_eq_true.mp h x hx
      simp only [Bool.and_eq_true] at hx'
      exact rdPair_app _ _ _ _ _ _ _ (fun r => rdString_wString _ r hx'.1) (rdString_wString _ r hx'.2))
  simpa [rdStringMap, wStringMap] using this

theorem rdBytesMap_w (m : Payload) (r : Bytes) (hn : m.length ≤ 65535)
    (h : m.all (fun kv => fitsShort kv.1 && optAll fitsInt kv.2) = true) :
    rdBytesMap (wBytesMap m ++ r) = some (m, r) := by
  have := rdCounted_flatMap (rdPair rdString rdBytes) (fun kv : Bytes × Option Bytes => wString kv.1 ++ wBytes kv.2) id m r hn
    (fun x hx r => by
      have hx' := List.all_eq_true.mp h x hx
      simp only [Bool.and_eq_true] at hx'
      exact rdPair_app _ _ _ _ _ _ _ (fun r => rdString_wString _ r hx'.1) (rdBytes_wBytes _ r hx'.2))
  simpa [rdBytesMap, wBytesMap] using this

end C03
