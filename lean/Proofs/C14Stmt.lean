import Proofs.C14Prepare
import Proofs.C14Key
/-!
# C14 — statement level: whose text was PREPAREd for the flight an executor is handed (helper lemmas)
-/
namespace C14Stmt
open LRU Prepare

/-- the projection to the key-level machine -/
theorem trun_run : ∀ (as : List TAction) (x x' : TState), trun x as = some x' →
    run x.s (as.map TAction.key) = some x'.s
  | [], x, x', h => by simp only [trun] at h; injection h with h; subst h; rfl
  | a :: as, x, x', h => by
    simp only [trun] at h
    cases hs : tstep x a with
    | none => simp [hs] at h
    | some x1 =>
      simp only [hs] at h
      have h1 : step x.s a.key = some x1.s := by
        unfold tstep at hs
        cases hk : step x.s a.key with
        | none => simp [hk] at hs
        | some s' => simp only [hk] at hs; injection hs with hs; subst hs; rfl
      simp only [List.map_cons, run, h1]
      exact trun_run as x1 x' h

/-- every flight has a recorded text, and the flight's cache key is the key of that text -/
def TInv (x : TState) : Prop :=
  x.sent.length = x.s.flights.length ∧
  ∀ (f : Nat) (fl : Flight (List UInt8)), x.s.flights[f]? = some fl → ∃ t, x.sent[f]? = some t ∧ keyOf t = fl.key

theorem tinv_init (cap : Int) : TInv (tinit cap) := by
  refine ⟨rfl, ?_⟩
  intro f fl h
  simp [tinit, init] at h

/-- flights change only by appending the looked-up key's flight or by updating a status -/
theorem step_flights (s s' : State (List UInt8)) (a : Action (List UInt8)) (h : step s a = some s') :
    (s'.flights = s.flights) ∨
    (∃ k, a = .lookup k ∧ s'.flights = s.flights ++ [{ key := k, status := .inflight }]) ∨
    (∃ f fl st, s.flights[f]? = some fl ∧ s'.flights = s.flights.set f { fl with status := st }) := by
  cases a with
  | lookup k =>
    simp only [step] at h
    cases hget : s.cache.get k with
    | mk o c' =>
      cases o with
      | some g => simp only [hget] at h; injection h with h; subst h; exact .inl rfl
      | none => simp only [hget] at h; injection h with h; subst h; exact .inr (.inl ⟨k, rfl, rfl⟩)
  | complete g r =>
    simp only [step] at h
    cases hfl : s.flights[g]? with
    | none => simp [hfl] at h
    | some fl =>
      simp only [hfl] at h
      by_cases hst : fl.status = .inflight
      · simp only [hst, if_true] at h
        cases r with
        | some id => injection h with h; subst h; exact .inr (.inr ⟨g, fl, _, hfl, rfl⟩)
        | none => injection h with h; subst h; exact .inr (.inr ⟨g, fl, _, hfl, rfl⟩)
      · simp [hst] at h
  | unprepared k id =>
    simp only [step] at h
    cases hget : s.cache.get k with
    | mk o c' =>
      cases o with
      | none => simp only [hget] at h; injection h with h; subst h; exact .inl rfl
      | some g =>
        simp only [hget] at h
        split at h
        · split at h <;> (injection h with h; subst h; exact .inl rfl)
        · injection h with h; subst h; exact .inl rfl
        · injection h with h; subst h; exact .inl rfl

theorem tstep_inv (x x' : TState) (a : TAction) (hI : TInv x) (h : tstep x a = some x') : TInv x' := by
  obtain ⟨hl, hk⟩ := hI
  unfold tstep at h
  cases hs : step x.s a.key with
  | none => simp [hs] at h
  | some s' =>
    simp only [hs] at h
    injection h with h; subst h
    rcases step_flights x.s s' a.key hs with he | ⟨k, ha, he⟩ | ⟨f, fl, st, hf, he⟩
    · -- flights unchanged: sent unchanged
      have hsent : a.sentAfter x.sent (decide (s'.flights.length ≠ x.s.flights.length)) = x.sent := by
        cases a <;> simp [TAction.sentAfter, he]
      rw [hsent]
      exact ⟨by rw [hl, he], fun f fl hfl => hk f fl (he ▸ hfl)⟩
    · -- a new flight: its text is the looked-up triple's
      cases a with
      | lookup t =>
        simp only [TAction.key, Action.lookup.injEq] at ha
        have hne : decide (s'.flights.length ≠ x.s.flights.length) = true := by rw [he]; simp
        simp only [TAction.sentAfter, hne, if_true]
        refine ⟨by rw [he]; simp [hl], ?_⟩
        intro f fl hfl
        rw [he] at hfl
        by_cases hlt : f < x.s.flights.length
        · rw [List.getElem?_append_left hlt] at hfl
          obtain ⟨t', h1, h2⟩ := hk f fl hfl
          exact ⟨t', by rw [List.getElem?_append_left (hl ▸ hlt)]; exact h1, h2⟩
        · have hge : x.s.flights.length ≤ f := Nat.le_of_not_lt hlt
          rw [List.getElem?_append_right hge] at hfl
          have hf0 : f - x.s.flights.length = 0 := by
            cases hd : f - x.s.flights.length with
            | zero => rfl
            | succ n => rw [hd] at hfl; simp at hfl
          rw [hf0] at hfl
          simp only [List.getElem?_cons_zero, Option.some.injEq] at hfl
          subst hfl
          refine ⟨t, ?_, ha⟩
          rw [List.getElem?_append_right (hl ▸ hge), hl, hf0]; rfl
      | complete g r => simp [TAction.key] at ha
      | unprepared t id => simp [TAction.key] at ha
    · -- a status update: keys and texts unchanged
      have hlen : s'.flights.length = x.s.flights.length := by rw [he]; simp
      have hsent : a.sentAfter x.sent (decide (s'.flights.length ≠ x.s.flights.length)) = x.sent := by
        cases a <;> simp [TAction.sentAfter, hlen]
      rw [hsent]
      refine ⟨by rw [hl, hlen], ?_⟩
      intro g fl' hfl
      rw [he] at hfl
      by_cases hg : f = g
      · subst hg
        have hlt : f < x.s.flights.length := (List.getElem?_eq_some_iff.1 hf).1
        simp only [List.getElem?_set, hlt, if_true] at hfl
        simp only [if_pos rfl, Option.some.injEq] at hfl
        subst hfl
        exact hk f fl hf
      · rw [List.getElem?_set_ne hg] at hfl
        exact hk g fl' hfl

theorem trun_inv : ∀ (as : List TAction) (x x' : TState), TInv x → trun x as = some x' → TInv x'
  | [], x, x', hI, h => by simp only [trun] at h; injection h with h; subst h; exact hI
  | a :: as, x, x', hI, h => by
    simp only [trun] at h
    cases hs : tstep x a with
    | none => simp [hs] at h
    | some x1 =>
      simp only [hs] at h
      exact trun_inv as x1 x' (tstep_inv x x1 a hI hs) h

end C14Stmt
