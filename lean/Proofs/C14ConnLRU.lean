import Proofs.C14Conn
import Proofs.C14LRU
/-!
  C14: the connection-level machine with the real LRU cache (`PLru`, Model/Prepare.lean) refines the machine
  with a finite-map cache and environment evictions (`PConn`); the LRU stays within its capacity in every schedule.
-/
namespace C14ConnLRU
open PConn PLru LRU C14Conn
variable {κ : Type} [DecidableEq κ]

theorem run_append : ∀ (as bs : List (PConn.Action κ)) (s s1 s2 : PConn.State κ) (e1 e2 : List (Ev κ)),
    PConn.run s as = some (s1, e1) → PConn.run s1 bs = some (s2, e2) →
    PConn.run s (as ++ bs) = some (s2, e1 ++ e2) := by
  intro as
  induction as with
  | nil =>
    intro bs s s1 s2 e1 e2 h1 h2
    simp only [PConn.run, Option.some.injEq, Prod.mk.injEq] at h1
    obtain ⟨rfl, rfl⟩ := h1
    simpa using h2
  | cons a as ih =>
    intro bs s s1 s2 e1 e2 h1 h2
    simp only [PConn.run, List.cons_append] at h1 ⊢
    cases hs : PConn.step s a with
    | none => simp [hs] at h1
    | some r =>
      obtain ⟨s', ev⟩ := r
      simp only [hs] at h1 ⊢
      cases hr : PConn.run s' as with
      | none => simp [hr] at h1
      | some r2 =>
        obtain ⟨s'', ev'⟩ := r2
        simp only [hr, Option.some.injEq, Prod.mk.injEq] at h1
        obtain ⟨rfl, rfl⟩ := h1
        rw [ih bs s' s'' s2 ev' e2 hr h2]
        simp [List.append_assoc]

theorem run_single (s s' : PConn.State κ) (a : PConn.Action κ) (e : List (Ev κ)) (h : PConn.step s a = some (s', e)) :
    PConn.run s [a] = some (s', e) := by
  simp [PConn.run, h]

theorem evictAll_run : ∀ (ks : List κ) (p p' : PConn.State κ) (e : List (Ev κ)),
    evictAll p ks = some (p', e) → PConn.run p (ks.map PConn.Action.evict) = some (p', e) := by
  intro ks
  induction ks with
  | nil =>
    intro p p' e h
    simp only [evictAll, Option.some.injEq, Prod.mk.injEq] at h
    obtain ⟨rfl, rfl⟩ := h
    rfl
  | cons k ks ih =>
    intro p p' e h
    simp only [evictAll] at h
    cases hs : PConn.step p (.evict k) with
    | none => simp [hs] at h
    | some r =>
      obtain ⟨p1, e1⟩ := r
      simp only [hs] at h
      cases hr : evictAll p1 ks with
      | none => simp [hr] at h
      | some r2 =>
        obtain ⟨p2, e2⟩ := r2
        simp only [hr, Option.some.injEq, Prod.mk.injEq] at h
        obtain ⟨rfl, rfl⟩ := h
        have := ih p1 p2 e2 hr
        simp only [List.map_cons, PConn.run, hs, this]

/-- the finite-map schedule one `PLru` step stands for -/
theorem stepOther_sim (s s' : PLru.State κ) (a : PConn.Action κ) (evs : List (Ev κ))
    (h : stepOther s a = some (s', evs)) : PConn.run s.p [a] = some (s'.p, evs) := by
  unfold stepOther at h
  cases hs : PConn.step s.p a with
  | none => simp [hs] at h
  | some r =>
    obtain ⟨p1, e1⟩ := r
    simp only [hs, Option.some.injEq, Prod.mk.injEq] at h
    obtain ⟨rfl, rfl⟩ := h
    exact run_single _ _ _ _ hs

theorem stepFinish_sim (s s' : PLru.State κ) (c : Nat) (evs : List (Ev κ))
    (h : stepFinish s c = some (s', evs)) : PConn.run s.p [.finish c] = some (s'.p, evs) := by
  unfold stepFinish at h
  cases hs : PConn.step s.p (.finish c) with
  | none => simp [hs] at h
  | some r =>
    obtain ⟨p1, e1⟩ := r
    simp only [hs, Option.some.injEq, Prod.mk.injEq] at h
    obtain ⟨rfl, rfl⟩ := h
    exact run_single _ _ _ _ hs

theorem stepLookup_sim (s s' : PLru.State κ) (c : Nat) (evs : List (Ev κ))
    (h : stepLookup s c = some (s', evs)) : ∃ ks : List κ, PConn.run s.p (.lookup c :: ks.map PConn.Action.evict) = some (s'.p, evs) := by
  unfold stepLookup at h
  cases hk : lookupKey s.p c with
  | none => simp [hk] at h
  | some k =>
    simp only [hk] at h
    cases hg : (s.lru.get k).1 with
    | some v =>
      have hg' : s.lru.get k = (some v, (s.lru.get k).2) := by rw [← hg]
      rw [hg'] at h
      simp only [] at h
      cases hs : PConn.step s.p (.lookup c) with
      | none => simp [hs] at h
      | some r =>
        obtain ⟨p1, e1⟩ := r
        simp only [hs, Option.some.injEq, Prod.mk.injEq] at h
        obtain ⟨rfl, rfl⟩ := h
        exact ⟨[], run_single _ _ _ _ hs⟩
    | none =>
      have hg' : s.lru.get k = (none, (s.lru.get k).2) := by rw [← hg]
      rw [hg'] at h
      simp only [] at h
      cases hs : PConn.step s.p (.lookup c) with
      | none => simp [hs] at h
      | some r =>
        obtain ⟨p1, e1⟩ := r
        simp only [hs] at h
        cases he : evictAll p1 ((s.lru.add k s.p.flights.length).2.map (·.1)) with
        | none => simp [he] at h
        | some r2 =>
          obtain ⟨p2, e2⟩ := r2
          simp only [he, Option.some.injEq, Prod.mk.injEq] at h
          obtain ⟨rfl, rfl⟩ := h
          refine ⟨(s.lru.add k s.p.flights.length).2.map (·.1), ?_⟩
          exact run_append [.lookup c] _ s.p p1 p2 e1 e2 (run_single _ _ _ _ hs) (evictAll_run _ _ _ _ he)

theorem step_sim (s s' : PLru.State κ) (a : PLru.Action κ) (evs : List (Ev κ))
    (h : PLru.step s a = some (s', evs)) : ∃ as' : List (PConn.Action κ), PConn.run s.p as' = some (s'.p, evs) := by
  cases a with
  | lookup c => obtain ⟨ks, hk⟩ := stepLookup_sim s s' c evs h; exact ⟨_, hk⟩
  | finish c => exact ⟨_, stepFinish_sim s s' c evs h⟩
  | call b es => exact ⟨_, stepOther_sim s s' _ evs h⟩
  | spawn c => exact ⟨_, stepOther_sim s s' _ evs h⟩
  | srvPrepare f r => exact ⟨_, stepOther_sim s s' _ evs h⟩
  | complete f => exact ⟨_, stepOther_sim s s' _ evs h⟩
  | observe c a => exact ⟨_, stepOther_sim s s' _ evs h⟩
  | cancel c => exact ⟨_, stepOther_sim s s' _ evs h⟩
  | abandon c => exact ⟨_, stepOther_sim s s' _ evs h⟩
  | abandonLate c => exact ⟨_, stepOther_sim s s' _ evs h⟩
  | srvLate c a => exact ⟨_, stepOther_sim s s' _ evs h⟩

theorem run_sim : ∀ (as : List (PLru.Action κ)) (s s' : PLru.State κ) (tr : List (Ev κ)),
    PLru.run s as = some (s', tr) → ∃ as' : List (PConn.Action κ), PConn.run s.p as' = some (s'.p, tr) := by
  intro as
  induction as with
  | nil =>
    intro s s' tr h
    simp only [PLru.run, Option.some.injEq, Prod.mk.injEq] at h
    obtain ⟨rfl, rfl⟩ := h
    exact ⟨[], rfl⟩
  | cons a as ih =>
    intro s s' tr h
    simp only [PLru.run] at h
    cases hs : PLru.step s a with
    | none => simp [hs] at h
    | some r =>
      obtain ⟨s1, e1⟩ := r
      simp only [hs] at h
      cases hr : PLru.run s1 as with
      | none => simp [hr] at h
      | some r2 =>
        obtain ⟨s2, e2⟩ := r2
        simp only [hr, Option.some.injEq, Prod.mk.injEq] at h
        obtain ⟨rfl, rfl⟩ := h
        obtain ⟨as1, h1⟩ := step_sim s s1 a e1 hs
        obtain ⟨as2, h2⟩ := ih s1 s2 e2 hr
        exact ⟨as1 ++ as2, run_append as1 as2 s.p s1.p s2.p e1 e2 h1 h2⟩

/-! ### the LRU stays an LRU of its capacity -/

theorem syncRm_inv : ∀ (evs : List (Ev κ)) (l : LRU.Cache κ Nat), l.Inv → (syncRm l evs).Inv ∧ (syncRm l evs).cap = l.cap := by
  intro evs
  induction evs with
  | nil => intro l h; exact ⟨h, rfl⟩
  | cons e es ih =>
    intro l h
    cases e with
    | rm k f =>
      simp only [syncRm]
      have := remove_inv l h k
      have h2 := ih _ this.1
      exact ⟨h2.1, by rw [h2.2, this.2]⟩
    | start c b es' => simpa only [syncRm] using ih l h
    | prep f k r => simpa only [syncRm] using ih l h
    | exec c ids a => simpa only [syncRm] using ih l h
    | ret c o => simpa only [syncRm] using ih l h
    | crash => simpa only [syncRm] using ih l h
    | hang c => simpa only [syncRm] using ih l h
    | cancel c => simpa only [syncRm] using ih l h

theorem step_lru_inv (s s' : PLru.State κ) (a : PLru.Action κ) (evs : List (Ev κ)) (hI : s.lru.Inv)
    (h : PLru.step s a = some (s', evs)) : s'.lru.Inv ∧ s'.lru.cap = s.lru.cap := by
  have other : ∀ pa, stepOther s pa = some (s', evs) → s'.lru.Inv ∧ s'.lru.cap = s.lru.cap := by
    intro pa h
    unfold stepOther at h
    cases hs : PConn.step s.p pa with
    | none => simp [hs] at h
    | some r =>
      obtain ⟨p1, e1⟩ := r
      simp only [hs, Option.some.injEq, Prod.mk.injEq] at h
      obtain ⟨rfl, rfl⟩ := h
      exact syncRm_inv _ _ hI
  cases a with
  | lookup c =>
    simp only [PLru.step] at h
    unfold stepLookup at h
    cases hk : lookupKey s.p c with
    | none => simp [hk] at h
    | some k =>
      simp only [hk] at h
      cases hg : (s.lru.get k).1 with
      | some v =>
        have hg' : s.lru.get k = (some v, (s.lru.get k).2) := by rw [← hg]
        rw [hg'] at h
        simp only [] at h
        cases hs : PConn.step s.p (.lookup c) with
        | none => simp [hs] at h
        | some r =>
          obtain ⟨p1, e1⟩ := r
          simp only [hs, Option.some.injEq, Prod.mk.injEq] at h
          obtain ⟨rfl, rfl⟩ := h
          exact get_inv s.lru hI k
      | none =>
        have hg' : s.lru.get k = (none, (s.lru.get k).2) := by rw [← hg]
        rw [hg'] at h
        simp only [] at h
        cases hs : PConn.step s.p (.lookup c) with
        | none => simp [hs] at h
        | some r =>
          obtain ⟨p1, e1⟩ := r
          simp only [hs] at h
          cases he : evictAll p1 ((s.lru.add k s.p.flights.length).2.map (·.1)) with
          | none => simp [he] at h
          | some r2 =>
            obtain ⟨p2, e2⟩ := r2
            simp only [he, Option.some.injEq, Prod.mk.injEq] at h
            obtain ⟨rfl, rfl⟩ := h
            exact add_inv s.lru hI k _
  | finish c =>
    simp only [PLru.step] at h
    unfold stepFinish at h
    cases hs : PConn.step s.p (.finish c) with
    | none => simp [hs] at h
    | some r =>
      obtain ⟨p1, e1⟩ := r
      simp only [hs, Option.some.injEq, Prod.mk.injEq] at h
      obtain ⟨rfl, rfl⟩ := h
      cases hu : unprepLookup s.p c with
      | none => simpa only [hu] using syncRm_inv e1 _ hI
      | some k =>
        simp only []
        have hg := get_inv s.lru hI k
        have := syncRm_inv e1 _ hg.1
        exact ⟨this.1, by rw [this.2, hg.2]⟩
  | call b es => exact other _ h
  | spawn c => exact other _ h
  | srvPrepare f r => exact other _ h
  | complete f => exact other _ h
  | observe c a => exact other _ h
  | cancel c => exact other _ h
  | abandon c => exact other _ h
  | abandonLate c => exact other _ h
  | srvLate c a => exact other _ h

theorem run_lru_inv : ∀ (as : List (PLru.Action κ)) (s s' : PLru.State κ) (tr : List (Ev κ)), s.lru.Inv →
    PLru.run s as = some (s', tr) → s'.lru.Inv ∧ s'.lru.cap = s.lru.cap := by
  intro as
  induction as with
  | nil =>
    intro s s' tr hI h
    simp only [PLru.run, Option.some.injEq, Prod.mk.injEq] at h
    obtain ⟨rfl, rfl⟩ := h
    exact ⟨hI, rfl⟩
  | cons a as ih =>
    intro s s' tr hI h
    simp only [PLru.run] at h
    cases hs : PLru.step s a with
    | none => simp [hs] at h
    | some r =>
      obtain ⟨s1, e1⟩ := r
      simp only [hs] at h
      cases hr : PLru.run s1 as with
      | none => simp [hr] at h
      | some r2 =>
        obtain ⟨s2, e2⟩ := r2
        simp only [hr, Option.some.injEq, Prod.mk.injEq] at h
        obtain ⟨rfl, rfl⟩ := h
        have h1 := step_lru_inv s s1 a e1 hI hs
        have h2 := ih s1 s2 e2 h1.1 hr
        exact ⟨h2.1, by rw [h2.2, h1.2]⟩


/-- the keys whose entries left the cache, in a list of events -/
def rmKeys : List (Ev κ) → List κ
  | [] => []
  | .rm k _ :: es => k :: rmKeys es
  | _ :: es => rmKeys es

theorem rmKeys_append (a b : List (Ev κ)) : rmKeys (a ++ b) = rmKeys a ++ rmKeys b := by
  induction a with
  | nil => rfl
  | cons e es ih => cases e <;> simp [rmKeys, ih]

/-- the cache after a step is the cache before minus the keys of the step's `rm` events -/
def Eff (p p' : PConn.State κ) (evs : List (Ev κ)) : Prop :=
  ∀ k', p'.cache k' = if k' ∈ rmKeys evs then none else p.cache k'

theorem eff_same (p p' : PConn.State κ) (evs : List (Ev κ)) (hc : p'.cache = p.cache) (hr : rmKeys evs = []) : Eff p p' evs := by
  intro k'; rw [hc, hr]; simp

theorem eff_trans {p p1 p2 : PConn.State κ} {e1 e2 : List (Ev κ)} (h1 : Eff p p1 e1) (h2 : Eff p1 p2 e2) : Eff p p2 (e1 ++ e2) := by
  intro k'
  rw [h2 k', h1 k', rmKeys_append]
  by_cases a : k' ∈ rmKeys e2 <;> by_cases b : k' ∈ rmKeys e1 <;> simp [a, b]

theorem removeKey_eff (s : PConn.State κ) (k : κ) : Eff s (removeKey s k).1 (removeKey s k).2 := by
  unfold removeKey
  split
  · exact eff_same _ _ _ rfl rfl
  · split
    · exact eff_same _ _ _ rfl rfl
    · intro k'
      simp only [rmKeys, List.mem_singleton]

theorem setDone_cache (s : PConn.State κ) (f : Nat) : (setDone s f).cache = s.cache := by
  unfold setDone; split <;> rfl

theorem evictIfMatch_eff (s : PConn.State κ) (k : κ) (id : Id) : Eff s (evictIfMatch s k id).1 (evictIfMatch s k id).2 := by
  unfold evictIfMatch
  split
  · exact eff_same _ _ _ rfl rfl
  · split
    · exact eff_same _ _ _ rfl rfl
    · split
      · split
        · split
          · exact removeKey_eff s k
          · exact eff_same _ _ _ rfl rfl
        · exact eff_same _ _ _ rfl rfl
      · exact eff_same _ _ _ rfl rfl


theorem step_eff (p p' : PConn.State κ) (a : PConn.Action κ) (evs : List (Ev κ)) (hl : ∀ c, a ≠ .lookup c)
    (h : PConn.step p a = some (p', evs)) : Eff p p' evs := by
  cases a with
  | lookup c => exact absurd rfl (hl c)
  | evict k =>
    simp only [PConn.step] at h
    repeat' (split at h)
    all_goals first
      | (cases h; done)
      | (simp only [Option.some.injEq] at h; have := removeKey_eff p k; rw [h] at this; exact this)
  | complete f =>
    simp only [PConn.step] at h
    repeat' (split at h)
    all_goals first
      | (cases h; done)
      | (simp only [Option.some.injEq, Prod.mk.injEq] at h; obtain ⟨rfl, rfl⟩ := h
         first
           | exact eff_same _ _ _ (setDone_cache _ _) rfl
           | (intro k'; rw [setDone_cache]; exact removeKey_eff _ _ k'))
  | finish c =>
    simp only [PConn.step] at h
    repeat' (split at h)
    all_goals first
      | (cases h; done)
      | (simp only [Option.some.injEq, Prod.mk.injEq] at h; obtain ⟨rfl, rfl⟩ := h
         first
           | exact eff_same _ _ _ rfl rfl
           | (intro k'; exact evictIfMatch_eff _ _ _ k'))
  | call b es | spawn c | srvPrepare f r | observe c a | cancel c | abandon c | abandonLate c | srvLate c a =>
    simp only [PConn.step] at h
    repeat' (split at h)
    all_goals first
      | (cases h; done)
      | (simp only [Option.some.injEq, Prod.mk.injEq] at h; obtain ⟨rfl, rfl⟩ := h; exact eff_same _ _ _ rfl rfl)

theorem syncRm_find : ∀ (evs : List (Ev κ)) (l : LRU.Cache κ Nat) (k' : κ),
    (syncRm l evs).find k' = if k' ∈ rmKeys evs then none else l.find k' := by
  intro evs
  induction evs with
  | nil => intro l k'; simp [syncRm, rmKeys]
  | cons e es ih =>
    intro l k'
    cases e with
    | rm k f =>
      simp only [syncRm, rmKeys, List.mem_cons]
      rw [ih, (remove_find l k k').2]
      by_cases a : k' = k <;> by_cases b : k' ∈ rmKeys es <;> simp [a, b]
    | start c b es' => exact ih l k'
    | prep f k r => exact ih l k'
    | exec c ids a => exact ih l k'
    | ret c o => exact ih l k'
    | crash => exact ih l k'
    | hang c => exact ih l k'
    | cancel c => exact ih l k'

/-- invariant + coupling + strictness invariant of the finite-map machine, packaged -/
def Good (p : PConn.State κ) : Prop := ∃ o : Obs.OState κ, Inv p ∧ Rel p o ∧ SInv p

theorem good_init : Good (PConn.init : PConn.State κ) := ⟨_, inv_init false, rel_init false, sinv_init false⟩

theorem good_run {p p' : PConn.State κ} {as : List (PConn.Action κ)} {evs : List (Ev κ)} (hG : Good p)
    (h : PConn.run p as = some (p', evs)) : Good p' := by
  obtain ⟨o, h1, h2, h3⟩ := hG
  obtain ⟨o', _, g1, g2, g3⟩ := run_refines as p p' o evs h1 h2 h3 h
  exact ⟨o', g1, g2, g3⟩

theorem evict_rm {p p' : PConn.State κ} {k : κ} {evs : List (Ev κ)} (hI : Inv p)
    (h : PConn.step p (.evict k) = some (p', evs)) : rmKeys evs = [k] := by
  simp only [PConn.step] at h
  split at h
  · cases h
  · split at h
    · cases h
    · rename_i g hg
      obtain ⟨fl, hf, _, _⟩ := hI.cached k g hg
      simp only [Option.some.injEq] at h
      unfold removeKey at h
      simp only [hg, hf, Prod.mk.injEq] at h
      rw [← h.2]; rfl

theorem evictAll_good : ∀ (ks : List κ) (p p' : PConn.State κ) (e : List (Ev κ)), Good p →
    evictAll p ks = some (p', e) → Good p' ∧ rmKeys e = ks ∧ Eff p p' e := by
  intro ks
  induction ks with
  | nil =>
    intro p p' e hG h
    simp only [evictAll, Option.some.injEq, Prod.mk.injEq] at h
    obtain ⟨rfl, rfl⟩ := h
    exact ⟨hG, rfl, eff_same _ _ _ rfl rfl⟩
  | cons k ks ih =>
    intro p p' e hG h
    simp only [evictAll] at h
    cases hs : PConn.step p (.evict k) with
    | none => simp [hs] at h
    | some r =>
      obtain ⟨p1, e1⟩ := r
      simp only [hs] at h
      cases hr : evictAll p1 ks with
      | none => simp [hr] at h
      | some r2 =>
        obtain ⟨p2, e2⟩ := r2
        simp only [hr, Option.some.injEq, Prod.mk.injEq] at h
        obtain ⟨rfl, rfl⟩ := h
        have hG1 : Good p1 := good_run hG (run_single _ _ _ _ hs)
        obtain ⟨g1, g2, g3⟩ := ih p1 p2 e2 hG1 hr
        have hI : Inv p := by obtain ⟨_, h1, _, _⟩ := hG; exact h1
        refine ⟨g1, ?_, eff_trans (step_eff _ _ _ _ (fun c => by simp) hs) g3⟩
        rw [rmKeys_append, evict_rm hI hs, g2]; rfl

/-- what a lookup does to the finite-map cache -/
theorem lookup_cache {p p' : PConn.State κ} {c : Nat} {evs : List (Ev κ)} (h : PConn.step p (.lookup c) = some (p', evs)) :
    ∃ k, lookupKey p c = some k ∧ evs = [] ∧
      ((∃ f, p.cache k = some f ∧ p'.cache = p.cache) ∨
       (p.cache k = none ∧ ∀ k', p'.cache k' = if k' = k then some p.flights.length else p.cache k')) := by
  simp only [PConn.step] at h
  split at h
  · cases h
  · rename_i cl hc
    split at h
    · split at h
      · cases h
      · rename_i e he
        have hlk : lookupKey p c = some e.1 := by simp [lookupKey, hc, he]
        split at h
        · rename_i f hf
          simp only [Option.some.injEq, Prod.mk.injEq] at h
          obtain ⟨rfl, rfl⟩ := h
          exact ⟨e.1, hlk, rfl, Or.inl ⟨f, hf, rfl⟩⟩
        · rename_i hf
          simp only [Option.some.injEq, Prod.mk.injEq] at h
          obtain ⟨rfl, rfl⟩ := h
          exact ⟨e.1, hlk, rfl, Or.inr ⟨hf, fun k' => rfl⟩⟩
    · cases h

/-- the two caches hold the same entries -/
def Sync (s : PLru.State κ) : Prop := ∀ k, s.p.cache k = s.lru.find k

theorem step_sync (s s' : PLru.State κ) (a : PLru.Action κ) (evs : List (Ev κ)) (hG : Good s.p) (hL : s.lru.Inv) (hS : Sync s)
    (h : PLru.step s a = some (s', evs)) : Sync s' := by
  have other : ∀ pa, (∀ c, pa ≠ .lookup c) → stepOther s pa = some (s', evs) → Sync s' := by
    intro pa hne h
    unfold stepOther at h
    cases hs : PConn.step s.p pa with
    | none => simp [hs] at h
    | some r =>
      obtain ⟨p1, e1⟩ := r
      simp only [hs, Option.some.injEq, Prod.mk.injEq] at h
      obtain ⟨rfl, rfl⟩ := h
      intro k
      simp only []
      rw [step_eff _ _ _ _ hne hs k, syncRm_find, hS k]
  cases a with
  | lookup c =>
    simp only [PLru.step] at h
    unfold stepLookup at h
    cases hk : lookupKey s.p c with
    | none => simp [hk] at h
    | some k =>
      simp only [hk] at h
      cases hg : (s.lru.get k).1 with
      | some v =>
        have hg' : s.lru.get k = (some v, (s.lru.get k).2) := by rw [← hg]
        rw [hg'] at h
        simp only [] at h
        cases hs : PConn.step s.p (.lookup c) with
        | none => simp [hs] at h
        | some r =>
          obtain ⟨p1, e1⟩ := r
          simp only [hs, Option.some.injEq, Prod.mk.injEq] at h
          obtain ⟨rfl, rfl⟩ := h
          obtain ⟨k2, hk2, _, hcase⟩ := lookup_cache hs
          rw [hk] at hk2; injection hk2 with hk2; subst hk2
          have hfind : s.lru.find k = some v := by rw [← (get_find s.lru k k).1]; exact hg
          intro k'
          simp only []
          rw [(get_find s.lru k k').2]
          rcases hcase with ⟨f, _, hc⟩ | ⟨hn, _⟩
          · rw [hc]; exact hS k'
          · rw [hS k, hfind] at hn; cases hn
      | none =>
        have hg' : s.lru.get k = (none, (s.lru.get k).2) := by rw [← hg]
        rw [hg'] at h
        simp only [] at h
        cases hs : PConn.step s.p (.lookup c) with
        | none => simp [hs] at h
        | some r =>
          obtain ⟨p1, e1⟩ := r
          simp only [hs] at h
          cases he : evictAll p1 ((s.lru.add k s.p.flights.length).2.map (·.1)) with
          | none => simp [he] at h
          | some r2 =>
            obtain ⟨p2, e2⟩ := r2
            simp only [he, Option.some.injEq, Prod.mk.injEq] at h
            obtain ⟨rfl, rfl⟩ := h
            obtain ⟨k2, hk2, _, hcase⟩ := lookup_cache hs
            rw [hk] at hk2; injection hk2 with hk2; subst hk2
            have hfind : s.lru.find k = none := by rw [← (get_find s.lru k k).1]; exact hg
            have hG1 : Good p1 := good_run hG (run_single _ _ _ _ hs)
            obtain ⟨_, hrm, heff⟩ := evictAll_good _ p1 p2 e2 hG1 he
            intro k'
            simp only []
            rw [heff k', hrm, add_miss_find s.lru hL.1 k _ hfind k']
            rcases hcase with ⟨f, hf, _⟩ | ⟨_, hc⟩
            · rw [hS k, hfind] at hf; cases hf
            · rw [hc k', hS k']
  | finish c =>
    simp only [PLru.step] at h
    unfold stepFinish at h
    cases hs : PConn.step s.p (.finish c) with
    | none => simp [hs] at h
    | some r =>
      obtain ⟨p1, e1⟩ := r
      simp only [hs, Option.some.injEq, Prod.mk.injEq] at h
      obtain ⟨rfl, rfl⟩ := h
      intro k'
      simp only []
      rw [step_eff _ _ _ _ (fun c => by simp) hs k', syncRm_find, hS k']
      cases hu : unprepLookup s.p c with
      | none => rfl
      | some k => simp only []; rw [(get_find s.lru k k').2]
  | call b es => exact other _ (fun c => by simp) h
  | spawn c => exact other _ (fun c => by simp) h
  | srvPrepare f r => exact other _ (fun c => by simp) h
  | complete f => exact other _ (fun c => by simp) h
  | observe c a => exact other _ (fun c => by simp) h
  | cancel c => exact other _ (fun c => by simp) h
  | abandon c => exact other _ (fun c => by simp) h
  | abandonLate c => exact other _ (fun c => by simp) h
  | srvLate c a => exact other _ (fun c => by simp) h


/-! ### every schedule of the machine with the real cache -/

theorem run_good : ∀ (as : List (PLru.Action κ)) (s s' : PLru.State κ) (tr : List (Ev κ)), Good s.p → s.lru.Inv → Sync s →
    PLru.run s as = some (s', tr) → Good s'.p ∧ s'.lru.Inv ∧ Sync s' := by
  intro as
  induction as with
  | nil =>
    intro s s' tr hG hL hS h
    simp only [PLru.run, Option.some.injEq, Prod.mk.injEq] at h
    obtain ⟨rfl, rfl⟩ := h
    exact ⟨hG, hL, hS⟩
  | cons a as ih =>
    intro s s' tr hG hL hS h
    simp only [PLru.run] at h
    cases hs : PLru.step s a with
    | none => simp [hs] at h
    | some r =>
      obtain ⟨s1, e1⟩ := r
      simp only [hs] at h
      cases hr : PLru.run s1 as with
      | none => simp [hr] at h
      | some r2 =>
        obtain ⟨s2, e2⟩ := r2
        simp only [hr, Option.some.injEq, Prod.mk.injEq] at h
        obtain ⟨rfl, rfl⟩ := h
        obtain ⟨as1, h1⟩ := step_sim s s1 a e1 hs
        exact ih s1 s2 e2 (good_run hG h1) (step_lru_inv s s1 a e1 hL hs).1 (step_sync s s1 a e1 hG hL hS hs) hr

theorem sync_init (cap : Int) : Sync (PLru.init cap : PLru.State κ) := by
  intro k; simp [PLru.init, PConn.init, PConn.initB, LRU.new, Cache.find]

/-! ### progress -/

theorem step_strict (p p' : PConn.State κ) (a : PConn.Action κ) (evs : List (Ev κ))
    (h : PConn.step p a = some (p', evs)) : p'.strict = p.strict := by
  cases a with
  | evict k =>
    simp only [PConn.step] at h
    repeat' (split at h)
    all_goals first
      | (cases h; done)
      | (simp only [Option.some.injEq] at h; have := removeKey_strict p k; rw [h] at this; exact this)
  | complete f =>
    simp only [PConn.step] at h
    repeat' (split at h)
    all_goals first
      | (cases h; done)
      | (simp only [Option.some.injEq, Prod.mk.injEq] at h; obtain ⟨rfl, rfl⟩ := h
         first
           | exact setDone_strict _ _
           | (rw [setDone_strict]; exact removeKey_strict _ _))
  | finish c =>
    simp only [PConn.step] at h
    repeat' (split at h)
    all_goals first
      | (cases h; done)
      | (simp only [Option.some.injEq, Prod.mk.injEq] at h; obtain ⟨rfl, rfl⟩ := h
         first
           | rfl
           | exact evictIfMatch_strict _ _ _)
  | lookup c | call b es | spawn c | srvPrepare f r | observe c a | cancel c | abandon c | abandonLate c | srvLate c a =>
    simp only [PConn.step] at h
    repeat' (split at h)
    all_goals first
      | (cases h; done)
      | (simp only [Option.some.injEq, Prod.mk.injEq] at h; obtain ⟨rfl, rfl⟩ := h; rfl)

theorem run_strict : ∀ (as : List (PConn.Action κ)) (p p' : PConn.State κ) (evs : List (Ev κ)),
    PConn.run p as = some (p', evs) → p'.strict = p.strict := by
  intro as
  induction as with
  | nil =>
    intro p p' evs h
    simp only [PConn.run, Option.some.injEq, Prod.mk.injEq] at h
    obtain ⟨rfl, rfl⟩ := h; rfl
  | cons a as ih =>
    intro p p' evs h
    simp only [PConn.run] at h
    cases hs : PConn.step p a with
    | none => simp [hs] at h
    | some r =>
      obtain ⟨p1, e1⟩ := r
      simp only [hs] at h
      cases hr : PConn.run p1 as with
      | none => simp [hr] at h
      | some r2 =>
        obtain ⟨p2, e2⟩ := r2
        simp only [hr, Option.some.injEq, Prod.mk.injEq] at h
        obtain ⟨rfl, rfl⟩ := h
        rw [ih p1 p2 e2 hr, step_strict p p1 a e1 hs]

theorem lfind_of_mem : ∀ (l : List (κ × Nat)) (e : κ × Nat), (l.map (·.1)).Nodup → e ∈ l → lfind l e.1 = some e.2 := by
  intro l
  induction l with
  | nil => intro e _ h; cases h
  | cons x t ih =>
    intro e hn he
    obtain ⟨xk, xv⟩ := x
    simp only [List.map_cons, List.nodup_cons] at hn
    rcases List.mem_cons.1 he with h | h
    · subst h; exact lfind_cons_same _ _ _
    · have hne : xk ≠ e.1 := by
        intro hx
        exact hn.1 (hx ▸ List.mem_map_of_mem (f := (·.1)) h)
      rw [lfind_cons_ne xk e.1 xv t hne]
      exact ih e hn.2 h


/-- **progress**: the machine with the real cache refuses no step the finite-map machine takes -/
theorem step_progress (s : PLru.State κ) (a : PLru.Action κ) (hL : s.lru.Inv) (hS : Sync s) (hst : s.p.strict = false)
    (h : (PConn.step s.p a.toP).isSome = true) : (PLru.step s a).isSome = true := by
  have other : ∀ pa, (PConn.step s.p pa).isSome = true → (stepOther s pa).isSome = true := by
    intro pa h
    unfold stepOther
    cases hs : PConn.step s.p pa with
    | none => simp [hs] at h
    | some r => rfl
  cases a with
  | lookup c =>
    simp only [PLru.Action.toP] at h
    simp only [PLru.step]
    unfold stepLookup
    cases hs : PConn.step s.p (.lookup c) with
    | none => simp [hs] at h
    | some r =>
      obtain ⟨p1, e1⟩ := r
      obtain ⟨k, hk, _, hcase⟩ := lookup_cache hs
      simp only [hk]
      cases hg : (s.lru.get k).1 with
      | some v =>
        have hg' : s.lru.get k = (some v, (s.lru.get k).2) := by rw [← hg]
        rw [hg']
        rfl
      | none =>
        have hg' : s.lru.get k = (none, (s.lru.get k).2) := by rw [← hg]
        rw [hg']
        simp only []
        have hfind : s.lru.find k = none := by rw [← (get_find s.lru k k).1]; exact hg
        have hp1 : ∀ k', p1.cache k' = if k' = k then some s.p.flights.length else s.p.cache k' := by
          rcases hcase with ⟨f, hf, _⟩ | ⟨_, hc⟩
          · rw [hS k, hfind] at hf; cases hf
          · exact hc
        have hst1 : p1.strict = false := by rw [step_strict _ _ _ _ hs]; exact hst
        rcases add_evicts_lru s.lru k s.p.flights.length with hnil | ⟨_, _, _, hlast⟩
        · rw [hnil]; rfl
        · rw [hlast]
          cases hl : ((k, s.p.flights.length) :: s.lru.items).getLast? with
          | none => rfl
          | some e =>
            have hm : e ∈ (k, s.p.flights.length) :: s.lru.items := List.mem_of_getLast? hl
            have hc1 : ∃ g, p1.cache e.1 = some g := by
              rw [hp1 e.1]
              by_cases hek : e.1 = k
              · exact ⟨s.p.flights.length, by rw [if_pos hek]⟩
              · rcases List.mem_cons.1 hm with h1 | h1
                · exact absurd (by rw [h1]) hek
                · have := lfind_of_mem s.lru.items e hL.1 h1
                  refine ⟨e.2, ?_⟩
                  simp only [hek, if_false]
                  rw [hS e.1]; exact this
            obtain ⟨g, hg1⟩ := hc1
            simp only [Option.toList, List.map_cons, List.map_nil, evictAll, PConn.step, hst1, hg1]
            rfl
  | finish c =>
    simp only [PLru.Action.toP] at h
    simp only [PLru.step]
    unfold stepFinish
    cases hs : PConn.step s.p (.finish c) with
    | none => simp [hs] at h
    | some r => rfl
  | call b es => exact other _ h
  | spawn c => exact other _ h
  | srvPrepare f r => exact other _ h
  | complete f => exact other _ h
  | observe c a => exact other _ h
  | cancel c => exact other _ h
  | abandon c => exact other _ h
  | abandonLate c => exact other _ h
  | srvLate c a => exact other _ h


end C14ConnLRU
