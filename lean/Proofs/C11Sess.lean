import Model.Policies
import Proofs.C11Cow
/-! helper lemmas: which replica tables the token-aware policy refreshes — the table of the SESSION keyspace and
the token ring only ever list hosts of the policy's own host list -/
namespace C11
open Policies

theorem mem_ringInsert {β : Type} (e x : Nat × β) (l : List (Nat × β)) : x ∈ ringInsert e l ↔ x = e ∨ x ∈ l := by
  induction l with
  | nil => simp [ringInsert]
  | cons y r ih =>
    unfold ringInsert
    split
    · simp
    · simp only [List.mem_cons, ih]
      constructor
      · rintro (h | h | h)
        · exact Or.inr (Or.inl h)
        · exact Or.inl h
        · exact Or.inr (Or.inr h)
      · rintro (h | h | h)
        · exact Or.inr (Or.inl h)
        · exact Or.inl h
        · exact Or.inr (Or.inr h)

theorem mem_foldl_ringInsert {β : Type} (l acc : List (Nat × β)) (x : Nat × β) :
    x ∈ l.foldl (fun acc e => ringInsert e acc) acc ↔ x ∈ acc ∨ x ∈ l := by
  induction l generalizing acc with
  | nil => simp
  | cons e r ih =>
    rw [List.foldl_cons, ih, mem_ringInsert, List.mem_cons]
    constructor
    · rintro ((h | h) | h)
      · exact Or.inr (Or.inl h)
      · exact Or.inl h
      · exact Or.inr (Or.inr h)
    · rintro (h | h | h)
      · exact Or.inl (Or.inr h)
      · exact Or.inl (Or.inl h)
      · exact Or.inr h

theorem mem_sortByTok {β : Type} (l : List (Nat × β)) (x : Nat × β) : x ∈ sortByTok l ↔ x ∈ l := by
  unfold sortByTok
  rw [mem_foldl_ringInsert]
  simp

/-- every entry of the token ring belongs to a host of the list the ring was built from -/
theorem ringOf_sub (hosts : List Host) (e : Nat × Host) (he : e ∈ ringOf hosts) : e.2 ∈ hosts := by
  unfold ringOf at he
  rw [mem_sortByTok, List.mem_flatMap] at he
  obtain ⟨h, hh, hm⟩ := he
  rw [List.mem_map] at hm
  obtain ⟨t, _, rfl⟩ := hm
  exact hh

theorem lookupTok_mem {β : Type} (tab : List (Nat × β)) (t : Nat) (v : β) (h : lookupTok tab t = some v) :
    ∃ k, (k, v) ∈ tab := by
  unfold lookupTok at h
  split at h
  · rename_i e he
    injection h with h
    subst h
    exact ⟨e.1, List.mem_of_find?_eq_some he⟩
  · rw [Option.map_eq_some_iff] at h
    obtain ⟨e, he, rfl⟩ := h
    exact ⟨e.1, List.mem_of_head? he⟩

theorem simpleWalk_sub (rf : Nat) (l acc : List Host) (x : Host) (hx : x ∈ simpleWalk rf acc l) : x ∈ acc ∨ x ∈ l := by
  induction l generalizing acc with
  | nil => exact Or.inl hx
  | cons h r ih =>
    unfold simpleWalk at hx
    split at hx
    · split at hx
      · rcases ih acc hx with h1 | h1
        · exact Or.inl h1
        · exact Or.inr (List.mem_cons_of_mem _ h1)
      · rcases ih _ hx with h1 | h1
        · rw [List.mem_append, List.mem_singleton] at h1
          rcases h1 with h1 | h1
          · exact Or.inl h1
          · exact Or.inr (h1 ▸ List.mem_cons_self)
        · exact Or.inr (List.mem_cons_of_mem _ h1)
    · exact Or.inl hx

theorem mem_ringRot {α : Type} (l : List α) (i : Nat) (x : α) (hx : x ∈ ringRot l i) : x ∈ l := by
  unfold ringRot at hx
  rw [List.mem_append] at hx
  rcases hx with h | h
  · exact List.mem_of_mem_drop h
  · exact List.mem_of_mem_take h

/-- every replica of a `SimpleStrategy` replica map owns a token of the ring -/
theorem simpleMap_sub (rf : Nat) (ring : List (Nat × Host)) (f : Nat × List Host) (hf : f ∈ simpleMap rf ring)
    (x : Host) (hx : x ∈ f.2) : ∃ e ∈ ring, e.2 = x := by
  unfold simpleMap at hf
  rw [List.mem_map] at hf
  obtain ⟨i, _, rfl⟩ := hf
  rcases simpleWalk_sub rf _ [] x hx with h | h
  · cases h
  · rw [List.mem_map] at h
    obtain ⟨e, he, rfl⟩ := h
    exact ⟨e, mem_ringRot ring i e he, rfl⟩

end C11
