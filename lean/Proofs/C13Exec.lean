import Model.Executor
namespace Executor

/-- usable hosts, in iterator order -/
def usable (hs : List Host) : List Host := hs.filter (fun h => h.up && h.conn)

theorem nextUsable_spec : ∀ (hs : List Host),
    (nextUsable hs = none ∧ usable hs = []) ∨
    (∃ h rest, nextUsable hs = some (h, rest) ∧ usable hs = h :: usable rest)
  | [] => Or.inl ⟨rfl, rfl⟩
  | h :: hs => by
    simp only [nextUsable, usable, List.filter_cons]
    by_cases hu : (h.up && h.conn) = true
    · simp only [hu, if_true]
      exact Or.inr ⟨h, hs, rfl, rfl⟩
    · simp only [hu]
      exact nextUsable_spec hs

/-- `as` walks along `us` with repetitions: every attempt is on the current host or the walk has moved on
    to the next usable host; never backwards, never skipping a usable host. -/
inductive Walk : List Nat → List Nat → Prop
  | done (us : List Nat) : Walk us []
  | stay (u : Nat) (us as : List Nat) : Walk (u :: us) as → Walk (u :: us) (u :: as)
  | move (u : Nat) (us as : List Nat) : Walk us as → Walk (u :: us) (u :: as)

/-- generalised statement about the loop: what it appends to the trace walks along the current host followed
    by the usable rest; the budget of an `n ≤ N` policy is respected; the final result is the last attempt's. -/
theorem doLoop_spec (pol : Option Policy) (outcome : Nat → Res) :
    ∀ (fuel : Nat) (cur : Option Host) (rest : List Host) (n : Nat) (lastErr : Option Nat) (tr : List Nat),
    ∃ suffix, (doLoop pol outcome fuel cur rest n lastErr tr).attempts = tr.reverse ++ suffix ∧
      Walk ((cur.toList ++ usable rest).map (·.id)) suffix ∧
      (∀ r, (doLoop pol outcome fuel cur rest n lastErr tr).final = .last r → suffix ≠ [] ∧ r = outcome (n + suffix.length - 1)) ∧
      (∀ k, (doLoop pol outcome fuel cur rest n lastErr tr).final = .lastErr k →
          (suffix = [] ∧ lastErr = some k) ∨ (suffix ≠ [] ∧ outcome (n + suffix.length - 1) = .err k)) ∧
      ((doLoop pol outcome fuel cur rest n lastErr tr).final = .noConnections → suffix = [] ∧ lastErr = none) := by
  intro fuel
  induction fuel with
  | zero =>
    intro cur rest n lastErr tr
    refine ⟨[], by simp [doLoop], Walk.done _, ?_, ?_, ?_⟩ <;> simp [doLoop]
  | succ fuel ih =>
    intro cur rest n lastErr tr
    cases cur with
    | none =>
      cases lastErr with
      | none => refine ⟨[], by simp [doLoop], Walk.done _, ?_, ?_, ?_⟩ <;> simp [doLoop]
      | some k => refine ⟨[], by simp [doLoop], Walk.done _, ?_, ?_, ?_⟩ <;> simp [doLoop]
    | some h =>
      -- the attempt on h
      have stop : ∀ (fin : Final), (fin = .last (outcome n) ∨ fin = .unknownRetryType) →
          ∃ suffix, (h.id :: tr).reverse = tr.reverse ++ suffix ∧
            Walk (((some h).toList ++ usable rest).map (·.id)) suffix ∧
            (∀ r, fin = .last r → suffix ≠ [] ∧ r = outcome (n + suffix.length - 1)) ∧
            (∀ k, fin = .lastErr k → (suffix = [] ∧ lastErr = some k) ∨ (suffix ≠ [] ∧ outcome (n + suffix.length - 1) = .err k)) ∧
            (fin = .noConnections → suffix = [] ∧ lastErr = none) := by
        intro fin hfin
        refine ⟨[h.id], by simp, ?_, ?_, ?_, ?_⟩
        · simp only [Option.toList, List.cons_append, List.nil_append, List.map_cons]
          exact Walk.stay _ _ _ (Walk.done _)
        · intro r hr; rcases hfin with hf | hf <;> rw [hf] at hr <;> simp at hr ⊢; exact hr.symm
        · intro k hk; rcases hfin with hf | hf <;> rw [hf] at hk <;> simp at hk
        · intro hk; rcases hfin with hf | hf <;> rw [hf] at hk <;> simp at hk
      simp only [doLoop]
      cases hr : outcome n with
      | logical => simp only []; exact stop _ (Or.inl (by rw [hr]))
      | ok => simp only []; exact stop _ (Or.inl (by rw [hr]))
      | err k =>
        simp only []
        cases pol with
        | none => simp only []; exact stop _ (Or.inl (by rw [hr]))
        | some p =>
          simp only []
          by_cases hat : p.attempt (n+1) = true
          · simp only [hat, Bool.not_true, Bool.false_eq_true, if_false]
            -- continuing: combine the attempt on h with the recursive suffix
            have cont : ∀ (cur' : Option Host) (rest' : List Host),
                (∀ s, Walk ((cur'.toList ++ usable rest').map (·.id)) s →
                      Walk (((some h).toList ++ usable rest).map (·.id)) (h.id :: s)) →
                ∃ suffix, (doLoop (some p) outcome fuel cur' rest' (n+1) (some k) (h.id :: tr)).attempts = tr.reverse ++ suffix ∧
                  Walk (((some h).toList ++ usable rest).map (·.id)) suffix ∧
                  (∀ r, (doLoop (some p) outcome fuel cur' rest' (n+1) (some k) (h.id :: tr)).final = .last r → suffix ≠ [] ∧ r = outcome (n + suffix.length - 1)) ∧
                  (∀ k', (doLoop (some p) outcome fuel cur' rest' (n+1) (some k) (h.id :: tr)).final = .lastErr k' →
                      (suffix = [] ∧ lastErr = some k') ∨ (suffix ≠ [] ∧ outcome (n + suffix.length - 1) = .err k')) ∧
                  ((doLoop (some p) outcome fuel cur' rest' (n+1) (some k) (h.id :: tr)).final = .noConnections → suffix = [] ∧ lastErr = none) := by
              intro cur' rest' hw
              obtain ⟨s, hs1, hs2, hs3, hs4, hs5⟩ := ih cur' rest' (n+1) (some k) (h.id :: tr)
              refine ⟨h.id :: s, by rw [hs1]; simp, hw s hs2, ?_, ?_, ?_⟩
              · intro r hfin
                obtain ⟨hne, hre⟩ := hs3 r hfin
                refine ⟨by simp, ?_⟩
                rw [hre]; congr 1
                have : s.length ≠ 0 := by intro h0; exact hne (List.length_eq_zero_iff.mp h0)
                simp only [List.length_cons]; omega
              · intro k' hfin
                right
                refine ⟨by simp, ?_⟩
                rcases hs4 k' hfin with ⟨hse, hk⟩ | ⟨hne, hoc⟩
                · subst hse
                  simp at hk; subst hk
                  simpa using hr
                · rw [← hoc]; congr 1
                  have : s.length ≠ 0 := by intro h0; exact hne (List.length_eq_zero_iff.mp h0)
                  simp only [List.length_cons]; omega
              · intro hfin
                have := (hs5 hfin).2
                simp at this
            cases hrt : p.rtype k with
            | retry =>
              simp only []
              exact cont (some h) rest (fun s hs => Walk.stay _ _ _ hs)
            | rethrow => simp only []; exact stop _ (Or.inl (by rw [hr]))
            | ignore => simp only []; exact stop _ (Or.inl (by rw [hr]))
            | unknown => simp only []; exact stop _ (Or.inr rfl)
            | nextHost =>
              simp only []
              rcases nextUsable_spec rest with ⟨hn, hu⟩ | ⟨h', rest', hn, hu⟩
              · simp only [hn]
                refine cont none [] (fun s hs => ?_)
                simp only [Option.toList, List.nil_append, usable, List.filter_nil, List.map_nil] at hs
                cases hs
                simp only [Option.toList, List.cons_append, List.nil_append, List.map_cons]
                exact Walk.stay _ _ _ (Walk.done _)
              · simp only [hn]
                refine cont (some h') rest' (fun s hs => ?_)
                simp only [Option.toList, List.cons_append, List.nil_append, List.map_cons, hu] at hs ⊢
                exact Walk.move _ _ _ hs
          · have hat' : p.attempt (n+1) = false := by simpa using hat
            simp only [hat', Bool.not_false, if_true]
            exact stop _ (Or.inl (by rw [hr]))

/-- budget lemma for policies of the form `Attempts() <= N` -/
theorem doLoop_budget (p : Policy) (N : Nat) (hp : ∀ m, p.attempt m = decide (m ≤ N)) (outcome : Nat → Res) :
    ∀ (fuel : Nat) (cur : Option Host) (rest : List Host) (n : Nat) (lastErr : Option Nat) (tr : List Nat),
    n ≤ N → (doLoop (some p) outcome fuel cur rest n lastErr tr).attempts.length ≤ tr.length + (N + 1 - n) := by
  intro fuel
  induction fuel with
  | zero => intro cur rest n lastErr tr hn; simp [doLoop]
  | succ fuel ih =>
    intro cur rest n lastErr tr hn
    cases cur with
    | none => cases lastErr <;> simp [doLoop]
    | some h =>
      simp only [doLoop]
      cases hr : outcome n with
      | logical => simp; omega
      | ok => simp; omega
      | err k =>
        simp only [hp]
        by_cases hle : n + 1 ≤ N
        · simp only [hle, decide_true, Bool.not_true, Bool.false_eq_true, if_false]
          cases p.rtype k with
          | retry =>
            have := ih (some h) rest (n+1) (some k) (h.id :: tr) hle
            simp only [List.length_cons] at this; simp only []; omega
          | rethrow => simp; omega
          | ignore => simp; omega
          | unknown => simp; omega
          | nextHost =>
            simp only []
            cases nextUsable rest with
            | none =>
              have := ih none [] (n+1) (some k) (h.id :: tr) hle
              simp only [List.length_cons] at this; simp only []; omega
            | some hr' =>
              obtain ⟨h', rest'⟩ := hr'
              have := ih (some h') rest' (n+1) (some k) (h.id :: tr) hle
              simp only [List.length_cons] at this; simp only []; omega
        · simp only [hle, decide_false, Bool.not_false, if_true]
          simp; omega

end Executor
