import Model.Executor
namespace Executor

/-- both statement kinds, observed or not: one attempt moves the counter by exactly one -/
theorem Req.record_eq (r : Req) (c : Nat) : r.record c = c + 1 := by
  unfold Req.record; split <;> rfl

/-- `as` (the hosts of the attempts, the first of them being request number `k`) walks along `ids` (the selected
    host followed by the iterator's output) in a changing environment `us`:
    a host is passed over only if it is unusable at that moment (`skip`) or after an attempt on it (`move`);
    every attempt is on a host that is usable at that moment; after an attempt the walk stays on the host
    (`stay`, and if the host has become unusable meanwhile the next step skips it) or moves on; never backwards. -/
inductive Walk (us : Nat → Nat → Bool) : Nat → List Nat → List Nat → Prop
  | done (k : Nat) (ids : List Nat) : Walk us k ids []
  | skip (k u : Nat) (ids as : List Nat) : us k u = false → Walk us k ids as → Walk us k (u :: ids) as
  | stay (k u : Nat) (ids as : List Nat) : us k u = true → Walk us (k+1) (u :: ids) as → Walk us k (u :: ids) (u :: as)
  | move (k u : Nat) (ids as : List Nat) : us k u = true → Walk us (k+1) ids as → Walk us k (u :: ids) (u :: as)

/-- what the loop head finds: nothing usable now, or the first host usable now with everything before it unusable now -/
theorem nextUsable_spec (u : Nat → Bool) : ∀ (l : List Nat),
    (nextUsable u l = none ∧ ∀ h ∈ l, u h = false) ∨
    (∃ h rest pre, nextUsable u l = some (h, rest) ∧ l = pre ++ h :: rest ∧ u h = true ∧ ∀ x ∈ pre, u x = false)
  | [] => Or.inl ⟨rfl, by simp⟩
  | x :: l => by
    simp only [nextUsable]
    by_cases hu : u x = true
    · simp only [hu, if_true]
      exact Or.inr ⟨x, l, [], rfl, rfl, hu, by simp⟩
    · have hu' : u x = false := by simpa using hu
      simp only [hu', Bool.false_eq_true, if_false]
      rcases nextUsable_spec u l with ⟨hn, ha⟩ | ⟨h, rest, pre, hn, hl, hh, hp⟩
      · left; refine ⟨hn, ?_⟩
        intro y hy; rcases List.mem_cons.mp hy with rfl | hy
        · exact hu'
        · exact ha y hy
      · right; refine ⟨h, rest, x :: pre, hn, by simp [hl], hh, ?_⟩
        intro y hy; rcases List.mem_cons.mp hy with rfl | hy
        · exact hu'
        · exact hp y hy

theorem walk_skip_prefix (us : Nat → Nat → Bool) (k : Nat) (tail as : List Nat) :
    ∀ (pre : List Nat), (∀ x ∈ pre, us k x = false) → Walk us k tail as → Walk us k (pre ++ tail) as
  | [], _, h => h
  | x :: pre, hp, h =>
    Walk.skip k x _ _ (hp x (by simp)) (walk_skip_prefix us k tail as pre (fun y hy => hp y (by simp [hy])) h)

theorem getLast?_cons_of_some {α : Type} (y x : α) : ∀ (l : List α), l.getLast? = some x → (y :: l).getLast? = some x
  | [], h => by simp at h
  | z :: l, h => by simpa [List.getLast?_cons_cons] using h

/-- what the loop guarantees about its output, relative to where it starts: `pending` = the selected host followed
    by the rest of the iterator's output, `k` = number of the next request, `cnt` = the attempt counter,
    `lastErr` = the recorded previous error and the number of its request -/
def Good (outcome : Nat → Res) (us : Nat → Nat → Bool) (pending : List Nat) (k cnt : Nat) (lastErr : Option (Nat × Nat))
    (o : Out) : Prop :=
  Walk us k pending (o.attempts.map (·.host)) ∧
  o.cnt = cnt + o.attempts.length ∧
  (∀ i a, o.attempts[i]? = some a → a.idx = cnt + i ∧ a.res = outcome (k + i) ∧ us (k + i) a.host = true) ∧
  (∀ r, o.final = .last r → ∃ a, o.attempts.getLast? = some a ∧ a.res = r) ∧
  (∀ e j, o.final = .lastErr e j →
      (o.attempts = [] ∧ lastErr = some (e, j)) ∨
      (∃ a, o.attempts.getLast? = some a ∧ a.res = .err e ∧ j + 1 = k + o.attempts.length)) ∧
  (o.final = .noConnections → o.attempts = [] ∧ lastErr = none) ∧
  (o.attempts = [] → o.final = .outOfFuel ∨ (lastErr = none ∧ o.final = .noConnections) ∨
      (∃ e j, lastErr = some (e, j) ∧ o.final = .lastErr e j))

theorem good_stop (outcome : Nat → Res) (us : Nat → Nat → Bool) (h : Nat) (rest : List Nat) (k cnt cons c : Nat)
    (lastErr : Option (Nat × Nat)) (hu : us k h = true)
    (f : Final) (hf : f = .last (outcome k) ∨ f = .unknownRetryType) :
    Good outcome us (h :: rest) k cnt lastErr ⟨[⟨h, cnt, cons, outcome k⟩], f, cnt + 1, c⟩ := by
  refine ⟨?_, rfl, ?_, ?_, ?_, ?_, ?_⟩
  · exact Walk.stay _ _ _ _ hu (Walk.done _ _)
  · intro i a ha
    cases i with
    | zero => simp at ha; subst ha; simpa using hu
    | succ i => simp at ha
  · intro r hr
    rcases hf with hf | hf
    · subst hf; simp at hr; exact ⟨_, rfl, hr⟩
    · subst hf; simp at hr
  · intro e j he; rcases hf with hf | hf <;> subst hf <;> simp at he
  · intro he; rcases hf with hf | hf <;> subst hf <;> simp at he
  · intro he; simp at he

theorem good_push (outcome : Nat → Res) (us : Nat → Nat → Bool) (pending pending' : List Nat) (h k cnt cons e : Nat)
    (lastErr : Option (Nat × Nat)) (o : Out)
    (hk : outcome k = .err e) (hu : us k h = true)
    (hw : ∀ s, Walk us (k+1) pending' s → Walk us k pending (h :: s))
    (hg : Good outcome us pending' (k + 1) (cnt + 1) (some (e, k)) o) :
    Good outcome us pending k cnt lastErr (o.push ⟨h, cnt, cons, outcome k⟩) := by
  obtain ⟨h1, h2, h3, h4, h5, h6, _⟩ := hg
  refine ⟨?_, ?_, ?_, ?_, ?_, ?_, ?_⟩
  · simpa [Out.push] using hw _ h1
  · simp only [Out.push, List.length_cons]; omega
  · intro i a ha
    cases i with
    | zero => simp [Out.push] at ha; subst ha; simpa using hu
    | succ i =>
      simp only [Out.push, List.getElem?_cons_succ] at ha
      obtain ⟨g1, g2, g3⟩ := h3 i a ha
      refine ⟨by omega, ?_, ?_⟩
      · rw [g2]; congr 1; omega
      · rw [← g3]; congr 1; omega
  · intro r hr
    obtain ⟨a, ha1, ha2⟩ := h4 r hr
    exact ⟨a, getLast?_cons_of_some _ _ _ ha1, ha2⟩
  · intro e' j he
    right
    rcases h5 e' j he with ⟨g1, g2⟩ | ⟨a, ha1, ha2, ha3⟩
    · simp only [Option.some.injEq, Prod.mk.injEq] at g2
      obtain ⟨g2, g3⟩ := g2; subst g2; subst g3
      refine ⟨⟨h, cnt, cons, outcome k⟩, ?_, hk, ?_⟩
      · simp [Out.push, g1]
      · simp [Out.push, g1]
    · refine ⟨a, getLast?_cons_of_some _ _ _ ha1, ha2, ?_⟩
      simp only [Out.push, List.length_cons]; omega
  · intro he
    have := (h6 he).2
    simp at this
  · intro he; simp [Out.push] at he

/-- generalised statement about the loop, for every environment -/
theorem doLoop_good (req : Req) (pol : Option Policy) (outcome : Nat → Res) (us : Nat → Nat → Bool) :
    ∀ (fuel : Nat) (pending : List Nat) (k cnt cons : Nat) (lastErr : Option (Nat × Nat)),
    Good outcome us pending k cnt lastErr (doLoop req pol outcome us fuel pending k cnt cons lastErr) := by
  intro fuel
  induction fuel with
  | zero =>
    intro pending k cnt cons lastErr
    refine ⟨Walk.done _ _, rfl, ?_, ?_, ?_, ?_, ?_⟩ <;> simp [doLoop]
  | succ fuel ih =>
    intro pending k cnt cons lastErr
    rcases nextUsable_spec (us k) pending with ⟨hn, _⟩ | ⟨h, rest, pre, hn, hl, hu, hpre⟩
    · simp only [doLoop, hn]
      cases lastErr with
      | none => refine ⟨Walk.done _ _, rfl, ?_, ?_, ?_, ?_, ?_⟩ <;> simp
      | some ej =>
        obtain ⟨e, j⟩ := ej
        refine ⟨Walk.done _ _, rfl, ?_, ?_, ?_, ?_, ?_⟩ <;> simp
    · -- everything the loop does from the first usable host on is Good for `h :: rest`; the skipped prefix is added last
      have lift : ∀ o, Good outcome us (h :: rest) k cnt lastErr o → Good outcome us pending k cnt lastErr o := by
        intro o ⟨g1, g2⟩
        exact ⟨by rw [hl]; exact walk_skip_prefix us k _ _ pre hpre g1, g2⟩
      apply lift
      simp only [doLoop, hn, Req.record_eq]
      cases hr : outcome k with
      | logical => simp only []; rw [← hr]; exact good_stop _ _ _ _ _ _ _ _ _ hu _ (Or.inl (by rw [hr]))
      | ok => simp only []; rw [← hr]; exact good_stop _ _ _ _ _ _ _ _ _ hu _ (Or.inl (by rw [hr]))
      | err e =>
        simp only []
        cases pol with
        | none => simp only []; rw [← hr]; exact good_stop _ _ _ _ _ _ _ _ _ hu _ (Or.inl (by rw [hr]))
        | some p =>
          simp only []
          by_cases hat : p.attempt (cnt + 1) = true
          · simp only [hat, Bool.not_true, Bool.false_eq_true, if_false]
            cases hrt : p.rtype e with
            | retry =>
              simp only []; rw [← hr]
              exact good_push outcome us _ _ _ _ _ _ e _ _ hr hu (fun s hs => Walk.stay _ _ _ _ hu hs)
                (ih (h :: rest) (k+1) (cnt+1) _ (some (e, k)))
            | rethrow => simp only []; rw [← hr]; exact good_stop _ _ _ _ _ _ _ _ _ hu _ (Or.inl (by rw [hr]))
            | ignore => simp only []; rw [← hr]; exact good_stop _ _ _ _ _ _ _ _ _ hu _ (Or.inl (by rw [hr]))
            | unknown => simp only []; rw [← hr]; exact good_stop _ _ _ _ _ _ _ _ _ hu _ (Or.inr rfl)
            | nextHost =>
              simp only []; rw [← hr]
              exact good_push outcome us _ _ _ _ _ _ e _ _ hr hu (fun s hs => Walk.move _ _ _ _ hu hs)
                (ih rest (k+1) (cnt+1) _ (some (e, k)))
          · have hat' : p.attempt (cnt + 1) = false := by simpa using hat
            simp only [hat', Bool.not_false, if_true]
            rw [← hr]; exact good_stop _ _ _ _ _ _ _ _ _ hu _ (Or.inl (by rw [hr]))

/-- budget lemma for policies of the form `Attempts() ≤ N`, for every statement kind, observed or not, every
    starting value of the counter and every environment: one attempt is always made; a further one only while the
    counter is ≤ N -/
theorem doLoop_budget (req : Req) (p : Policy) (N : Nat) (hp : ∀ m, p.attempt m = decide (m ≤ N)) (outcome : Nat → Res)
    (us : Nat → Nat → Bool) :
    ∀ (fuel : Nat) (pending : List Nat) (k cnt cons : Nat) (lastErr : Option (Nat × Nat)),
    (doLoop req (some p) outcome us fuel pending k cnt cons lastErr).attempts.length ≤ 1 + (N - cnt) := by
  intro fuel
  induction fuel with
  | zero => intro pending k cnt cons lastErr; simp [doLoop]
  | succ fuel ih =>
    intro pending k cnt cons lastErr
    simp only [doLoop, Req.record_eq]
    cases nextUsable (us k) pending with
    | none => cases lastErr <;> simp
    | some hr' =>
      obtain ⟨h, rest⟩ := hr'
      simp only []
      cases hr : outcome k with
      | logical => simp
      | ok => simp
      | err e =>
        simp only [hp]
        by_cases hle : cnt + 1 ≤ N
        · simp only [hle, decide_true, Bool.not_true, Bool.false_eq_true, if_false]
          cases p.rtype e with
          | retry =>
            have := ih (h :: rest) (k+1) (cnt+1) ((p.newCons (cnt+1)).getD cons) (some (e, k))
            simp only [Out.push, List.length_cons]; omega
          | rethrow => simp
          | ignore => simp
          | unknown => simp
          | nextHost =>
            have := ih rest (k+1) (cnt+1) ((p.newCons (cnt+1)).getD cons) (some (e, k))
            simp only [Out.push, List.length_cons]; omega
        · simp only [hle, decide_false, Bool.not_false, if_true]
          simp

/-- consistency of the attempts: the first request carries the statement's level; every later one carries what
    the policy's `Attempt` set when it allowed that retry (or the previous level if it set none) -/
theorem doLoop_cons (req : Req) (p : Policy) (outcome : Nat → Res) (us : Nat → Nat → Bool) :
    ∀ (fuel : Nat) (pending : List Nat) (k cnt cons : Nat) (lastErr : Option (Nat × Nat)),
    let o := doLoop req (some p) outcome us fuel pending k cnt cons lastErr
    (∀ a, o.attempts[0]? = some a → a.cons = cons) ∧
    (∀ i a b, o.attempts[i]? = some a → o.attempts[i+1]? = some b → b.cons = (p.newCons (cnt + i + 1)).getD a.cons) := by
  intro fuel
  induction fuel with
  | zero => intro pending k cnt cons lastErr; simp [doLoop]
  | succ fuel ih =>
    intro pending k cnt cons lastErr
    have push : ∀ (o : Out) (a0 : Att), a0.cons = cons →
        ((∀ a, o.attempts[0]? = some a → a.cons = (p.newCons (cnt + 1)).getD cons) ∧
         (∀ i a b, o.attempts[i]? = some a → o.attempts[i+1]? = some b → b.cons = (p.newCons (cnt + 1 + i + 1)).getD a.cons)) →
        ((∀ a, (o.push a0).attempts[0]? = some a → a.cons = cons) ∧
         (∀ i a b, (o.push a0).attempts[i]? = some a → (o.push a0).attempts[i+1]? = some b →
            b.cons = (p.newCons (cnt + i + 1)).getD a.cons)) := by
      intro o a0 h0 ⟨g1, g2⟩
      refine ⟨?_, ?_⟩
      · intro a ha; simp [Out.push] at ha; subst ha; exact h0
      · intro i a b ha hb
        cases i with
        | zero =>
          simp [Out.push] at ha hb
          subst ha
          rw [g1 b hb, h0]
        | succ i =>
          simp only [Out.push, List.getElem?_cons_succ] at ha hb
          have := g2 i a b ha hb
          rw [this]; congr 2; omega
    simp only [doLoop, Req.record_eq]
    cases nextUsable (us k) pending with
    | none => cases lastErr <;> simp
    | some hr' =>
      obtain ⟨h, rest⟩ := hr'
      simp only []
      cases hr : outcome k with
      | logical => simp
      | ok => simp
      | err e =>
        simp only []
        by_cases hat : p.attempt (cnt + 1) = true
        · simp only [hat, Bool.not_true, Bool.false_eq_true, if_false]
          cases p.rtype e with
          | retry => exact push _ _ rfl (ih (h :: rest) (k+1) (cnt+1) _ (some (e, k)))
          | rethrow => simp
          | ignore => simp
          | unknown => simp
          | nextHost => exact push _ _ rfl (ih rest (k+1) (cnt+1) _ (some (e, k)))
        · have hat' : p.attempt (cnt + 1) = false := by simpa using hat
          simp only [hat', Bool.not_false, if_true]
          simp

/-- an attempt that ends with success or a logical error (context, not found) is the last of its execution -/
theorem doLoop_stop_last (req : Req) (pol : Option Policy) (outcome : Nat → Res) (us : Nat → Nat → Bool) :
    ∀ (fuel : Nat) (pending : List Nat) (k cnt cons : Nat) (lastErr : Option (Nat × Nat)) (i : Nat) (a : Att),
      (doLoop req pol outcome us fuel pending k cnt cons lastErr).attempts[i]? = some a →
      (a.res = .logical ∨ a.res = .ok) →
      i + 1 = (doLoop req pol outcome us fuel pending k cnt cons lastErr).attempts.length := by
  intro fuel
  induction fuel with
  | zero => intro pending k cnt cons lastErr i a h; simp [doLoop] at h
  | succ f ih =>
    intro pending k cnt cons lastErr i a h hr
    unfold doLoop at h ⊢
    cases hn : nextUsable (us k) pending with
    | none =>
      rw [hn] at h
      cases lastErr <;> simp at h
    | some p =>
      obtain ⟨hh, rest⟩ := p
      rw [hn] at h
      simp only at h ⊢
      cases ho : outcome k with
      | ok =>
        rw [ho] at h
        cases i with
        | zero => simp
        | succ j => simp at h
      | logical =>
        rw [ho] at h
        cases i with
        | zero => simp
        | succ j => simp at h
      | err e =>
        rw [ho] at h
        have one : ∀ (fin : Final) (c1 c2 : Nat),
            (⟨[⟨hh, cnt, cons, .err e⟩], fin, c1, c2⟩ : Out).attempts[i]? = some a → False := by
          intro fin c1 c2 h1
          cases i with
          | zero =>
            simp at h1
            rw [← h1] at hr
            simp at hr
          | succ j => simp at h1
        cases pol with
        | none => exact (one _ _ _ h).elim
        | some p =>
          simp only at h ⊢
          by_cases hat : p.attempt (req.record cnt) = true
          · simp only [hat, Bool.not_true, Bool.false_eq_true, if_false] at h ⊢
            cases hrt : p.rtype e with
            | retry =>
              rw [hrt] at h
              simp only [Out.push] at h ⊢
              cases i with
              | zero => simp at h; rw [← h] at hr; simp at hr
              | succ j =>
                simp only [List.getElem?_cons_succ] at h
                have := ih _ _ _ _ _ j a h hr
                simp only [List.length_cons]; omega
            | nextHost =>
              rw [hrt] at h
              simp only [Out.push] at h ⊢
              cases i with
              | zero => simp at h; rw [← h] at hr; simp at hr
              | succ j =>
                simp only [List.getElem?_cons_succ] at h
                have := ih _ _ _ _ _ j a h hr
                simp only [List.length_cons]; omega
            | rethrow => rw [hrt] at h; exact (one _ _ _ h).elim
            | ignore => rw [hrt] at h; exact (one _ _ _ h).elim
            | unknown => rw [hrt] at h; exact (one _ _ _ h).elim
          · have hat' : p.attempt (req.record cnt) = false := by simpa using hat
            simp only [hat', Bool.not_false, if_true] at h
            exact (one (.last (.err e)) 0 0 h).elim

end Executor
