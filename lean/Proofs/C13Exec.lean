import Model.Executor
namespace Executor

/-- both statement kinds, observed or not: one attempt moves the counter by exactly one -/
theorem Req.record_eq (r : Req) (c : Nat) : r.record c = c + 1 := by
  unfold Req.record; split <;> rfl

/-- usable hosts, in iterator order -/
def usable (hs : List Host) : List Host := hs.filter (fun h => h.up && h.conn)

theorem nextUsable_spec : ∀ (hs : List Host),
    (nextUsable hs = none ∧ usable hs = []) ∨
    (∃ h rest, nextUsable hs = some (h, rest) ∧ usable hs = h :: usable rest)
  | [] => Or.inl ⟨rfl, rfl⟩
  | h :: hs => by
    simp only [nextUsable, usable, List.filter_cons]
    by_cases hu : (h.up && h.conn) = true
    · simp only [hu, if_true]
      exact Or.inr ⟨h, hs, rfl, rfl⟩
    · simp only [hu]
      exact nextUsable_spec hs

/-- `as` walks along `us` with repetitions: every attempt is on the current host or the walk has moved on
    to the next usable host; never backwards, never skipping a usable host. -/
inductive Walk : List Nat → List Nat → Prop
  | done (us : List Nat) : Walk us []
  | stay (u : Nat) (us as : List Nat) : Walk (u :: us) as → Walk (u :: us) (u :: as)
  | move (u : Nat) (us as : List Nat) : Walk us as → Walk (u :: us) (u :: as)

theorem getLast?_cons_of_some {α : Type} (y x : α) : ∀ (l : List α), l.getLast? = some x → (y :: l).getLast? = some x
  | [], h => by simp at h
  | z :: l, h => by simpa [List.getLast?_cons_cons] using h

/-- what the loop guarantees about its output, relative to where it starts: `ids` = the current host followed
    by the usable rest, `k` = index of the next request, `cnt` = the attempt counter, `lastErr` = previous error -/
def Good (outcome : Nat → Res) (ids : List Nat) (k cnt : Nat) (lastErr : Option Nat) (o : Out) : Prop :=
  Walk ids (o.attempts.map (·.host)) ∧
  o.cnt = cnt + o.attempts.length ∧
  (∀ i a, o.attempts[i]? = some a → a.idx = cnt + i ∧ a.res = outcome (k + i)) ∧
  (∀ r, o.final = .last r → ∃ a, o.attempts.getLast? = some a ∧ a.res = r) ∧
  (∀ e, o.final = .lastErr e →
      (o.attempts = [] ∧ lastErr = some e) ∨ (∃ a, o.attempts.getLast? = some a ∧ a.res = .err e)) ∧
  (o.final = .noConnections → o.attempts = [] ∧ lastErr = none)

theorem good_stop (outcome : Nat → Res) (hid : Nat) (us : List Nat) (k cnt cons c : Nat) (lastErr : Option Nat)
    (f : Final) (hf : f = .last (outcome k) ∨ f = .unknownRetryType) :
    Good outcome (hid :: us) k cnt lastErr ⟨[⟨hid, cnt, cons, outcome k⟩], f, cnt + 1, c⟩ := by
  refine ⟨?_, rfl, ?_, ?_, ?_, ?_⟩
  · exact Walk.stay _ _ _ (Walk.done _)
  · intro i a h
    cases i with
    | zero => simp at h; subst h; simp
    | succ i => simp at h
  · intro r hr
    rcases hf with hf | hf
    · subst hf; simp at hr; exact ⟨_, rfl, hr⟩
    · subst hf; simp at hr
  · intro e he; rcases hf with hf | hf <;> subst hf <;> simp at he
  · intro he; rcases hf with hf | hf <;> subst hf <;> simp at he

theorem good_push (outcome : Nat → Res) (ids ids' : List Nat) (hid k cnt cons e : Nat) (lastErr : Option Nat) (o : Out)
    (hk : outcome k = .err e)
    (hw : ∀ s, Walk ids' s → Walk ids (hid :: s))
    (h : Good outcome ids' (k + 1) (cnt + 1) (some e) o) :
    Good outcome ids k cnt lastErr (o.push ⟨hid, cnt, cons, outcome k⟩) := by
  obtain ⟨h1, h2, h3, h4, h5, h6⟩ := h
  refine ⟨?_, ?_, ?_, ?_, ?_, ?_⟩
  · simpa [Out.push] using hw _ h1
  · simp only [Out.push, List.length_cons]; omega
  · intro i a ha
    cases i with
    | zero => simp [Out.push] at ha; subst ha; simp
    | succ i =>
      simp only [Out.push, List.getElem?_cons_succ] at ha
      obtain ⟨g1, g2⟩ := h3 i a ha
      refine ⟨by omega, ?_⟩
      rw [g2]; congr 1; omega
  · intro r hr
    obtain ⟨a, ha1, ha2⟩ := h4 r hr
    exact ⟨a, getLast?_cons_of_some _ _ _ ha1, ha2⟩
  · intro e' he
    right
    rcases h5 e' he with ⟨g1, g2⟩ | ⟨a, ha1, ha2⟩
    · simp only [Option.some.injEq] at g2; subst g2
      refine ⟨⟨hid, cnt, cons, outcome k⟩, ?_, hk⟩
      simp [Out.push, g1]
    · exact ⟨a, getLast?_cons_of_some _ _ _ ha1, ha2⟩
  · intro he
    have := (h6 he).2
    simp at this

/-- generalised statement about the loop -/
theorem doLoop_good (req : Req) (pol : Option Policy) (outcome : Nat → Res) :
    ∀ (fuel : Nat) (cur : Option Host) (rest : List Host) (k cnt cons : Nat) (lastErr : Option Nat),
    Good outcome ((cur.toList ++ usable rest).map (·.id)) k cnt lastErr
      (doLoop req pol outcome fuel cur rest k cnt cons lastErr) := by
  intro fuel
  induction fuel with
  | zero =>
    intro cur rest k cnt cons lastErr
    refine ⟨Walk.done _, rfl, ?_, ?_, ?_, ?_⟩ <;> simp [doLoop]
  | succ fuel ih =>
    intro cur rest k cnt cons lastErr
    cases cur with
    | none =>
      cases lastErr with
      | none => refine ⟨Walk.done _, rfl, ?_, ?_, ?_, ?_⟩ <;> simp [doLoop]
      | some e => refine ⟨Walk.done _, rfl, ?_, ?_, ?_, ?_⟩ <;> simp [doLoop]
    | some h =>
      have ids : ((some h).toList ++ usable rest).map (·.id) = h.id :: (usable rest).map (·.id) := by simp
      rw [ids]
      simp only [doLoop, Req.record_eq]
      cases hr : outcome k with
      | logical => simp only []; rw [← hr]; exact good_stop _ _ _ _ _ _ _ _ _ (Or.inl (by rw [hr]))
      | ok => simp only []; rw [← hr]; exact good_stop _ _ _ _ _ _ _ _ _ (Or.inl (by rw [hr]))
      | err e =>
        simp only []
        cases pol with
        | none => simp only []; rw [← hr]; exact good_stop _ _ _ _ _ _ _ _ _ (Or.inl (by rw [hr]))
        | some p =>
          simp only []
          by_cases hat : p.attempt (cnt + 1) = true
          · simp only [hat, Bool.not_true, Bool.false_eq_true, if_false]
            cases hrt : p.rtype e with
            | retry =>
              simp only []; rw [← hr]
              refine good_push outcome _ _ _ _ _ _ e _ _ hr ?_ (ih (some h) rest (k+1) (cnt+1) _ (some e))
              intro s hs
              simp only [Option.toList, List.cons_append, List.nil_append, List.map_cons] at hs
              exact Walk.stay _ _ _ hs
            | rethrow => simp only []; rw [← hr]; exact good_stop _ _ _ _ _ _ _ _ _ (Or.inl (by rw [hr]))
            | ignore => simp only []; rw [← hr]; exact good_stop _ _ _ _ _ _ _ _ _ (Or.inl (by rw [hr]))
            | unknown => simp only []; rw [← hr]; exact good_stop _ _ _ _ _ _ _ _ _ (Or.inr rfl)
            | nextHost =>
              simp only []
              rcases nextUsable_spec rest with ⟨hn, hu⟩ | ⟨h', rest', hn, hu⟩
              · simp only [hn]; rw [← hr]
                refine good_push outcome _ _ _ _ _ _ e _ _ hr ?_ (ih none [] (k+1) (cnt+1) _ (some e))
                intro s hs
                simp only [Option.toList, List.nil_append, usable, List.filter_nil, List.map_nil] at hs
                cases hs
                exact Walk.stay _ _ _ (Walk.done _)
              · simp only [hn]; rw [← hr]
                refine good_push outcome _ _ _ _ _ _ e _ _ hr ?_ (ih (some h') rest' (k+1) (cnt+1) _ (some e))
                intro s hs
                simp only [Option.toList, List.cons_append, List.nil_append, List.map_cons] at hs
                rw [hu]
                exact Walk.move _ _ _ hs
          · have hat' : p.attempt (cnt + 1) = false := by simpa using hat
            simp only [hat', Bool.not_false, if_true]
            rw [← hr]; exact good_stop _ _ _ _ _ _ _ _ _ (Or.inl (by rw [hr]))

/-- budget lemma for policies of the form `Attempts() ≤ N`, for every statement kind, observed or not, and every
    starting value of the counter: one attempt is always made; a further one only while the counter is ≤ N -/
theorem doLoop_budget (req : Req) (p : Policy) (N : Nat) (hp : ∀ m, p.attempt m = decide (m ≤ N)) (outcome : Nat → Res) :
    ∀ (fuel : Nat) (cur : Option Host) (rest : List Host) (k cnt cons : Nat) (lastErr : Option Nat),
    (doLoop req (some p) outcome fuel cur rest k cnt cons lastErr).attempts.length ≤ 1 + (N - cnt) := by
  intro fuel
  induction fuel with
  | zero => intro cur rest k cnt cons lastErr; simp [doLoop]
  | succ fuel ih =>
    intro cur rest k cnt cons lastErr
    cases cur with
    | none => cases lastErr <;> simp [doLoop]
    | some h =>
      simp only [doLoop, Req.record_eq]
      cases hr : outcome k with
      | logical => simp
      | ok => simp
      | err e =>
        simp only [hp]
        by_cases hle : cnt + 1 ≤ N
        · simp only [hle, decide_true, Bool.not_true, Bool.false_eq_true, if_false]
          cases p.rtype e with
          | retry =>
            have := ih (some h) rest (k+1) (cnt+1) ((p.newCons (cnt+1)).getD cons) (some e)
            simp only [Out.push, List.length_cons]; omega
          | rethrow => simp
          | ignore => simp
          | unknown => simp
          | nextHost =>
            simp only []
            cases nextUsable rest with
            | none =>
              have := ih none [] (k+1) (cnt+1) ((p.newCons (cnt+1)).getD cons) (some e)
              simp only [Out.push, List.length_cons]; omega
            | some hr' =>
              obtain ⟨h', rest'⟩ := hr'
              have := ih (some h') rest' (k+1) (cnt+1) ((p.newCons (cnt+1)).getD cons) (some e)
              simp only [Out.push, List.length_cons]; omega
        · simp only [hle, decide_false, Bool.not_false, if_true]
          simp

/-- consistency of the attempts: the first request carries the statement's level; every later one carries what
    the policy's `Attempt` set when it allowed that retry (or the previous level if it set none) -/
theorem doLoop_cons (req : Req) (p : Policy) (outcome : Nat → Res) :
    ∀ (fuel : Nat) (cur : Option Host) (rest : List Host) (k cnt cons : Nat) (lastErr : Option Nat),
    let o := doLoop req (some p) outcome fuel cur rest k cnt cons lastErr
    (∀ a, o.attempts[0]? = some a → a.cons = cons) ∧
    (∀ i a b, o.attempts[i]? = some a → o.attempts[i+1]? = some b → b.cons = (p.newCons (cnt + i + 1)).getD a.cons) := by
  intro fuel
  induction fuel with
  | zero => intro cur rest k cnt cons lastErr; simp [doLoop]
  | succ fuel ih =>
    intro cur rest k cnt cons lastErr
    cases cur with
    | none => cases lastErr <;> simp [doLoop]
    | some h =>
      have push : ∀ (o : Out) (a0 : Att), a0.cons = cons →
          ((∀ a, o.attempts[0]? = some a → a.cons = (p.newCons (cnt + 1)).getD cons) ∧
           (∀ i a b, o.attempts[i]? = some a → o.attempts[i+1]? = some b → b.cons = (p.newCons (cnt + 1 + i + 1)).getD a.cons)) →
          ((∀ a, (o.push a0).attempts[0]? = some a → a.cons = cons) ∧
           (∀ i a b, (o.push a0).attempts[i]? = some a → (o.push a0).attempts[i+1]? = some b →
              b.cons = (p.newCons (cnt + i + 1)).getD a.cons)) := by
        intro o a0 h0 ⟨g1, g2⟩
        refine ⟨?_, ?_⟩
        · intro a ha; simp [Out.push] at ha; subst ha; exact h0
        · intro i a b ha hb
          cases i with
          | zero =>
            simp [Out.push] at ha hb
            subst ha
            rw [g1 b hb, h0]
          | succ i =>
            simp only [Out.push, List.getElem?_cons_succ] at ha hb
            have := g2 i a b ha hb
            rw [this]; congr 2; omega
      simp only [doLoop, Req.record_eq]
      cases hr : outcome k with
      | logical => simp
      | ok => simp
      | err e =>
        simp only []
        by_cases hat : p.attempt (cnt + 1) = true
        · simp only [hat, Bool.not_true, Bool.false_eq_true, if_false]
          cases p.rtype e with
          | retry => exact push _ _ rfl (ih (some h) rest (k+1) (cnt+1) _ (some e))
          | rethrow => simp
          | ignore => simp
          | unknown => simp
          | nextHost =>
            simp only []
            cases nextUsable rest with
            | none => exact push _ _ rfl (ih none [] (k+1) (cnt+1) _ (some e))
            | some hr' =>
              obtain ⟨h', rest'⟩ := hr'
              exact push _ _ rfl (ih (some h') rest' (k+1) (cnt+1) _ (some e))
        · have hat' : p.attempt (cnt + 1) = false := by simpa using hat
          simp only [hat', Bool.not_false, if_true]
          simp

end Executor
