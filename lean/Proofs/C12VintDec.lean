import Proofs.C12Vint
import Proofs.C12Scalar
/-!
# C12, duration, converse direction: marshal.go decVint (tied to the source text by GenTie.C12.decVint) reads exactly
what the SPECIFICATION's vint reader reads, for every byte string
(`decIntZigZag_spec`, `fold_nomod`, `bitLen_eq`: same statements as the helpers of Proofs/C02Vint.lean, which cannot be
imported here — it sits above Proofs/C12.lean)
-/
namespace C12VintDec
open ValueSpec Marshal C12Bytes C12Vint

/-- `int64((n >> 1) ^ -(n & 1))` is the inverse zig-zag code, for every uint64 -/
theorem decIntZigZag_spec (u : Nat) (hu : u < 2^64) : decIntZigZag u = unzigzag u := by
  unfold decIntZigZag unzigzag
  have hm : u % 18446744073709551616 = u := Nat.mod_eq_of_lt hu
  have hsh : (BitVec.ofNat 64 u >>> 1).toNat = u / 2 := by
    simp [BitVec.toNat_ushiftRight, hm, Nat.shiftRight_eq_div_pow]
  have hand : (BitVec.ofNat 64 u &&& 1#64).toNat = u % 2 := by
    simp [BitVec.toNat_and, hm, Nat.and_one_is_mod]
  by_cases he : u % 2 = 0
  · have h1 : BitVec.ofNat 64 u &&& 1#64 = 0#64 := by
      apply BitVec.eq_of_toNat_eq; rw [hand, he]; rfl
    rw [h1, if_pos he]
    simp only [BitVec.neg_zero, BitVec.xor_zero]
    rw [BitVec.toInt_eq_toNat_cond, hsh]
    have : 2 * (u / 2) < 2 ^ 64 := by omega
    simp [this]
  · have h1 : BitVec.ofNat 64 u &&& 1#64 = 1#64 := by
      apply BitVec.eq_of_toNat_eq; rw [hand]; simp; omega
    rw [h1, if_neg he]
    have hneg : -(1#64) = BitVec.allOnes 64 := by decide
    rw [hneg, BitVec.xor_allOnes]
    rw [BitVec.toInt_eq_toNat_cond, BitVec.toNat_not, hsh]
    have : ¬ 2 * (2 ^ 64 - 1 - u / 2) < 2 ^ 64 := by omega
    simp [this]
    omega

/-- the accumulation loop of decVint (`ret <<= 8; ret |= b`, modulo 2^64) is the big-endian value when nothing overflows -/
theorem fold_nomod : ∀ (l : Bytes) (a : Nat), a * 256 ^ l.length + beNat l < 2^64 →
    l.foldl (fun acc x => (acc * 256 + x.toNat) % 2^64) a = a * 256 ^ l.length + beNat l
  | [], a, h => by simp [beNat]
  | b :: l, a, h => by
    have hP := pow256_pos l.length
    have key : a * 256 ^ (b :: l).length + beNat (b :: l) = (a * 256 + b.toNat) * 256 ^ l.length + beNat l := by
      rw [beNat_cons, List.length_cons, Nat.pow_succ, Nat.add_mul, Nat.mul_comm (256 ^ l.length) 256, ← Nat.mul_assoc]
      omega
    rw [key] at h ⊢
    have hle : a * 256 + b.toNat ≤ (a * 256 + b.toNat) * 256 ^ l.length := Nat.le_mul_of_pos_right _ hP
    have hlt : a * 256 + b.toNat < 2^64 := by omega
    simp only [List.foldl_cons, Nat.mod_eq_of_lt hlt]
    exact fold_nomod l (a * 256 + b.toNat) h


theorem bitLen_eq (y k : Nat) (h1 : y < 2 ^ (k+1)) (h2 : 2 ^ k ≤ y) : bitLen y = k + 1 := by
  have a := (bitLen_le_iff y (k+1)).mpr h1
  have b : ¬ bitLen y ≤ k := fun h => by have := (bitLen_le_iff y k).mp h; omega
  omega


/-- `bits.LeadingZeros32(uint32(^b)) - 24` counts the leading one bits of the byte, as the specification does -/
theorem lead_eq (b : UInt8) : leadOnes b = leadingOnes b.toNat := by
  have hx := b.toNat_lt
  unfold leadOnes leadingOnes
  repeat' split
  all_goals first
    | (rw [bitLen_eq (255 - b.toNat) 7 (by omega) (by omega)])
    | (rw [bitLen_eq (255 - b.toNat) 6 (by omega) (by omega)])
    | (rw [bitLen_eq (255 - b.toNat) 5 (by omega) (by omega)])
    | (rw [bitLen_eq (255 - b.toNat) 4 (by omega) (by omega)])
    | (rw [bitLen_eq (255 - b.toNat) 3 (by omega) (by omega)])
    | (rw [bitLen_eq (255 - b.toNat) 2 (by omega) (by omega)])
    | (rw [bitLen_eq (255 - b.toNat) 1 (by omega) (by omega)])
    | (rw [bitLen_eq (255 - b.toNat) 0 (by omega) (by omega)])
    | (have : 255 - b.toNat = 0 := by omega
       rw [this, bitLen]; simp)

theorem and_mask (k : Nat) (hk : k ≤ 8) (x : Nat) (_ : x < 256) : x &&& (255 >>> k) = x % 2 ^ (8 - k) := by
  have : 255 >>> k = 2 ^ (8 - k) - 1 := by
    have : k = 0 ∨ k = 1 ∨ k = 2 ∨ k = 3 ∨ k = 4 ∨ k = 5 ∨ k = 6 ∨ k = 7 ∨ k = 8 := by omega
    rcases this with rfl | rfl | rfl | rfl | rfl | rfl | rfl | rfl | rfl <;> decide
  rw [this]
  first | exact Nat.and_two_pow_sub_one_eq_mod x (8 - k) | exact Nat.and_pow_two_sub_one_eq_mod x (8 - k)

theorem leadingOnes_range (x : Nat) (h : ¬ x < 128) : 1 ≤ leadingOnes x ∧ leadingOnes x ≤ 8 := by
  unfold leadingOnes
  repeat' split
  all_goals omega

/-- the model of marshal.go decVint = the specification's signed-vint reader, for EVERY byte string -/
theorem decVint_spec (data : Bytes) : decVint data = specReadVint data := by
  cases data with
  | nil => rfl
  | cons first r =>
    have hx := first.toNat_lt
    simp only [specReadVint, specReadUVint, decVint, ← lead_eq]
    by_cases h128 : first.toNat < 128
    · have he : leadOnes first = 0 := by rw [lead_eq]; simp [leadingOnes, h128]
      have hm : first.toNat % 256 = first.toNat := by omega
      simp [h128, he, decIntZigZag_spec _ (show first.toNat < 2^64 by omega), hm, beNat]
    · have hr := leadingOnes_range first.toNat h128
      rw [← lead_eq] at hr
      rw [if_neg h128]
      generalize hk : leadOnes first = k at hr
      by_cases hl : r.length < k
      · simp [hl]
      · simp only [hl, if_false]
        have hlen : (r.take k).length = k := by simp [List.length_take]; omega
        have hs := beNat_lt (r.take k)
        rw [hlen] at hs
        have hmask := and_mask k hr.2 first.toNat hx
        have hb : first.toNat % 2 ^ (8 - k) * 256 ^ k + beNat (r.take k) < 2 ^ 64 := by
          have hmod : first.toNat % 2 ^ (8 - k) < 2 ^ (8 - k) := Nat.mod_lt _ (Nat.pow_pos (by decide))
          generalize beNat (r.take k) = s at hs
          generalize first.toNat % 2 ^ (8 - k) = a at hmod
          have : k = 1 ∨ k = 2 ∨ k = 3 ∨ k = 4 ∨ k = 5 ∨ k = 6 ∨ k = 7 ∨ k = 8 := by omega
          rcases this with rfl | rfl | rfl | rfl | rfl | rfl | rfl | rfl <;> simp at hs hmod ⊢ <;> omega
        have hf := fold_nomod (r.take k) (first.toNat % 2 ^ (8 - k)) (by rw [hlen]; exact hb)
        rw [hlen] at hf
        rw [hmask, hf, decIntZigZag_spec _ hb]

end C12VintDec
