import Model.MuxPool
/-!
# Recycled call objects (helper lemmas for `Proofs/C01.lean`): the invariant that makes a pool of `callReq`s safe
-/
namespace MuxPool

structure Inv (st : St) : Prop where
  /-- a waiting request reads the channel of its own object, on its own connection -/
  wait_ok : ∀ r k o, st.pc r = .waiting k o → st.user o = some r ∧ st.conn r = k
  /-- the reader of an object's channel is a waiting request that was given that object -/
  user_ok : ∀ o r, st.user o = some r → st.pc r = .waiting (st.conn r) o
  /-- an object that a `c.calls` map or a closeWithError snapshot refers to is not in the pool, and whoever reads its
      channel is a request of THAT connection -/
  calls_ok : ∀ o k, st.inCalls o = some k → st.pool o = false ∧ st.fresh o = false ∧ st.closed k = false ∧
    (∀ r, st.user o = some r → st.conn r = k)
  walk_ok : ∀ o k, st.inWalk o = some k → st.pool o = false ∧ st.fresh o = false ∧ (∀ r, st.user o = some r → st.conn r = k)
  /-- an object in the pool, and one never allocated, has no reader -/
  pool_ok : ∀ o, st.pool o = true → st.user o = none ∧ st.fresh o = false
  fresh_ok : ∀ o, st.fresh o = true → st.user o = none ∧ st.inCalls o = none ∧ st.inWalk o = none ∧ st.pool o = false
  /-- the error of connection k only reaches requests of connection k -/
  err_ok : ∀ r k, st.pc r = .done (.connErr k) → st.conn r = k

theorem inv_init : Inv init := by
  constructor <;> simp [init]

macro "close_pool" h:ident : tactic => `(tactic| (
  obtain ⟨h1, h2, h3, h4, h5, h6, h7⟩ := $h
  constructor <;> simp only [upd, putBack] <;> grind))

macro "pol_cases" p:ident hp:ident h:ident : tactic => `(tactic| (
  cases $p:ident with
  | onRelease => exact absurd rfl $hp
  | never => close_pool $h
  | whenUnreferenced => first | (simp only [putBack]; split <;> close_pool $h) | close_pool $h))

set_option maxHeartbeats 4000000 in
theorem inv_step (p : Policy) (hp : p ≠ .onRelease) (st st' : St) (a : Act) (h : Inv st) (hs : step p st a = some st') :
    Inv st' := by
  cases a with
  | start r k o =>
    simp only [step] at hs
    split at hs
    · injection hs with hs; subst hs; close_pool h
    · simp at hs
  | respond r =>
    simp only [step] at hs
    split at hs
    · split at hs
      · injection hs with hs; subst hs
        pol_cases p hp h
      · simp at hs
    · simp at hs
  | leave r =>
    simp only [step] at hs
    split at hs
    · injection hs with hs; subst hs
      rename_i k o hpc
      cases hc : st.closed k <;> simp only [↓reduceIte, Bool.true_eq_false] <;>
        pol_cases p hp h
    · simp at hs
  | close k =>
    simp only [step] at hs
    split at hs
    · injection hs with hs; subst hs; close_pool h
    · simp at hs
  | visit k o =>
    simp only [step] at hs
    split at hs
    · split at hs
      · split at hs
        · injection hs with hs; subst hs
          rename_i r hu k' o' hpc
          cases hc : st.closed k' <;> simp only [↓reduceIte, Bool.true_eq_false] <;>
            pol_cases p hp h
        · injection hs with hs; subst hs; close_pool h
      · injection hs with hs; subst hs; close_pool h
    · simp at hs

theorem inv_run (p : Policy) (hp : p ≠ .onRelease) : ∀ (as : List Act) (s s' : St), Inv s → run p s as = some s' → Inv s'
  | [], s, s', h, hr => by simp [run] at hr; subst hr; exact h
  | a :: as, s, s', h, hr => by
    simp only [run] at hr
    split at hr
    · rename_i s1 hs1
      exact inv_run p hp as s1 s' (inv_step p hp s s1 a h hs1) hr
    · simp at hr

end MuxPool
