import Model.PoolLock
/-!
# Lock discipline of hostConnPool against closeWithError's call-back (helper lemmas for `Proofs/C06.lean`)
-/
namespace PoolLock

theorem ok_map_connClose (cerr : Nat → Bool) (l : List Nat) (r : List Instr) :
    ok cerr false (l.map .connClose ++ r) = ok cerr false r := by
  induction l with
  | nil => rfl
  | cons a l ih => simp [ok, ih]

/-- every thread's remaining program respects the lock discipline, given whether it holds the lock right now -/
def LInv (cerr : Nat → Bool) (st : St) : Prop :=
  ∀ t, ok cerr (decide (st.holder = some t)) (st.prog t) = true

theorem linv_init (cerr : Nat → Bool) (conns : List Nat) (prog : Nat → List Instr)
    (h : ∀ t, ok cerr false (prog t) = true) : LInv cerr (init conns prog) := by
  intro t; simpa [init] using h t

/-- a step of thread `t` that keeps the lock where it is and replaces t's program -/
theorem linv_keep (cerr : Nat → Bool) (st st' : St) (t : Nat) (p : List Instr) (h : LInv cerr st)
    (hh : st'.holder = st.holder) (hp : st'.prog = upd st.prog t p)
    (hok : ok cerr (decide (st.holder = some t)) p = true) : LInv cerr st' := by
  intro u
  by_cases e : u = t
  · subst e; simp [hh, hp, upd]; exact hok
  · have := h u; simp [hh, hp, upd, e]; exact this

theorem linv_step (cerr : Nat → Bool) (st st' : St) (t : Nat) (h : LInv cerr st) (hs : step cerr st t = some st') :
    LInv cerr st' := by
  have ht := h t
  unfold step at hs
  split at hs
  · simp at hs
  · -- lock
    rename_i r hp
    split at hs
    · rename_i hh
      injection hs with hs; subst hs
      intro u
      have hu := h u
      by_cases e : u = t
      · subst e; simp [upd, hp, hh, ok] at ht ⊢; exact ht
      · have : ¬ (t = u) := fun x => e x.symm
        simp [upd, e, hh, this] at hu ⊢; exact hu
    · simp at hs
  · -- unlock
    rename_i r hp
    split at hs
    · rename_i hh
      injection hs with hs; subst hs
      intro u
      have hu := h u
      by_cases e : u = t
      · subst e; simp [upd, hp, hh, ok] at ht ⊢; exact ht
      · have : ¬ (t = u) := fun x => e x.symm
        simp [upd, e, hh, this] at hu ⊢; exact hu
    · simp at hs
  · -- poolCloseBody
    rename_i r hp
    have hr : ok cerr (decide (st.holder = some t)) r = true := by
      cases hb : decide (st.holder = some t) <;> simp [hp, hb, ok] at ht ⊢; exact ht
    split at hs <;> (injection hs with hs; subst hs; exact linv_keep cerr st _ t r h rfl rfl hr)
  · -- closeTaken
    rename_i r hp
    injection hs with hs; subst hs
    refine linv_keep cerr st _ t _ h rfl rfl ?_
    cases hb : decide (st.holder = some t) <;> simp [hp, hb, ok, ok_map_connClose] at ht ⊢; exact ht
  · -- connClose
    rename_i c r hp
    split at hs
    · injection hs with hs; subst hs
      refine linv_keep cerr st _ t _ h rfl rfl ?_
      cases hb : decide (st.holder = some t) <;> simp [hp, hb, ok] at ht ⊢
      · exact ht
      · exact ht.2
    · injection hs with hs; subst hs
      refine linv_keep cerr st _ t _ h rfl rfl ?_
      cases hb : decide (st.holder = some t) <;> cases hc : cerr c <;> simp [hp, hb, hc, ok, pHandleError] at ht ⊢ <;> exact ht
  · -- connError
    rename_i c r hp
    split at hs
    · injection hs with hs; subst hs
      refine linv_keep cerr st _ t _ h rfl rfl ?_
      cases hb : decide (st.holder = some t) <;> simp [hp, hb, ok] at ht ⊢; exact ht
    · injection hs with hs; subst hs
      refine linv_keep cerr st _ t _ h rfl rfl ?_
      cases hb : decide (st.holder = some t) <;> simp [hp, hb, ok, pHandleError] at ht ⊢; exact ht
  · -- heBody
    rename_i c r hp
    have hr : ok cerr (decide (st.holder = some t)) r = true := by
      cases hb : decide (st.holder = some t) <;> simp [hp, hb, ok] at ht ⊢; exact ht
    split at hs <;> (injection hs with hs; subst hs; exact linv_keep cerr st _ t r h rfl rfl hr)
  · -- connectBody
    rename_i c r hp
    split at hs
    · injection hs with hs; subst hs
      refine linv_keep cerr st _ t _ h rfl rfl ?_
      cases hb : decide (st.holder = some t) <;> simp [hp, hb, ok] at ht ⊢; exact ht
    · injection hs with hs; subst hs
      refine linv_keep cerr st _ t _ h rfl rfl ?_
      cases hb : decide (st.holder = some t) <;> simp [hp, hb, ok] at ht ⊢; exact ht.2
  · -- read
    rename_i r hp
    injection hs with hs; subst hs
    refine linv_keep cerr st _ t _ h rfl rfl ?_
    cases hb : decide (st.holder = some t) <;> simp [hp, hb, ok] at ht ⊢; exact ht
  · -- connectBodyU (the repaired tail of connect: gives the lock back before it closes the connection)
    rename_i c r hp
    split at hs
    · rename_i hh
      split at hs <;>
      · injection hs with hs; subst hs
        intro u
        have hu := h u
        by_cases e : u = t
        · subst e; simp [upd, hp, hh, ok] at ht ⊢; exact ht
        · have : ¬ (t = u) := fun x => e x.symm
          simp [upd, e, hh, this] at hu ⊢; exact hu
    · simp at hs

theorem linv_run (cerr : Nat → Bool) : ∀ (ts : List Nat) (s s' : St), LInv cerr s → run cerr s ts = some s' → LInv cerr s'
  | [], s, s', h, hr => by simp [run] at hr; subst hr; exact h
  | t :: ts, s, s', h, hr => by
    simp only [run] at hr
    split at hr
    · rename_i s1 hs1
      exact linv_run cerr ts s1 s' (linv_step cerr s s1 t h hs1) hr
    · simp at hr


/-- a program that respects the discipline ends without the lock: what follows it starts free -/
theorem ok_append (cerr : Nat → Bool) : ∀ (a b : List Instr) (h : Bool), ok cerr h a = true →
    ok cerr h (a ++ b) = ok cerr false b
  | [], b, h, ha => by cases h <;> simp [ok] at ha ⊢
  | i :: a, b, h, ha => by
    cases h <;> cases i <;> simp [ok] at ha ⊢ <;>
      first
      | exact ok_append cerr a b _ ha
      | (simp [ha.1]; exact ok_append cerr a b _ ha.2)

/-- every method of the pool respects the lock discipline, whatever the transports report on Close -/
theorem ok_meth (cerr : Nat → Bool) (m : Meth) : ok cerr false m.prog = true := by
  cases m <;> simp [Meth.prog, ok, pClose, pHandleError, pPick, pConnectTail]

/-- … and so does every sequence of them run by one goroutine -/
theorem ok_progOf (cerr : Nat → Bool) : ∀ ms : List Meth, ok cerr false (progOf ms) = true
  | [] => rfl
  | m :: ms => by
    have : progOf (m :: ms) = m.prog ++ progOf ms := by simp [progOf]
    rw [this, ok_append cerr _ _ false (ok_meth cerr m)]
    exact ok_progOf cerr ms

/-- under the invariant the thread that holds the lock can always move -/
theorem holder_steps (cerr : Nat → Bool) (st : St) (t : Nat) (h : LInv cerr st) (hh : st.holder = some t) :
    (step cerr st t).isSome = true := by
  have ht := h t
  simp [hh] at ht
  unfold step
  split
  · rename_i hp; simp [hp, ok] at ht
  · rename_i r hp; simp [hp, ok] at ht
  · simp [hh]
  all_goals (first | (simp [hh]; done) | (split <;> simp; done) | (simp [hh]; split <;> simp))

/-- under the invariant, as long as some thread has work left some thread can move -/
theorem some_thread_steps (cerr : Nat → Bool) (st : St) (u : Nat) (h : LInv cerr st) (hu : st.prog u ≠ []) :
    ∃ t, (step cerr st t).isSome = true := by
  cases hh : st.holder with
  | some t => exact ⟨t, holder_steps cerr st t h hh⟩
  | none =>
    refine ⟨u, ?_⟩
    have h1 := h u
    simp [hh] at h1
    unfold step
    split
    · rename_i hp; exact absurd hp hu
    · simp [hh]
    · rename_i r hp; simp [hp, ok] at h1
    all_goals (first | (simp; done) | (split <;> simp; done) | (rename_i hp; simp [hp, ok] at h1))

end PoolLock
