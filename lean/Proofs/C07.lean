import Proofs.C07Writer
import Proofs.C07Machine
/-!
# C07 — frames are written whole (property theorems)

Model: `Model/Writer.lean` (conn.go: deadlineContextWriter, writeCoalescer, exec's reaction to a
write error). The transport takes one socket Write in PIECES (`enter ; piece* ; endWrite`) with any other
action in between; what keeps frames whole is the modelled mechanism (one-slot semaphore / single flusher).
All theorems quantify over every action list (every number of writers, every interleaving, every piece
size, every cut position, every cancellation point, both writers) of the serialised machine.
-/
namespace C07
open Writer

/-- `flush` reports to each writer of a coalesced batch exactly its share: whole iff its last byte is
    below the byte count of the vectored write. -/
theorem C07_attribution (ls : List Nat) (hpos : ∀ l ∈ ls, 0 < l) (n : Nat) :
    attrib ls n = Spec.attrib ls n 0 := by
  have := attrib_eq_spec ls hpos n 0
  simpa using this

theorem C07_attribution_sum (ls : List Nat) (n : Nat) (h : n ≤ ls.foldr (· + ·) 0) :
    ((attrib ls n).map (·.1)).foldr (· + ·) 0 = n := attrib_sum ls n h

theorem C07_attribution_ok_is_whole (ls : List Nat) (n i : Nat) (r : Nat × Bool)
    (h : (attrib ls n)[i]? = some r) (hok : r.2 = true) : ls[i]? = some r.1 :=
  attrib_ok_full ls n i r h hok

example : attrib [10, 20, 30] 25 = [(10, true), (15, false), (0, false)] := by decide

theorem nodup_reverse' {α} (l : List α) (h : l.Nodup) : l.reverse.Nodup := by
  unfold List.Nodup at *
  rw [List.pairwise_reverse]
  exact h.imp (fun hab e => hab e.symm)

/-- **mutual exclusion** (the semaphore / the single flusher): in every reachable state at most one writer's
    buffer is inside the socket Write. -/
theorem C07_single_writer_in_socket (cfg : Cfg) (hser : cfg.serialised = true) (as : List Act) (s : St)
    (h : run cfg init as = some s) (w w' a b : Nat) (hw : s.pc w = .inWrite a) (hw' : s.pc w' = .inWrite b) :
    w = w' := by
  have inv := inv_run cfg hser as init s (inv_init cfg) h
  have h1 := inv.mutex w a hw
  have h2 := inv.mutex w' b hw'
  rw [h1] at h2
  exact Option.some.inj h2

/-- **frames are never interleaved**, whatever the transport does inside Write: in every reachable state the
    byte stream the transport received (`s.wire`, pieces in arrival order) is the concatenation of
    prefixes of DISTINCT frames, each starting at byte 0 of its frame and not longer than it. -/
theorem C07_frames_not_interleaved (cfg : Cfg) (hser : cfg.serialised = true) (as : List Act) (s : St)
    (h : run cfg init as = some s) :
    ∃ cs : List Chunk, s.wire.flatMap Piece.bytes = cs.flatMap Chunk.bytes ∧
      (∀ c ∈ cs, c.start = 0 ∧ 0 < c.n ∧ c.n ≤ cfg.lens c.id) ∧ (cs.map (·.id)).Nodup := by
  have inv := inv_run cfg hser as init s (inv_init cfg) h
  refine ⟨(glue s.wire).reverse, (glue_bytes s.wire).symm, ?_, ?_⟩
  · intro c hc
    have hc' : c ∈ glue s.wire := by simpa using hc
    obtain ⟨h0, hpos, hn⟩ := inv.acc.acct c hc'
    exact ⟨h0, hpos, by rw [hn]; exact inv.acc.bound c.id⟩
  · rw [List.map_reverse]
    exact nodup_reverse' _ inv.acc.nodup

/-- the same as a decidable check (what the driver's monitor evaluates on real byte streams) -/
theorem C07_framed (cfg : Cfg) (hser : cfg.serialised = true) (as : List Act) (s : St)
    (h : run cfg init as = some s) : framed cfg.lens (glue s.wire) = true :=
  framed_of_inv cfg s (inv_run cfg hser as init s (inv_init cfg) h)

/-! ### the monitor's online check of a byte stream (`Writer.scan`, used by the driver on `trace2` lines) -/

/-- soundness of the monitor w.r.t. the machine: it accepts the byte stream of every reachable state (so a
    rejected stream is not a behaviour of the model: no false alarm relative to the model) … -/
theorem C07_monitor_accepts_reachable (cfg : Cfg) (hser : cfg.serialised = true) (as : List Act) (s : St)
    (h : run cfg init as = some s) : scan cfg.lens s.wire = some (glue s.wire) :=
  scan_run cfg hser as init s (inv_init cfg) rfl h

/-- … what it accepts is framed (distinct frame prefixes, each from byte 0: not interleaved) … -/
theorem C07_monitor_accept_means_framed (lens : Nat → Nat) (wire : List Piece) (cs : List Chunk)
    (h : scan lens wire = some cs) : cs = glue wire ∧ (wire ≠ [] → framed lens cs = true) :=
  scanFrom_some lens wire [] cs h

/-- … and a rejection names a prefix of the byte stream that is not framed (the concrete failing history) -/
theorem C07_monitor_reject_means_unframed_prefix (lens : Nat → Nat) (wire : List Piece)
    (h : scan lens wire = none) : ∃ pre, pre <+: wire ∧ framed lens (glue pre) = false :=
  scanFrom_none lens wire [] h

/-- clause `bytes-after-return`: once a request has returned, its control state is final and no byte of its
    frame reaches the wire any more -/
theorem C07_no_bytes_after_return (cfg : Cfg) (hser : cfg.serialised = true) (as bs : List Act) (s s' : St)
    (h : run cfg init as = some s) (w n : Nat) (ok : Bool) (hd : s.pc w = .done n ok)
    (h' : run cfg s bs = some s') :
    s'.pc w = .done n ok ∧ s'.wire.filter (·.id = w) = s.wire.filter (·.id = w) :=
  done_run cfg hser w n ok bs s s' (inv_run cfg hser as init s (inv_init cfg) h) hd h'

/-- the semaphore is NECESSARY: the same machine without it (`serialised := false`) interleaves two frames
    on a transport that takes a Write in pieces, while both writers are told `n == len, err == nil`. -/
theorem C07_cex_without_semaphore :
    ∃ s, run { lens := fun _ => 10, coalesce := false, serialised := false } init cexScheduleNoSem = some s ∧
      s.wire = [⟨1, 0, 4⟩, ⟨2, 0, 10⟩, ⟨1, 4, 6⟩] ∧ framed (fun _ => 10) (glue s.wire) = false ∧
      s.pc 1 = .wrote 10 true ∧ s.pc 2 = .wrote 10 true := by
  refine ⟨_, rfl, ?_, ?_, ?_, ?_⟩ <;> decide

/-- … and that schedule is not a behaviour of the serialised machine -/
theorem C07_semaphore_blocks_second_writer :
    run { lens := fun _ => 10, coalesce := false } init cexScheduleNoSem = none := by decide

/-- **whole frames**: in every reachable state every chunk on the wire is a prefix of a distinct frame, and
    an incomplete one implies that its Write is still in progress, or the writer that was cut is on its way to
    `closeWithError` (which nothing can block), or the connection is closing (`c.closed` set: a caller is
    inside closeWithError — and can finish, `C07_closing_progress` — or the socket is closed). -/
theorem C07_whole_frames (cfg : Cfg) (hser : cfg.serialised = true) (as : List Act) (s : St)
    (h : run cfg init as = some s) :
    (∀ c ∈ glue s.wire, c.start = 0 ∧ c.n ≤ cfg.lens c.id) ∧ ((glue s.wire).map (·.id)).Nodup ∧
    (∀ c ∈ glue s.wire, c.n < cfg.lens c.id →
      s.closing = true ∨ s.pc c.id = .inWrite c.n ∨ s.pc c.id = .wrote c.n false ∨ s.pc c.id = .failing c.n) := by
  have inv := inv_run cfg hser as init s (inv_init cfg) h
  refine ⟨fun c hc => ?_, inv.acc.nodup, fun c hc hlt => ?_⟩
  · obtain ⟨h0, _, hn⟩ := inv.acc.acct c hc
    exact ⟨h0, by rw [hn]; exact inv.acc.bound c.id⟩
  · obtain ⟨_, hpos, hn⟩ := inv.acc.acct c hc
    cases hp : s.pc c.id with
    | idle => simp [hp, Pc.sent] at hn; omega
    | waiting => simp [hp, Pc.sent] at hn; omega
    | queued => simp [hp, Pc.sent] at hn; omega
    | cancelled => simp [hp, Pc.sent] at hn; omega
    | inWrite off => simp [hp, Pc.sent] at hn; simp [hn]
    | failing n => simp [hp, Pc.sent] at hn; simp [hn]
    | closer n => exact Or.inl (inv.closerClosing c.id n hp)
    | wrote n ok =>
      simp [hp, Pc.sent] at hn
      cases ok with
      | false => simp [hn]
      | true => have := inv.okFull c.id n (Or.inl hp); omega
    | done n ok =>
      simp [hp, Pc.sent] at hn
      cases ok with
      | false => exact Or.inl (inv.failedClosing c.id n hp (by omega))
      | true => have := inv.okFull c.id n (Or.inr hp); omega

/-- clause `torn-but-open` (evaluated at the check points `i` of a trace: socket open, nobody inside
    closeWithError, i.e. not closing, and — at quiescence — no caller between its failed write and
    closeWithError): every incomplete frame on the wire is one whose Write is still in progress. -/
theorem C07_quiescent_open_means_whole (cfg : Cfg) (hser : cfg.serialised = true) (as : List Act) (s : St)
    (h : run cfg init as = some s) (hopen : s.closing = false)
    (hq : ∀ w n, s.pc w ≠ .wrote n false ∧ s.pc w ≠ .failing n) :
    ∀ c ∈ glue s.wire, c.n < cfg.lens c.id → s.pc c.id = .inWrite c.n := by
  intro c hc hlt
  rcases (C07_whole_frames cfg hser as s h).2.2 c hc hlt with h1 | h1 | h1 | h1
  · rw [hopen] at h1; cases h1
  · exact h1
  · exact absurd h1 (hq c.id c.n).1
  · exact absurd h1 (hq c.id c.n).2

theorem C07_torn_writer_progress (cfg : Cfg) (s : St) (w n : Nat) (h : s.pc w = .wrote n false) :
    ∃ s1 s2, step cfg s (.ret w) = some s1 ∧ step cfg s1 (.close w) = some s2 ∧ s2.closing = true :=
  torn_writer_can_close cfg s w n h

/-- a connection that is closing has its socket closed already, or a `Close()` from outside that is between its
    `cancel()` and its `c.close()`, or a caller inside closeWithError; either can close the socket (`cancel()`, then
    `c.close()`; in the model nothing blocks these steps; in the code they wait only for writers that finish) -/
theorem C07_closing_progress (cfg : Cfg) (hser : cfg.serialised = true) (as : List Act) (s : St)
    (h : run cfg init as = some s) (hc : s.closing = true) :
    s.closed = true ∨ (∃ s1, step cfg s .shutdown = some s1 ∧ s1.closed = true) ∨
      ∃ w s1, run cfg s [.cancelCtx w, .closeFinish w] = some s1 ∧ s1.closed = true := by
  have inv := inv_run cfg hser as init s (inv_init cfg) h
  rcases inv.closerEx hc with h1 | h1 | ⟨w, n, hw⟩
  · exact Or.inl h1
  · exact Or.inr (Or.inl ⟨_, rfl, rfl⟩)
  · obtain ⟨s1, h1, h2⟩ := closer_can_finish cfg s w n hw
    exact Or.inr (Or.inr ⟨w, s1, h1, h2⟩)

/-- a caller is told its write succeeded only if its whole frame is on the wire (in one piece, once) -/
theorem C07_success_means_whole (cfg : Cfg) (hser : cfg.serialised = true) (as : List Act) (s : St)
    (h : run cfg init as = some s) (w n : Nat) (hpos : 0 < cfg.lens w)
    (hok : s.pc w = .wrote n true ∨ s.pc w = .done n true) : ⟨w, 0, cfg.lens w⟩ ∈ glue s.wire := by
  have inv := inv_run cfg hser as init s (inv_init cfg) h
  have hn := inv.okFull w n hok
  have hsent : (s.pc w).sent = cfg.lens w := by rcases hok with e | e <;> simp [e, Pc.sent, hn]
  obtain ⟨c, hc, hid⟩ := inv.acc.pres w (by omega)
  obtain ⟨h0, _, hcn⟩ := inv.acc.acct c hc
  have : c = ⟨w, 0, cfg.lens w⟩ := by
    cases c; simp_all
  exact this ▸ hc

/-- a request whose context ended before writing began leaves no bytes: no piece on the wire is its -/
theorem C07_cancel_before_start_no_bytes (cfg : Cfg) (hser : cfg.serialised = true) (as : List Act) (s : St)
    (h : run cfg init as = some s) (w : Nat) (hc : s.pc w = .cancelled ∨ s.pc w = .done 0 false) :
    ∀ p ∈ s.wire, p.id ≠ w := by
  have inv := inv_run cfg hser as init s (inv_init cfg) h
  intro p hp hid
  obtain ⟨c, hcm, hcid⟩ := glue_has_piece s.wire p hp
  obtain ⟨_, hpos, hn⟩ := inv.acc.acct c hcm
  rw [hcid, hid] at hn
  rcases hc with e | e <;> simp [e, Pc.sent] at hn <;> omega

theorem closed_step (cfg : Cfg) (s s' : St) (a : Act) (hc : s.closed = true) (hs : step cfg s a = some s') :
    s'.wire = s.wire ∧ s'.closed = true := by
  cases a <;> simp only [step] at hs <;> (try split at hs) <;> (try split at hs) <;>
    (try (simp at hs)) <;> (try (injection hs with hs; subst hs; simp_all))
  all_goals (first | (subst hs; simp_all) | skip)

/-- once the connection is closed nothing more reaches the wire -/
theorem C07_nothing_after_close (cfg : Cfg) : ∀ (as : List Act) (s s' : St),
    s.closed = true → run cfg s as = some s' → s'.wire = s.wire ∧ s'.closed = true
  | [], s, s', hc, hr => by simp [run] at hr; subst hr; exact ⟨rfl, hc⟩
  | a :: as, s, s', hc, hr => by
    simp only [run] at hr
    split at hr
    · rename_i s1 hs1
      have h1 := closed_step cfg s s1 a hc hs1
      have := C07_nothing_after_close cfg as s1 s' h1.2 hr
      exact ⟨this.1.trans h1.1, this.2⟩
    · simp at hr

/-- FULL STATEMENT (fails on the unchanged code): "after a partial write no further frame is written on
    that connection", i.e. in every reachable state only the NEWEST chunk on the wire may be incomplete
    (`onlyLastTorn`). Counterexample (known finding KF-C07-1, replayed on the real code): writer 1's write
    is cut after 4 of 10 bytes; it releases the semaphore / the flusher takes the next batch before writer
    1 has closed the socket (it is inside `closeWithError`, which first tells the outstanding calls and is held
    up by exactly those writers); writer 2's complete frame follows the torn one on a socket that is not closed. -/
def cexSchedule : List Act := cexScheduleD

theorem C07_cex_frame_after_partial :
    ∃ s, run { lens := fun _ => 10, coalesce := false } init cexSchedule = some s ∧
      s.wire = [⟨1, 0, 4⟩, ⟨2, 0, 10⟩] ∧ s.closed = false ∧ onlyLastTorn (fun _ => 10) (glue s.wire) = false := by
  refine ⟨_, rfl, ?_, ?_, ?_⟩ <;> decide

/-- the same with the coalescing writer: the next flush is written behind the torn frame -/
theorem C07_cex_frame_after_partial_coalesced :
    ∃ s, run { lens := fun _ => 10, coalesce := true } init
        [.submit 1, .enqueue 1, .tick, .enter 1, .submit 2, .piece 1 4, .endWrite 1 false, .enqueue 2, .tick,
         .ret 1, .close 1, .enter 2, .piece 2 10, .endWrite 2 true] = some s ∧
      s.wire = [⟨1, 0, 4⟩, ⟨2, 0, 10⟩] ∧ s.closed = false ∧ onlyLastTorn (fun _ => 10) (glue s.wire) = false := by
  refine ⟨_, rfl, ?_, ?_, ?_⟩ <;> decide

/-- proved part: the frame-after-partial can only be written BEFORE the close; combined with
    `C07_whole_frames` (torn ⇒ closed, or Write in progress, or the writer is about to close) and
    `C07_nothing_after_close`. -/
theorem C07_nothing_after_partial_partial (cfg : Cfg) (as bs : List Act) (s s' : St)
    (_h : run cfg init as = some s) (hc : s.closed = true) (h' : run cfg s bs = some s') :
    s'.wire = s.wire := (C07_nothing_after_close cfg bs s s' hc h').1

/-- non-vacuity: a coalesced flush of three frames, the second cut inside, everything accounted for -/
example : ∃ s, run { lens := fun w => 10 * w, coalesce := true } init
    [.submit 1, .submit 2, .submit 3, .enqueue 1, .enqueue 2, .enqueue 3, .tick, .enter 1, .piece 1 3, .piece 1 7,
     .endWrite 1 true, .enter 2, .piece 2 5, .endWrite 2 false, .ret 1, .ret 2, .ret 3, .close 3, .close 2, .cancelCtx 3, .closeFinish 3] = some s ∧
    glue s.wire = [⟨2, 0, 5⟩, ⟨1, 0, 10⟩] ∧ s.pc 1 = .done 10 true ∧ s.pc 2 = .done 5 false ∧
    s.pc 3 = .done 0 false ∧ s.closed = true := by
  refine ⟨_, rfl, ?_, ?_, ?_, ?_, ?_⟩ <;> decide

/-! ### frame size is a parameter: nothing above depends on it; the two writers differ in ONE size-independent detail -/

/-- the coalescer attributes the result of the vectored write by BYTE COUNT (`flush`): a buffer all of whose bytes
    the transport took is reported `(len, nil)` to its writer even when that Write returned an error as well … -/
theorem C07_coalescer_counts_bytes (cfg : Cfg) (hc : cfg.coalesce = true) (s s' : St) (w : Nat) (ok : Bool)
    (hw : s.pc w = .inWrite (cfg.lens w)) (hs : step cfg s (.endWrite w ok) = some s') :
    s'.pc w = .wrote (cfg.lens w) true := by
  simp only [step, hw] at hs
  split at hs
  · injection hs with hs; subst hs
    simp [setPc_same, hc]
  · simp at hs

/-- … which is what the attribution loop computes for that buffer (`attrib`, proved equal to its positional
    specification): whole iff all its bytes are below the byte count … -/
theorem C07_attribution_head (l off : Nat) (ls : List Nat) (h : off ≤ l) :
    (attrib (l :: ls) off).head? = some (off, decide (off = l)) := by
  simp only [attrib]
  split
  · have : off = l := by omega
    subst this; simp
  · have : off ≠ l := by omega
    simp [this]

/-- … while the direct writer hands the result of its one Write through unchanged -/
theorem C07_direct_hands_result_through (cfg : Cfg) (hc : cfg.coalesce = false) (s s' : St) (w off : Nat) (ok : Bool)
    (hw : s.pc w = .inWrite off) (hs : step cfg s (.endWrite w ok) = some s') :
    s'.pc w = .wrote off ok := by
  simp only [step, hw] at hs
  split at hs
  · injection hs with hs; subst hs
    simp [setPc_same, hc]
  · simp at hs

/-- non-vacuity with frames at the 4 KiB boundary: direct writer, frames of 4095 / 4096 / 4097 bytes; the 4096-byte
    frame goes out in pieces (up to the boundary minus one, one byte, nothing more) while the others wait -/
example : ∃ s, run { lens := fun w => 4094 + w, coalesce := false } init
    [.submit 2, .submit 1, .submit 3, .enter 2, .piece 2 4095, .piece 2 1, .endWrite 2 true, .enter 3, .piece 3 9,
     .piece 3 4087, .piece 3 1, .endWrite 3 true, .enter 1, .piece 1 4095, .endWrite 1 true, .ret 1, .ret 2, .ret 3] = some s ∧
    glue s.wire = [⟨1, 0, 4095⟩, ⟨3, 0, 4097⟩, ⟨2, 0, 4096⟩] ∧ s.pc 2 = .done 4096 true ∧ s.closed = false := by
  refine ⟨_, rfl, ?_, ?_, ?_⟩ <;> decide

/-- a second writer cannot enter while the 4096-byte frame is half out (semaphore), whatever its size -/
example : run { lens := fun w => 4094 + w, coalesce := false } init
    [.submit 2, .submit 1, .enter 2, .piece 2 2048, .enter 1] = none := by decide

/-- coalescer: a 4096-byte frame and a small one in one flush, the large one cut at byte 4095 (deadline): the small
    one behind it fails with 0 bytes, nothing of it reaches the wire -/
example : ∃ s, run { lens := fun w => if w = 1 then 4096 else 64, coalesce := true } init
    [.submit 1, .submit 2, .enqueue 1, .enqueue 2, .tick, .enter 1, .piece 1 4095, .endWrite 1 false, .ret 1, .ret 2,
     .close 1, .close 2, .cancelCtx 1, .closeFinish 1] = some s ∧
    glue s.wire = [⟨1, 0, 4095⟩] ∧ s.pc 1 = .done 4095 false ∧ s.pc 2 = .done 0 false ∧ s.closed = true := by
  refine ⟨_, rfl, ?_, ?_, ?_, ?_⟩ <;> decide

/-- coalescer: the transport took all 4096 bytes and reported an error as well: the writer is told success, the
    error is dropped (nobody behind it in the flush), the connection stays open and the next flush is written -/
example : ∃ s, run { lens := fun w => if w = 1 then 4096 else 64, coalesce := true } init
    [.submit 1, .enqueue 1, .tick, .enter 1, .piece 1 4096, .endWrite 1 false, .ret 1, .submit 2, .enqueue 2, .tick,
     .enter 2, .piece 2 64, .endWrite 2 true, .ret 2] = some s ∧
    glue s.wire = [⟨2, 0, 64⟩, ⟨1, 0, 4096⟩] ∧ s.pc 1 = .done 4096 true ∧ s.pc 2 = .done 64 true ∧ s.closed = false := by
  refine ⟨_, rfl, ?_, ?_, ?_, ?_⟩ <;> decide

end C07
