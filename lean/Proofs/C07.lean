import Proofs.C07Writer
import Proofs.C07Machine
import Proofs.C07Quit
import Proofs.C07Sem
import Proofs.C07Refine
/-!
# C07 — frames are written whole (property theorems)

Model: `Model/Writer.lean` (conn.go: deadlineContextWriter, writeCoalescer, exec's reaction to a
write error). The transport takes one socket Write in PIECES (`enter ; piece* ; endWrite`) with any other
action in between; what keeps frames whole is the modelled mechanism (one-slot semaphore / single flusher).
All theorems quantify over every action list (every number of writers, every interleaving, every piece
size, every cut position, every cancellation point, both writers) of the serialised machine.
-/
namespace C07
open Writer

/-- `flush` reports to each writer of a coalesced batch exactly its share: whole iff its last byte is
    below the byte count of the vectored write. -/
theorem C07_attribution (ls : List Nat) (hpos : ∀ l ∈ ls, 0 < l) (n : Nat) :
    attrib ls n = Spec.attrib ls n 0 := by
  have := attrib_eq_spec ls hpos n 0
  simpa using this

theorem C07_attribution_sum (ls : List Nat) (n : Nat) (h : n ≤ ls.foldr (· + ·) 0) :
    ((attrib ls n).map (·.1)).foldr (· + ·) 0 = n := attrib_sum ls n h

theorem C07_attribution_ok_is_whole (ls : List Nat) (n i : Nat) (r : Nat × Bool)
    (h : (attrib ls n)[i]? = some r) (hok : r.2 = true) : ls[i]? = some r.1 :=
  attrib_ok_full ls n i r h hok

example : attrib [10, 20, 30] 25 = [(10, true), (15, false), (0, false)] := by decide

theorem nodup_reverse' {α} (l : List α) (h : l.Nodup) : l.reverse.Nodup := by
  unfold List.Nodup at *
  rw [List.pairwise_reverse]
  exact h.imp (fun hab e => hab e.symm)

/-- **mutual exclusion** (the semaphore / the single flusher): in every reachable state at most one writer's
    buffer is inside the socket Write. -/
theorem C07_single_writer_in_socket (cfg : Cfg) (hser : cfg.serialised = true) (as : List Act) (s : St)
    (h : run cfg init as = some s) (w w' a b : Nat) (hw : s.pc w = .inWrite a) (hw' : s.pc w' = .inWrite b) :
    w = w' := by
  have inv := inv_run cfg hser as init s (inv_init cfg) h
  have h1 := inv.mutex w a hw
  have h2 := inv.mutex w' b hw'
  rw [h1] at h2
  exact Option.some.inj h2

/-- **frames are never interleaved**, whatever the transport does inside Write: in every reachable state the
    byte stream the transport received (`s.wire`, pieces in arrival order) is the concatenation of
    prefixes of DISTINCT frames, each starting at byte 0 of its frame and not longer than it. -/
theorem C07_frames_not_interleaved (cfg : Cfg) (hser : cfg.serialised = true) (as : List Act) (s : St)
    (h : run cfg init as = some s) :
    ∃ cs : List Chunk, s.wire.flatMap Piece.bytes = cs.flatMap Chunk.bytes ∧
      (∀ c ∈ cs, c.start = 0 ∧ 0 < c.n ∧ c.n ≤ cfg.lens c.id) ∧ (cs.map (·.id)).Nodup := by
  have inv := inv_run cfg hser as init s (inv_init cfg) h
  refine ⟨(glue s.wire).reverse, (glue_bytes s.wire).symm, ?_, ?_⟩
  · intro c hc
    have hc' : c ∈ glue s.wire := by simpa using hc
    obtain ⟨h0, hpos, hn⟩ := inv.acc.acct c hc'
    exact ⟨h0, hpos, by rw [hn]; exact inv.acc.bound c.id⟩
  · rw [List.map_reverse]
    exact nodup_reverse' _ inv.acc.nodup

/-- the same as a decidable check (what the driver's monitor evaluates on real byte streams) -/
theorem C07_framed (cfg : Cfg) (hser : cfg.serialised = true) (as : List Act) (s : St)
    (h : run cfg init as = some s) : framed cfg.lens (glue s.wire) = true :=
  framed_of_inv cfg s (inv_run cfg hser as init s (inv_init cfg) h)

/-! ### the monitor's online check of a byte stream (`Writer.scan`, used by the driver on `trace2` lines) -/

/-- soundness of the monitor w.r.t. the machine: it accepts the byte stream of every reachable state (so a
    rejected stream is not a behaviour of the model: no false alarm relative to the model) … -/
theorem C07_monitor_accepts_reachable (cfg : Cfg) (hser : cfg.serialised = true) (as : List Act) (s : St)
    (h : run cfg init as = some s) : scan cfg.lens s.wire = some (glue s.wire) :=
  scan_run cfg hser as init s (inv_init cfg) rfl h

/-- … what it accepts is framed (distinct frame prefixes, each from byte 0: not interleaved) … -/
theorem C07_monitor_accept_means_framed (lens : Nat → Nat) (wire : List Piece) (cs : List Chunk)
    (h : scan lens wire = some cs) : cs = glue wire ∧ (wire ≠ [] → framed lens cs = true) :=
  scanFrom_some lens wire [] cs h

/-- … and a rejection names a prefix of the byte stream that is not framed (the concrete failing history) -/
theorem C07_monitor_reject_means_unframed_prefix (lens : Nat → Nat) (wire : List Piece)
    (h : scan lens wire = none) : ∃ pre, pre <+: wire ∧ framed lens (glue pre) = false :=
  scanFrom_none lens wire [] h

/-- clause `bytes-after-return`: once a request has returned, its control state is final and no byte of its
    frame reaches the wire any more -/
theorem C07_no_bytes_after_return (cfg : Cfg) (hser : cfg.serialised = true) (as bs : List Act) (s s' : St)
    (h : run cfg init as = some s) (w n : Nat) (ok : Bool) (hd : s.pc w = .done n ok)
    (h' : run cfg s bs = some s') :
    s'.pc w = .done n ok ∧ s'.wire.filter (·.id = w) = s.wire.filter (·.id = w) :=
  done_run cfg hser w n ok bs s s' (inv_run cfg hser as init s (inv_init cfg) h) hd h'

/-- the semaphore is NECESSARY: the same machine without it (`serialised := false`) interleaves two frames
    on a transport that takes a Write in pieces, while both writers are told `n == len, err == nil`. -/
theorem C07_cex_without_semaphore :
    ∃ s, run { lens := fun _ => 10, coalesce := false, serialised := false } init cexScheduleNoSem = some s ∧
      s.wire = [⟨1, 0, 4⟩, ⟨2, 0, 10⟩, ⟨1, 4, 6⟩] ∧ framed (fun _ => 10) (glue s.wire) = false ∧
      s.pc 1 = .wrote 10 true ∧ s.pc 2 = .wrote 10 true := by
  refine ⟨_, rfl, ?_, ?_, ?_, ?_⟩ <;> decide

/-- … and that schedule is not a behaviour of the serialised machine -/
theorem C07_semaphore_blocks_second_writer :
    run { lens := fun _ => 10, coalesce := false } init cexScheduleNoSem = none := by decide

/-- **whole frames**: in every reachable state every chunk on the wire is a prefix of a distinct frame, and
    an incomplete one implies that its Write is still in progress, or the writer that was cut is on its way to
    `closeWithError` (which nothing can block), or the connection is closing (`c.closed` set: a caller is
    inside closeWithError — and can finish, `C07_closing_progress` — or the socket is closed). -/
theorem C07_whole_frames (cfg : Cfg) (hser : cfg.serialised = true) (as : List Act) (s : St)
    (h : run cfg init as = some s) :
    (∀ c ∈ glue s.wire, c.start = 0 ∧ c.n ≤ cfg.lens c.id) ∧ ((glue s.wire).map (·.id)).Nodup ∧
    (∀ c ∈ glue s.wire, c.n < cfg.lens c.id →
      s.closing = true ∨ s.pc c.id = .inWrite c.n ∨ s.pc c.id = .wrote c.n false ∨ s.pc c.id = .failing c.n) := by
  have inv := inv_run cfg hser as init s (inv_init cfg) h
  refine ⟨fun c hc => ?_, inv.acc.nodup, fun c hc hlt => ?_⟩
  · obtain ⟨h0, _, hn⟩ := inv.acc.acct c hc
    exact ⟨h0, by rw [hn]; exact inv.acc.bound c.id⟩
  · obtain ⟨_, hpos, hn⟩ := inv.acc.acct c hc
    cases hp : s.pc c.id with
    | idle => simp [hp, Pc.sent] at hn; omega
    | waiting => simp [hp, Pc.sent] at hn; omega
    | queued => simp [hp, Pc.sent] at hn; omega
    | cancelled => simp [hp, Pc.sent] at hn; omega
    | inWrite off => simp [hp, Pc.sent] at hn; simp [hn]
    | failing n => simp [hp, Pc.sent] at hn; simp [hn]
    | closer n => exact Or.inl (inv.closerClosing c.id n hp)
    | wrote n ok =>
      simp [hp, Pc.sent] at hn
      cases ok with
      | false => simp [hn]
      | true => have := inv.okFull c.id n (Or.inl hp); omega
    | done n ok =>
      simp [hp, Pc.sent] at hn
      cases ok with
      | false => exact Or.inl (inv.failedClosing c.id n hp (by omega))
      | true => have := inv.okFull c.id n (Or.inr hp); omega

/-- clause `torn-but-open` (evaluated at the check points `i` of a trace: socket open, nobody inside
    closeWithError, i.e. not closing, and — at quiescence — no caller between its failed write and
    closeWithError): every incomplete frame on the wire is one whose Write is still in progress. -/
theorem C07_quiescent_open_means_whole (cfg : Cfg) (hser : cfg.serialised = true) (as : List Act) (s : St)
    (h : run cfg init as = some s) (hopen : s.closing = false)
    (hq : ∀ w n, s.pc w ≠ .wrote n false ∧ s.pc w ≠ .failing n) :
    ∀ c ∈ glue s.wire, c.n < cfg.lens c.id → s.pc c.id = .inWrite c.n := by
  intro c hc hlt
  rcases (C07_whole_frames cfg hser as s h).2.2 c hc hlt with h1 | h1 | h1 | h1
  · rw [hopen] at h1; cases h1
  · exact h1
  · exact absurd h1 (hq c.id c.n).1
  · exact absurd h1 (hq c.id c.n).2

theorem C07_torn_writer_progress (cfg : Cfg) (s : St) (w n : Nat) (h : s.pc w = .wrote n false) :
    ∃ s1 s2, step cfg s (.ret w) = some s1 ∧ step cfg s1 (.close w) = some s2 ∧ s2.closing = true :=
  torn_writer_can_close cfg s w n h

/-- a connection that is closing has its socket closed already, or a `Close()` from outside that is between its
    `cancel()` and its `c.close()`, or a caller inside closeWithError; either can close the socket (`cancel()`, then
    `c.close()`; in the model nothing blocks these steps; in the code they wait only for writers that finish) -/
theorem C07_closing_progress (cfg : Cfg) (hser : cfg.serialised = true) (as : List Act) (s : St)
    (h : run cfg init as = some s) (hc : s.closing = true) :
    s.closed = true ∨ (∃ s1, step cfg s .shutdown = some s1 ∧ s1.closed = true) ∨
      ∃ w s1, run cfg s [.cancelCtx w, .closeFinish w] = some s1 ∧ s1.closed = true := by
  have inv := inv_run cfg hser as init s (inv_init cfg) h
  rcases inv.closerEx hc with h1 | h1 | ⟨w, n, hw⟩
  · exact Or.inl h1
  · exact Or.inr (Or.inl ⟨_, rfl, rfl⟩)
  · obtain ⟨s1, h1, h2⟩ := closer_can_finish cfg s w n hw
    exact Or.inr (Or.inr ⟨w, s1, h1, h2⟩)

/-- a caller is told its write succeeded only if its whole frame is on the wire (in one piece, once) -/
theorem C07_success_means_whole (cfg : Cfg) (hser : cfg.serialised = true) (as : List Act) (s : St)
    (h : run cfg init as = some s) (w n : Nat) (hpos : 0 < cfg.lens w)
    (hok : s.pc w = .wrote n true ∨ s.pc w = .done n true) : ⟨w, 0, cfg.lens w⟩ ∈ glue s.wire := by
  have inv := inv_run cfg hser as init s (inv_init cfg) h
  have hn := inv.okFull w n hok
  have hsent : (s.pc w).sent = cfg.lens w := by rcases hok with e | e <;> simp [e, Pc.sent, hn]
  obtain ⟨c, hc, hid⟩ := inv.acc.pres w (by omega)
  obtain ⟨h0, _, hcn⟩ := inv.acc.acct c hc
  have : c = ⟨w, 0, cfg.lens w⟩ := by
    cases c; simp_all
  exact this ▸ hc

/-- a request whose context ended before writing began leaves no bytes: no piece on the wire is its -/
theorem C07_cancel_before_start_no_bytes (cfg : Cfg) (hser : cfg.serialised = true) (as : List Act) (s : St)
    (h : run cfg init as = some s) (w : Nat) (hc : s.pc w = .cancelled ∨ s.pc w = .done 0 false) :
    ∀ p ∈ s.wire, p.id ≠ w := by
  have inv := inv_run cfg hser as init s (inv_init cfg) h
  intro p hp hid
  obtain ⟨c, hcm, hcid⟩ := glue_has_piece s.wire p hp
  obtain ⟨_, hpos, hn⟩ := inv.acc.acct c hcm
  rw [hcid, hid] at hn
  rcases hc with e | e <;> simp [e, Pc.sent] at hn <;> omega

theorem closed_step (cfg : Cfg) (s s' : St) (a : Act) (hc : s.closed = true) (hs : step cfg s a = some s') :
    s'.wire = s.wire ∧ s'.closed = true := by
  cases a <;> simp only [step] at hs <;> (try split at hs) <;> (try split at hs) <;>
    (try (simp at hs)) <;> (try (injection hs with hs; subst hs; simp_all))
  all_goals (first | (subst hs; simp_all) | skip)

/-- once the connection is closed nothing more reaches the wire -/
theorem C07_nothing_after_close (cfg : Cfg) : ∀ (as : List Act) (s s' : St),
    s.closed = true → run cfg s as = some s' → s'.wire = s.wire ∧ s'.closed = true
  | [], s, s', hc, hr => by simp [run] at hr; subst hr; exact ⟨rfl, hc⟩
  | a :: as, s, s', hc, hr => by
    simp only [run] at hr
    split at hr
    · rename_i s1 hs1
      have h1 := closed_step cfg s s1 a hc hs1
      have := C07_nothing_after_close cfg as s1 s' h1.2 hr
      exact ⟨this.1.trans h1.1, this.2⟩
    · simp at hr

/-- FULL STATEMENT (fails on the unchanged code): "after a partial write no further frame is written on
    that connection", i.e. in every reachable state only the NEWEST chunk on the wire may be incomplete
    (`onlyLastTorn`). Counterexample (known finding KF-C07-1, replayed on the real code): writer 1's write
    is cut after 4 of 10 bytes; it releases the semaphore / the flusher takes the next batch before writer
    1 has closed the socket (it is inside `closeWithError`, which first tells the outstanding calls and is held
    up by exactly those writers); writer 2's complete frame follows the torn one on a socket that is not closed. -/
def cexSchedule : List Act := cexScheduleD

theorem C07_cex_frame_after_partial :
    ∃ s, run { lens := fun _ => 10, coalesce := false } init cexSchedule = some s ∧
      s.wire = [⟨1, 0, 4⟩, ⟨2, 0, 10⟩] ∧ s.closed = false ∧ onlyLastTorn (fun _ => 10) (glue s.wire) = false := by
  refine ⟨_, rfl, ?_, ?_, ?_⟩ <;> decide

/-- the same with the coalescing writer: the next flush is written behind the torn frame -/
theorem C07_cex_frame_after_partial_coalesced :
    ∃ s, run { lens := fun _ => 10, coalesce := true } init
        [.submit 1, .enqueue 1, .tick, .enter 1, .submit 2, .piece 1 4, .endWrite 1 false, .enqueue 2, .tick,
         .ret 1, .close 1, .enter 2, .piece 2 10, .endWrite 2 true] = some s ∧
      s.wire = [⟨1, 0, 4⟩, ⟨2, 0, 10⟩] ∧ s.closed = false ∧ onlyLastTorn (fun _ => 10) (glue s.wire) = false := by
  refine ⟨_, rfl, ?_, ?_, ?_⟩ <;> decide

/-- proved part: the frame-after-partial can only be written BEFORE the close; combined with
    `C07_whole_frames` (torn ⇒ closed, or Write in progress, or the writer is about to close) and
    `C07_nothing_after_close`. -/
theorem C07_nothing_after_partial_partial (cfg : Cfg) (as bs : List Act) (s s' : St)
    (_h : run cfg init as = some s) (hc : s.closed = true) (h' : run cfg s bs = some s') :
    s'.wire = s.wire := (C07_nothing_after_close cfg bs s s' hc h').1

/-- non-vacuity: a coalesced flush of three frames, the second cut inside, everything accounted for -/
example : ∃ s, run { lens := fun w => 10 * w, coalesce := true } init
    [.submit 1, .submit 2, .submit 3, .enqueue 1, .enqueue 2, .enqueue 3, .tick, .enter 1, .piece 1 3, .piece 1 7,
     .endWrite 1 true, .enter 2, .piece 2 5, .endWrite 2 false, .ret 1, .ret 2, .ret 3, .close 3, .close 2, .cancelCtx 3, .closeFinish 3] = some s ∧
    glue s.wire = [⟨2, 0, 5⟩, ⟨1, 0, 10⟩] ∧ s.pc 1 = .done 10 true ∧ s.pc 2 = .done 5 false ∧
    s.pc 3 = .done 0 false ∧ s.closed = true := by
  refine ⟨_, rfl, ?_, ?_, ?_, ?_, ?_⟩ <;> decide


/-! ### the shutdown leg: `quit` closes (`c.cancel()`) BEFORE the socket closes (`c.close()`)

`St.quit` / `St.gone` / `St.ext`, actions `cancelCtx w` (the closer's `cancel()`), `shutQuit` (a `Close()` from outside up to
`cancel()`), `flusherQuit` (the flusher's select takes `<-w.quit`), `quit w` (a waiting writer sees quit / the flusher tells
a queued writer `(0, io.EOF)`), `closeFinish w` / `shutdown` (the socket closes). All theorems: every schedule. -/

/-- a Write that ends with an error leaves the writer idle: the semaphore is released / the rest of the batch is failed
    and the flusher is back at its select. (From here `C07_nothing_after_torn_partial` applies.) -/
theorem C07_torn_end_is_idle (cfg : Cfg) (hser : cfg.serialised = true) (hq : cfg.flushOnQuit = false) (as : List Act)
    (s s' : St) (h : run cfg init as = some s) (w : Nat) (hs : step cfg s (.endWrite w false) = some s') :
    s'.owner = none ∧ s'.flushing = false := by
  have inv := inv_run cfg hser as init s (inv_init cfg) h
  have invq := invq_run cfg hser hq as init s (inv_init cfg) (invq_init cfg) h
  simp only [step] at hs
  split at hs
  · split at hs
    · injection hs with hs; subst hs
      refine ⟨rfl, ?_⟩
      cases hc : cfg.coalesce
      · simpa [hc] using (invq.dirIdle hc).1
      · simp
    · simp at hs
  · simp at hs

/-- FULL STATEMENT (fails on the unchanged code, known finding KF-C07-1): "after a partial write no further frame is
    written on that connection": from a state in which a Write has just ended torn, NO continuation adds a byte.
    Counterexamples: `C07_cex_frame_after_partial` (the next semaphore holder) / `_coalesced` (the next timer tick).
    PROVED PART, all schedules: the ONLY actions that can bring further bytes are those two — the flusher taking a timer
    tick, a direct writer acquiring the semaphore (`Act.takesNext`, exactly the excluded condition of KF-C07-1). In
    particular the whole shutdown leg, in any order and any number of times — `cancelCtx`, `shutQuit`, `flusherQuit` with a
    non-empty queue, `quit w` of waiting and of queued writers, cancellations, new submissions, enqueues, returns,
    `close`, `closeFinish`, `shutdown` — writes nothing: requests enqueued between a torn flush and quit are failed,
    not flushed. (With the variant disposition `flushOnQuit` this is false: `C07_cex_last_flush_on_quit`.) -/
theorem C07_nothing_after_torn_partial (cfg : Cfg) (hser : cfg.serialised = true) (hq : cfg.flushOnQuit = false)
    (as bs : List Act) (s s' : St) (h : run cfg init as = some s) (hidle : s.owner = none ∧ s.flushing = false)
    (hk : ∀ a ∈ bs, a.takesNext cfg.coalesce = false) (h' : run cfg s bs = some s') : s'.wire = s.wire :=
  (idle_run cfg hser hq bs s s' (inv_run cfg hser as init s (inv_init cfg) h) hidle hk h').1

/-- the same as a statement about the shape of the byte stream: whole frames, then at most one frame prefix, which is the
    very last thing — and it stays the very last thing through the shutdown -/
theorem C07_stream_is_frames_then_at_most_one_prefix_partial (cfg : Cfg) (hser : cfg.serialised = true)
    (hq : cfg.flushOnQuit = false) (as bs : List Act) (s s' : St) (h : run cfg init as = some s)
    (hidle : s.owner = none ∧ s.flushing = false) (ht : onlyLastTorn cfg.lens (glue s.wire) = true)
    (hk : ∀ a ∈ bs, a.takesNext cfg.coalesce = false) (h' : run cfg s bs = some s') :
    framed cfg.lens (glue s'.wire) = true ∧ onlyLastTorn cfg.lens (glue s'.wire) = true := by
  have hw := C07_nothing_after_torn_partial cfg hser hq as bs s s' h hidle hk h'
  rw [hw]
  exact ⟨C07_framed cfg hser as s h, ht⟩

/-- the flusher's quit branch (conn.go as it is): nothing is written, no request changes state yet, the queue is
    handed over to the per-writer `(0, io.EOF)` deliveries, the flusher is gone -/
theorem C07_quit_disposition (cfg : Cfg) (hq : cfg.flushOnQuit = false) (s s' : St)
    (hs : step cfg s .flusherQuit = some s') :
    s'.wire = s.wire ∧ s'.pc = s.pc ∧ s'.queue = s.queue ∧ s'.gone = true ∧ s.quit = true ∧ s.flushing = false := by
  simp only [step] at hs
  split at hs
  · rename_i hg
    simp only [hq] at hs
    injection hs with hs; subst hs
    exact ⟨rfl, rfl, rfl, rfl, hg.2.1, hg.2.2.1⟩
  · simp at hs

/-- coalescer: once the flusher has taken its quit branch NOTHING is ever written again, whatever happens afterwards
    (there is no last flush) -/
theorem C07_nothing_written_after_flusher_quit (cfg : Cfg) (hser : cfg.serialised = true) (hq : cfg.flushOnQuit = false)
    (hc : cfg.coalesce = true) (as bs : List Act) (s s' : St) (h : run cfg init as = some s) (hg : s.gone = true)
    (h' : run cfg s bs = some s') : s'.wire = s.wire :=
  gone_run cfg hser hq hc bs s s' (inv_run cfg hser as init s (inv_init cfg) h)
    (invq_run cfg hser hq as init s (inv_init cfg) (invq_init cfg) h) hg h'

/-- every queued writer gets its outcome on shutdown: when the flusher is gone, a writer that is still enqueued is in the
    queue the flusher serves (never lost, never in a batch), and its delivery `(0, io.EOF)` is enabled and writes nothing -/
theorem C07_no_writer_left_behind (cfg : Cfg) (hser : cfg.serialised = true) (hq : cfg.flushOnQuit = false)
    (as : List Act) (s : St) (h : run cfg init as = some s) (hg : s.gone = true) (w : Nat) (hw : s.pc w = .queued) :
    w ∈ s.queue ∧ ∃ s', step cfg s (.quit w) = some s' ∧ s'.pc w = .wrote 0 false ∧ s'.wire = s.wire := by
  have invq := invq_run cfg hser hq as init s (inv_init cfg) (invq_init cfg) h
  have htodo : s.todo = [] := invq.idleTodo (invq.goneIdle hg)
  have hnt : w ∉ s.todo := by rw [htodo]; simp
  refine ⟨(invq.qAcc w hw).resolve_right hnt,
    ⟨{ s with pc := setPc s.pc w (.wrote 0 false), queue := s.queue.filter (· ≠ w) }, ?_, ?_, rfl⟩⟩
  · simp only [step]
    rw [if_pos (Or.inr ⟨hg, hw, hnt⟩)]
  · simp [setPc_same]

/-- an outcome "connection closed" `(0, io.EOF / ErrConnectionClosed)` is handed out only when quit is closed, and the
    writer that gets it has no byte on the wire -/
theorem C07_quit_outcome_means_quit (cfg : Cfg) (hser : cfg.serialised = true) (hq : cfg.flushOnQuit = false)
    (as : List Act) (s s' : St) (h : run cfg init as = some s) (w : Nat) (hs : step cfg s (.quit w) = some s') :
    s.quit = true ∧ s'.pc w = .wrote 0 false ∧ s'.wire = s.wire ∧ ∀ p ∈ s.wire, p.id ≠ w := by
  have inv := inv_run cfg hser as init s (inv_init cfg) h
  have invq := invq_run cfg hser hq as init s (inv_init cfg) (invq_init cfg) h
  simp only [step] at hs
  split at hs
  · rename_i hg
    injection hs with hs; subst hs
    refine ⟨?_, by simp [setPc_same], rfl, ?_⟩
    · rcases hg with ⟨h1, _⟩ | ⟨h1, _, _⟩
      · exact h1
      · exact invq.goneQuit h1
    · intro p hp hid
      obtain ⟨c, hcm, hcid⟩ := glue_has_piece s.wire p hp
      obtain ⟨_, hpos, hn⟩ := inv.acc.acct c hcm
      rw [hcid, hid] at hn
      rcases hg with ⟨_, e⟩ | ⟨_, e, _⟩ <;> simp [e, Pc.sent] at hn <;> omega
  · simp at hs

/-- a caller parked in writeContext's first select (waiting for the semaphore / for the flusher to take its request) can
    leave as soon as quit is closed, with `(0, closed)` and without a byte: nobody is left parked there by a shutdown -/
theorem C07_waiting_sees_quit (cfg : Cfg) (s : St) (w : Nat) (hq : s.quit = true) (hw : s.pc w = .waiting) :
    ∃ s', step cfg s (.quit w) = some s' ∧ s'.pc w = .wrote 0 false ∧ s'.wire = s.wire := by
  refine ⟨{ s with pc := setPc s.pc w (.wrote 0 false), queue := s.queue.filter (· ≠ w) }, ?_, by simp [setPc_same], rfl⟩
  simp only [step]
  rw [if_pos (Or.inl ⟨hq, hw⟩)]

/-- every caller gets exactly ONE outcome: once `writeContext`'s result `(n, err == nil)` is determined it never changes,
    whatever happens afterwards (ticks, quit, the flusher's quit branch, the socket closing, ...) -/
theorem C07_outcome_final (cfg : Cfg) (hser : cfg.serialised = true) (as bs : List Act) (s s' : St)
    (h : run cfg init as = some s) (w : Nat) (o : Nat × Bool) (ho : (s.pc w).outcome = some o)
    (h' : run cfg s bs = some s') : (s'.pc w).outcome = some o :=
  outcome_run cfg hser w o bs s s' (inv_run cfg hser as init s (inv_init cfg) h) ho h'

/-- the byte count of an outcome is exactly what is on the wire of that frame: one chunk of `n` bytes from byte 0, or
    nothing when `n = 0` -/
theorem C07_outcome_counts_sent (cfg : Cfg) (hser : cfg.serialised = true) (as : List Act) (s : St)
    (h : run cfg init as = some s) (w n : Nat) (ok : Bool) (ho : (s.pc w).outcome = some (n, ok)) :
    (∀ c ∈ glue s.wire, c.id = w → c.start = 0 ∧ c.n = n) ∧ (0 < n → ∃ c ∈ glue s.wire, c.id = w) := by
  have inv := inv_run cfg hser as init s (inv_init cfg) h
  have hsent : (s.pc w).sent = n := by
    cases hp : s.pc w <;> simp [hp, Pc.outcome, Pc.sent] at ho ⊢ <;> omega
  refine ⟨fun c hc hid => ?_, fun hpos => inv.acc.pres w (by omega)⟩
  obtain ⟨h0, _, hn⟩ := inv.acc.acct c hc
  rw [hid, hsent] at hn
  exact ⟨h0, hn⟩

/-- the variant "one last flush on quit" (`flushOnQuit := true`: the flusher's quit branch calls `flush` instead of failing
    its queue). Writer 1's flush is torn after 4 of 10 bytes; writer 2 is enqueued afterwards; no timer tick; `Close()`
    closes quit (the socket is still open: `cancel()` precedes `c.close()`); the flusher's last flush puts frame 2 BEHIND
    the torn frame and writer 2 is told `(10, nil)`. No action after the torn Write "takes the next one": the hypothesis of
    `C07_nothing_after_torn_partial` holds and its conclusion fails. -/
def cexLastFlushPre : List Act := [.submit 1, .enqueue 1, .tick, .enter 1, .piece 1 4, .endWrite 1 false]
def cexLastFlushPost : List Act :=
  [.ret 1, .submit 2, .enqueue 2, .shutQuit, .flusherQuit, .enter 2, .piece 2 10, .endWrite 2 true, .ret 2]

theorem C07_cex_last_flush_on_quit :
    ∃ s0 s, run { lens := fun _ => 10, coalesce := true, flushOnQuit := true } init cexLastFlushPre = some s0 ∧
      s0.owner = none ∧ s0.flushing = false ∧ s0.wire = [⟨1, 0, 4⟩] ∧
      (∀ a ∈ cexLastFlushPost, a.takesNext true = false) ∧
      run { lens := fun _ => 10, coalesce := true, flushOnQuit := true } s0 cexLastFlushPost = some s ∧
      s.wire = [⟨1, 0, 4⟩, ⟨2, 0, 10⟩] ∧ s.quit = true ∧ s.closed = false ∧ s.pc 2 = .done 10 true ∧
      onlyLastTorn (fun _ => 10) (glue s.wire) = false := by
  refine ⟨_, _, rfl, ?_, ?_, ?_, ?_, rfl, ?_, ?_, ?_, ?_, ?_⟩ <;> decide

/-- ... and that history is not a behaviour of the machine with conn.go's disposition: after the flusher's quit branch
    frame 2 cannot enter the socket ... -/
theorem C07_last_flush_not_in_model :
    run { lens := fun _ => 10, coalesce := true } init (cexLastFlushPre ++ cexLastFlushPost) = none := by decide

/-- ... what it has instead: writer 2 is told `(0, io.EOF)` and the torn frame stays the last thing on the wire -/
theorem C07_quit_fails_queued_after_torn :
    ∃ s, run { lens := fun _ => 10, coalesce := true } init
        (cexLastFlushPre ++ [.ret 1, .submit 2, .enqueue 2, .shutQuit, .flusherQuit, .quit 2, .ret 2, .shutdown]) = some s ∧
      s.wire = [⟨1, 0, 4⟩] ∧ s.pc 2 = .failing 0 ∧ s.pc 1 = .failing 4 ∧ s.gone = true ∧ s.closed = true := by
  refine ⟨_, rfl, ?_, ?_, ?_, ?_, ?_⟩ <;> decide

/-- non-vacuity, direct writer: quit closes while writer 1 is inside the socket and writers 2, 3 wait for the semaphore;
    they get `(0, closed)`, writer 1's Write is cut, nothing follows -/
example : ∃ s, run { lens := fun _ => 10, coalesce := false } init
    [.submit 1, .submit 2, .submit 3, .enter 1, .piece 1 4, .shutQuit, .quit 2, .quit 3, .endWrite 1 false, .ret 2, .ret 1,
     .shutdown] = some s ∧
    s.wire = [⟨1, 0, 4⟩] ∧ s.pc 2 = .failing 0 ∧ s.pc 3 = .wrote 0 false ∧ s.closed = true := by
  refine ⟨_, rfl, ?_, ?_, ?_, ?_⟩ <;> decide

/-- non-vacuity, coalescer: quit closes in the middle of a flush of [1, 2] while 3 waits to be enqueued: the vectored
    write goes on (frame 2 is written after quit: the flush in progress, not the shutdown leg), 3 gets `(0, io.EOF)`, then the
    flusher takes its quit branch -/
example : ∃ s, run { lens := fun _ => 10, coalesce := true } init
    [.submit 1, .submit 2, .enqueue 1, .enqueue 2, .tick, .enter 1, .piece 1 10, .submit 3, .shutQuit, .quit 3, .endWrite 1 true,
     .enter 2, .piece 2 10, .endWrite 2 true, .flusherQuit, .shutdown] = some s ∧
    s.wire = [⟨1, 0, 10⟩, ⟨2, 0, 10⟩] ∧ s.pc 3 = .wrote 0 false ∧ s.pc 2 = .wrote 10 true ∧ s.gone = true := by
  refine ⟨_, rfl, ?_, ?_, ?_, ?_⟩ <;> decide

/-! ### the semaphore is held exactly while a Write is in progress (cancellation at the select: `S<w>` scenarios)

A caller whose context has ALREADY ENDED when it reaches writeContext's first select (Conn.exec checks `ctx.Err()` up front,
but the context can end between that check and the select) is one `submit w` followed by whatever the select takes:
`cancel w` (it leaves with `(0, ctx.Err())`) or `enter w` / `enqueue w` (the semaphore / the hand-over won: it writes like
anybody else). Either way the mechanism is left intact: -/

/-- the semaphore (coalescer: "the buffer the flusher is writing") is held by `w` IF AND ONLY IF the frame of `w` is inside
    the socket Write — in every reachable state, both writers. A writer that returned early, with or without an error, never
    keeps it, and nobody is inside the Write without holding it. -/
theorem C07_semaphore_held_only_inside_write (cfg : Cfg) (hser : cfg.serialised = true) (as : List Act) (s : St)
    (h : run cfg init as = some s) (w : Nat) : s.owner = some w ↔ ∃ off, s.pc w = .inWrite off := by
  constructor
  · exact ownerIn_run cfg as init s ownerIn_init h w
  · rintro ⟨off, ho⟩
    exact (inv_run cfg hser as init s (inv_init cfg) h).mutex w off ho

/-- a writer whose outcome is determined (it left through `ctx.Done()`, through `quit`, or with the result of its Write)
    does not hold the semaphore -/
theorem C07_outcome_holds_no_semaphore (cfg : Cfg) (as : List Act) (s : St) (h : run cfg init as = some s) (w : Nat)
    (o : Nat × Bool) (ho : (s.pc w).outcome = some o) : s.owner ≠ some w := by
  intro hw
  obtain ⟨off, hp⟩ := ownerIn_run cfg as init s ownerIn_init h w hw
  rw [hp] at ho
  simp [Pc.outcome] at ho

/-- the semaphore is never lost: while no Write is in progress it is free, so a caller waiting in the direct writer's
    select can take it (nobody is parked there for ever because an earlier caller left without releasing) -/
theorem C07_free_when_no_write_in_progress (cfg : Cfg) (hc : cfg.coalesce = false) (as : List Act) (s : St)
    (h : run cfg init as = some s) (hno : ∀ x off, s.pc x ≠ .inWrite off) (w : Nat) (hw : s.pc w = .waiting) :
    s.owner = none ∧ ∃ s', step cfg s (.enter w) = some s' ∧ s'.pc w = .inWrite 0 ∧ s'.owner = some w ∧ s'.wire = s.wire := by
  have hfree : s.owner = none := by
    cases ho : s.owner with
    | none => rfl
    | some x =>
      obtain ⟨off, hp⟩ := ownerIn_run cfg as init s ownerIn_init h x ho
      exact absurd hp (hno x off)
  refine ⟨hfree, { s with pc := setPc s.pc w (.inWrite 0), owner := some w, todo := s.todo.filter (· ≠ w) }, ?_,
    setPc_same _ _ _, rfl, rfl⟩
  simp only [step]
  rw [if_pos ⟨fun _ => hfree, Or.inl ⟨hc, hw⟩⟩]

/-- a caller that leaves the first select through `ctx.Done()` takes nothing with it: no byte, not the semaphore, no slot
    in the flusher's queue or batch; every other writer is where it was -/
theorem C07_cancelled_leaves_nothing (cfg : Cfg) (s s' : St) (w : Nat) (hs : step cfg s (.cancel w) = some s') :
    s.pc w = .waiting ∧ s'.pc w = .cancelled ∧ s'.wire = s.wire ∧ s'.owner = s.owner ∧ s'.queue = s.queue ∧
      s'.todo = s.todo ∧ s'.flushing = s.flushing ∧ ∀ x, x ≠ w → s'.pc x = s.pc x :=
  cancel_frame cfg s s' w hs

/-- non-vacuity: writer 1's context has ended when it reaches the select and the select takes `ctx.Done()`; writers 2, 3
    then write one after the other (3 cannot enter while 2 is half out) -/
example : ∃ s, run { lens := fun _ => 10, coalesce := false } init
    [.submit 1, .cancel 1, .submit 2, .enter 2, .ret 1, .piece 2 4, .submit 3, .piece 2 6, .endWrite 2 true, .enter 3,
     .piece 3 10, .endWrite 3 true] = some s ∧
    s.wire = [⟨2, 0, 4⟩, ⟨2, 4, 6⟩, ⟨3, 0, 10⟩] ∧ s.pc 1 = .done 0 false ∧ s.owner = none := by
  refine ⟨_, rfl, ?_, ?_, ?_⟩ <;> decide

/-- ... the history of a writer whose early return releases the semaphore a second time (writer 3 enters while writer 2
    is half out) is not a behaviour of the machine -/
example : run { lens := fun _ => 10, coalesce := false } init
    [.submit 1, .cancel 1, .submit 2, .enter 2, .ret 1, .piece 2 4, .submit 3, .enter 3] = none := by decide

/-- ... and the other branch of the select: the semaphore wins although the context has ended; the frame is written whole -/
example : ∃ s, run { lens := fun _ => 10, coalesce := false } init
    [.submit 1, .enter 1, .submit 2, .piece 1 10, .endWrite 1 true, .ret 1, .enter 2] = some s ∧
    s.pc 1 = .done 10 true ∧ s.owner = some 2 := by
  refine ⟨_, rfl, ?_, ?_⟩ <;> decide

/-! ### refinement between the coalescing writer machine and the plain (semaphore) writer machine, for the byte stream -/

/-- **the coalescing writer adds no byte stream**: every schedule of the machine (in particular of the coalescing writer:
    enqueue, flush timer, batches of any size, result fan-out, the flusher's quit branch, in any interleaving) is matched
    by a schedule of the DIRECT writer with the same frame lengths - the projection of the schedule itself on
    `submit / enter / piece / endWrite` - that reaches the same wire, piece by piece, with the same semaphore holder and,
    for every writer that has not yet left, the same position (not arrived / Write not begun / `off` bytes out). -/
theorem C07_coalescer_refines_direct (cfg : Cfg) (as : List Act) (s : St) (h : run cfg init as = some s) :
    ∃ s', run cfg.direct init (wireActs as) = some s' ∧ s'.wire = s.wire ∧ s'.owner = s.owner ∧
      (s.closed = false → s'.closed = false) ∧ ∀ w off, s.pc w = .inWrite off → s'.pc w = .inWrite off := by
  obtain ⟨s', hr, hsim⟩ := sim_run cfg as init s init sim_init h
  refine ⟨s', hr, hsim.wire, hsim.owner, hsim.open_, fun w off hw => ?_⟩
  have := hsim.pcs w
  rw [hw] at this
  exact this

/-- **and it loses none**: every schedule of the direct writer is matched by a schedule of the coalescing writer (each
    acquisition of the semaphore becomes `enqueue ; tick ; enter`: a batch of one) with the same wire -/
theorem C07_direct_refines_coalescer (cfg : Cfg) (hser : cfg.serialised = true) (hc : cfg.coalesce = false)
    (as : List Act) (s : St) (h : run cfg init as = some s) :
    ∃ s', run cfg.coalescing init (as.flatMap coActs) = some s' ∧ s'.wire = s.wire ∧ s'.owner = s.owner ∧
      (s.closed = false → s'.closed = false) := by
  obtain ⟨s', hr, hsim⟩ := sim'_run cfg hser hc as init s init sim'_init h
  exact ⟨s', hr, hsim.wire, hsim.owner, hsim.open_⟩

/-- so the two writers have EXACTLY the same reachable byte streams, for every assignment of frame lengths: whatever is
    proved about the wire of one machine (framing, non-interleaving, what the monitor accepts) holds for the other -/
theorem C07_same_byte_streams (lens : Nat → Nat) (wire : List Piece) :
    (∃ as s, run { lens := lens, coalesce := true } init as = some s ∧ s.wire = wire) ↔
    (∃ as s, run { lens := lens, coalesce := false } init as = some s ∧ s.wire = wire) := by
  constructor
  · rintro ⟨as, s, h, hw⟩
    obtain ⟨s', hr, hw', _⟩ := C07_coalescer_refines_direct _ as s h
    exact ⟨wireActs as, s', hr, hw'.trans hw⟩
  · rintro ⟨as, s, h, hw⟩
    obtain ⟨s', hr, hw', _⟩ := C07_direct_refines_coalescer _ rfl rfl as s h
    exact ⟨as.flatMap coActs, s', hr, hw'.trans hw⟩

/-- non-vacuity: a coalesced flush of three frames with the second one cut, and its projection on the direct writer -/
example : ∃ s s', run { lens := fun w => 10 * w, coalesce := true } init
    [.submit 1, .submit 2, .submit 3, .enqueue 1, .enqueue 2, .enqueue 3, .tick, .enter 1, .piece 1 3, .piece 1 7,
     .endWrite 1 true, .enter 2, .piece 2 5, .endWrite 2 false, .ret 1, .ret 2, .ret 3, .close 3] = some s ∧
    run { lens := fun w => 10 * w, coalesce := false } init
    [.submit 1, .submit 2, .submit 3, .enter 1, .piece 1 3, .piece 1 7, .endWrite 1 true, .enter 2, .piece 2 5,
     .endWrite 2 false] = some s' ∧ s'.wire = s.wire ∧ s.wire = [⟨1, 0, 3⟩, ⟨1, 3, 7⟩, ⟨2, 0, 5⟩] := by
  refine ⟨_, _, rfl, rfl, ?_, ?_⟩ <;> decide

example : wireActs [.submit 1, .enqueue 1, .tick, .enter 1, .piece 1 3, .cancel 2, .endWrite 1 true, .ret 1, .shutdown] =
    [.submit 1, .enter 1, .piece 1 3, .endWrite 1 true] := rfl

example : [Act.submit 1, .enter 1, .piece 1 3, .endWrite 1 false, .ret 1, .close 1].flatMap coActs =
    [.submit 1, .enqueue 1, .tick, .enter 1, .piece 1 3, .endWrite 1 false] := rfl

/-- LITERAL READING of "a request whose context ended before writing began leaves no bytes" (proposed finding KF-C07-2): in
    the state right after `submit 1` - where, the context having ended, `cancel 1` is enabled - `enter 1` is enabled as well
    (Go's select chooses at random among ready cases) and leads to the whole frame on the wire with outcome `(len, nil)`.
    What holds for all schedules is the reading BY OUTCOME, `C07_cancel_before_start_no_bytes`: a writer that is told
    `(0, ctx.Err())` has no byte on the wire. -/
theorem C07_cex_select_may_prefer_semaphore :
    ∃ s0 s, run { lens := fun _ => 10, coalesce := false } init [.submit 1] = some s0 ∧
      (step { lens := fun _ => 10, coalesce := false } s0 (.cancel 1)).isSome = true ∧
      run { lens := fun _ => 10, coalesce := false } s0 [.enter 1, .piece 1 10, .endWrite 1 true] = some s ∧
      s.wire = [⟨1, 0, 10⟩] ∧ s.pc 1 = .wrote 10 true := by
  refine ⟨_, _, rfl, ?_, rfl, ?_, ?_⟩ <;> decide

/-! ### a fault BEFORE byte 0: `SetWriteDeadline` fails inside the critical section / at the head of `flush` (`D` scenarios) -/

/-- the direct writer then returns `(0, err)` and releases the semaphore; the coalescer's `flush` hands `(0, err)` to EVERY
    buffer of the batch and is back at its select. Observably this is a Write that ends with an error before its first byte:
    nothing reaches the wire, nobody of the batch is left without a result, and the batch is gone. -/
theorem C07_failure_before_first_byte (cfg : Cfg) (s s1 s2 : St) (w : Nat) (hpos : 0 < cfg.lens w)
    (h1 : step cfg s (.enter w) = some s1) (h2 : step cfg s1 (.endWrite w false) = some s2) :
    s2.wire = s.wire ∧ s2.pc w = .wrote 0 false ∧ s2.owner = none ∧
      (cfg.coalesce = true → (∀ x ∈ s.todo, s2.pc x = .wrote 0 false) ∧ s2.todo = [] ∧ s2.flushing = false) := by
  simp only [step] at h1
  split at h1
  · injection h1 with h1; subst h1
    simp only [step, setPc_same] at h2
    split at h2
    · injection h2 with h2; subst h2
      have hne : (0 == cfg.lens w) = false := by
        cases hb : (0 == cfg.lens w)
        · rfl
        · have := (Nat.beq_eq_true_eq _ _).mp hb
          omega
      refine ⟨rfl, ?_, rfl, fun hc => ⟨fun x hx => ?_, ?_, ?_⟩⟩
      · simp [setPc_same, hne]
      · dsimp only
        by_cases e : x = w
        · subst e; simp [setPc_same, hne]
        · rw [setPc_other _ _ _ _ e]
          simp only [hc, Bool.true_and, Bool.not_false, if_true]
          rw [setMany_mem _ _ _ _ (by simp [List.mem_filter, hx, e])]
      · simp [hc]
      · simp [hc]
    · simp at h2
  · simp at h1

/-- non-vacuity: a flush of [1, 2] whose deadline cannot be armed; 3 is flushed afterwards -/
example : ∃ s, run { lens := fun _ => 10, coalesce := true } init
    [.submit 1, .submit 2, .enqueue 1, .enqueue 2, .tick, .enter 2, .endWrite 2 false, .ret 1, .ret 2, .submit 3, .enqueue 3,
     .tick, .enter 3, .piece 3 10, .endWrite 3 true] = some s ∧
    s.wire = [⟨3, 0, 10⟩] ∧ s.pc 1 = .failing 0 ∧ s.pc 2 = .failing 0 ∧ s.pc 3 = .wrote 10 true := by
  refine ⟨_, rfl, ?_, ?_, ?_, ?_⟩ <;> decide

/-- result fan-out of `flush` is complete: whenever the flusher is back at its select (no flush in progress), no writer is
    left inside a batch - a writer that still waits for a result is one the flusher has not taken yet (it is in the queue
    of the NEXT flush, or will be failed by the quit branch: `C07_no_writer_left_behind`) -/
theorem C07_flush_hands_every_result (cfg : Cfg) (hser : cfg.serialised = true) (hq : cfg.flushOnQuit = false)
    (as : List Act) (s : St) (h : run cfg init as = some s) (hf : s.flushing = false) (w : Nat) (hw : s.pc w = .queued) :
    w ∈ s.queue ∧ s.todo = [] := by
  have invq := invq_run cfg hser hq as init s (inv_init cfg) (invq_init cfg) h
  have htodo := invq.idleTodo hf
  exact ⟨(invq.qAcc w hw).resolve_right (by rw [htodo]; simp), htodo⟩

/-- non-vacuity: 3 is enqueued while the flush of [1, 2] is cut; after the flush 1 and 2 have their results, 3 is queued -/
example : ∃ s, run { lens := fun _ => 10, coalesce := true } init
    [.submit 1, .submit 2, .submit 3, .enqueue 1, .enqueue 2, .tick, .enter 1, .piece 1 4, .endWrite 1 false, .enqueue 3] = some s ∧
    s.flushing = false ∧ s.pc 1 = .wrote 4 false ∧ s.pc 2 = .wrote 0 false ∧ s.pc 3 = .queued ∧ s.queue = [3] := by
  refine ⟨_, rfl, ?_, ?_, ?_, ?_, ?_⟩ <;> decide

/-! ### frame size is a parameter: nothing above depends on it; the two writers differ in ONE size-independent detail -/

/-- the coalescer attributes the result of the vectored write by BYTE COUNT (`flush`): a buffer all of whose bytes
    the transport took is reported `(len, nil)` to its writer even when that Write returned an error as well … -/
theorem C07_coalescer_counts_bytes (cfg : Cfg) (hc : cfg.coalesce = true) (s s' : St) (w : Nat) (ok : Bool)
    (hw : s.pc w = .inWrite (cfg.lens w)) (hs : step cfg s (.endWrite w ok) = some s') :
    s'.pc w = .wrote (cfg.lens w) true := by
  simp only [step, hw] at hs
  split at hs
  · injection hs with hs; subst hs
    simp [setPc_same, hc]
  · simp at hs

/-- … which is what the attribution loop computes for that buffer (`attrib`, proved equal to its positional
    specification): whole iff all its bytes are below the byte count … -/
theorem C07_attribution_head (l off : Nat) (ls : List Nat) (h : off ≤ l) :
    (attrib (l :: ls) off).head? = some (off, decide (off = l)) := by
  simp only [attrib]
  split
  · have : off = l := by omega
    subst this; simp
  · have : off ≠ l := by omega
    simp [this]

/-- … while the direct writer hands the result of its one Write through unchanged -/
theorem C07_direct_hands_result_through (cfg : Cfg) (hc : cfg.coalesce = false) (s s' : St) (w off : Nat) (ok : Bool)
    (hw : s.pc w = .inWrite off) (hs : step cfg s (.endWrite w ok) = some s') :
    s'.pc w = .wrote off ok := by
  simp only [step, hw] at hs
  split at hs
  · injection hs with hs; subst hs
    simp [setPc_same, hc]
  · simp at hs

/-- non-vacuity with frames at the 4 KiB boundary: direct writer, frames of 4095 / 4096 / 4097 bytes; the 4096-byte
    frame goes out in pieces (up to the boundary minus one, one byte, nothing more) while the others wait -/
example : ∃ s, run { lens := fun w => 4094 + w, coalesce := false } init
    [.submit 2, .submit 1, .submit 3, .enter 2, .piece 2 4095, .piece 2 1, .endWrite 2 true, .enter 3, .piece 3 9,
     .piece 3 4087, .piece 3 1, .endWrite 3 true, .enter 1, .piece 1 4095, .endWrite 1 true, .ret 1, .ret 2, .ret 3] = some s ∧
    glue s.wire = [⟨1, 0, 4095⟩, ⟨3, 0, 4097⟩, ⟨2, 0, 4096⟩] ∧ s.pc 2 = .done 4096 true ∧ s.closed = false := by
  refine ⟨_, rfl, ?_, ?_, ?_⟩ <;> decide

/-- a second writer cannot enter while the 4096-byte frame is half out (semaphore), whatever its size -/
example : run { lens := fun w => 4094 + w, coalesce := false } init
    [.submit 2, .submit 1, .enter 2, .piece 2 2048, .enter 1] = none := by decide

/-- coalescer: a 4096-byte frame and a small one in one flush, the large one cut at byte 4095 (deadline): the small
    one behind it fails with 0 bytes, nothing of it reaches the wire -/
example : ∃ s, run { lens := fun w => if w = 1 then 4096 else 64, coalesce := true } init
    [.submit 1, .submit 2, .enqueue 1, .enqueue 2, .tick, .enter 1, .piece 1 4095, .endWrite 1 false, .ret 1, .ret 2,
     .close 1, .close 2, .cancelCtx 1, .closeFinish 1] = some s ∧
    glue s.wire = [⟨1, 0, 4095⟩] ∧ s.pc 1 = .done 4095 false ∧ s.pc 2 = .done 0 false ∧ s.closed = true := by
  refine ⟨_, rfl, ?_, ?_, ?_, ?_⟩ <;> decide

/-- coalescer: the transport took all 4096 bytes and reported an error as well: the writer is told success, the
    error is dropped (nobody behind it in the flush), the connection stays open and the next flush is written -/
example : ∃ s, run { lens := fun w => if w = 1 then 4096 else 64, coalesce := true } init
    [.submit 1, .enqueue 1, .tick, .enter 1, .piece 1 4096, .endWrite 1 false, .ret 1, .submit 2, .enqueue 2, .tick,
     .enter 2, .piece 2 64, .endWrite 2 true, .ret 2] = some s ∧
    glue s.wire = [⟨2, 0, 64⟩, ⟨1, 0, 4096⟩] ∧ s.pc 1 = .done 4096 true ∧ s.pc 2 = .done 64 true ∧ s.closed = false := by
  refine ⟨_, rfl, ?_, ?_, ?_, ?_⟩ <;> decide

end C07
