import Proofs.C07Writer
import Proofs.C07Machine
/-!
# C07 — frames are written whole (property theorems)

Model: `Model/Writer.lean` (conn.go: deadlineContextWriter, writeCoalescer, exec's reaction to a
write error). One `write` action = one socket write; the environment cuts it at any byte.
All theorems quantify over every action list (every number of writers, every interleaving, every
cut position, every cancellation point).
-/
namespace C07
open Writer

/-- `flush` reports to each writer of a coalesced batch exactly its share: whole iff its last byte is
    below the byte count of the vectored write. -/
theorem C07_attribution (ls : List Nat) (hpos : ∀ l ∈ ls, 0 < l) (n : Nat) :
    attrib ls n = Spec.attrib ls n 0 := by
  have := attrib_eq_spec ls hpos n 0
  simpa using this

theorem C07_attribution_sum (ls : List Nat) (n : Nat) (h : n ≤ ls.foldr (· + ·) 0) :
    ((attrib ls n).map (·.1)).foldr (· + ·) 0 = n := attrib_sum ls n h

theorem C07_attribution_ok_is_whole (ls : List Nat) (n i : Nat) (r : Nat × Bool)
    (h : (attrib ls n)[i]? = some r) (hok : r.2 = true) : ls[i]? = some r.1 :=
  attrib_ok_full ls n i r h hok

example : attrib [10, 20, 30] 25 = [(10, true), (15, false), (0, false)] := by decide

/-- **whole frames**: in every reachable state the wire consists of pieces of distinct requests' frames,
    each piece a prefix of its frame; and an incomplete piece implies that the connection is closed or
    that the writer that was cut is on its way to `closeWithError` (which nothing can block). -/
theorem C07_whole_frames (lens : Nat → Nat) (as : List Act) (s : St) (h : run lens init as = some s) :
    (∀ c ∈ s.wire, c.n ≤ c.len ∧ c.len = lens c.id) ∧ (s.wire.map (·.id)).Nodup ∧
    (∀ c ∈ s.wire, c.n < c.len → s.closed = true ∨ s.pc c.id = .wrote c.n false ∨ s.pc c.id = .failing) := by
  have inv := inv_run lens as init s (inv_init lens) h
  exact ⟨fun c hc => ⟨(inv.bound c hc).2.1, (inv.bound c hc).2.2⟩, inv.nodup, inv.torn⟩

theorem C07_torn_writer_progress (lens : Nat → Nat) (s : St) (w n : Nat) (h : s.pc w = .wrote n false) :
    ∃ s1 s2, step lens s (.ret w) = some s1 ∧ step lens s1 (.close w) = some s2 ∧ s2.closed = true :=
  torn_writer_can_close lens s w n h

/-- a caller is told its write succeeded only if its whole frame is on the wire -/
theorem C07_success_means_whole (lens : Nat → Nat) (as : List Act) (s : St) (h : run lens init as = some s)
    (w : Nat) (hpos : 0 < lens w) (hok : s.pc w = .done true) : ⟨w, lens w, lens w⟩ ∈ s.wire :=
  (inv_run lens as init s (inv_init lens) h).okWhole w 0 (Or.inr hok) hpos

/-- a request whose context ended before writing began leaves no bytes -/
theorem C07_cancel_before_start_no_bytes (lens : Nat → Nat) (as : List Act) (s : St)
    (h : run lens init as = some s) (w : Nat) (hc : s.pc w = .cancelled) : ∀ c ∈ s.wire, c.id ≠ w :=
  (inv_run lens as init s (inv_init lens) h).fresh w (Or.inr (Or.inr hc))

/-- once the connection is closed nothing more reaches the wire -/
theorem C07_nothing_after_close (lens : Nat → Nat) : ∀ (as : List Act) (s s' : St),
    s.closed = true → run lens s as = some s' → s'.wire = s.wire ∧ s'.closed = true
  | [], s, s', hc, hr => by simp [run] at hr; subst hr; exact ⟨rfl, hc⟩
  | a :: as, s, s', hc, hr => by
    simp only [run] at hr
    split at hr
    · rename_i s1 hs1
      have h1 : s1.wire = s.wire ∧ s1.closed = true := by
        cases a with
        | submit w c => simp only [step] at hs1; split at hs1 <;> simp at hs1; subst hs1; exact ⟨rfl, hc⟩
        | write w k =>
          simp only [step] at hs1
          split at hs1
          · rename_i hcond
            have hk : k = 0 := hcond.2.2 hc
            simp at hs1; subst hs1; simp [hk, hc]
          · simp at hs1
        | ret w => simp only [step] at hs1; split at hs1 <;> simp at hs1 <;> subst hs1 <;> exact ⟨rfl, hc⟩
        | close w => simp only [step] at hs1; split at hs1 <;> simp at hs1; subst hs1; exact ⟨rfl, rfl⟩
      have := C07_nothing_after_close lens as s1 s' h1.2 hr
      exact ⟨this.1.trans h1.1, this.2⟩
    · simp at hr

/-- FULL STATEMENT (fails on the unchanged code): "after a partial write no further frame is written on
    that connection", i.e. in every reachable state only the LAST piece on the wire may be incomplete.
    Counterexample (known finding KF-C07-1, replayed on the real code): writer 1's write is cut after 4 of
    10 bytes; it releases the semaphore / the flusher takes the next batch before writer 1 has reached
    `closeWithError`; writer 2's complete frame follows the torn one on a connection that is not closed. -/
def cexSchedule : List Act := cexScheduleD

theorem C07_cex_frame_after_partial :
    ∃ s, run (fun _ => 10) init cexSchedule = some s ∧
      s.wire = [⟨1, 10, 4⟩, ⟨2, 10, 10⟩] ∧ s.closed = false ∧ wholeFrames s.wire = false := by
  refine ⟨_, rfl, ?_, ?_, ?_⟩ <;> decide

/-- proved part: the frame-after-partial can only be written BEFORE the close; combined with
    `C07_whole_frames` (torn ⇒ closed or writer about to close) and `C07_nothing_after_close`. -/
theorem C07_nothing_after_partial_partial (lens : Nat → Nat) (as bs : List Act) (s s' : St)
    (h : run lens init as = some s) (hc : s.closed = true) (h' : run lens s bs = some s') :
    s'.wire = s.wire := (C07_nothing_after_close lens bs s s' hc h').1

end C07
