import Model.ClusterView
import Proofs.C16EventsCoalesce
import Proofs.C16EventsOrder
import Proofs.C16EventsDispatch
import Proofs.C16EventsRefresh
import Proofs.C16EventsAgreeRefresh
import Proofs.C16EventsFollow
import Proofs.C16EventsDebounce
import Proofs.C16EventsNoLoss
import Proofs.C16Refresh
import Proofs.C16EventsPolicyNew
import Proofs.C16EventsUpdate
import Proofs.C16Queue
import Proofs.C16TokenMeta
import Proofs.C16
/-! # C16 — events, refreshes and their propagation to the connection pool and the selection policy

Model: `Model/ClusterView.lean` (the view of a Session: ring + pools + policy host lists + host states +
refresh requests; `handleNodeEvent` / `handleNodeUp` / `handleNodeDown` / `handleNodeConnected` /
`Session.removeHost` / `refreshRing` with its effects in program order / `GetHosts` row validation /
`ring.addOrUpdate` with `HostInfo.update` / the receive path of EVENT frames / the two debouncers), the code
as REPAIRED for KF-C16-2 … KF-C16-6 (props/C16.fix-*.diff). The ring part is `Model/Ring.lean` (theorems in
`Proofs/C16.lean`).
Lists standing for Go maps and copy-on-write host lists are compared as sets (`Same`, `SameSet`). -/
namespace C16
open Ring ClusterView

/-! ### histories of everything that updates the view -/

inductive VOp
  | batch (b : List Ev)            -- handleNodeEvent(frames)
  | up (a : Nat)                   -- handleNodeUp
  | down (a : Nat)                 -- handleNodeDown
  | connected (id : Nat)           -- handleNodeConnected(pool.host): a connect of the pool of host id succeeded
  | connectFailed (id : Nat)       -- fillingStopped(err): the first connect of the pool of host id failed
  | refresh (reported : List RHost) -- refreshRing, GetHosts having returned these hosts
  | removeHost (id : Nat)          -- Session.removeHost of the ring's host
  | addInitial (h : RHost)         -- Session.init's treatment of an initial host
  | update (id a c : Nat)          -- ring.addOrUpdate (controlConn.setupConn) finding host id `id` stored, HostInfo.update
                                   -- leaving the stored object with node address a, connectAddress field c (ANY values)

def applyV (env : Env) (v : View) : VOp → View
  | .batch b => v.handleBatch env b
  | .up a => v.nodeUp env a
  | .down a => v.nodeDown env a
  | .connected id => v.connected env id
  | .connectFailed id => v.connectFailed env id
  | .refresh rep => v.refresh env rep
  | .removeHost id => match v.ring.getHost id with | some h => v.removeHost env h | none => v
  | .addInitial h => v.addInitial env h
  | .update id a c => v.updateStored id a c

def runV (env : Env) (v : View) (ops : List VOp) : View := ops.foldl (applyV env) v

/-! ### the invariant of all histories -/

theorem agree_empty (env : Env) : Agree env View.empty := by
  refine ⟨SInv_empty, ?_, ?_, ⟨fun _ => rfl, ?_, ?_⟩⟩
  · intro e he; cases he
  · intro h hh; simp [View.empty, Policy.all] at hh
  · intro x hx; cases hx
  · intro x hx; cases hx

theorem agree_status (env : Env) (v : View) (e : Nat × Change) (ha : Agree env v) : Agree env (v.status env e) := by
  unfold View.status
  split
  · exact ha
  · split
    · exact agree_nodeUp env v e.1 ha
    · exact agree_nodeDown env v e.1 ha
    · exact ha

theorem agree_foldl_status (env : Env) (evs : List (Nat × Change)) : ∀ (v : View), Agree env v →
    Agree env (evs.foldl (View.status env) v) := by
  induction evs with
  | nil => intro v ha; exact ha
  | cons e t ih => intro v ha; exact ih _ (agree_status env v e ha)

theorem agree_dispatch (env : Env) (v : View) (topo : Bool) (evs : List (Nat × Change)) (ha : Agree env v) :
    Agree env (v.dispatch env topo evs) := by
  unfold View.dispatch
  have h1 : Agree env (if (topo && !env.noTopo) = true then { v with refreshReq := v.refreshReq + 1 } else v) := by
    split
    · exact ⟨ha.sinv, ha.pools, ha.pol, ha.placed⟩
    · exact ha
  dsimp only
  split
  · exact h1
  · exact agree_foldl_status env evs _ h1

theorem agree_addInitial (env : Env) (v : View) (h : RHost) (ha : Agree env v) : Agree env (v.addInitial env h) := by
  unfold View.addInitial Ring.addOrUpdate
  cases hl : lookup v.ring.byId h.id with
  | none =>
    rw [addIfMissing_of_none _ h hl]
    dsimp only
    have hn := agree_addNew env v h ha hl
    unfold View.addNew at hn
    rw [addIfMissing_of_none _ h hl] at hn
    dsimp only at hn
    split
    · -- filtered: only the ring changes
      have hadd := lookup_add_new v.ring h hl
      rw [addIfMissing_of_none _ h hl] at hadd
      dsimp only at hadd
      have hs := SInv_addIfMissing v.ring ha.sinv h
      rw [addIfMissing_of_none _ h hl] at hs
      refine ⟨hs, ?_, ?_, ha.placed⟩
      · intro e he
        have := ha.pools e he
        show lookup (put v.ring.byId h.id h) e.1 = some e.2
        rw [hadd]
        have hne : e.1 ≠ h.id := fun e1 => by rw [e1, hl] at this; cases this
        simp [hne, this]
      · intro x hx
        have := ha.pol x hx
        show lookup (put v.ring.byId h.id h) x.id = some x
        rw [hadd]
        have hne : x.id ≠ h.id := fun e1 => by rw [e1, hl] at this; cases this
        simp [hne, this]
    · exact hn
  | some e0 =>
    rw [addIfMissing_of_some _ h e0 hl]
    dsimp only
    have hid : e0.id = h.id := ha.sinv.wf _ (lookup_some_mem _ _ _ hl)
    split
    · exact ha
    · exact agree_startPoolFill env v e0 ha (by rw [hid]; exact hl)

theorem agree_applyV (env : Env) (hloc : LocStable env) (v : View) (op : VOp) (ha : Agree env v) : Agree env (applyV env v op) := by
  cases op with
  | batch b => exact agree_dispatch env v _ _ ha
  | up a => exact agree_nodeUp env v a ha
  | down a => exact agree_nodeDown env v a ha
  | connected id => exact agree_connected env v id ha
  | connectFailed id =>
    simp only [applyV, View.connectFailed]
    split
    · exact ha
    · exact agree_nodeDown env v _ ha
  | refresh rep => exact agree_refresh env v ha rep
  | removeHost id =>
    simp only [applyV]
    cases hg : v.ring.getHost id with
    | none => exact ha
    | some h =>
      dsimp only
      have hid : h.id = id := ha.sinv.wf _ (lookup_some_mem _ _ _ hg)
      exact agree_removeHost env v h ha (by rw [hid]; exact hg)
  | addInitial h => exact agree_addInitial env v h ha
  | update id a c => exact agree_updateStored env hloc v ha id a c

/-- every view reachable from a new session satisfies `Agree`: the ring's indexes are free of stale
entries, every pool and every policy entry belongs to the ring's current object of its host id -/
theorem agree_runV (env : Env) (hloc : LocStable env) (ops : List VOp) : ∀ (v : View), Agree env v → Agree env (runV env v ops) := by
  induction ops with
  | nil => intro v ha; exact ha
  | cons op t ih => intro v ha; exact ih _ (agree_applyV env hloc v op ha)

/-! ### status events: the last one of every address wins, in any dispatch order -/

theorem dispatch_pre_ring (env : Env) (v : View) (topo : Bool) :
    (if (topo && !env.noTopo) = true then { v with refreshReq := v.refreshReq + 1 } else v).ring = v.ring := by
  split <;> rfl

/-- `C16_status_last_wins`. For every view whose ring indexes are consistent (`SInv`: true of every
reachable ring) and every batch of node events in which the hosts of two different addressed addresses do
not share a connect address:
(1) the map built by the coalescing loop of `handleNodeEvent` holds for every address exactly its LAST
status in the batch, one entry per address;
(2) dispatching these entries in ANY order (Go iterates the map in an unspecified order) gives the same
view (as sets);
(3) hence a batch is processed exactly like any batch with the same last status per address and the same
"contains a topology event" flag — e.g. the batch reduced to the last status event of every address. -/
theorem C16_status_last_wins (env : Env) (v : View) (b : List Ev)
    (hs : SInv v.ring) (hc : ConnSep v.ring (keys (coalesce b))) :
    (∀ a, lookup (coalesce b) a = lastStatus b a) ∧ (keys (coalesce b)).Nodup ∧
    (∀ evs, evs.Perm (coalesce b) → Same (v.dispatch env (hasTopology b) evs) (v.handleBatch env b)) ∧
    (∀ b', hasTopology b' = hasTopology b → (∀ a, lastStatus b' a = lastStatus b a) →
      Same (v.handleBatch env b') (v.handleBatch env b)) := by
  have part3 : ∀ evs, evs.Perm (coalesce b) → Same (v.dispatch env (hasTopology b) evs) (v.handleBatch env b) := by
    intro evs hp
    unfold View.handleBatch View.dispatch
    dsimp only
    split
    · exact Same.refl _
    · rw [foldl_status_eq, foldl_status_eq, dispatch_pre_ring]
      have hk : (keys evs).Perm (keys (coalesce b)) := hp.map _
      have hn : (keys evs).Nodup := (hk.nodup_iff).mpr (keys_coalesce_nodup b)
      have hc' : ConnSep v.ring (keys evs) := by
        intro a1 h1 a2 h2
        exact hc a1 (hk.mem_iff.mp h1) a2 (hk.mem_iff.mp h2)
      exact foldl_applyG_perm env (hp.map _) (effects_pairwise env v.ring hs evs hn hc') (Same.refl _)
  refine ⟨lookup_coalesce b, keys_coalesce_nodup b, part3, ?_⟩
  intro b' ht hl
  have hp : (coalesce b').Perm (coalesce b) :=
    perm_of_lookup_eq _ _ (keys_coalesce_nodup b') (keys_coalesce_nodup b)
      (fun a => by rw [lookup_coalesce, lookup_coalesce, hl])
  have := part3 (coalesce b') hp
  unfold View.handleBatch at this ⊢
  rw [ht]
  exact this

/-- non-vacuity, and the seeded defect "first status wins" told apart: UP, DOWN for one address is DOWN -/
example :
    let env : Env := ⟨fun _ => false, fun _ => true, false, false, false⟩
    let v := (View.empty.addInitial env ⟨1, 1, 7, 7⟩).addInitial env ⟨2, 2, 8, 8⟩
    coalesce [.status .up 7, .status .down 7, .topology, .status .down 8, .status .up 8] = [(7, .down), (8, .up)] ∧
    (v.handleBatch env [.status .up 7, .status .down 7]).down = [1] ∧
    hasKey (v.handleBatch env [.status .up 7, .status .down 7]).pools 1 = false := by decide

/-! ### processing events never dereferences a nil host -/

theorem nodeUp_crashed (env : Env) (v : View) (a : Nat) (hs : SInv v.ring) : (v.nodeUp env a).crashed = v.crashed := by
  unfold View.nodeUp
  rcases hg : v.ring.getHostByIP a with ⟨x, ok⟩
  cases ok with
  | false => rfl
  | true =>
    obtain ⟨h, rfl, _, _⟩ := NoStale_lookup v.ring hs.knodup hs.ns a x hg
    dsimp only
    split <;> rfl

theorem nodeDown_crashed (env : Env) (v : View) (a : Nat) (hs : SInv v.ring) : (v.nodeDown env a).crashed = v.crashed := by
  unfold View.nodeDown
  rcases hg : v.ring.getHostByIP a with ⟨x, ok⟩
  cases ok with
  | false => rfl
  | true =>
    obtain ⟨h, rfl, _, _⟩ := NoStale_lookup v.ring hs.knodup hs.ns a x hg
    dsimp only
    split <;> rfl

theorem status_crashed (env : Env) (v : View) (e : Nat × Change) (hs : SInv v.ring) : (v.status env e).crashed = v.crashed := by
  unfold View.status
  split
  · rfl
  · split
    · exact nodeUp_crashed env v e.1 hs
    · exact nodeDown_crashed env v e.1 hs
    · rfl

theorem nodeUp_ring (env : Env) (v : View) (a : Nat) : (v.nodeUp env a).ring = v.ring := by
  unfold View.nodeUp
  split
  · rfl
  · rfl
  · split <;> rfl

theorem nodeDown_ring (env : Env) (v : View) (a : Nat) : (v.nodeDown env a).ring = v.ring := by
  unfold View.nodeDown
  split
  · rfl
  · rfl
  · dsimp only; split <;> rfl

theorem status_ring (env : Env) (v : View) (e : Nat × Change) : (v.status env e).ring = v.ring := by
  unfold View.status
  split
  · rfl
  · split
    · exact nodeUp_ring env v e.1
    · exact nodeDown_ring env v e.1
    · rfl

theorem foldl_status_ring (env : Env) (evs : List (Nat × Change)) : ∀ (v : View), (evs.foldl (View.status env) v).ring = v.ring := by
  induction evs with
  | nil => intro v; rfl
  | cons e t ih => intro v; simp only [List.foldl_cons]; rw [ih, status_ring]

theorem handleBatch_ring (env : Env) (v : View) (b : List Ev) : (v.handleBatch env b).ring = v.ring := by
  unfold View.handleBatch View.dispatch
  dsimp only
  split
  · exact dispatch_pre_ring env v _
  · rw [foldl_status_ring]; exact dispatch_pre_ring env v _

theorem foldl_status_crashed (env : Env) (evs : List (Nat × Change)) : ∀ (v : View), SInv v.ring →
    (evs.foldl (View.status env) v).crashed = v.crashed := by
  induction evs with
  | nil => intro v _; rfl
  | cons e t ih =>
    intro v hs
    simp only [List.foldl_cons]
    rw [ih _ (by rw [status_ring]; exact hs), status_crashed env v e hs]

theorem handleBatch_crashed (env : Env) (v : View) (b : List Ev) (hs : SInv v.ring) : (v.handleBatch env b).crashed = v.crashed := by
  unfold View.handleBatch View.dispatch
  dsimp only
  have h1 : SInv (if (hasTopology b && !env.noTopo) = true then { v with refreshReq := v.refreshReq + 1 } else v).ring := by
    rw [dispatch_pre_ring]; exact hs
  have h2 : (if (hasTopology b && !env.noTopo) = true then { v with refreshReq := v.refreshReq + 1 } else v).crashed = v.crashed := by
    split <;> rfl
  split
  · exact h2
  · rw [foldl_status_crashed env _ _ h1, h2]

theorem refresh_crashed (env : Env) (v : View) (rep : List RHost) : (v.refresh env rep).crashed = v.crashed :=
  refreshV_preserves env (fun w => w.crashed = v.crashed) (fun _ _ hp _ => hp) (fun _ _ hp => hp) v rfl rep

/-- the ring's indexes stay free of stale entries under every op (no hypothesis on the rest of the view) -/
theorem sinv_applyV (env : Env) (v : View) (op : VOp) (hs : SInv v.ring) : SInv (applyV env v op).ring := by
  cases op with
  | batch b => simp only [applyV]; rw [handleBatch_ring]; exact hs
  | up a => simp only [applyV]; rw [nodeUp_ring]; exact hs
  | down a => simp only [applyV]; rw [nodeDown_ring]; exact hs
  | connected id =>
    simp only [applyV, View.connected]
    split
    · exact hs
    · split <;> exact hs
  | connectFailed id =>
    simp only [applyV, View.connectFailed]
    split
    · exact hs
    · rw [nodeDown_ring]; exact hs
  | refresh rep =>
    simp only [applyV]
    rw [refreshV_ring]
    exact refresh_preserves SInv (fun r h' hp => SInv_addIfMissing r hp h') (fun r k hp => SInv_remove r hp k) v.ring hs env.filter rep
  | removeHost id =>
    simp only [applyV]
    split
    · exact SInv_remove v.ring hs _
    · exact hs
  | addInitial h =>
    simp only [applyV]
    unfold View.addInitial Ring.addOrUpdate
    cases hl : lookup v.ring.byId h.id with
    | none =>
      have := SInv_addIfMissing v.ring hs h
      rw [addIfMissing_of_none _ h hl] at this ⊢
      dsimp only at this ⊢
      split <;> exact this
    | some e0 =>
      rw [addIfMissing_of_some _ h e0 hl]
      dsimp only
      split <;> exact hs
  | update id a c => simp only [applyV]; rw [updateStoredV_ring]; exact SInv_updateStored v.ring hs id a c

theorem applyV_crashed (env : Env) (v : View) (op : VOp) (hs : SInv v.ring) : (applyV env v op).crashed = v.crashed := by
  cases op with
  | batch b => exact handleBatch_crashed env v b hs
  | up a => exact nodeUp_crashed env v a hs
  | down a => exact nodeDown_crashed env v a hs
  | connected id =>
    simp only [applyV, View.connected]
    split
    · rfl
    · split <;> rfl
  | connectFailed id =>
    simp only [applyV, View.connectFailed]
    split
    · rfl
    · exact nodeDown_crashed env v _ hs
  | refresh rep => exact refresh_crashed env v rep
  | removeHost id =>
    simp only [applyV]
    split <;> rfl
  | addInitial h =>
    simp only [applyV, View.addInitial]
    split <;> rfl
  | update id a c => exact updateStoredV_crashed v id a c

/-- `C16_events_no_panic` — FULL theorem since the repair of KF-C16-5 (before it, histories in which
`HostInfo.update` changed the node address of a stored host had to be excluded: the by-address index kept the
old key, and after the host's removal `getHostByIP` answered (nil, true), which `handleNodeDown` /
`handleNodeUp` dereferenced — a panic on a bare goroutine).
For EVERY history of node-event batches, single UP/DOWN events, connect successes and failures, refreshes
(ANY reported lists), host removals, initial hosts and control-connection (re)connects whose
`ring.addOrUpdate` changes the address fields of a stored host in place (to ANY values), no handler
dereferences a nil *HostInfo. -/
theorem C16_events_no_panic (env : Env) (ops : List VOp) : (runV env View.empty ops).crashed = false := by
  have : ∀ (ops : List VOp) (v : View), SInv v.ring → (runV env v ops).crashed = v.crashed := by
    intro ops
    induction ops with
    | nil => intro v _; rfl
    | cons op t ih =>
      intro v hs
      simp only [runV, List.foldl_cons]
      have := ih _ (sinv_applyV env v op hs)
      simp only [runV] at this
      rw [this, applyV_crashed env v op hs]
  exact this ops View.empty SInv_empty

/-- `C16_view_no_stale` (the oracle `evnostale` of the differential run): after EVERY history of events, refreshes,
connects, removals and in-place address updates the by-address index of the session's ring has no stale entry — the
answer of the oracle is "ok" -/
theorem C16_view_no_stale (env : Env) (ops : List VOp) (n : Nat) : (runV env View.empty ops).ring.staleAddrs n = [] := by
  have : ∀ (ops : List VOp) (v : View), SInv v.ring → SInv (runV env v ops).ring := by
    intro ops
    induction ops with
    | nil => intro v hs; exact hs
    | cons op t ih => intro v hs; exact ih _ (sinv_applyV env v op hs)
  exact staleAddrs_nil_of_SInv _ (this ops View.empty SInv_empty) n

/-- non-vacuity: a history with a batch for known, unknown and removed addresses, a refresh that replaces and removes
hosts, a connect and a connect failure, and the history of KF-C16-5: the stored host's node address is changed in
place (7 → 17), the host removed, a DOWN and an UP for its old and new address arrive -/
example :
    let env : Env := ⟨fun h => h.id == 9, fun _ => true, false, false, false⟩
    (runV env View.empty [.addInitial ⟨1, 1, 7, 7⟩, .addInitial ⟨2, 2, 8, 8⟩, .batch [.status .down 8, .status .up 99, .topology],
      .refresh [⟨3, 1, 17, 17⟩, ⟨4, 3, 5, 5⟩], .batch [.status .up 8, .status .down 7, .status .down 17], .connected 3,
      .connectFailed 1, .removeHost 3, .down 5]).crashed = false ∧
    (runV env View.empty [.addInitial ⟨1, 1, 7, 7⟩, .addInitial ⟨2, 2, 8, 8⟩, .batch [.status .down 8, .status .up 99, .topology],
      .refresh [⟨3, 1, 17, 17⟩, ⟨4, 3, 5, 5⟩]]).refreshReq = 2 ∧
    (runV env View.empty [.addInitial ⟨1, 1, 7, 7⟩, .update 1 17 7]).ring.getHostByIP 17 = (some ⟨1, 1, 17, 7⟩, true) ∧
    (runV env View.empty [.addInitial ⟨1, 1, 7, 7⟩, .update 1 17 7, .removeHost 1]).ring.getHostByIP 7 = (none, false) ∧
    (runV env View.empty [.addInitial ⟨1, 1, 7, 7⟩, .update 1 17 7, .removeHost 1, .down 7, .up 17]).refreshReq = 1 := by decide

/-- regression (kernel-checked): the code BEFORE the repair of KF-C16-5 (`View.updateStoredOld`: the by-address index
keeps the old key) on that history — replay on the real code: `evhost 1 1 7 7 1 p`, `evhost 2 1 8 7 1 l`, `evadd 1`,
`evaddu 2`, `evrm 1`, `evdown 7`: `getHostByIP 7` answers (nil, true) and both handlers dereference it -/
example :
    let env : Env := ⟨fun _ => false, fun _ => true, false, false, false⟩
    let v0 := View.empty.addInitial env ⟨1, 1, 7, 7⟩
    let a := (Addrs.mk 7 0 7).update (Addrs.mk 0 8 7)
    let v1 := v0.updateStoredOld 1 a.nodeAddr a.conn
    let v2 := v1.removeHost env ⟨1, 1, 8, 7⟩
    v2.ring.getHostByIP 7 = (none, true) ∧ (v2.nodeDown env 7).crashed = true ∧ (v2.nodeUp env 7).crashed = true := by
  decide

/-! ### a node reported down is not offered until it is connected again -/

/-- what the query executor needs to use a host: the policy offers it (`Pick` iterates the policy's
lists), its state is up (`roundRobbin` / the executor skip hosts that are not `IsUp()`), it has a pool -/
def offered (v : View) (h : RHost) : Prop := h ∈ v.pol.all ∧ h.obj ∉ v.down ∧ hasKey v.pools h.id = true

/-- the op is `handleNodeConnected` for the object `o` -/
def connects (v : View) (o : Nat) : VOp → Prop
  | .connected id => ∃ h, lookup v.pools id = some h ∧ h.obj = o
  | _ => False

/-- along the run no connect of object `o` succeeds -/
def NoConnect (env : Env) (o : Nat) : View → List VOp → Prop
  | _, [] => True
  | v, op :: t => ¬ connects v o op ∧ NoConnect env o (applyV env v op) t

theorem down_nodeUp (env : Env) (v : View) (a : Nat) : (v.nodeUp env a).down = v.down := by
  unfold View.nodeUp
  split
  · rfl
  · rfl
  · split <;> rfl

theorem down_nodeDown (env : Env) (v : View) (a o : Nat) (ho : o ∈ v.down) : o ∈ (v.nodeDown env a).down := by
  unfold View.nodeDown
  split
  · exact ho
  · exact ho
  · rename_i h _
    have : o ∈ h.obj :: v.down.filter (· != h.obj) := by
      by_cases e : o = h.obj
      · rw [e]; exact List.mem_cons_self
      · exact List.mem_cons_of_mem _ (List.mem_filter.mpr ⟨ho, by simpa using e⟩)
    dsimp only
    split <;> exact this

theorem down_status (env : Env) (v : View) (e : Nat × Change) (o : Nat) (ho : o ∈ v.down) : o ∈ (v.status env e).down := by
  unfold View.status
  split
  · exact ho
  · split
    · rw [down_nodeUp]; exact ho
    · exact down_nodeDown env v e.1 o ho
    · exact ho

theorem down_foldl_status (env : Env) (evs : List (Nat × Change)) (o : Nat) : ∀ (v : View), o ∈ v.down →
    o ∈ (evs.foldl (View.status env) v).down := by
  induction evs with
  | nil => intro v ho; exact ho
  | cons e t ih => intro v ho; exact ih _ (down_status env v e o ho)

theorem down_applyV (env : Env) (v : View) (op : VOp) (o : Nat) (ho : o ∈ v.down) (hc : ¬ connects v o op) :
    o ∈ (applyV env v op).down := by
  cases op with
  | batch b =>
    simp only [applyV, View.handleBatch, View.dispatch]
    have h1 : o ∈ (if (hasTopology b && !env.noTopo) = true then { v with refreshReq := v.refreshReq + 1 } else v).down := by
      split <;> exact ho
    split
    · exact h1
    · exact down_foldl_status env _ o _ h1
  | up a => simp only [applyV]; rw [down_nodeUp]; exact ho
  | down a => exact down_nodeDown env v a o ho
  | connected id =>
    simp only [applyV, View.connected]
    cases hl : lookup v.pools id with
    | none => exact ho
    | some h =>
      have hne : o ≠ h.obj := fun e => hc ⟨h, hl, e.symm⟩
      have : o ∈ v.down.filter (· != h.obj) := List.mem_filter.mpr ⟨ho, by simpa using hne⟩
      dsimp only
      split <;> exact this
  | connectFailed id =>
    simp only [applyV, View.connectFailed]
    split
    · exact ho
    · exact down_nodeDown env v _ o ho
  | refresh rep =>
    exact refreshV_preserves env (fun w => o ∈ w.down) (fun _ _ hp _ => hp) (fun _ _ hp => hp) v ho rep
  | removeHost id =>
    simp only [applyV]
    split <;> exact ho
  | addInitial h =>
    simp only [applyV, View.addInitial]
    split <;> exact ho
  | update id a c => simp only [applyV]; rw [updateStoredV_down]; exact ho

/-- `C16_down_not_offered`. A DOWN event for the address of a known host `h` that the filter accepts:
immediately its object is marked down, its pool is gone and it is in none of the fallback policy's lists;
and after ANY further history of events, refreshes, removals, in-place address updates, connects of OTHER
hosts and connect failures — as long as no connect of this host object succeeds — no reference to this object is offered
for queries. -/
theorem C16_down_not_offered (env : Env) (v : View) (ha : Agree env v) (a : Nat) (h : RHost)
    (hg : v.ring.getHostByIP a = (some h, true)) (hf : env.filter h = false) :
    let v' := v.nodeDown env a
    (h.obj ∈ v'.down ∧ hasKey v'.pools h.id = false ∧ h ∉ v'.pol.loc ∧ h ∉ v'.pol.rem) ∧
    ∀ ops, NoConnect env h.obj v' ops → ∀ x, x.obj = h.obj → ¬ offered (runV env v' ops) x := by
  intro v'
  have hv' : v' = { v with down := h.obj :: v.down.filter (· != h.obj), pol := v.pol.dn env h, pools := erase v.pools h.id } := by
    simp only [v', View.nodeDown, hg, hf, Bool.false_eq_true, ↓reduceIte]
  have hd : h.obj ∈ v'.down := by rw [hv']; exact List.mem_cons_self
  refine ⟨⟨hd, ?_, ?_, ?_⟩, ?_⟩
  · rw [hv']
    cases hk : hasKey (erase v.pools h.id) h.id with
    | false => rfl
    | true => exact absurd rfl ((hasKey_erase _ _ _).mp hk).2
  · rw [hv']
    show h ∉ (v.pol.fbRemove env h).loc
    rw [fbRemove_loc]
    cases hl : env.isLocal h with
    | true => simp only [↓reduceIte]; intro hm; exact ((mem_cowRemove _ _ _).mp hm).2 rfl
    | false =>
      simp only [Bool.false_eq_true, ↓reduceIte]
      intro hm
      have := ha.placed.2.1 h hm
      rw [hl] at this; cases this
  · rw [hv']
    show h ∉ (v.pol.fbRemove env h).rem
    rw [fbRemove_rem]
    cases hl : env.isLocal h with
    | true =>
      simp only [↓reduceIte]
      intro hm
      have := ha.placed.2.2 h hm
      rw [hl] at this; cases this
    | false => simp only [Bool.false_eq_true, ↓reduceIte]; intro hm; exact ((mem_cowRemove _ _ _).mp hm).2 rfl
  · intro ops
    have : ∀ (ops : List VOp) (w : View), h.obj ∈ w.down → NoConnect env h.obj w ops → h.obj ∈ (runV env w ops).down := by
      intro ops
      induction ops with
      | nil => intro w hw _; exact hw
      | cons op t ih =>
        intro w hw hn
        simp only [runV, List.foldl_cons]
        exact ih _ (down_applyV env w op h.obj hw hn.1) hn.2
    intro hn x hx hoff
    exact hoff.2.1 (by rw [hx]; exact this ops v' hd hn)

/-- non-vacuity: DOWN, then UP (pool and policy entry come back) — still not offered; offered after the connect -/
example :
    let env : Env := ⟨fun _ => false, fun _ => true, false, false, false⟩
    let h : RHost := ⟨1, 1, 7, 7⟩
    let v := View.empty.addInitial env h
    let w := runV env (v.nodeDown env 7) [.up 7]
    h ∈ w.pol.all ∧ hasKey w.pools 1 = true ∧ w.down = [1] ∧ (w.connected env 1).down = [] := by decide

/-! ### refresh requests: an UP for an unknown address asks for a refresh; bursts ask for few -/

/-- `C16_unknown_up_requests_refresh`: `handleNodeUp` for an address the ring does not know requests a ring
refresh and changes nothing else -/
theorem C16_unknown_up_requests_refresh (env : Env) (v : View) (a : Nat) (x : Option RHost)
    (hg : v.ring.getHostByIP a = (x, false)) : v.nodeUp env a = { v with refreshReq := v.refreshReq + 1 } := by
  unfold View.nodeUp; rw [hg]

/-- the number of refresh requests of a batch, exactly: one for any number of topology events (unless
disabled) plus one per address whose LAST status is UP and which the ring does not know -/
theorem C16_batch_refresh_requests (env : Env) (v : View) (b : List Ev) (ha : Agree env v) (hc : v.crashed = false) :
    (v.handleBatch env b).refreshReq =
      v.refreshReq + (if (hasTopology b && !env.noTopo) = true then 1 else 0) +
        (if env.noStatus = true then 0 else ((coalesce b).filter (unknownUp v.ring)).length) := by
  unfold View.handleBatch View.dispatch
  dsimp only
  have hr := dispatch_pre_ring env v (hasTopology b)
  have hq : (if (hasTopology b && !env.noTopo) = true then { v with refreshReq := v.refreshReq + 1 } else v).refreshReq =
      v.refreshReq + (if (hasTopology b && !env.noTopo) = true then 1 else 0) := by
    split <;> rfl
  have hcr : (if (hasTopology b && !env.noTopo) = true then { v with refreshReq := v.refreshReq + 1 } else v).crashed = false := by
    split <;> exact hc
  generalize (if (hasTopology b && !env.noTopo) = true then { v with refreshReq := v.refreshReq + 1 } else v) = v1 at hr hq hcr ⊢
  split
  · rw [hq]; omega
  · rw [foldl_status_eq]
    have := foldl_req_eq env ((coalesce b).map (effectOf env v1.ring)) (by
      intro f hf
      obtain ⟨e, _, rfl⟩ := List.mem_map.mp hf
      exact effectOf_noCrash env v1.ring (by rw [hr]; exact ha.sinv) e) v1 hcr
    rw [this.1, reqSum_effects, hq, hr]

/-- `C16_events_bounded_refreshes` (handler level), no hypothesis at all: a batch of ANY size requests at
most 1 + (number of distinct addresses whose last status is UP and which the ring does not know) refreshes -/
theorem C16_events_bounded_refreshes (env : Env) (v : View) (b : List Ev) :
    (v.handleBatch env b).refreshReq ≤ v.refreshReq + 1 + ((coalesce b).filter (unknownUp v.ring)).length := by
  unfold View.handleBatch View.dispatch
  dsimp only
  have hr := dispatch_pre_ring env v (hasTopology b)
  have hq : (if (hasTopology b && !env.noTopo) = true then { v with refreshReq := v.refreshReq + 1 } else v).refreshReq ≤ v.refreshReq + 1 := by
    split
    · exact Nat.le_refl _
    · exact Nat.le_succ _
  generalize (if (hasTopology b && !env.noTopo) = true then { v with refreshReq := v.refreshReq + 1 } else v) = v1 at hr hq ⊢
  split
  · omega
  · rw [foldl_status_eq]
    have := foldl_req_le env ((coalesce b).map (effectOf env v1.ring)) v1
    rw [reqSum_effects] at this
    rw [hr] at this ⊢
    omega

/-- `C16_topology_one_refresh`: a batch of n ≥ 1 topology events (NEW_NODE / REMOVED_NODE / MOVED_NODE, any
mixture) requests exactly one refresh and changes nothing else -/
theorem C16_topology_one_refresh (env : Env) (v : View) (b : List Ev) (hb : ∀ e ∈ b, e = .topology) (hne : b ≠ [])
    (ht : env.noTopo = false) : v.handleBatch env b = { v with refreshReq := v.refreshReq + 1 } := by
  have hco : ∀ (m : List (Nat × Change)), b.foldl coalesceStep m = m := by
    induction b with
    | nil => intro m; rfl
    | cons e t ih =>
      intro m
      have he := hb e List.mem_cons_self
      subst he
      simp only [List.foldl_cons, coalesceStep]
      by_cases htn : t = []
      · subst htn; rfl
      · exact ih (fun e he => hb e (List.mem_cons_of_mem _ he)) htn m
  have htopo : hasTopology b = true := by
    cases b with
    | nil => exact absurd rfl hne
    | cons e t =>
      have he := hb e List.mem_cons_self
      subst he
      simp [hasTopology]
  unfold View.handleBatch View.dispatch coalesce
  rw [hco, htopo, ht]
  simp only [Bool.not_false, Bool.and_self, ↓reduceIte, List.foldl_nil]
  split <;> rfl

/-- non-vacuity: 3 NEW_NODE / REMOVED_NODE events, UP for two unknown addresses (one of them twice, one followed by
DOWN), UP for a known one: 1 + 1 requests -/
example :
    let env : Env := ⟨fun _ => false, fun _ => true, false, false, false⟩
    let v := View.empty.addInitial env ⟨1, 1, 7, 7⟩
    let b : List Ev := [.topology, .status .up 50, .topology, .status .up 50, .status .up 60, .status .down 60, .topology, .status .up 7]
    (v.handleBatch env b).refreshReq = 2 ∧ ((coalesce b).filter (unknownUp v.ring)).length = 1 ∧
    (v.handleBatch env [.topology, .topology, .topology]).refreshReq = 1 := by decide

/-- `C16_refresh_debounced` (the refresh debouncer, all interleavings of requests, timer and flusher — requests
and timer expiries while the flusher is between its select and the mutex or inside refreshFn included;
logical time): from ANY state of the debouncer, if every `debounce()` of the run happens within one interval
of its start (and nobody calls `refreshNow()`), at most TWO refreshes are started in the whole run, however
long it is and however many requests it contains; from a quiet state (timer not armed, nothing pending,
flusher not on its way to a refresh) at most ONE. -/
theorem C16_refresh_debounced (I : Nat) (d : RDeb) (as : List RAct) (hr : ReqsBefore I (d.now + I) d as) :
    (rrun I d as).refreshes ≤ d.refreshes + 2 ∧
    (d.fired = false → d.nowPending = false → d.deadline = none → d.phase ≠ .woken →
      (rrun I d as).refreshes ≤ d.refreshes + 1) := by
  have h := rrun_phi I (d.now + I) as d (Nat.le_refl _) hr
  have h2 := phi_le_two (d.now + I) d
  refine ⟨by omega, ?_⟩
  intro hf hp hd hw
  have : phi (d.now + I) d ≤ 1 := by
    unfold phi early late
    rw [hf, hp, hd]
    simp only [hw, Bool.or_self, Option.isSome_none, Bool.false_eq_true, ↓reduceIte]
    split <;> omega
  omega

/-- non-vacuity: five requests in one interval, the timer fires once, one refresh; two more requests WHILE that refresh
is running (still within the interval): one more refresh after it -/
example :
    let as : List RAct := [.debounce, .tick, .debounce, .debounce, .tick, .debounce, .debounce, .tick, .tick, .tick, .tick,
      .wakeT, .start, .done, .tick, .tick, .wakeT, .start]
    ReqsBefore 3 3 {} as ∧ (rrun 3 {} as).refreshes = 1 := by decide
/-- the bound 2 is reached: a timer expiry is in the channel, three requests arrive while the flusher is on its way to
the refresh and while the refresh is running -/
example :
    let d0 : RDeb := { fired := true }
    let as : List RAct := [.wakeT, .debounce, .start, .debounce, .tick, .debounce, .done, .tick, .tick, .tick,
      .wakeT, .start, .done, .tick, .tick, .tick, .tick, .wakeT, .wakeN, .start]
    ReqsBefore 3 3 d0 as ∧ (rrun 3 d0 as).refreshes = 2 := by decide

/-- `C16_refresh_request_not_lost` (all schedules of requests, timer and flusher; `pre`, `post` arbitrary): after a
request — `debounce()` or `refreshNow()`, made in ANY reachable state: flusher in its select, between select
and mutex, or INSIDE refreshFn — at every later point of every schedule either a refresh has STARTED after
the request, or one is certainly still to come (`armed`: the flusher is on its way to it, a channel it
selects on holds a value, or the timer runs). In particular whenever the debouncer is not armed (e.g. quiet),
every request made so far has been followed by a refresh that started after it. -/
theorem C16_refresh_request_not_lost (I : Nat) (pre post : List RAct) (a : RAct) (ha : a = .debounce ∨ a = .refreshNow) :
    let d1 := rrun I {} (pre ++ [a])
    let d2 := rrun I d1 post
    (d1.refreshes < d2.refreshes ∨ d2.armed = true) ∧
    ((grun I {} (pre ++ a :: post)).d.armed = false → (grun I {} (pre ++ a :: post)).lost = []) := by
  refine ⟨?_, fun hq => served_lost_nil _ (grun_served I _ _ served_init) hq⟩
  have hs := grun_served I (pre ++ a :: post) {} served_init
  have e : pre ++ a :: post = (pre ++ [a]) ++ post := by simp
  rw [e, grun_append] at hs
  -- the request is the last element of the bookkeeping after `pre ++ [a]`
  have hmem : (grun I {} pre).d.refreshes ∈ (grun I {} (pre ++ [a])).reqs := by
    rw [grun_append]
    rcases ha with rfl | rfl <;> simp [grun, gstep, gstepWith]
  have hreq : (grun I {} (pre ++ [a])).d.refreshes = (grun I {} pre).d.refreshes := by
    rw [grun_append]
    have := rstep_request_armed I (grun I {} pre).d a ha (grun_served I pre {} served_init).2
    simp only [grun, List.foldl_cons, List.foldl_nil, gstep_d]
    exact this.1
  -- requests are only appended
  have hsub : ∀ (as : List RAct) (g : RGhost) (r : Nat), r ∈ g.reqs → r ∈ (grun I g as).reqs := by
    intro as
    induction as with
    | nil => intro g r h; exact h
    | cons x t ih =>
      intro g r h
      apply ih
      rw [gstep_reqs]
      split
      · exact List.mem_append_left _ h
      · exact h
  have hd1 : (grun I ({} : RGhost) (pre ++ [a])).d = rrun I {} (pre ++ [a]) := grun_d I _ _
  have hd0 : (grun I ({} : RGhost) pre).d = rrun I {} pre := grun_d I _ _
  have e2 : (grun I (grun I ({} : RGhost) (pre ++ [a])) post).d = rrun I (rrun I {} (pre ++ [a])) post := by
    rw [grun_d, hd1]
  have := hs.1 _ (hsub post _ _ hmem)
  rw [e2, hd0] at this
  rw [hd1, hd0] at hreq
  rcases this with h | ⟨h, harm⟩
  · left; omega
  · right; exact harm

/-- `C16_refresh_drain_quiet` (progress / fairness): from EVERY state of the debouncer the continuation `drain`
(refreshFn returns, time passes until the timer fires, the flusher runs, refreshFn returns — no new request)
reaches a quiet state; with `C16_refresh_request_not_lost`: every request is followed by a refresh that starts
after it. -/
theorem C16_refresh_drain_quiet (I : Nat) (d : RDeb) : (rrun I d (dsched I d .drain)).quiet = true :=
  drain_quiet I d

/-- `C16_refresh_now_answered_by_later_refresh` (all schedules): a caller of `refreshNow()` is never handed the result of a
refresh that had started before its call (the broadcaster it listens on is taken by the NEXT refresh start,
also when the call is made while a refresh is running), and in a quiet state every caller has its answer. -/
theorem C16_refresh_now_answered_by_later_refresh (I : Nat) (as : List RAct) :
    (grun I {} as).early = [] ∧ ((grun I {} as).d.quiet = true → (grun I {} as).unanswered = []) := by
  have h := grun_served_heard I as {} served_init heard_init
  exact ⟨heard_early_nil _ h.2, heard_unanswered_nil _ h.1 h.2⟩

/-- `C16_debouncer_oracle_ok`: the oracles the unit-level harness evaluates on the REAL refreshDebouncer (op
`evdbserved` after `evdbdrain`: the requests not followed by a refresh start, the refreshNow() callers answered
too early or not at all) are empty in the model for every sequence of harness ops. -/
theorem C16_debouncer_oracle_ok (I : Nat) (ops : List DOp) :
    let g := dstep I (drun I {} ops) .drain
    g.lost = [] ∧ g.early = [] ∧ g.unanswered = [] ∧ g.d.quiet = true := by
  have h0 := drun_served_heard I ops {} served_init heard_init
  have h := grun_served_heard I (dsched I (drun I {} ops).d .drain) _ h0.1 h0.2
  have hq : (dstep I (drun I {} ops) .drain).d.quiet = true := by
    unfold dstep; rw [grun_d]; exact drain_quiet I _
  exact ⟨served_lost_nil _ h.1 (quiet_not_armed _ hq), heard_early_nil _ h.2, heard_unanswered_nil _ h.1 h.2 hq, hq⟩

/-- non-vacuity: a request while a refresh is running (the timer even fires during it), a `refreshNow()` during the
next one (answered by the third refresh): three refreshes, nothing lost -/
example :
    let g := drun 5 {} [.req, .fire, .req, .fire, .release, .now, .req, .drain]
    g.d.refreshes = 3 ∧ g.reqs = [0, 1, 2, 2] ∧ g.answers = [(2, 3)] ∧ g.lost = [] ∧ g.early = [] ∧ g.unanswered = [] ∧
    g.d.quiet = true := by decide

/-- what `early` is about: a variant (NOT the code) in which the flusher takes the broadcaster only when refreshFn has
returned would answer a `refreshNow()` made during refresh 1 with the result of refresh 1 -/
example : (RGhost.early { d := { refreshes := 1 }, reqs := [1], answers := [(0, 1)] }) = [0] := by decide

/-- `C16_cex_drain_after_refresh_loses_request`: the variant in which the flusher stops and drains the timer once
more AFTER refreshFn has returned (`drainAfterRefresh`) loses the request made while the refresh was running:
the debouncer ends quiet, the second request (made when 1 refresh had started) is never followed by a
refresh start — while the code that exists serves it with a second refresh on the same schedule. -/
theorem C16_cex_drain_after_refresh_loses_request :
    let as : List RAct := [.debounce, .tick, .tick, .tick, .wakeT, .start, .debounce, .done, .tick, .tick, .tick, .tick, .wakeT, .start, .done]
    let bad := grunWith drainAfterRefresh 3 {} as
    let good := grun 3 {} as
    bad.d.quiet = true ∧ bad.d.refreshes = 1 ∧ bad.lost = [1] ∧
    good.d.quiet = true ∧ good.d.refreshes = 2 ∧ good.lost = [] := by decide

/-! ### after a refresh the view follows the report -/

/-- `C16_view_follows_report` — FULL theorem since the repair of KF-C16-6 (before it, a report with a host id
twice aborted the refresh with ErrCannotFindHost: the rows after it were not processed, nothing was removed;
the theorem needed pairwise distinct accepted host ids). For every reachable view (`Agree`) and EVERY report
(of a host id reported twice the first accepted row counts), after `refreshRing`:
(1) the host ids of the ring are exactly the ids of the accepted reported hosts;
(2) the invariant `Agree` holds again, so that (3) every pool and (4) every policy entry belongs to an
accepted reported host — vanished and newly filtered hosts are gone from ring, pools and policy;
(5) every host id that is new in the ring has a pool (new nodes are connected to);
(6) the ring's object of every accepted reported host id carries the node address and connect address of
the first accepted row of that id (a node whose address changed is replaced). -/
theorem C16_view_follows_report (env : Env) (v : View) (ha : Agree env v) (reported : List RHost) :
    let r := v.refresh env reported
    (∀ id, id ∈ r.ring.ids ↔ ∃ h ∈ reported, env.filter h = false ∧ h.id = id) ∧
    Agree env r ∧
    (∀ e ∈ r.pools, ∃ h ∈ reported, env.filter h = false ∧ h.id = e.1) ∧
    (∀ x ∈ r.pol.all, ∃ h ∈ reported, env.filter h = false ∧ h.id = x.id) ∧
    (∀ id, id ∈ r.ring.ids → id ∉ v.ring.ids → hasKey r.pools id = true) ∧
    (∀ id h, firstRow env.filter reported id = some h → ∃ s, r.ring.getHost id = some s ∧ s.addr = h.addr ∧ s.caddr = h.caddr) := by
  intro r
  have hsim := refreshV_ring env v reported
  have hex := C16_refresh_exact v.ring ha.sinv.wf env.filter reported
  have hids : ∀ id, id ∈ r.ring.ids ↔ ∃ h ∈ reported, env.filter h = false ∧ h.id = id := by
    intro id; rw [hsim]; exact hex.1 id
  have hag : Agree env r := agree_refresh env v ha reported
  refine ⟨hids, hag, ?_, ?_, ?_, ?_⟩
  · intro e he
    exact (hids e.1).mp (lookup_mem_keys _ _ _ (hag.pools e he))
  · intro x hx
    exact (hids x.id).mp (lookup_mem_keys _ _ _ (hag.pol x hx))
  · exact newFilled_refresh env v reported
  · intro id h hh
    obtain ⟨s, hs, hsa⟩ := stored_refresh env v ha reported id h (by rw [lookup_reportedMap]; exact hh)
    exact ⟨s, hs, hsa.1, hsa.2⟩

/-- non-vacuity: a node whose address changed, a vanished node, a new node, a filtered node, a host id reported twice -/
example :
    let env : Env := ⟨fun h => h.id == 9, fun _ => true, false, false, false⟩
    let a : RHost := ⟨1, 1, 7, 7⟩
    let b : RHost := ⟨2, 2, 8, 8⟩
    let b' : RHost := ⟨3, 2, 18, 18⟩
    let c : RHost := ⟨4, 3, 5, 5⟩
    let f : RHost := ⟨5, 9, 6, 6⟩
    let v := ((View.empty.addInitial env a).addInitial env b).addInitial env ⟨6, 4, 4, 4⟩
    let r := v.refresh env [a, b', ⟨7, 2, 8, 8⟩, c, f]
    r.ring.ids = [3, 2, 1] ∧ r.pools.map (·.1) = [1, 2, 3] ∧ r.pol.loc = [a, b', c] ∧
    r.ring.getHostByIP 18 = (some b', true) ∧ r.ring.getHostByIP 8 = (none, false) := by decide

/-- regression (kernel-checked): the code BEFORE the repair of KF-C16-6 (`View.refreshOld`) on a report with host id 2
twice — ErrCannotFindHost at the second row, the new node 4 after it is not added, the vanished node 3 not removed
(replay on the real code: `reset evc rr - 2 1:0:2:2:1:1:2;2:3:3:0:1:1:2;3:4:4:0:1:1:2`,
`evrefresh 1:0:2:2:1:1:2;2:3:3:0:1:1:2;2:5:5:0:1:1:2;4:6:6:0:1:1:2`); the repaired refresh follows the report -/
example :
    let env : Env := ⟨fun _ => false, fun _ => true, false, false, false⟩
    let v := ((View.empty.addInitial env ⟨1, 1, 2, 2⟩).addInitial env ⟨2, 2, 3, 3⟩).addInitial env ⟨3, 3, 4, 4⟩
    let rep : List RHost := [⟨11, 1, 2, 2⟩, ⟨12, 2, 3, 3⟩, ⟨13, 2, 5, 5⟩, ⟨14, 4, 6, 6⟩]
    (v.refreshOld env rep).2 = .errCannotFind ∧ (v.refreshOld env rep).1.ring.ids = [3, 2, 1] ∧
    (v.refresh env rep).ring.ids = [4, 2, 1] ∧ (v.refresh env rep).pools.map (·.1) = [1, 2, 4] := by decide

/-- `C16_new_host_in_policy` — FULL theorem since the repair of KF-C16-4. The policy's host lists are keyed by
CONNECT ADDRESS (`cowHostList.add` refuses a host whose connect address equals an entry's, `remove(ip)` drops
by connect address) while ring and pools are keyed by host id. Before the repair `refreshRing` added the
reported hosts BEFORE it removed the vanished ones and replaced moved hosts one by one: a node replaced by a
new host id on the same address, two nodes swapping addresses, a new node on an address another node moves
away from in the same report — the new object was refused by `policy.AddHost` (the previous owner of the
address was still listed) and the previous owner's removal then deleted the only entry of that address; the
theorem needed "no host of the prior ring has the connect address".
For every reachable view and EVERY report, after `refreshRing` every object of the ring that was not the
ring's object of its host id before (a new node, or the new object of a node whose address changed) is in
the policy's host lists — the token-aware list when the policy is token aware, and the fallback's local or
remote list — provided no OTHER accepted reported host has its connect address (a list keyed by connect
address cannot hold both; no cluster reports two nodes on one address). -/
theorem C16_new_host_in_policy (env : Env) (v : View) (ha : Agree env v) (reported : List RHost)
    (s : RHost) (hs : (v.refresh env reported).ring.getHost s.id = some s) (hnew : v.ring.getHost s.id ≠ some s)
    (hown : OwnConn env reported s) :
    (env.tokenAware = true → s ∈ (v.refresh env reported).pol.ta) ∧
    (s ∈ (v.refresh env reported).pol.loc ∨ s ∈ (v.refresh env reported).pol.rem) :=
  newPol_refresh env v ha reported s hs hnew hown

/-- non-vacuity: the history of KF-C16-4 (node 2 at address 8 replaced by host id 3 on the same address), two nodes
swapping their addresses, and a new node on the address another node moves away from in the same report, reported in
the order that defeated the old loop — every new object is in the policy after the refresh -/
example :
    let env : Env := ⟨fun _ => false, fun _ => true, true, false, false⟩
    let a : RHost := ⟨1, 1, 7, 7⟩
    let b : RHost := ⟨2, 2, 8, 8⟩
    let v := (View.empty.addInitial env a).addInitial env b
    let c : RHost := ⟨3, 3, 8, 8⟩
    let a' : RHost := ⟨4, 1, 8, 8⟩
    let b' : RHost := ⟨5, 2, 7, 7⟩
    let n : RHost := ⟨6, 4, 7, 7⟩
    let a'' : RHost := ⟨7, 1, 9, 9⟩
    OwnConn env [a, c] c ∧ (v.refresh env [a, c]).pol.loc = [a, c] ∧ (v.refresh env [a, c]).pol.ta = [a, c] ∧
    OwnConn env [a', b'] a' ∧ OwnConn env [a', b'] b' ∧ (v.refresh env [a', b']).pol.loc = [a', b'] ∧
    OwnConn env [n, a'', b] n ∧ (v.refresh env [n, a'', b]).pol.loc = [b, n, a''] := by decide

/-- regression (kernel-checked): the code BEFORE the repair of KF-C16-4 (`View.refreshOld`) on these three reports
(replay of the first on the real code: `reset evc rr - 2 1:0:2:2:1:1:2;2:3:3:0:1:1:2` then
`evrefresh 1:0:2:2:1:1:2;3:3:3:0:1:1:2`): the new objects are in the ring and have a pool, but the policy has no entry
for them -/
example :
    let env : Env := ⟨fun _ => false, fun _ => true, false, false, false⟩
    let a : RHost := ⟨1, 1, 7, 7⟩
    let b : RHost := ⟨2, 2, 8, 8⟩
    let v := (View.empty.addInitial env a).addInitial env b
    let c : RHost := ⟨3, 3, 8, 8⟩
    let a' : RHost := ⟨4, 1, 8, 8⟩
    let b' : RHost := ⟨5, 2, 7, 7⟩
    let n : RHost := ⟨6, 4, 7, 7⟩
    let a'' : RHost := ⟨7, 1, 9, 9⟩
    let r := v.refreshOld env [a, c]
    r.2 = .ok ∧ r.1.ring.getHost 3 = some c ∧ hasKey r.1.pools 3 = true ∧ r.1.pol.all = [a] ∧
    (v.refreshOld env [a', b']).1.ring.ids = [2, 1] ∧ (v.refreshOld env [a', b']).1.pol.all = [b'] ∧
    (v.refreshOld env [n, a'', b]).1.ring.ids = [1, 4, 2] ∧ (v.refreshOld env [n, a'', b]).1.pol.all = [b, a''] := by decide

/-! ### the event debouncer's buffer -/

theorem foldl_debounceAdd (burst : List Ev) : ∀ (acc : List Ev), acc.length + burst.length ≤ eventBufferSize →
    burst.foldl debounceAdd acc = acc ++ burst := by
  induction burst with
  | nil => intro acc _; simp
  | cons e t ih =>
    intro acc h
    simp only [List.length_cons] at h
    simp only [List.foldl_cons]
    have hlt : acc.length < eventBufferSize := by omega
    have : debounceAdd acc e = acc ++ [e] := by simp [debounceAdd, hlt]
    rw [this, ih (acc ++ [e]) (by simp; omega)]
    simp

theorem foldl_debounceAdd_full (burst : List Ev) : ∀ (acc : List Ev), acc.length = eventBufferSize →
    burst.foldl debounceAdd acc = acc := by
  induction burst with
  | nil => intro acc _; rfl
  | cons e t ih =>
    intro acc h
    simp only [List.foldl_cons]
    have : debounceAdd acc e = acc := by simp [debounceAdd, h]
    rw [this]; exact ih acc h

/- Full statement (FAILS for the unchanged code): the frames handed to `handleNodeEvent` for a burst are the
burst. `eventDebouncer.debounce` drops every frame after the first 1000 of a window ("buffer full,
dropping event frame"): the NEWEST events are lost, so the last status of an address may never be processed. -/

/-- `C16_event_buffer_partial`: a burst of at most `eventBufferSize` (1000) frames within one debounce window is
handed to `handleNodeEvent` unchanged -/
theorem C16_event_buffer_partial (burst : List Ev) (h : burst.length ≤ eventBufferSize) : debounced burst = burst := by
  unfold debounced
  rw [foldl_debounceAdd burst [] (by simpa using h)]
  simp

theorem debounced_overflow (l : List Ev) (hl : l.length = eventBufferSize) (extra : List Ev) : debounced (l ++ extra) = l := by
  unfold debounced
  rw [List.foldl_append, foldl_debounceAdd l [] (by rw [hl]; exact Nat.le_of_eq (Nat.zero_add _))]
  exact foldl_debounceAdd_full _ _ hl

example : debounced [.topology, .status .up 7, .status .down 7] = [.topology, .status .up 7, .status .down 7] :=
  C16_event_buffer_partial _ (by decide)

theorem lastStatus_replicate (n : Nat) (c : Change) (a : Nat) (hn : 0 < n) : lastStatus (List.replicate n (Ev.status c a)) a = some c := by
  induction n with
  | zero => omega
  | succ k ih =>
    simp only [List.replicate_succ, lastStatus]
    cases k with
    | zero => simp [lastStatus]
    | succ j => rw [ih (by omega)]

theorem lastStatus_append_status (l : List Ev) (c : Change) (a : Nat) : lastStatus (l ++ [Ev.status c a]) a = some c := by
  induction l with
  | nil => simp [lastStatus]
  | cons e t ih =>
    cases e with
    | topology => simp only [List.cons_append, lastStatus]; exact ih
    | status c' a' => simp only [List.cons_append, lastStatus]; rw [ih]

/-- the excluded case is real: 1000 × UP then DOWN for one address within one window — the DOWN is dropped and
the batch is processed as UP (replay on the real eventDebouncer: `evdeb 1000 u7,d7` delivers 1000 of 1001 frames) -/
theorem C16_cex_event_buffer_drops_last :
    let burst := List.replicate 1000 (Ev.status .up 7) ++ [Ev.status .down 7]
    lastStatus burst 7 = some .down ∧ (debounced burst).length = 1000 ∧ lastStatus (debounced burst) 7 = some .up := by
  intro burst
  have hlen : (List.replicate 1000 (Ev.status .up 7)).length = eventBufferSize := List.length_replicate
  have hd : debounced burst = List.replicate 1000 (Ev.status .up 7) := debounced_overflow _ hlen _
  refine ⟨lastStatus_append_status _ _ _, ?_, ?_⟩
  · rw [hd]; exact hlen
  · rw [hd]; exact lastStatus_replicate 1000 .up 7 (by omega)

/-! ### EVENT frames reach the debouncer in wire order (repair of KF-C16-2) -/

theorem recvBuffer_eq (wire : List WireFrame) : ∀ (acc : List Ev), wire.foldl recvStep acc = (wireEvents wire).foldl debounceAdd acc := by
  induction wire with
  | nil => intro acc; rfl
  | cons f t ih =>
    intro acc
    cases f with
    | nodeEvent e => simp only [List.foldl_cons, recvStep, wireEvents]; exact ih _
    | schemaEvent => simp only [List.foldl_cons, recvStep, wireEvents]; exact ih _
    | response n => simp only [List.foldl_cons, recvStep, wireEvents]; exact ih _

/-- `C16_wire_order_last_wins` — since the repair of KF-C16-2 (`Conn.recv` calls `handleEvent` itself instead of
starting a goroutine per EVENT frame, which let the frames reach the debouncer in any order: UP, DOWN could be
processed as DOWN, UP). For every sequence of frames read from the control connection within one debounce window
(node events, schema events and responses interleaved in any way) with at most `eventBufferSize` node events (the
bound is KF-C16-7, open):
(1) the batch handed to `handleNodeEvent` is exactly the node events IN WIRE ORDER;
(2) hence the status `handleNodeEvent` dispatches for an address is the LAST status of that address ON THE WIRE. -/
theorem C16_wire_order_last_wins (wire : List WireFrame) (h : (wireEvents wire).length ≤ eventBufferSize) :
    recvBuffer wire = wireEvents wire ∧ ∀ a, lookup (coalesce (recvBuffer wire)) a = lastStatus (wireEvents wire) a := by
  have h1 : recvBuffer wire = wireEvents wire := by
    unfold recvBuffer
    rw [recvBuffer_eq]
    exact C16_event_buffer_partial _ h
  refine ⟨h1, fun a => ?_⟩
  rw [h1]
  exact lookup_coalesce _ a

/-- non-vacuity, and regression (kernel-checked): UP then DOWN for address 7 on the wire, a response in between — DOWN
wins; before the repair the two goroutines could run in the other order (`recvBufferOld` with schedule [1, 0]) and UP
won: the node stayed offered although the cluster last reported it DOWN (replay on the real code: `e2eorder 200`) -/
example :
    let wire : List WireFrame := [.nodeEvent (.status .up 7), .response 3, .schemaEvent, .nodeEvent (.status .down 7)]
    recvBuffer wire = [.status .up 7, .status .down 7] ∧ lookup (coalesce (recvBuffer wire)) 7 = some .down ∧
    recvBufferOld wire [1, 0] = [.status .down 7, .status .up 7] ∧ lookup (coalesce (recvBufferOld wire [1, 0])) 7 = some .up := by
  decide

/-! ### which rows of system.peers become hosts -/

/-- `C16_valid_peers` — FULL theorem since the repair of KF-C16-3 (before it a NULL host_id cell became the
host id "00000000-0000-0000-0000-000000000000" and passed `hostId == ""`; the theorem was restricted to rows
that carry a host id): on EVERY row `isValidPeer` as evaluated by the code is the property's notion of a valid
peer row — all of rpc_address, host_id, data_center, rack, tokens present -/
theorem C16_valid_peers (r : Row) : r.validPeer = r.validPeerSpec := by
  unfold Row.validPeer Row.validPeerSpec
  cases h1 : r.rpc == 0 <;> cases h2 : r.id == 0 <;> cases h3 : r.dc == 0 <;> cases h4 : r.rack == 0 <;>
    cases h5 : r.tokens == 0 <;> simp [bne, h1, h2, h3, h4, h5]

/-- non-vacuity, and regression (kernel-checked; replay on the real code: `reset evc rr - 2 1:0:2:2:1:1:2` then
`evrefresh 1:0:2:2:1:1:2;0:5:5:0:1:1:2`): a peers row with a NULL host_id and everything else present is rejected now;
the test before the repair (`Row.validPeerOld`) accepted it -/
example :
    let row : Row := ⟨0, 5, 5, 0, 1, 1, 2⟩
    row.validPeerSpec = false ∧ row.validPeer = false ∧ row.validPeerOld = true ∧
    getHosts ⟨1, 0, 2, 2, 1, 1, 2⟩ [row, ⟨3, 6, 6, 0, 1, 1, 2⟩] 10 = some [⟨10, 1, 2, 2⟩, ⟨12, 3, 6, 6⟩] := by decide

/-! ### the oracles evaluated by the harness on the real snapshots: the model's answer is "ok" -/

theorem subsetB_iff (l1 l2 : List Nat) : subsetB l1 l2 = true ↔ ∀ x ∈ l1, x ∈ l2 := by
  simp [subsetB, List.all_eq_true]

theorem find_map_fst (l : List RHost) (id : Nat) :
    lookup (l.map (fun x => (x.id, x))) id = l.find? (fun h => h.id == id) := by
  unfold lookup
  induction l with
  | nil => rfl
  | cons h t ih =>
    simp only [List.map_cons, List.find?_cons]
    split
    · rfl
    · exact ih

/-- `C16_follows_oracle_ok`: after a refresh of a reachable view with ANY report the oracle "the view follows the
report" (op `evfollows`) finds no violated clause -/
theorem C16_follows_oracle_ok (env : Env) (v : View) (ha : Agree env v) (reported : List RHost) :
    (v.refresh env reported).followsViolations env v.ring.ids reported = [] := by
  obtain ⟨hids, _, hpools, hpol, hnew, hst⟩ := C16_view_follows_report env v ha reported
  have hacc : ∀ id, id ∈ (reported.filter (fun h => !env.filter h)).map (·.id) ↔ ∃ h ∈ reported, env.filter h = false ∧ h.id = id := by
    intro id
    simp only [List.mem_map, List.mem_filter]
    constructor
    · rintro ⟨h, ⟨hm, hf⟩, rfl⟩; exact ⟨h, hm, by simpa using hf, rfl⟩
    · rintro ⟨h, hm, hf, rfl⟩; exact ⟨h, ⟨hm, by simp [hf]⟩, rfl⟩
  unfold View.followsViolations
  dsimp only
  have c1 : subsetB (v.refresh env reported).ring.ids ((reported.filter (fun h => !env.filter h)).map (·.id)) = true := by
    rw [subsetB_iff]; intro x hx; exact (hacc x).mpr ((hids x).mp hx)
  have c2 : subsetB ((reported.filter (fun h => !env.filter h)).map (·.id)) (v.refresh env reported).ring.ids = true := by
    rw [subsetB_iff]; intro x hx; exact (hids x).mpr ((hacc x).mp hx)
  have c3 : subsetB ((v.refresh env reported).pools.map (·.1)) ((reported.filter (fun h => !env.filter h)).map (·.id)) = true := by
    rw [subsetB_iff]; intro x hx
    obtain ⟨e, he, rfl⟩ := List.mem_map.mp hx
    exact (hacc e.1).mpr (hpools e he)
  have c4 : subsetB ((v.refresh env reported).pol.all.map (·.id)) ((reported.filter (fun h => !env.filter h)).map (·.id)) = true := by
    rw [subsetB_iff]; intro x hx
    obtain ⟨e, he, rfl⟩ := List.mem_map.mp hx
    exact (hacc e.id).mpr (hpol e he)
  have c5 : ((v.refresh env reported).ring.ids.filter (fun id => !v.ring.ids.contains id)).all
      (fun id => hasKey (v.refresh env reported).pools id) = true := by
    rw [List.all_eq_true]
    intro id hid
    have := List.mem_filter.mp hid
    exact hnew id this.1 (by simpa using this.2)
  have c6 : (reported.filter (fun h => !env.filter h)).all
      (fun h => lookup ((reported.filter (fun h => !env.filter h)).map (fun x => (x.id, x))) h.id != some h ||
        (v.refresh env reported).storedMatches h) = true := by
    rw [List.all_eq_true]
    intro h _
    by_cases hf : lookup ((reported.filter (fun h => !env.filter h)).map (fun x => (x.id, x))) h.id = some h
    · have hfr : firstRow env.filter reported h.id = some h := by
        unfold firstRow; rw [← find_map_fst]; exact hf
      obtain ⟨s, hs, h1, h2⟩ := hst h.id h hfr
      unfold View.storedMatches
      rw [hs]; simp [h1, h2]
    · simp [hf]
  rw [c1, c2, c3, c4, c5, c6]
  rfl

/-- `C16_inpolicy_oracle_ok`: oracle "every object new in the ring is in the policy's lists" (op `evinpolicy`), under the
hypothesis of `C16_new_host_in_policy` for every new object -/
theorem C16_inpolicy_oracle_ok (env : Env) (v : View) (ha : Agree env v) (reported : List RHost)
    (hown : ∀ e ∈ (v.refresh env reported).ring.byId, e.2 ∉ v.ring.allHosts → OwnConn env reported e.2) :
    (v.refresh env reported).newNotInPolicy env v.ring.allHosts = [] := by
  have hag := agree_refresh env v ha reported
  unfold View.newNotInPolicy
  rw [List.map_eq_nil_iff, List.filter_eq_nil_iff]
  intro e he
  by_cases hold : e.2 ∈ v.ring.allHosts
  · simp [hold]
  · have hid : e.2.id = e.1 := hag.sinv.wf e he
    have hl : (v.refresh env reported).ring.getHost e.2.id = some e.2 := by
      rw [hid]; exact lookup_of_mem_nodup _ hag.sinv.knodup e he
    have hnew : v.ring.getHost e.2.id ≠ some e.2 := by
      intro h
      exact hold (List.mem_map.mpr ⟨(e.2.id, e.2), lookup_some_mem _ _ _ h, rfl⟩)
    have := C16_new_host_in_policy env v ha reported e.2 hl hnew (hown e he hold)
    have h2 : (v.refresh env reported).pol.has env e.2 = true := by
      unfold Policy.has
      cases ht : env.tokenAware with
      | true =>
        have h0 := this.1 ht
        rcases this.2 with h1 | h1 <;> simp [h0, h1]
      | false => rcases this.2 with h1 | h1 <;> simp [h1]
    simp [h2]

/-- the code's reported peers are the property's reported peers -/
theorem peersHosts_spec (rows : List Row) : ∀ (obj : Nat) (l : List RHost),
    peersHosts rows obj = some l → peersHostsSpec rows obj = l := by
  induction rows with
  | nil => intro obj l h; simp only [peersHosts, Option.some.injEq] at h; simp [peersHostsSpec, h]
  | cons r t ih =>
    intro obj l h
    simp only [peersHosts] at h
    simp only [peersHostsSpec]
    cases hr : r.host obj 0 with
    | none => rw [hr] at h; simp at h
    | some x =>
      rw [hr] at h
      cases ht : peersHosts t (obj + 1) with
      | none => rw [ht] at h; simp at h
      | some l' =>
        rw [ht] at h
        simp only [Option.some.injEq] at h
        have := ih (obj + 1) l' ht
        rw [this, ← C16_valid_peers r]
        exact h

/-- `C16_reported_is_spec` — FULL since the repair of KF-C16-3 (no row excluded): whenever `GetHosts` returns (no
row without any usable address, on which `hostInfoFromMap` panics), the hosts it reports are the property's
reported hosts: the local host plus the peers rows with all of rpc_address, host_id, data_center, rack, tokens -/
theorem C16_reported_is_spec (loc : Row) (peers : List Row) (obj0 : Nat) (l : List RHost)
    (h : getHosts loc peers obj0 = some l) : getHostsSpec loc peers obj0 = l := by
  unfold getHosts at h
  unfold getHostsSpec
  cases hl : loc.host obj0 0 with
  | none => rw [hl] at h; simp at h
  | some x =>
    rw [hl] at h
    cases hp : peersHosts peers (obj0 + 1) with
    | none => rw [hp] at h; simp at h
    | some l' =>
      rw [hp] at h
      simp only [Option.some.injEq] at h
      dsimp only
      rw [peersHosts_spec peers (obj0 + 1) l' hp]
      exact h

/-- `C16_not_offered_oracle_ok`: objects that are down are not offered (op `evnotoffered`; that the tracked
objects — reported DOWN, not connected since — ARE down is `C16_down_not_offered`) -/
theorem C16_not_offered_oracle_ok (v : View) (tracked : List Nat) (ht : ∀ o ∈ tracked, o ∈ v.down) :
    v.offeredObjs tracked = [] := by
  unfold View.offeredObjs
  rw [List.filter_eq_nil_iff]
  intro o ho
  have := ht o ho
  simp [this]

/-- every view reachable from a new session by events, refreshes, connects, removals and in-place address updates
satisfies `Agree` (`LocStable`: the locality of an object — its data centre — does not depend on its address fields) -/
theorem C16_view_invariant (env : Env) (hloc : LocStable env) (ops : List VOp) : Agree env (runV env View.empty ops) :=
  agree_runV env hloc ops _ (agree_empty env)

/-! ### event-debouncer schedules: events arriving between a flush and the start of its handler, several handlers
pending at once (Model/EventQueue.lean: the debouncer with the memory its slices live in; helper lemmas in
Proofs/C16Queue.lean) -/

open EvQueue in
/-- `C16_event_batches_intact`. For EVERY schedule of the node-event debouncer — frames arriving (`debounce`), the
flusher flushing (`fire`), handler goroutine `k` getting the CPU and reading the frames it was handed (`run k`), in
any interleaving: events that arrive after a flush and BEFORE the handler of that flush has run, any number of
handlers pending at once, handlers run in any order — and for every growth policy of `append`: what the handlers
see, in the order they run, is exactly what the value-level specification says: handler `k` sees the frames that
were in the buffer when flush `k` happened, whatever arrived meanwhile. (Memory-level: `flush` leaves `e.events`
on a NEW backing array, no later `append` writes into an array a pending handler holds.) -/
theorem C16_event_batches_intact (grow : Nat → Nat) (as : List QAct) :
    (qrun grow {} as).handled = (srun {} as).handled ∧ (qrun grow {} as).intact (srun {} as) = true := by
  have h := (C16Queue.sim_run grow as {} {} C16Queue.sim_init).handled
  exact ⟨h, by simp [Q.intact, h]⟩

open EvQueue in
/-- `C16_event_handled_once`. For every schedule: (1) the batches of the flushes so far, in order, followed by the
frames still buffered are exactly the frames the debouncer ACCEPTED (all of them while no window exceeds
`eventBufferSize`: second conjunct; the bound is KF-C16-7, open) — nothing is lost, duplicated or reordered; (2) every handler
started so far, pending or done, holds / has seen the batch of its own flush; (3) the handlers pending or done are
the handlers of the flushes `0 … started-1`, each exactly once. -/
theorem C16_event_handled_once (grow : Nat → Nat) (as : List QAct) :
    let q := qrun grow {} as
    let s := srun {} as
    s.flushed.flatten ++ s.buf = EvQueue.accepted as ∧
    (C16Queue.WindowsBounded false 0 as → EvQueue.accepted as = C16Queue.frames as) ∧
    (∀ p ∈ q.handled, s.flushed[p.1]? = some p.2) ∧
    ((q.handled.map (·.1)) ++ (q.pending.map (·.1))).Perm (List.range q.started) := by
  intro q s
  have hsim := C16Queue.sim_run grow as {} {} C16Queue.sim_init
  have hinv := C16Queue.sinv_run as {} C16Queue.sinv_init
  refine ⟨?_, C16Queue.accepted_all as false 0, ?_, ?_⟩
  · have := C16Queue.flushed_accepted as {}
    simpa [EvQueue.accepted] using this
  · intro p hp
    have hp' : p ∈ s.handled := hsim.handled ▸ hp
    exact hinv.batches p (List.mem_append_left _ hp')
  · have h1 : q.handled.map (·.1) = s.handled.map (·.1) := by rw [hsim.handled]
    have h2 : q.pending.map (·.1) = s.pending.map (·.1) := by
      rw [← hsim.pending, List.map_map]; rfl
    rw [h1, h2, hsim.started, ← List.map_append]
    exact hinv.once

open EvQueue in
/-- `C16_event_stop_quiesces`. For EVERY schedule with a `stop` (Session.Close) anywhere in it — while frames are
buffered, while handlers of earlier flushes are pending, followed by any frames, timer expiries and handler runs —:
(1) no handler goroutine is started after `stop` has returned (the flushes are exactly those before it);
(2) every handler of a flush BEFORE the stop, whenever it runs (before or after the stop), still sees exactly the batch
of its flush (`C16_event_batches_intact` holds for schedules with `stop`);
the frames buffered at the stop or debounced after it are never delivered (the session is closing). -/
theorem C16_event_stop_quiesces (grow : Nat → Nat) (pre post : List QAct) :
    (qrun grow {} (pre ++ .stop :: post)).started = (qrun grow {} pre).started ∧
    (srun {} (pre ++ .stop :: post)).flushed = (srun {} pre).flushed ∧
    (qrun grow {} (pre ++ .stop :: post)).handled = (srun {} (pre ++ .stop :: post)).handled := by
  have h1 := C16Queue.sim_run grow (pre ++ .stop :: post) {} {} C16Queue.sim_init
  have h0 := C16Queue.sim_run grow pre {} {} C16Queue.sim_init
  have hsplit : srun {} (pre ++ .stop :: post) = srun (sstep (srun {} pre) .stop) post := by
    simp [srun, List.foldl_append]
  have hs := C16Queue.stopped_run post (sstep (srun {} pre) .stop) rfl
  refine ⟨?_, ?_, h1.handled⟩
  · rw [h1.started, h0.started, hsplit]; exact hs.1
  · rw [hsplit]; exact hs.2

open EvQueue in
/-- non-vacuity: DOWN 1, flush 0, stop while handler 0 is pending, DOWN 2 and a timer expiry after the stop, handler 0 runs:
one handler, it saw DOWN 1; DOWN 2 is never flushed -/
example :
    let q := qrun goGrow {} [.debounce (.status .down 1), .fire, .stop, .debounce (.status .down 2), .fire, .run 0, .run 1]
    q.started = 1 ∧ q.handled = [(0, [.status .down 1])] ∧ q.pending = [] := by decide

open EvQueue in
/-- non-vacuity + the schedule of the missed class: DOWN 1 arrives, flush 0; DOWN 2 arrives BEFORE handler 0 has run;
handler 0 runs, flush 1, handler 1 runs: handler 0 saw DOWN 1, handler 1 saw DOWN 2 -/
example :
    (qrun goGrow {} [.debounce (.status .down 1), .fire, .debounce (.status .down 2), .run 0, .fire, .run 1]).handled
      = [(0, [.status .down 1]), (1, [.status .down 2])] := by decide

open EvQueue in
/-- `C16_cex_event_buffer_reuse_clobbers_batch` (kernel-checked): the variant `e.events = e.events[:0]` of `flush`
(the buffer handed to the handler goroutine is used again) violates both theorems on that very schedule: handler 0
sees DOWN 2 — DOWN 1 is lost for good and DOWN 2 is handled twice -/
theorem C16_cex_event_buffer_reuse_clobbers_batch :
    let as := [QAct.debounce (.status .down 1), .fire, .debounce (.status .down 2), .run 0, .fire, .run 1]
    (qrunWith true goGrow {} as).handled = [(0, [.status .down 2]), (1, [.status .down 2])] ∧
    (qrunWith true goGrow {} as).handled ≠ (srun {} as).handled := by
  decide

/-! ### the token-aware policy's metadata (token ring + per-keyspace replica tables) follows the policy's host list
(Model/TokenMeta.lean; helper lemmas in Proofs/C16TokenMeta.lean) -/

open TokenMeta in
/-- `C16_token_meta_follows_policy`. For EVERY sequence of operations on the selection policy — AddHost, RemoveHost,
HostUp, HostDown, SetPartitioner, KeyspaceChanged, in any order, for any hosts, any keyspaces (known or not), i.e. in
particular those every history of refreshes, node events, connects and removals performs — the token ring of the
token-aware policy holds exactly the hosts of its host list, EVERY replica table (session keyspace and the others) is
the one computed from that list, and hence every host the metadata refers to (= every host a routed query can be
offered as a replica) is an entry of the policy's host list: a vanished node is gone from the replica tables as soon as
it is gone from the list. -/
theorem C16_token_meta_follows_policy (env : Env) (te : TEnv) (ops : List PolOp) :
    let s := prun env te {} ops
    (∀ l, s.tm.tring = some l → l = s.p.ta) ∧ (s.tm.part = true → s.tm.tring = some s.p.ta) ∧
    (∀ e ∈ s.tm.repl, e.2 = replicaHosts te s.p.ta) ∧ (∀ x ∈ s.tm.refs, x ∈ s.p.ta) := by
  intro s
  have h := (C16TokenMeta.pinv_run env te ops {} ⟨C16TokenMeta.tinv_init te⟩).tinv
  exact ⟨h.ring, h.haspart, fun e he => (h.repl e he).2, C16TokenMeta.refs_subset te _ _ h⟩

open TokenMeta in
/-- `C16_routed_oracle_ok` (the oracle `evrouted`): for every history of the session's view (events, refreshes, connects,
removals, in-place address updates) and every metadata that follows the view's token-aware list — as it does after
every sequence of policy operations (`C16_token_meta_follows_policy`) and along the driver's `follow` steps —, every
host the metadata refers to is the ring's CURRENT object of its host id: no routed query is offered a host the
session does not know. -/
theorem C16_routed_oracle_ok (env : Env) (hloc : LocStable env) (ops : List VOp) (te : TEnv) (tm : TMeta)
    (h : C16TokenMeta.TInv te tm (runV env View.empty ops).pol.ta) :
    tm.strayRefs (runV env View.empty ops).ring.allHosts = [] := by
  have hag := C16_view_invariant env hloc ops
  unfold TMeta.strayRefs
  rw [List.map_eq_nil_iff, List.filter_eq_nil_iff]
  intro x hx
  have hta := C16TokenMeta.refs_subset te tm _ h x hx
  have hall : x ∈ (runV env View.empty ops).pol.all := by
    unfold Policy.all
    exact List.mem_append_left _ (List.mem_append_left _ hta)
  have hl := hag.pol x hall
  have hm : (x.id, x) ∈ (runV env View.empty ops).ring.byId := lookup_some_mem _ _ _ hl
  have : x ∈ (runV env View.empty ops).ring.allHosts := List.mem_map.mpr ⟨(x.id, x), hm, rfl⟩
  simp [this]

open TokenMeta in
/-- the driver's step: when the view's token-aware list changes the metadata is recomputed for the new list -/
theorem C16_token_meta_follow (te : TEnv) (tm : TMeta) (ta ta' : List RHost) (h : C16TokenMeta.TInv te tm ta) :
    C16TokenMeta.TInv te (tm.follow te ta ta') ta' := C16TokenMeta.tinv_follow te tm ta ta' h

/-- non-vacuity: two hosts, partitioner, the session keyspace 1 and keyspace 2 known; host 1 vanishes — ring and both
tables refer to host 2 only -/
example :
    let env : Env := ⟨fun _ => false, fun _ => true, true, false, false⟩
    let te : TokenMeta.TEnv := ⟨1, fun k => k == 1 || k == 2, fun _ => true⟩
    let h1 : RHost := ⟨1, 1, 7, 7⟩
    let h2 : RHost := ⟨2, 2, 8, 8⟩
    let s := TokenMeta.prun env te {} [.add h1, .add h2, .setPartitioner, .keyspaceChanged 2, .keyspaceChanged 3, .remove h1]
    s.tm.tring = some [h2] ∧ s.tm.repl = [(2, [h2]), (1, [h2])] ∧ s.tm.strayRefs [h2] = [] := by decide

/-- `C16_cex_replicas_before_ring` (kernel-checked): the variant of RemoveHost that recomputes the replica tables BEFORE it
rebuilds the token ring violates the theorem on that history: the table of the session keyspace still refers to the
vanished host 1 -/
theorem C16_cex_replicas_before_ring :
    let env : Env := ⟨fun _ => false, fun _ => true, true, false, false⟩
    let te : TokenMeta.TEnv := ⟨1, fun k => k == 1 || k == 2, fun _ => true⟩
    let h1 : RHost := ⟨1, 1, 7, 7⟩
    let h2 : RHost := ⟨2, 2, 8, 8⟩
    let s := [TokenMeta.PolOp.add h1, .add h2, .setPartitioner, .remove h1].foldl (TokenMeta.pstepWith true env te) {}
    s.p.ta = [h2] ∧ s.tm.strayRefs [h2] = [1] := by decide

/-! ### schema events (Session.handleSchemaEvent) -/

open TokenMeta in
/-- `C16_schema_events_invalidate`. For EVERY history of schema-cache fills and batches of SCHEMA_CHANGE events
(keyspace / table / type / function / aggregate, any keyspaces, any batch sizes) handled by `handleSchemaEvent`:
(1) a keyspace's metadata is in the session's schema cache at the end iff the LATEST thing that happened to the
keyspace is a fill — no event of any kind leaves stale metadata cached; (2) the token-aware policy's metadata, which
the keyspace-level events update through KeyspaceChanged, still follows the policy's host list. -/
theorem C16_schema_events_invalidate (env : Env) (te : TEnv) (p : Policy) (hist : List SchemaOp) (ks : Nat) :
    (hist.foldl (schemaOp env te p) {}).cache.contains ks = cachedSpecRev ks hist.reverse ∧
    ∀ (s : SchemaSt) (b : List SchemaEv), C16TokenMeta.TInv te s.tm p.ta →
      C16TokenMeta.TInv te (handleSchemaEvent env te p s b).tm p.ta := by
  refine ⟨?_, fun s b h => C16TokenMeta.tinv_schema env te p b s h⟩
  have := C16TokenMeta.schema_cache_spec env te p ks hist.reverse
  rwa [List.reverse_reverse] at this

/-- non-vacuity: ks 1 and 2 cached; a table event for 1 and a keyspace event for 3; 2 is filled again — 1 is gone, 2 stays -/
example :
    let env : Env := ⟨fun _ => false, fun _ => true, true, false, false⟩
    let te : TokenMeta.TEnv := ⟨1, fun k => k == 1 || k == 2, fun _ => true⟩
    (([TokenMeta.SchemaOp.fill 1, .fill 2, .events [.other 1, .keyspace 3], .fill 2].foldl (TokenMeta.schemaOp env te {}) {}).cache) = [2] := by
  decide

/-! ### control-connection failover: the control host goes down, the driver reconnects to ANOTHER host of the ring
(setupConn: the new control host's system.local row goes through ring.addOrUpdate + pool / policy), REGISTERs again
and refreshes; the events pushed meanwhile were never received -/

/-- `C16_failover_follows_report`. For EVERY history `pre` before the control connection was lost, EVERY new control
host `l0` (any host: known or not, any addresses) and EVERY report of that host: after the reconnect
(`addInitial l0` = setupConn's addOrUpdate + startPoolFill) and the refresh that follows it
(1) the view follows the new control host's report (all six clauses of the oracle `evfollows`), and
(2) the host ids of the ring are exactly the accepted reported ids — which is ALSO what the ring would hold had any batch
`missed` of node events (UP / DOWN / NEW_NODE / REMOVED_NODE / MOVED_NODE, pushed while no control connection existed and
therefore lost) been delivered before the refresh: the gap is covered by the refresh. -/
theorem C16_failover_follows_report (env : Env) (hloc : LocStable env) (pre : List VOp) (l0 : RHost)
    (reported : List RHost) (missed : List Ev) :
    let v := runV env View.empty (pre ++ [.addInitial l0])
    (v.refresh env reported).followsViolations env v.ring.ids reported = [] ∧
    (∀ id, id ∈ (v.refresh env reported).ring.ids ↔ ∃ h ∈ reported, env.filter h = false ∧ h.id = id) ∧
    (∀ id, id ∈ ((v.handleBatch env missed).refresh env reported).ring.ids ↔ id ∈ (v.refresh env reported).ring.ids) := by
  intro v
  have ha : Agree env v := C16_view_invariant env hloc _
  have ha' : Agree env (v.handleBatch env missed) := by
    have heq : runV env View.empty (pre ++ [.addInitial l0] ++ [.batch missed]) = v.handleBatch env missed := by
      simp [v, runV, List.foldl_append, applyV]
    rw [← heq]
    exact C16_view_invariant env hloc _
  have h1 := (C16_view_follows_report env v ha reported).1
  have h2 := (C16_view_follows_report env (v.handleBatch env missed) ha' reported).1
  exact ⟨C16_follows_oracle_ok env v ha reported, h1, fun id => (h2 id).trans (h1 id).symm⟩

/-- non-vacuity: control host 1 (address 7) and host 2 known; host 1 goes away, the driver lands on host 2, whose report is
{2, 3}: host 3 joined during the gap (its NEW_NODE event was lost) — the ring holds 2 and 3 -/
example :
    let env : Env := ⟨fun _ => false, fun _ => true, false, false, false⟩
    let v := runV env View.empty [.addInitial ⟨1, 1, 7, 7⟩, .addInitial ⟨2, 2, 8, 8⟩, .addInitial ⟨3, 2, 8, 8⟩]
    (v.refresh env [⟨4, 2, 8, 8⟩, ⟨5, 3, 9, 9⟩]).ring.ids = [3, 2] := by decide

/-! ### batches that MIX topology and status events for the SAME address -/

inductive TopoKind | newNode | removedNode | movedNode
deriving DecidableEq, Repr

/-- a node event as it is on the wire: topology events carry an address too -/
inductive EvA
  | topology (k : TopoKind) (addr : Nat)
  | status (c : Change) (addr : Nat)
deriving DecidableEq, Repr

/-- what `handleNodeEvent` reads of a frame: of a topology event only that it is one -/
def EvA.forget : EvA → Ev
  | .topology _ _ => .topology
  | .status c a => .status c a

/-- specification: the LAST status event of the batch for address `a` — whatever else the batch says about `a` -/
def lastStatusA : List EvA → Nat → Option Change
  | [], _ => none
  | .topology _ _ :: t, a => lastStatusA t a
  | .status c a' :: t, a =>
    match lastStatusA t a with
    | some c' => some c'
    | none => if a' = a then some c else none

theorem lastStatusA_forget (b : List EvA) (a : Nat) : lastStatus (b.map EvA.forget) a = lastStatusA b a := by
  induction b with
  | nil => rfl
  | cons e t ih =>
    cases e with
    | topology k x => simp only [List.map_cons, EvA.forget, lastStatus, lastStatusA]; exact ih
    | status c x => simp only [List.map_cons, EvA.forget, lastStatus, lastStatusA]; rw [ih]; rfl

/-- `C16_mixed_batch_status_decides`. For EVERY batch of node events in which topology events (NEW_NODE / REMOVED_NODE /
MOVED_NODE) carry ANY addresses — in particular addresses that also have UP / DOWN events in the same batch, in any
order and number —: (1) the status `handleNodeEvent` dispatches for an address is the LAST status event of the batch for
that address, whatever topology events name the address; (2) two batches with the same last status per address and the
same "contains a topology event" lead to the same view: a topology event for an address never suppresses or alters the
handling of that address's status. -/
theorem C16_mixed_batch_status_decides (env : Env) (v : View) (b : List EvA)
    (hs : SInv v.ring) (hc : ConnSep v.ring (keys (coalesce (b.map EvA.forget)))) :
    (∀ a, lookup (coalesce (b.map EvA.forget)) a = lastStatusA b a) ∧
    (∀ b' : List EvA, hasTopology (b'.map EvA.forget) = hasTopology (b.map EvA.forget) →
      (∀ a, lastStatusA b' a = lastStatusA b a) →
      Same (v.handleBatch env (b'.map EvA.forget)) (v.handleBatch env (b.map EvA.forget))) := by
  obtain ⟨h1, _, _, h4⟩ := C16_status_last_wins env v (b.map EvA.forget) hs hc
  refine ⟨fun a => (h1 a).trans (lastStatusA_forget b a), fun b' ht hl => h4 _ ht (fun a => ?_)⟩
  rw [lastStatusA_forget, lastStatusA_forget]; exact hl a

/-- non-vacuity: MOVED_NODE 7, DOWN 7 (either order) on a view that has host 1 at address 7 in its policy: the host is
marked down and leaves the policy, and a refresh is requested -/
example :
    let env : Env := ⟨fun _ => false, fun _ => true, false, false, false⟩
    let v := (View.empty.addInitial env ⟨1, 1, 7, 7⟩)
    let b1 := [EvA.topology .movedNode 7, .status .down 7].map EvA.forget
    let b2 := [EvA.status .down 7, .topology .movedNode 7].map EvA.forget
    (v.handleBatch env b1).down = [1] ∧ (v.handleBatch env b1).pol.loc = [] ∧ (v.handleBatch env b1).refreshReq = 1 ∧
    (v.handleBatch env b2).down = [1] ∧ (v.handleBatch env b2).pol.loc = [] := by decide

end C16
