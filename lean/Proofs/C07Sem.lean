import Proofs.C07Machine
/-!
  The one-slot semaphore / "the buffer the flusher is writing" is held ONLY by a writer whose frame is inside the socket
  Write (the converse of `Inv.mutex`), for every configuration and every schedule. Consequences used by the property
  theorems: a writer that has left writeContext through `ctx.Done()` / `quit` / with a result holds nothing, and while no
  Write is in progress the semaphore is free (a waiting direct writer can always enter).
-/
namespace Writer

/-- whoever holds the semaphore is inside the socket Write -/
def OwnerIn (s : St) : Prop := ∀ w, s.owner = some w → ∃ off, s.pc w = .inWrite off

theorem ownerIn_init : OwnerIn init := by
  intro w h; simp [init] at h

theorem ownerIn_setPc (s : St) (h : OwnerIn s) (x : Nat) (v : Pc) (hx : ∀ off, s.pc x ≠ .inWrite off) :
    ∀ w, s.owner = some w → ∃ off, setPc s.pc x v w = .inWrite off := by
  intro w hw
  obtain ⟨off, ho⟩ := h w hw
  have : w ≠ x := by intro e; subst e; exact hx off ho
  exact ⟨off, by rw [setPc_other _ _ _ _ this]; exact ho⟩

theorem ownerIn_step (cfg : Cfg) (s s' : St) (a : Act) (h : OwnerIn s) (hs : step cfg s a = some s') : OwnerIn s' := by
  cases a with
  | submit x | cancel x | enqueue x =>
    simp only [step] at hs
    split at hs
    · rename_i hg
      injection hs with hs; subst hs
      exact ownerIn_setPc s h x _ (by intro off e; simp_all)
    · simp at hs
  | quit x =>
    simp only [step] at hs
    split at hs
    · rename_i hg
      injection hs with hs; subst hs
      refine ownerIn_setPc s h x _ ?_
      intro off e
      rcases hg with ⟨_, e'⟩ | ⟨_, e', _⟩ <;> (rw [e] at e'; cases e')
    · simp at hs
  | tick =>
    simp only [step] at hs
    split at hs
    · injection hs with hs; subst hs; exact h
    · simp at hs
  | enter x =>
    simp only [step] at hs
    split at hs
    · injection hs with hs; subst hs
      intro w hw
      simp only [Option.some.injEq] at hw
      subst hw
      exact ⟨0, setPc_same _ _ _⟩
    · simp at hs
  | piece x k =>
    simp only [step] at hs
    split at hs
    · rename_i off hx
      split at hs
      · injection hs with hs; subst hs
        intro w hw
        by_cases e : w = x
        · subst e; exact ⟨off + k, setPc_same _ _ _⟩
        · obtain ⟨o, ho⟩ := h w hw
          exact ⟨o, by simp only [setPc_other _ _ _ _ e]; exact ho⟩
      · simp at hs
    · simp at hs
  | endWrite x ok =>
    simp only [step] at hs
    split at hs
    · split at hs
      · injection hs with hs; subst hs
        intro w hw; simp at hw
      · simp at hs
    · simp at hs
  | ret x =>
    simp only [step] at hs
    split at hs <;> first
      | (rename_i hx; injection hs with hs; subst hs
         exact ownerIn_setPc s h x _ (by intro off e; rw [e] at hx; cases hx))
      | (simp at hs)
  | close x =>
    simp only [step] at hs
    split at hs
    · rename_i n hx
      injection hs with hs; subst hs
      exact ownerIn_setPc s h x _ (by intro off e; rw [e] at hx; cases hx)
    · simp at hs
  | closeFinish x =>
    simp only [step] at hs
    split at hs
    · rename_i n hx
      split at hs
      · injection hs with hs; subst hs
        exact ownerIn_setPc s h x _ (by intro off e; rw [e] at hx; cases hx)
      · simp at hs
    · simp at hs
  | shutdown =>
    simp only [step] at hs
    injection hs with hs; subst hs; exact h
  | cancelCtx x =>
    simp only [step] at hs
    split at hs
    · injection hs with hs; subst hs; exact h
    · simp at hs
  | shutQuit =>
    simp only [step] at hs
    split at hs
    · injection hs with hs; subst hs; exact h
    · simp at hs
  | flusherQuit =>
    simp only [step] at hs
    split at hs
    · split at hs <;> (injection hs with hs; subst hs; exact h)
    · simp at hs

theorem ownerIn_run (cfg : Cfg) : ∀ (as : List Act) (s s' : St), OwnerIn s → run cfg s as = some s' → OwnerIn s'
  | [], s, s', h, hr => by simp [run] at hr; subst hr; exact h
  | a :: as, s, s', h, hr => by
    simp only [run] at hr
    split at hr
    · rename_i s1 hs1
      exact ownerIn_run cfg as s1 s' (ownerIn_step cfg s s1 a h hs1) hr
    · simp at hr

/-- a writer that leaves writeContext's first select through `ctx.Done()` takes nothing with it: the wire, the semaphore,
    the flusher's queue and batch and every other writer are as before -/
theorem cancel_frame (cfg : Cfg) (s s' : St) (w : Nat) (hs : step cfg s (.cancel w) = some s') :
    s.pc w = .waiting ∧ s'.pc w = .cancelled ∧ s'.wire = s.wire ∧ s'.owner = s.owner ∧ s'.queue = s.queue ∧
      s'.todo = s.todo ∧ s'.flushing = s.flushing ∧ ∀ x, x ≠ w → s'.pc x = s.pc x := by
  simp only [step] at hs
  split at hs
  · rename_i hg
    injection hs with hs; subst hs
    exact ⟨hg, setPc_same _ _ _, rfl, rfl, rfl, rfl, rfl, fun x hx => setPc_other _ _ _ _ hx⟩
  · simp at hs

end Writer
