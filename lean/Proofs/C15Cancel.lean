import Proofs.C15Hist
/-! C15, cancellation at ANY moment (caller contexts cancelled while a prefetch is pending, running or done,
    before an Iter(), between pages): an invariant of every history that survives cancellations.

    An iterator is either ON TRACK (what it has delivered plus what a drain with live contexts would still
    deliver is its snapshot's result, `tot = T`), or it carries an error (`cur.err`), or its next page has been
    "fetched" into an error (`pre` holds an error Iter: the cancelled context made the one fetch fail) — and in
    the last two cases the rows it can still hand over are rows of the current page only, so everything it
    ever delivers is an initial segment of the result and it cannot end without an error. -/
namespace Paging.Hist
open Paging

def K (ppOf : Int → Nat → Nat) (T : List Int × List Req × Option Fail) (it : It) : Prop :=
  tot ppOf it = T ∨
  ((∃ f, it.cur.err = some f) ∧ it.out <+: T.1) ∨
  (it.cur.err = none ∧ it.cur.next.isSome = true ∧ (∃ p, it.pre = some p ∧ p.err.isSome = true) ∧
    it.out ++ it.cur.rows.drop it.cur.pos <+: T.1)

def clr (e : Env) : Env := { e with cancelled := [] }

theorem sessExec_cases (ppOf : Int → Nat → Nat) (e : Env) (script : List Reply) (q : Qry) :
    (sessExec ppOf e script q).1 = ⟨errIter .ctx, script, []⟩ ∨
    (sessExec ppOf e script q).1 = (sessExec ppOf (clr e) script q).1 := by
  have ha := (sessExec_alive ppOf (clr e) rfl script q).1
  rw [ha]
  unfold sessExec
  simp only []
  by_cases hs : (q.idem && decide (0 < q.spec)) = true
  · simp only [hs, if_true]
    by_cases hd : dead e (ECtx.child q.ctx e.execs) = true
    · left; simp [hd]
    · right; simp [hd, clr]
  · simp only [hs]
    by_cases hd : dead e (ECtx.caller q.ctx) = true
    · left; simp [hd]
    · right; simp [hd, clr]

theorem force_K (ppOf : Int → Nat → Nat) (T : List Int × List Req × Option Fail) (e : Env) (it : It)
    (hk : K ppOf T it) : K ppOf T (force ppOf e it).1 := by
  by_cases hc : it.cur.err ≠ none ∨ it.pre ≠ none ∨ it.cur.next = none
  · rw [force_noop ppOf e it hc]; exact hk
  · have he : it.cur.err = none := by
      cases hh : it.cur.err with
      | none => rfl
      | some f => exact absurd (Or.inl (by simp [hh])) hc
    have hp : it.pre = none := by
      cases hh : it.pre with
      | none => rfl
      | some f => exact absurd (Or.inr (Or.inl (by simp [hh]))) hc
    obtain ⟨n, hn⟩ : ∃ n, it.cur.next = some n := by
      cases hh : it.cur.next with
      | none => exact absurd (Or.inr (Or.inr hh)) hc
      | some n => exact ⟨n, rfl⟩
    -- the iterator is on track (the other two cases need an error or a fetched page)
    have hon : tot ppOf it = T := by
      rcases hk with h | ⟨⟨f, hf⟩, _⟩ | ⟨_, _, ⟨p, hpp, _⟩, _⟩
      · exact h
      · rw [he] at hf; cases hf
      · rw [hp] at hpp; cases hpp
    rcases sessExec_cases ppOf e it.rest n.qry with hd | ha
    · -- the context is dead: the one fetch yields `context canceled`, nothing is sent
      right; right
      rw [force_eq ppOf e it n he hp hn, hd]
      refine ⟨he, by simp [hn], ⟨errIter .ctx, rfl, rfl⟩, ?_⟩
      have h1 : (tot ppOf it).1 = T.1 := by rw [hon]
      have hf : fut ppOf it = ⟨it.cur.rows.drop it.cur.pos ++ (run (ppOf n.qry.pf) it.rest true n.qry).rows,
          (run (ppOf n.qry.pf) it.rest true n.qry).reqs, (run (ppOf n.qry.pf) it.rest true n.qry).err⟩ := by
        simp only [fut, hp]; exact futPage_next ppOf it.cur it.rest n he hn
      simp only [tot, hf] at h1
      exact ⟨(run (ppOf n.qry.pf) it.rest true n.qry).rows, by rw [← h1]; simp [List.append_assoc]⟩
    · -- alive: the same fetch as with no context cancelled
      left
      have hsame := (force_same ppOf (clr e) rfl it).1
      have heq : (force ppOf e it).1 = (force ppOf (clr e) it).1 := by
        rw [force_eq ppOf e it n he hp hn, force_eq ppOf (clr e) it n he hp hn, ha]
      rw [heq, hsame.1]; exact hon

theorem force_cur' (ppOf : Int → Nat → Nat) (e : Env) (it : It) : (force ppOf e it).1.cur = it.cur ∧ (force ppOf e it).1.out = it.out := by
  unfold force
  cases it.cur.err <;> cases it.pre <;> cases it.cur.next <;> exact ⟨rfl, rfl⟩

theorem scanRow_none_drop (c : Iter) (he : c.err = none) (hs : scanRow c = none) : c.rows.drop c.pos = [] := by
  have hrow : c.rows[c.pos]? = none := by
    unfold scanRow at hs
    simp only [he] at hs
    cases hr : c.rows[c.pos]? with
    | none => rfl
    | some r' => simp [hr] at hs
  exact drop_of_getElem?_none _ _ hrow

theorem scanRow_some_drop (c c' : Iter) (r : Int) (hs : scanRow c = some (r, c')) :
    c.err = none ∧ c'.err = none ∧ c'.next = c.next ∧ c'.rows = c.rows ∧ c'.pos = c.pos + 1 ∧
    c.rows.drop c.pos = r :: c.rows.drop (c.pos + 1) := by
  unfold scanRow at hs
  cases he : c.err with
  | some f => simp [he] at hs
  | none =>
    simp only [he] at hs
    cases hr : c.rows[c.pos]? with
    | none => simp [hr] at hs
    | some r' =>
      simp only [hr, Option.some.injEq, Prod.mk.injEq] at hs
      obtain ⟨h1, h2⟩ := hs
      subst h1; subst h2
      have hlt : c.pos < c.rows.length := by
        rcases Nat.lt_or_ge c.pos c.rows.length with h | h
        · exact h
        · rw [List.getElem?_eq_none_iff.2 h] at hr; cases hr
      refine ⟨rfl, rfl, rfl, rfl, rfl, ?_⟩
      rw [List.drop_eq_getElem_cons hlt]
      congr 1
      rw [List.getElem?_eq_getElem hlt] at hr
      exact Option.some.inj hr

theorem scanF_K (ppOf : Int → Nat → Nat) (T : List Int × List Req × Option Fail) : ∀ (k : Nat) (e : Env) (it : It),
    K ppOf T it → K ppOf T (scanF ppOf k e it).1 := by
  intro k
  induction k with
  | zero => intro e it hk; exact hk
  | succ k ih =>
    intro e it hk
    unfold scanF
    cases hs : scanRow it.cur with
    | some rc =>
      obtain ⟨r, c'⟩ := rc
      simp only []
      have hd := scanRow_some_drop _ _ _ hs
      rcases hk with h | ⟨⟨f, hf⟩, _⟩ | ⟨_, hnx, ⟨p, hpp, hpe⟩, hpre⟩
      · -- on track: a row of the current page (the same step under any environment)
        left
        have hsame := (scanF_same ppOf (k + 1) (clr e) it rfl).1
        have heq : (scanF ppOf (k + 1) (clr e) it).1 = { it with cur := c', out := it.out ++ [r] } := by
          unfold scanF; simp only [hs]
        rw [heq] at hsame
        rw [hsame.1]; exact h
      · rw [hd.1] at hf; cases hf
      · right; right
        refine ⟨hd.2.1, by rw [hd.2.2.1]; exact hnx, ⟨p, hpp, hpe⟩, ?_⟩
        show it.out ++ [r] ++ c'.rows.drop c'.pos <+: T.1
        rw [hd.2.2.2.1, hd.2.2.2.2.1, List.append_assoc, List.singleton_append, ← hd.2.2.2.2.2]
        exact hpre
    | none =>
      simp only []
      cases he : it.cur.err with
      | some f => exact hk
      | none =>
        simp only []
        cases hn : it.cur.next with
        | none => exact hk
        | some n =>
          simp only []
          have hf := force_K ppOf T e it hk
          have hc := force_cur' ppOf e it
          cases hp : (force ppOf e it).1.pre with
          | none => exact hf
          | some nx =>
            simp only []
            apply ih
            have hdrop := scanRow_none_drop it.cur he hs
            rcases hf with h | ⟨⟨f, hfe⟩, _⟩ | ⟨_, _, ⟨p, hpp, hpe⟩, hpre⟩
            · -- on track: the page switch
              left
              rw [← h]
              simp only [tot, fut, hp, hc.1, he, hn, hdrop, List.nil_append]
            · rw [hc.1, he] at hfe; cases hfe
            · -- the fetched "page" is the error: the switch makes it the current one
              right; left
              rw [hp] at hpp
              cases hpp
              refine ⟨?_, ?_⟩
              · cases hx : nx.err with
                | none => rw [hx] at hpe; cases hpe
                | some f => exact ⟨f, rfl⟩
              · rw [hc.1, hdrop, List.append_nil] at hpre
                exact hpre

theorem scanN_K (ppOf : Int → Nat → Nat) (T : List Int × List Req × Option Fail) : ∀ (n : Nat) (e : Env) (it : It),
    K ppOf T it → K ppOf T (scanN ppOf n e it).1 := by
  intro n
  induction n with
  | zero => intro e it hk; exact hk
  | succ n ih =>
    intro e it hk
    unfold scanN
    have hs := scanF_K ppOf T (scanFuel it) e it hk
    simp only []
    split
    · exact ih _ _ hs
    · exact hs

/-- a new iterator: on track, or born with `context canceled` -/
theorem startIter_K (srv : Nat → Bytes → List Reply) (ppOf : Int → Nat → Nat) (e : Env) (q : Qry) :
    K ppOf (target ppOf (startIter srv ppOf e q).1) (startIter srv ppOf e q).1 := by
  rcases sessExec_cases ppOf e (srv q.ident q.pageState) q with hd | ha
  · right; left
    refine ⟨⟨.ctx, ?_⟩, ?_⟩
    · simp [startIter, hd, errIter]
    · simp [startIter]
  · left
    have h := (startIter_inv srv ppOf (clr e) rfl q).1
    have heq : (startIter srv ppOf e q).1 = (startIter srv ppOf (clr e) q).1 := by
      simp only [startIter, ha]
    rw [heq]; exact h

/-- every iterator of a world satisfies K for ITS snapshot's result -/
def KW (ppOf : Int → Nat → Nat) (w : World) : Prop := ∀ it ∈ w.its, K ppOf (target ppOf it) it

theorem kw_set (ppOf : Int → Nat → Nat) (w : World) (i : Nat) (it x : It) (e' : Env)
    (hw : KW ppOf w) (_hi : w.its[i]? = some it) (hx : K ppOf (target ppOf it) x)
    (hs : x.snap = it.snap ∧ x.script = it.script) :
    KW ppOf { w with its := w.its.set i x, env := e' } := by
  intro y hy
  rcases List.mem_or_eq_of_mem_set hy with hm | rfl
  · exact hw y hm
  · have : target ppOf y = target ppOf it := by unfold target; rw [hs.1, hs.2]
    rw [this]; exact hx

theorem step_KW (srv : Nat → Bytes → List Reply) (ppOf : Int → Nat → Nat) (w : World) (s : Step)
    (hw : KW ppOf w) : KW ppOf (step srv ppOf w s) := by
  cases s with
  | iter c =>
    intro y hy
    simp only [step] at hy
    rcases List.mem_append.1 hy with hm | hm
    · exact hw y hm
    · simp only [List.mem_singleton] at hm
      subst hm
      exact startIter_K srv ppOf w.env (iterQry w.obj c)
  | scan i n =>
    simp only [step]
    cases hi : w.its[i]? with
    | none => exact hw
    | some it =>
      have hmem : it ∈ w.its := List.mem_of_getElem? hi
      exact kw_set ppOf w i it _ _ hw hi (scanN_K ppOf _ n w.env it (hw it hmem)) (scanN_snap ppOf n w.env it)
  | prefetched i =>
    simp only [step]
    cases hi : w.its[i]? with
    | none => exact hw
    | some it =>
      have hmem : it ∈ w.its := List.mem_of_getElem? hi
      exact kw_set ppOf w i it _ _ hw hi (force_K ppOf _ w.env it (hw it hmem)) (force_snap ppOf w.env it)
  | _ => exact hw

theorem exec_KW (srv : Nat → Bytes → List Reply) (ppOf : Int → Nat → Nat) : ∀ (h : List Step) (w : World),
    KW ppOf w → KW ppOf (exec srv ppOf w h) := by
  intro h
  induction h with
  | nil => intro w hw; exact hw
  | cons s rest ih => intro w hw; exact ih _ (step_KW srv ppOf w s hw)

/-- what K says about the rows: always a prefix; an iterator that has ended without an error has them all -/
theorem K_rows (ppOf : Int → Nat → Nat) (T : List Int × List Req × Option Fail) (it : It) (hk : K ppOf T it) :
    it.out <+: T.1 ∧ (finished it → it.cur.err = none → it.out = T.1 ∧ it.reqs.filter Req.isExec = T.2.1) := by
  rcases hk with h | ⟨⟨f, hf⟩, hpre⟩ | ⟨he, hnx, _, hpre⟩
  · refine ⟨?_, ?_⟩
    · rw [← h]; exact ⟨_, rfl⟩
    · intro hfin _
      rw [tot_finished ppOf it hfin] at h
      rw [← h]; exact ⟨rfl, rfl⟩
  · refine ⟨hpre, ?_⟩
    intro _ he; rw [he] at hf; cases hf
  · refine ⟨?_, ?_⟩
    · exact List.IsPrefix.trans ⟨_, rfl⟩ hpre
    · intro hfin _
      unfold finished at hfin
      rcases hfin with h | ⟨_, h⟩
      · rw [he] at h; cases h
      · rw [h] at hnx; cases hnx

end Paging.Hist
