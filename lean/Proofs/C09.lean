import Proofs.C09Murmur
import Proofs.C09Token
import Proofs.C09Parse
/-!
# C09 — partition tokens equal the ones Cassandra computes (property theorems)

Model: `Model/Murmur.lean`, `Model/Token.lean` (hand-written from internal/murmur/murmur.go,
token.go, session.go:createRoutingKey; tied to the source by the differential run of
`harness/cmd/c09`).  Spec: `Murmur.Spec` (Cassandra `MurmurHash.hash3_x64_128`), `Token.Spec`.
-/
namespace C09

/-- Murmur3: hash equality for every key (every length, every tail, bytes ≥ 0x80 included). -/
theorem C09_murmur (data : List UInt8) : Murmur.murmur3H1 data = Murmur.Spec.cassandraH1 data :=
  Murmur.murmur3H1_eq_cassandra data

/-- The hash never reads outside the key: the tail has exactly `len & 15` bytes, and arm `k` of the
    switch (reading `tail[k-1]`) only runs when `len & 15 ≥ k`. -/
theorem C09_murmur_tail_in_bounds (data : List UInt8) :
    (data.drop (data.length / 16 * 16)).length = data.length % 16 := Murmur.tail_len data

/-- FULL STATEMENT (not provable for the unchanged code): `murmur3H1 data = Spec.cassandraToken data`.
    Cassandra's Murmur3Partitioner additionally maps a hash of Long.MIN_VALUE to Long.MAX_VALUE
    (`normalize`); gocql does not.  Proved part: equality whenever the hash is not −2⁶³.
    No key with that hash is known, so the excluded point cannot be replayed on the code. -/
theorem C09_murmur_token_partial (data : List UInt8)
    (h : Murmur.Spec.cassandraH1 data ≠ BitVec.intMin 64) :
    Murmur.murmur3H1 data = Murmur.Spec.cassandraToken data := by
  rw [C09_murmur]; simp [Murmur.Spec.cassandraToken, h]

/-- Random partitioner, every 16-byte digest. -/
theorem C09_random (digest : List UInt8) (h : digest.length = 16) :
    Token.randomToken digest = Token.Spec.randomToken digest := Token.randomToken_eq_spec digest h

theorem C09_random_range (digest : List UInt8) (h : digest.length = 16) :
    0 ≤ Token.randomToken digest ∧ Token.randomToken digest ≤ (2:Int)^127 :=
  Token.randomToken_range digest h

/-- Order-preserving partitioner: unsigned bytewise lexicographic order is a strict total order and
    equal tokens ↔ equal keys. -/
theorem C09_ordered :
    (∀ a, Token.lexLt a a = false) ∧
    (∀ a b c, Token.lexLt a b = true → Token.lexLt b c = true → Token.lexLt a c = true) ∧
    (∀ a b, Token.lexLt a b = true ∨ a = b ∨ Token.lexLt b a = true) ∧
    (∀ a b, a = b ↔ (Token.lexLt a b = false ∧ Token.lexLt b a = false)) :=
  ⟨Token.lexLt_irrefl, Token.lexLt_trans, Token.lexLt_total, Token.lexLt_eq_iff⟩

/-- unsigned comparison: 0x80 sorts after 0x7f (a signed-byte comparison would get this wrong) -/
example : Token.lexLt [0x7f] [0x80] = true ∧ Token.lexLt [0x01] [0x01, 0x00] = true := by decide

/-- Composite routing key is `len16 ‖ bytes ‖ 0` per component and determines the components. -/
theorem C09_routing_composite_injective (as bs : List (List UInt8))
    (ha : ∀ c ∈ as, c.length < 65536) (hb : ∀ c ∈ bs, c.length < 65536)
    (h : Token.composite as = Token.composite bs) : as = bs := Token.composite_injective as bs ha hb h

theorem C09_routing_single (c : List UInt8) : Token.routingKey [c] = c := rfl

example : Token.routingKey [[1], [2, 3]] = [0, 1, 1, 0, 0, 2, 2, 3, 0] := by decide

/-- Token strings: decimal strings of in-range numbers parse to the number, so order is preserved. -/
theorem C09_parse_order (i j : Int)
    (hi : Token.int64Min ≤ i ∧ i ≤ Token.int64Max) (hj : Token.int64Min ≤ j ∧ j ≤ Token.int64Max) :
    (Token.parseInt64 (Token.printInt i) < Token.parseInt64 (Token.printInt j)) ↔ i < j :=
  Token.parse_order i j hi hj

theorem C09_parse_nat (n : Nat) : Token.parseNat (Token.natDigits n) = some n := Token.parseNat_natDigits n

/-- test vectors (labelled as tests): the repo's own vector for "hello", and the empty key -/
example : (Murmur.murmur3H1 [0x68, 0x65, 0x6c, 0x6c, 0x6f]).toInt = -3758069500696749310 := by decide
example : (Murmur.murmur3H1 []).toInt = 0 := by decide

end C09
