import Proofs.C09Murmur
import Proofs.C09Token
import Proofs.C09Parse
import Proofs.C09Routing
import Proofs.C09Names
import Proofs.C09Placed
import Proofs.C09Cache
/-!
# C09 — partition tokens equal the ones Cassandra computes (property theorems)

Model: `Model/Murmur.lean`, `Model/Token.lean` (hand-written from internal/murmur/murmur.go,
token.go, session.go:createRoutingKey; tied to the source by the differential run of
`harness/cmd/c09`).  Spec: `Murmur.Spec` (Cassandra `MurmurHash.hash3_x64_128`), `Token.Spec`.
-/
namespace C09

/-- Murmur3: hash equality for every key (every length, every tail, bytes ≥ 0x80 included). -/
theorem C09_murmur (data : List UInt8) : Murmur.murmur3H1 data = Murmur.Spec.cassandraH1 data :=
  Murmur.murmur3H1_eq_cassandra data

/-- The hash never reads outside the key: the tail has exactly `len & 15` bytes, and arm `k` of the
    switch (reading `tail[k-1]`) only runs when `len & 15 ≥ k`. -/
theorem C09_murmur_tail_in_bounds (data : List UInt8) :
    (data.drop (data.length / 16 * 16)).length = data.length % 16 := Murmur.tail_len data

/-- FULL STATEMENT (not provable for the unchanged code): `murmur3H1 data = Spec.cassandraToken data`.
    Cassandra's Murmur3Partitioner additionally maps a hash of Long.MIN_VALUE to Long.MAX_VALUE
    (`normalize`); gocql does not.  Proved part: equality whenever the hash is not −2⁶³.
    No key with that hash is known, so the excluded point cannot be replayed on the code. -/
theorem C09_murmur_token_partial (data : List UInt8)
    (h : Murmur.Spec.cassandraH1 data ≠ BitVec.intMin 64) :
    Murmur.murmur3H1 data = Murmur.Spec.cassandraToken data := by
  rw [C09_murmur]; simp [Murmur.Spec.cassandraToken, h]

/-- Random partitioner, every 16-byte digest. -/
theorem C09_random (digest : List UInt8) (h : digest.length = 16) :
    Token.randomToken digest = Token.Spec.randomToken digest := Token.randomToken_eq_spec digest h

theorem C09_random_range (digest : List UInt8) (h : digest.length = 16) :
    0 ≤ Token.randomToken digest ∧ Token.randomToken digest ≤ (2:Int)^127 :=
  Token.randomToken_range digest h

/-- **Random partitioner on the KEY**, every key of every length: with `md5.Sum` = RFC 1321 (Model/MD5.lean, an
    executable specification tied to crypto/md5 by the differential op `randomk` and checked against the RFC's test
    suite below), the token is the absolute value of the digest read as a signed 128-bit integer, in 0 … 2^127. -/
theorem C09_random_of_key (key : List UInt8) :
    Token.randomTokenOfKey key = Token.Spec.randomToken (MD5.sum key) ∧
    0 ≤ Token.randomTokenOfKey key ∧ Token.randomTokenOfKey key ≤ (2:Int)^127 := by
  have h16 : (MD5.sum key).length = 16 := by simp [MD5.sum, MD5.out32, MD5.lenBytes]
  exact ⟨C09_random _ h16, C09_random_range _ h16⟩

/-- RFC 1321 appendix A.5 test suite ("", "a", "abc", "message digest", and the 80-digit message: two chunks) -/
example : MD5.sum [] = [0xd4,0x1d,0x8c,0xd9,0x8f,0x00,0xb2,0x04,0xe9,0x80,0x09,0x98,0xec,0xf8,0x42,0x7e] := by decide +kernel
example : MD5.sum [0x61] = [0x0c,0xc1,0x75,0xb9,0xc0,0xf1,0xb6,0xa8,0x31,0xc3,0x99,0xe2,0x69,0x77,0x26,0x61] := by decide +kernel
example : MD5.sum [0x61,0x62,0x63] = [0x90,0x01,0x50,0x98,0x3c,0xd2,0x4f,0xb0,0xd6,0x96,0x3f,0x7d,0x28,0xe1,0x7f,0x72] := by decide +kernel
example : MD5.sum [0x6d,0x65,0x73,0x73,0x61,0x67,0x65,0x20,0x64,0x69,0x67,0x65,0x73,0x74]
    = [0xf9,0x6b,0x69,0x7d,0x7c,0xb7,0x93,0x8d,0x52,0x5a,0x2f,0x31,0xaa,0xf1,0x61,0xd0] := by decide +kernel
example : MD5.sum ((List.replicate 8 [0x31,0x32,0x33,0x34,0x35,0x36,0x37,0x38,0x39,0x30]).flatten)
    = [0x57,0xed,0xf4,0xa2,0x2b,0xe3,0xc9,0x55,0xac,0x49,0xda,0x2e,0x21,0x07,0xb6,0x7a] := by decide +kernel
/-- a key whose digest is negative as a signed integer ("a": 0x0c… is positive; "abc": 0x90… is negative) -/
example : Token.randomTokenOfKey [0x61,0x62,0x63] = 148866708576779697295343134153845407886 := by decide +kernel

/-- Order-preserving partitioner: unsigned bytewise lexicographic order is a strict total order and
    equal tokens ↔ equal keys. -/
theorem C09_ordered :
    (∀ a, Token.lexLt a a = false) ∧
    (∀ a b c, Token.lexLt a b = true → Token.lexLt b c = true → Token.lexLt a c = true) ∧
    (∀ a b, Token.lexLt a b = true ∨ a = b ∨ Token.lexLt b a = true) ∧
    (∀ a b, a = b ↔ (Token.lexLt a b = false ∧ Token.lexLt b a = false)) :=
  ⟨Token.lexLt_irrefl, Token.lexLt_trans, Token.lexLt_total, Token.lexLt_eq_iff⟩

/-- unsigned comparison: 0x80 sorts after 0x7f (a signed-byte comparison would get this wrong) -/
example : Token.lexLt [0x7f] [0x80] = true ∧ Token.lexLt [0x01] [0x01, 0x00] = true := by decide

/-- Composite routing key is `len16 ‖ bytes ‖ 0` per component and determines the components. -/
theorem C09_routing_composite_injective (as bs : List (List UInt8))
    (ha : ∀ c ∈ as, c.length < 65536) (hb : ∀ c ∈ bs, c.length < 65536)
    (h : Token.composite as = Token.composite bs) : as = bs := Token.composite_injective as bs ha hb h

theorem C09_routing_single (c : List UInt8) : Token.routingKey [c] = c := rfl

example : Token.routingKey [[1], [2, 3]] = [0, 1, 1, 0, 0, 2, 2, 3, 0] := by decide

/-- **The routing key is DEFINED, with exactly Cassandra's framing, for every component list whose components have at
    most 65535 bytes** (the whole range of the unsigned [short] length - 32768 … 65535 included; any number of
    components; one component ↦ the value itself, of any length): what `createRoutingKey` builds is
    `Spec.routingKey` = per component the length as an unsigned 16-bit big-endian number, the bytes, a 0 byte.
    `Token.routingKey` is a total function: there is no outcome "error" or "no key" for encodable components
    (ops rksz; the outcome kind is part of the answer). -/
theorem C09_routing_key_framing (cs : List (List UInt8)) (h : ∀ c ∈ cs, c.length ≤ 65535) :
    Token.routingKey cs = Token.Spec.routingKey cs := Token.routingKey_eq_spec cs h

/-- the recorded limitation above 65535 bytes (a table cannot hold such a key: Cassandra refuses it): the length field
    is the length modulo 65536 (op rkszx: model-vs-code) -/
theorem C09_routing_length_wraps_above_65535 (c : List UInt8) (cs : List (List UInt8)) :
    Token.composite (c :: cs) = Token.be16 (c.length % 65536) ++ c ++ [0] ++ Token.composite cs := rfl

example : Token.Spec.routingKey [[1], [2, 3]] = [0, 1, 1, 0, 0, 2, 2, 3, 0] ∧ Token.Spec.routingKey [[7, 7]] = [7, 7] := by decide
/-- a component of 32768 bytes: the length bytes are 80 00 (unsigned), not an error and not a negative number -/
example : (Token.Spec.routingKey [List.replicate 32768 1, []]).take 3 = [0x80, 0x00, 1] := by decide +kernel

/-- Token strings: decimal strings of in-range numbers parse to the number, so order is preserved. -/
theorem C09_parse_order (i j : Int)
    (hi : Token.int64Min ≤ i ∧ i ≤ Token.int64Max) (hj : Token.int64Min ≤ j ∧ j ≤ Token.int64Max) :
    (Token.parseInt64 (Token.printInt i) < Token.parseInt64 (Token.printInt j)) ↔ i < j :=
  Token.parse_order i j hi hj

/-- the token string of every int64 parses to that number (ops parsem, lessm on valid strings) -/
theorem C09_parse_roundtrip (i : Int) (hlo : Token.int64Min ≤ i) (hhi : i ≤ Token.int64Max) :
    Token.parseInt64 (Token.printInt i) = i := Token.parseInt64_printInt i hlo hhi

theorem C09_parse_nat (n : Nat) : Token.parseNat (Token.natDigits n) = some n := Token.parseNat_natDigits n

/-- RandomPartitioner token strings (`big.Int.SetString(s, 10)`): the decimal string of EVERY integer - no size bound:
    Cassandra's range 0 … 2^127, the minimum token -1, anything beyond a machine word - parses to that integer, so
    `Less` (`big.Int.Cmp`) on parsed tokens is `<` on the denoted numbers (ops parser, lessr) -/
theorem C09_parse_big (i j : Int) :
    Token.parseBig (Token.printInt i) = some i ∧
    (∀ x y, Token.parseBig (Token.printInt i) = some x → Token.parseBig (Token.printInt j) = some y → (x < y ↔ i < j)) := by
  refine ⟨Token.parseBig_printInt i, ?_⟩
  intro x y hx hy
  rw [Token.parseBig_printInt] at hx hy
  cases hx; cases hy; exact Iff.rfl

example : Token.parseBig (Token.printInt (-1)) = some (-1) ∧
    Token.parseBig ['1','7','0','1','4','1','1','8','3','4','6','0','4','6','9','2','3','1','7','3','1','6','8','7','3','0','3','7','1','5','8','8','4','1','0','5','7','2','8']
      = some (2^127) := by decide

/-- **Which partitioner.** For EVERY package prefix, the class names Cassandra reports select the partitioner whose
    hash / order the theorems above are about: `…Murmur3Partitioner` ↦ Murmur3, `…RandomPartitioner` ↦ Random,
    `…ByteOrderedPartitioner` ↦ the order-preserving (bytewise) one; `…OrderPreservingPartitioner` (tokens are strings
    under a collation, not bytes) is refused (op part; newTokenRing then reports "unsupported partitioner" and the
    driver routes without tokens). -/
theorem C09_partitioner_selection (pkg : List Char) :
    Token.selectPartitioner (pkg ++ Token.nameMurmur3) = some .murmur3 ∧
    Token.selectPartitioner (pkg ++ Token.nameRandom) = some .random ∧
    Token.selectPartitioner (pkg ++ 'B' :: 'y' :: 't' :: 'e' :: Token.nameOrdered) = some .ordered ∧
    Token.selectPartitioner (pkg ++ ['O','r','d','e','r','P','r','e','s','e','r','v','i','n','g','P','a','r','t','i','t','i','o','n','e','r']) = none :=
  ⟨Token.select_murmur3 pkg, Token.select_random pkg, Token.select_byteOrdered pkg, Token.select_orderPreserving pkg⟩

example : Token.selectPartitioner ['R','a','n','d','o','m','P','a','r','t','i','t','i','o','n','e','r'] = some .random ∧
    Token.selectPartitioner ['r','a','n','d','o','m','P','a','r','t','i','t','i','o','n','e','r'] = none := by decide


/-! ## routing key from the metadata of the prepared statement (session.go routingKeyInfo + createRoutingKey) -/

section RoutingFromMetadata
open Routing
variable {τ ν : Type}

/-- **Routing key from the prepared metadata (protocol ≥ 4 branch).** For EVERY statement shape — any number of
    bind markers, the partition-key markers `m.pkeys` anywhere among them and in any order (first, last, interleaved,
    permuted), any column types — whenever the value bound to each key marker encodes (with the type of THAT marker's
    column) to a byte string, `GetRoutingKey` is the raw value (one key column) or the CompositeType framing (several)
    of exactly those encodings in partition-key order. `enc` is gocql.Marshal (C02/C12). -/
theorem C09_routing_from_metadata (enc : τ → ν → Enc) (m : Meta τ) (schema : Option (List String))
    (vals : List ν) (cs : List Bytes)
    (hpk : m.pkeys ≠ []) (h : Spec.components enc m.cols vals m.pkeys = some cs) :
    getRoutingKey enc m schema vals = .key (some (Token.routingKey cs)) := by
  obtain ⟨ts, hts, hloop⟩ := compositeLoop_spec enc m.cols vals m.pkeys cs h
  cases hp : m.pkeys with
  | nil => exact absurd hp hpk
  | cons i is =>
    rw [hp] at h hts hloop
    -- the statement has bind markers
    have hcols : m.cols.isEmpty = false := by
      unfold Spec.components at h
      split at h
      · rename_i c _ hc _
        obtain ⟨col, _, hcol, _, _⟩ := component_some hc
        cases hm : m.cols with
        | nil => simp [hm] at hcol
        | cons _ _ => rfl
      · simp at h
    simp only [getRoutingKey, routingKeyInfo, hcols, hp, hts, List.isEmpty_cons, Bool.not_false,
      Bool.false_eq_true, if_false, if_true]
    rw [createRoutingKey_eq_core enc ⟨i :: is, ts, m.keyspace, m.table⟩ vals
      (compositeLoop_key_bound enc vals (i :: is) ts [] _ (hloop []))]
    cases is with
    | nil =>
      unfold Spec.components at h
      split at h
      · rename_i c cs' hc hcs
        simp [Spec.components] at hcs h
        subst hcs; subst h
        obtain ⟨col, hcol, he⟩ := encAt_of_component hc
        simp [typesAt, hcol] at hts
        subst hts
        simp [createRoutingKeyCore, he, Token.routingKey]
      · simp at h
    | cons j js =>
      have hl : ∃ c1 c2 cs', cs = c1 :: c2 :: cs' := by
        unfold Spec.components at h
        split at h
        · rename_i c cs' hc hcs
          unfold Spec.components at hcs
          split at hcs
          · simp at hcs h; subst hcs; subst h; exact ⟨_, _, _, rfl⟩
          · simp at hcs
        · simp at h
      obtain ⟨c1, c2, cs', hcs⟩ := hl
      simp only [createRoutingKeyCore]
      rw [hloop []]
      subst hcs
      simp [Token.routingKey]

/-- …so through `Query.GetRoutingKey` / `Batch.GetRoutingKey` the outcome is A KEY - the specification's framing - whenever
    every key component encodes to at most 65535 bytes -/
theorem C09_routing_defined_upto_65535 (enc : τ → ν → Enc) (m : Meta τ) (schema : Option (List String))
    (vals : List ν) (cs : List Bytes)
    (hpk : m.pkeys ≠ []) (h : Spec.components enc m.cols vals m.pkeys = some cs) (hlen : ∀ c ∈ cs, c.length ≤ 65535) :
    getRoutingKey enc m schema vals = .key (some (Token.Spec.routingKey cs)) := by
  rw [C09_routing_from_metadata enc m schema vals cs hpk h, Token.routingKey_eq_spec cs hlen]

/-- **The same when the key columns come from the schema metadata** (protocol ≤ 3, or no pk indexes in the PREPARE
    answer): each key column is the FIRST bind marker whose column has that name. -/
theorem C09_routing_from_schema (enc : τ → ν → Enc) (m : Meta τ) (names : List String)
    (vals : List ν) (cs : List Bytes)
    (hpk : m.pkeys = []) (hne : m.cols ≠ [])
    (h : Spec.componentsByName enc m.cols vals names = some cs) :
    getRoutingKey enc m (some names) vals = .key (some (Token.routingKey cs)) := by
  obtain ⟨is, ts, hb, hlen, hloop, hsingle⟩ := compositeLoop_byName enc m.cols vals names cs h
  have hclen := componentsByName_length enc m.cols vals names cs h
  have hcols : m.cols.isEmpty = false := by
    cases hm : m.cols with
    | nil => exact absurd hm hne
    | cons _ _ => rfl
  simp only [getRoutingKey, routingKeyInfo, hcols, hpk, hb, List.isEmpty_nil, Bool.not_true,
    Bool.false_eq_true, if_false]
  rw [createRoutingKey_eq_core enc ⟨is, ts, m.keyspace, m.table⟩ vals
    (compositeLoop_key_bound enc vals is ts [] _ (hloop []))]
  match is, cs, hlen, hclen, hloop, hsingle with
  | [], [], _, _, hloop, _ =>
    simp only [createRoutingKeyCore]
    rw [hloop []]; simp [Token.routingKey]
  | [i], [c], _, _, _, hsingle =>
    obtain ⟨t, hts, he⟩ := hsingle i c rfl rfl
    subst hts
    simp [createRoutingKeyCore, he, Token.routingKey]
  | i :: j :: is', c1 :: c2 :: cs', _, _, hloop, _ =>
    simp only [createRoutingKeyCore]
    rw [hloop []]; simp [Token.routingKey]
  | [], _ :: _, h1, h2, _, _ => simp at h1 h2; omega
  | [_], [], h1, h2, _, _ => simp at h1 h2; omega
  | [_], _ :: _ :: _, h1, h2, _, _ => simp at h1 h2; omega
  | _ :: _ :: _, [], h1, h2, _, _ => simp at h1 h2; omega
  | _ :: _ :: _, [_], h1, h2, _, _ => simp at h1 h2; omega


/-- a partition key column that no marker binds: no routing key (and no error) -/
theorem C09_routing_schema_missing (enc : τ → ν → Enc) (m : Meta τ) (names : List String) (vals : List ν)
    (name : String) (hpk : m.pkeys = []) (hmem : name ∈ names) (hmiss : ∀ c ∈ m.cols, c.name ≠ name) :
    getRoutingKey enc m (some names) vals = .nokey := by
  have hb := byName_none_of_missing m.cols names name hmem hmiss
  simp only [getRoutingKey, routingKeyInfo, hpk, hb, List.isEmpty_nil, Bool.not_true, Bool.false_eq_true, if_false,
    ite_self]

/-- The position of the key markers in the statement is irrelevant: two statements (any marker order / count)
    whose key components are the same values with the same column types have the same routing key. -/
theorem C09_routing_marker_order (enc : τ → ν → Enc) (m₁ m₂ : Meta τ) (s₁ s₂ : Option (List String))
    (v₁ v₂ : List ν) (cs : List Bytes) (h₁ : m₁.pkeys ≠ []) (h₂ : m₂.pkeys ≠ [])
    (c₁ : Spec.components enc m₁.cols v₁ m₁.pkeys = some cs)
    (c₂ : Spec.components enc m₂.cols v₂ m₂.pkeys = some cs) :
    getRoutingKey enc m₁ s₁ v₁ = getRoutingKey enc m₂ s₂ v₂ := by
  rw [C09_routing_from_metadata enc m₁ s₁ v₁ cs h₁ c₁, C09_routing_from_metadata enc m₂ s₂ v₂ cs h₂ c₂]

end RoutingFromMetadata

/-- **The partition key order used by the schema branch**: metadata.go builds `TableMetadata.PartitionKey` from the rows
    of the schema's columns table — whatever order they arrive in (the server sorts them by column name) — so that the
    key column with position `p` is the `p`-th component, given distinct positions. -/
theorem C09_schema_partition_key {α : Type} (pk : List (α × Nat)) (hnd : (pk.map (·.2)).Nodup) :
    (Routing.schemaPartitionKey pk).length = Routing.pkCount pk ∧
    ∀ n p, (n, p) ∈ pk → (Routing.schemaPartitionKey pk)[p]? = some (some n) := by
  refine ⟨by simp [Routing.schemaPartitionKey, Routing.place_length], ?_⟩
  intro n p h
  exact Routing.place_get pk _ hnd (by intro x hx; simpa using Routing.pkCount_gt pk x hx) (n, p) h

example : Routing.schemaPartitionKey [("b", 1), ("z", 2), ("a", 0)] = [some "a", some "b", some "z"] := by decide

/-- non-vacuity / test vector (toy encoder: a value is its own encoding; the column type is a length to pad to):
    `UPDATE t SET v = ? WHERE id = ?` with v "bigint" (8), id "int" (4): the key is the id value as a 4-byte int -/
def toyEnc (w : Nat) (v : List UInt8) : Routing.Enc := .ok (some (List.replicate (w - v.length) 0 ++ v))
example : Routing.getRoutingKey toyEnc ⟨[⟨"v", 8⟩, ⟨"id", 4⟩], [1], "ks", "t"⟩ none [[99], [7]] = .key (some [0, 0, 0, 7]) := by decide
example : Routing.getRoutingKey toyEnc ⟨[⟨"v", 8⟩, ⟨"b", 2⟩, ⟨"a", 4⟩], [2, 1], "ks", "t"⟩ none [[99], [1, 2], [5]]
    = .key (some [0, 4, 0, 0, 0, 5, 0, 0, 2, 1, 2, 0]) := by decide
example : Routing.getRoutingKey toyEnc ⟨[⟨"v", 8⟩, ⟨"id", 4⟩], [], "ks", "t"⟩ (some ["id"]) [[99], [7]] = .key (some [0, 0, 0, 7]) := by decide
example : Routing.getRoutingKey toyEnc ⟨[⟨"v", 8⟩, ⟨"id", 4⟩], [], "ks", "t"⟩ (some ["id", "c"]) [[99], [7]] = .nokey := by decide

/-- REGRESSION (KF-C09-1, repaired by props/C09.fix-KF-C09-1.diff): a statement `… SET v = ? WHERE id = ?` (key marker 1)
    executed with ONE bound value. The unrepaired `createRoutingKey` indexed `values[1]` - a run-time panic in the
    caller's goroutine; now it is the error outcome (replay: `rkm 4 1 q 1 1 0 0 2 | v bigint | id int | 1 1 | i int64 99`
    ↦ err:values). -/
theorem C09_short_values_regression :
    Routing.getRoutingKey toyEnc ⟨[⟨"v", 8⟩, ⟨"id", 4⟩], [1], "ks", "t"⟩ none [[99]] = .errValues := by decide

section RoutingTotal
open Routing
variable {τ ν : Type}

theorem typesAt_length (cols : List (Col τ)) : ∀ (is : List Nat) (ts : List τ), typesAt cols is = some ts → ts.length = is.length
  | [], ts, h => by simp [typesAt] at h; subst h; rfl
  | i :: is, ts, h => by
    unfold typesAt at h
    cases hc : cols[i]? with
    | none => simp [hc] at h
    | some c =>
      cases hr : typesAt cols is with
      | none => simp [hc, hr] at h
      | some ts' =>
        simp [hc, hr] at h; subst h
        simp [typesAt_length cols is ts' hr]

theorem byName_length (cols : List (Col τ)) : ∀ (ns : List String) (is : List Nat) (ts : List τ),
    byName cols ns = some (is, ts) → ts.length = is.length
  | [], is, ts, h => by simp [byName] at h; obtain ⟨h1, h2⟩ := h; subst h1; subst h2; rfl
  | n :: ns, is, ts, h => by
    unfold byName at h
    cases hf : findBound n cols 0 with
    | none => simp [hf] at h
    | some p =>
      obtain ⟨i, t⟩ := p
      cases hr : byName cols ns with
      | none => simp [hf, hr] at h
      | some q =>
        obtain ⟨is', ts'⟩ := q
        simp [hf, hr] at h
        obtain ⟨h1, h2⟩ := h; subst h1; subst h2
        simp [byName_length cols ns is' ts' hr]

/-- **Fewer bound values than key markers: an error, on both paths.** Whatever produced the routing info (the pk indexes
    of the PREPARE answer or the schema metadata): if some partition-key marker has no bound value, `GetRoutingKey`
    answers the error outcome - before marshalling anything, whatever the other values are. -/
theorem C09_routing_short_values (enc : τ → ν → Enc) (m : Meta τ) (schema : Option (List String)) (vals : List ν)
    (info : Info τ) (hinfo : routingKeyInfo m schema = .info info) (i : Nat) (hi : i ∈ info.indexes)
    (hshort : vals.length ≤ i) : getRoutingKey enc m schema vals = .errValues := by
  simp only [getRoutingKey, hinfo]
  exact createRoutingKey_short enc info vals i hi hshort

/-- **`GetRoutingKey` is total (no index panic), for EVERY statement shape and EVERY list of bound values** - shorter,
    longer or of the right length: unless Marshal itself panics or the PREPARE answer is malformed (a partition-key
    index that is no marker), the outcome is a key, no key, or an error. -/
theorem C09_routing_total (enc : τ → ν → Enc) (m : Meta τ) (schema : Option (List String)) (vals : List ν)
    (hen : ∀ t v, enc t v ≠ .crash) (hwf : routingKeyInfo m schema ≠ .crash) :
    getRoutingKey enc m schema vals ≠ .crash := by
  unfold getRoutingKey
  cases hr : routingKeyInfo m schema with
  | none => simp
  | errMeta => simp
  | crash => exact absurd hr hwf
  | info info =>
    simp only
    apply createRoutingKey_no_crash enc info vals hen
    unfold routingKeyInfo at hr
    split at hr
    · simp at hr
    · split at hr
      · split at hr
        · rename_i ts hts
          simp at hr; subst hr
          simp [typesAt_length _ _ _ hts]
        · simp at hr
      · split at hr
        · simp at hr
        · split at hr
          · rename_i is ts hb
            simp at hr; subst hr
            simp [byName_length _ _ _ _ hb]
          · simp at hr

example : Routing.getRoutingKey toyEnc ⟨[⟨"v", 8⟩, ⟨"id", 4⟩], [], "ks", "t"⟩ (some ["id"]) [[99]] = .errValues := by decide

end RoutingTotal


/-! ## name / index resolution between partition-key columns and bind markers (session.go routingKeyInfo, both paths) -/

section NameResolution
open RoutingNames
variable {α τ ν β : Type} [DecidableEq α]

/-- **The resolution is exact.** For ALL lists of partition-key column names and bind-marker names (any alphabet:
    `α` is any type with decidable equality, the driver uses the BYTES of the identifiers, so case variants, quoted
    identifiers, names that are prefixes of each other are simply different names): `resolve` answers `is` iff `is` has
    one index per key column, in partition-key order, the marker at `is[k]` is named exactly `pk[k]`, and no earlier
    marker is (the same column bound twice: the first marker counts). -/
theorem C09_resolve_exact (pk markers : List α) (is : List Nat) :
    resolve pk markers = some is ↔ Spec.Resolves markers pk is := resolve_iff markers pk is

/-- the specification, pointwise -/
theorem C09_resolve_pointwise (pk markers : List α) (is : List Nat) (h : resolve pk markers = some is) :
    is.length = pk.length ∧
    ∀ (k : Nat) (n : α) (i : Nat), pk[k]? = some n → is[k]? = some i →
      markers[i]? = some n ∧ ∀ j : Nat, j < i → markers[j]? ≠ some n :=
  ⟨resolve_length markers pk is h, resolves_get markers pk is ((resolve_iff markers pk is).mp h)⟩

/-- **THE marker.** When no two markers bind the same column (distinct marker names), any index list that names the
    key columns exactly (byte-equal, in key order) IS what `resolve` answers: the marker of a key column is unique. -/
theorem C09_resolve_the_marker (pk markers : List α) (is : List Nat) (hnd : markers.Nodup)
    (hlen : is.length = pk.length)
    (h : ∀ (k : Nat) (n : α) (i : Nat), pk[k]? = some n → is[k]? = some i → markers[i]? = some n) :
    resolve pk markers = some is :=
  (resolve_iff markers pk is).mpr (resolves_of_exact markers hnd pk is hlen h)

/-- no resolution iff some key column is not bound by any marker (byte-equal name) -/
theorem C09_resolve_unbound (pk markers : List α) :
    resolve pk markers = none ↔ ∃ n ∈ pk, n ∉ markers := resolve_none_iff markers pk

/-- the loops of the code (index and type found together) compute `resolve` on the names, with the types of the
    resolved markers -/
theorem C09_resolve_is_code (ms : List (Marker α τ)) (pk : List α) :
    (byName ms pk).map (·.1) = resolve pk (ms.map (·.name)) ∧
    ∀ is ts, byName ms pk = some (is, ts) → typesAt ms is = some ts := by
  refine ⟨?_, fun is ts h => (byName_some ms pk is ts h).2⟩
  cases hb : byName ms pk with
  | none => simp [byName_none ms pk hb]
  | some q => obtain ⟨is, ts⟩ := q; simp [(byName_some ms pk is ts hb).1]

/-- the model of op rkm (names as `String`) is the same function -/
theorem C09_resolve_agrees_rkm (cols : List (Routing.Col τ)) (names : List String) :
    (Routing.byName cols names).map (·.1) = resolve names (cols.map (·.name)) := by
  rw [byName_eq_routing, (C09_resolve_is_code _ names).1]
  simp [Function.comp_def]

/-- Go map lookup (`schemaDescriber.cache[keyspace]`, `keyspaceMetadata.Tables[table]`): the entry with the byte-equal
    key, whatever other keys (case variants …) the map holds -/
theorem C09_lookup_exact (k : α) (l : List (α × β)) (hnd : (l.map (·.1)).Nodup) :
    (∀ v, lookup k l = some v ↔ (k, v) ∈ l) ∧ (lookup k l = none ↔ ∀ p ∈ l, p.1 ≠ k) :=
  ⟨fun v => ⟨lookup_mem k l v, lookup_of_mem k l v hnd⟩, lookup_none k l⟩

/-- **Routing key by exact names (schema path: protocol ≤ 3, or no pk indexes in the PREPARE answer).** Whatever
    keyspaces the schema cache holds and whatever tables the keyspace has (distinct keys, as in a Go map), when the
    statement's keyspace and table are there (byte-equal names), the table's partition key is `pk` (as compiled from
    the schema rows, `C09_schema_partition_key`), `is` resolves `pk` against the marker names
    (`Spec.Resolves`: exact names, first marker) and the values bound at those markers encode with the types of THOSE
    markers to `cs`, then `GetRoutingKey` is the raw value / the CompositeType framing of `cs` in partition-key order, and its
    Murmur3 token is the one Cassandra computes for that key. -/
theorem C09_routing_exact_name (enc : τ → ν → Routing.Enc) (st : Stmt α τ) (cache : Cache α) (tables : Keyspace α)
    (rows : Table α) (pk : List α) (is : List Nat) (vals : List ν) (cs : List Routing.Bytes)
    (hpk : st.pkeys = []) (hne : st.markers ≠ []) (hkey : pk ≠ [])
    (hc : (cache.map (·.1)).Nodup) (hks : (st.keyspace, tables) ∈ cache)
    (ht : (tables.map (·.1)).Nodup) (htb : (st.table, rows) ∈ tables)
    (hrows : (Routing.schemaPartitionKey rows).mapM id = some pk)
    (hres : Spec.Resolves (st.markers.map (·.name)) pk is)
    (hcomp : Spec.components enc st.markers vals is = some cs) :
    getRoutingKey enc st cache vals = .res (.key (some (Token.routingKey cs))) ∧
    Murmur.murmur3H1 (Token.routingKey cs) = Murmur.Spec.cassandraH1 (Token.routingKey cs) := by
  refine ⟨?_, C09_murmur _⟩
  have hr := (resolve_iff (st.markers.map (·.name)) pk is).mpr hres
  obtain ⟨ts, hb, hts⟩ := byName_of_resolve st.markers pk is hr
  have hm : st.markers.isEmpty = false := by
    cases h : st.markers with
    | nil => exact absurd h hne
    | cons _ _ => rfl
  have hisne : is ≠ [] := by
    intro e; subst e
    have := resolve_length _ pk [] hr
    cases pk with
    | nil => exact hkey rfl
    | cons _ _ => simp at this
  simp only [getRoutingKey, routingKeyInfo, hm, hpk, lookup_of_mem _ cache tables hc hks,
    lookup_of_mem _ tables rows ht htb, hrows, hb, List.isEmpty_nil, Bool.not_true, Bool.false_eq_true, if_false]
  rw [createRoutingKey_spec enc st.markers vals is ts cs "" "" hisne hts hcomp]

/-- a partition-key column that no marker binds under exactly that name: no routing key and no error — in particular
    a marker whose name differs only in case does NOT bind it -/
theorem C09_routing_exact_name_unbound (enc : τ → ν → Routing.Enc) (st : Stmt α τ) (cache : Cache α)
    (tables : Keyspace α) (rows : Table α) (pk : List α) (vals : List ν) (n : α)
    (hpk : st.pkeys = []) (hne : st.markers ≠ [])
    (hc : (cache.map (·.1)).Nodup) (hks : (st.keyspace, tables) ∈ cache)
    (ht : (tables.map (·.1)).Nodup) (htb : (st.table, rows) ∈ tables)
    (hrows : (Routing.schemaPartitionKey rows).mapM id = some pk)
    (hn : n ∈ pk) (hmiss : ∀ m ∈ st.markers, m.name ≠ n) :
    getRoutingKey enc st cache vals = .res .nokey := by
  have hm : st.markers.isEmpty = false := by
    cases h : st.markers with
    | nil => exact absurd h hne
    | cons _ _ => rfl
  have hr : resolve pk (st.markers.map (·.name)) = none :=
    (resolve_none_iff _ pk).mpr ⟨n, hn, by simpa using hmiss⟩
  have hb : byName st.markers pk = none := by
    cases h : byName st.markers pk with
    | none => rfl
    | some q => obtain ⟨is, ts⟩ := q; rw [(byName_some st.markers pk is ts h).1] at hr; simp at hr
  simp only [getRoutingKey, routingKeyInfo, hm, hpk, lookup_of_mem _ cache tables hc hks,
    lookup_of_mem _ tables rows ht htb, hrows, hb, List.isEmpty_nil, Bool.not_true, Bool.false_eq_true, if_false]

/-- the statement's table is not in the keyspace metadata under exactly that name (other spellings may be): ErrNoMetadata -/
theorem C09_routing_table_missing (enc : τ → ν → Routing.Enc) (st : Stmt α τ) (cache : Cache α)
    (tables : Keyspace α) (vals : List ν)
    (hpk : st.pkeys = []) (hne : st.markers ≠ [])
    (hc : (cache.map (·.1)).Nodup) (hks : (st.keyspace, tables) ∈ cache)
    (hmiss : ∀ p ∈ tables, p.1 ≠ st.table) :
    getRoutingKey enc st cache vals = .res .errMeta := by
  have hm : st.markers.isEmpty = false := by
    cases h : st.markers with
    | nil => exact absurd h hne
    | cons _ _ => rfl
  simp only [getRoutingKey, routingKeyInfo, hm, hpk, lookup_of_mem _ cache tables hc hks,
    (lookup_none st.table tables).mpr hmiss, List.isEmpty_nil, Bool.not_true, Bool.false_eq_true, if_false]

/-- **Protocol ≥ 4: the partition-key bind indexes of the PREPARE answer decide**, whatever the marker names and the
    schema cache are: the key is built from the values at exactly those markers (each encoded with the type of ITS
    marker), in the order of the indexes. -/
theorem C09_routing_pk_indexes (enc : τ → ν → Routing.Enc) (st : Stmt α τ) (cache : Cache α) (vals : List ν)
    (cs : List Routing.Bytes) (hpk : st.pkeys ≠ [])
    (hcomp : Spec.components enc st.markers vals st.pkeys = some cs) :
    getRoutingKey enc st cache vals = .res (.key (some (Token.routingKey cs))) ∧
    Murmur.murmur3H1 (Token.routingKey cs) = Murmur.Spec.cassandraH1 (Token.routingKey cs) := by
  refine ⟨?_, C09_murmur _⟩
  obtain ⟨ts, hts, _, _, _⟩ := compositeLoop_spec enc st.markers vals st.pkeys cs hcomp
  have hm : st.markers.isEmpty = false := by
    cases hp : st.pkeys with
    | nil => exact absurd hp hpk
    | cons i is =>
      rw [hp] at hcomp
      unfold Spec.components at hcomp
      split at hcomp
      · rename_i c _ hc _
        obtain ⟨m, hmm, _⟩ := component_some hc
        cases h : st.markers with
        | nil => simp [h] at hmm
        | cons _ _ => rfl
      · simp at hcomp
  have hp : st.pkeys.isEmpty = false := by
    cases h : st.pkeys with
    | nil => exact absurd h hpk
    | cons _ _ => rfl
  simp only [getRoutingKey, routingKeyInfo, hm, hp, hts, Bool.not_false, Bool.false_eq_true, if_false, if_true]
  rw [createRoutingKey_spec enc st.markers vals st.pkeys ts cs "" "" hpk hts hcomp]

/-- test vectors (names as byte strings; "ID" = 49 44, "id" = 69 64): `UPDATE t SET id = ? WHERE "ID" = ?` binds the
    key column "ID" at marker 1; `… WHERE k = ? AND "K" = ?` with key ("K", k) resolves to markers (1, 0); a key column
    that is only bound under another spelling is not bound; prefixes are different names; the first of two markers counts -/
example : resolve [[0x49, 0x44]] [[0x69, 0x64], [0x49, 0x44]] = some [1] := by decide
example : resolve [[0x4b], [0x6b]] [[0x6b], [0x4b]] = some [1, 0] := by decide
example : resolve [[0x49, 0x44]] [[0x69, 0x64], [0x49, 0x64]] = (none : Option (List Nat)) := by decide
example : resolve ["k1", "k"] ["k10", "k", "k1", "k"] = some [2, 1] := by decide
example : getRoutingKey toyEnc ⟨[⟨"id", 4⟩, ⟨"ID", 4⟩], [], "ks", "t"⟩
    [("KS", [("t", [("id", 0)])]), ("ks", [("T", [("id", 0)]), ("t", [("ID", 0)])])] [[7], [42]]
    = .res (.key (some [0, 0, 0, 42])) := by decide

/-- the specification tells the spellings apart: marker 0 (`id`) does not carry the key column `ID`; a resolver that
    compares names case-insensitively (seeded change C09-7) answers `[0]` here -/
example : ¬ Spec.Resolves ["id", "ID"] ["ID"] [0] := by simp [Spec.Resolves]
example : Spec.Resolves ["id", "ID"] ["ID"] [1] := by
  refine ⟨⟨rfl, ?_⟩, trivial⟩
  intro j hj; have : j = 0 := by omega
  subst this; simp

end NameResolution

/-! ## token order -/

/-- `Less` on tokens hashed from keys orders like Cassandra's `Long.compare` of its own hashes -/
theorem C09_murmur_order (a b : List UInt8) :
    ((Murmur.murmur3H1 a).toInt < (Murmur.murmur3H1 b).toInt) ↔
    ((Murmur.Spec.cassandraH1 a).toInt < (Murmur.Spec.cassandraH1 b).toInt) := by
  rw [C09_murmur a, C09_murmur b]

/-- RandomPartitioner token strings: decimal strings of naturals order like the naturals -/
theorem C09_parse_order_nat (m n : Nat) :
    (∃ x y, Token.parseNat (Token.natDigits m) = some x ∧ Token.parseNat (Token.natDigits n) = some y ∧ (x < y ↔ m < n)) :=
  ⟨m, n, Token.parseNat_natDigits m, Token.parseNat_natDigits n, Iff.rfl⟩

/-- The token ring order (`newTokenRing`: `sort.Sort` by `token.Less`) is THE ascending arrangement of the tokens:
    sorted by the order of the integers (Murmur3: signed 64-bit; Random: naturals) resp. unsigned bytewise
    lexicographic (ordered partitioner), and a permutation of the input. -/
theorem C09_ring_sorted :
    (∀ l : List Int, (Routing.ringSortInt l).Pairwise (· ≤ ·) ∧ (Routing.ringSortInt l).Perm l) ∧
    (∀ l : List Nat, (Routing.ringSortNat l).Pairwise (· ≤ ·) ∧ (Routing.ringSortNat l).Perm l) ∧
    (∀ l : List (List UInt8), (Routing.ringSortLex l).Pairwise (fun a b => Token.lexLt b a = false) ∧
      (Routing.ringSortLex l).Perm l) := by
  refine ⟨fun l => ⟨?_, List.mergeSort_perm l _⟩, fun l => ⟨?_, List.mergeSort_perm l _⟩,
    fun l => ⟨?_, List.mergeSort_perm l _⟩⟩
  · have := List.pairwise_mergeSort (le := Routing.intLe) Routing.intLe_trans Routing.intLe_total l
    exact this.imp (by intro a b h; simpa [Routing.intLe] using h)
  · have := List.pairwise_mergeSort (le := Routing.natLe) Routing.natLe_trans Routing.natLe_total l
    exact this.imp (by intro a b h; simpa [Routing.natLe] using h)
  · have := List.pairwise_mergeSort (le := Routing.lexLe) Routing.lexLe_trans Routing.lexLe_total l
    exact this.imp (by intro a b h; simpa [Routing.lexLe] using h)

/-- full-range order: −2⁶³ sorts before 2⁶³−1, 2⁶³−1 not before −1 (a comparison by subtraction gets both wrong);
    an already ascending full-range ring is left as it is -/
example : Routing.intLe (-9223372036854775808) 9223372036854775807 = true ∧ Routing.intLe 9223372036854775807 (-1) = false := by decide
example : Routing.ringSortInt [-9223372036854775808, -1, 0, 4611686018427387904, 9223372036854775807]
    = [-9223372036854775808, -1, 0, 4611686018427387904, 9223372036854775807] :=
  List.mergeSort_of_pairwise (by decide)

/-- test vectors (labelled as tests): the repo's own vector for "hello", and the empty key -/
example : (Murmur.murmur3H1 [0x68, 0x65, 0x6c, 0x6c, 0x6f]).toInt = -3758069500696749310 := by decide
example : (Murmur.murmur3H1 []).toInt = 0 := by decide

/-! ## the token is a function of the key's BYTES only (the key as it lies in memory: `Murmur.Placed`)

`Murmur.Placed.murmur3H1` is the model of `Murmur3H1` + `getBlock` on a Go slice = (backing memory, offset = address of
the first byte, length, capacity): the block loop loads 16 bytes at the ADDRESS of `data[n*16]` (the unsafe
`*[2]int64` load of murmur_unsafe.go, no bounds check of its own), the tail indexes by address. The theorems hold for
every backing memory, every offset (alignment 0..15 and beyond), every spare capacity and whatever bytes lie before
and behind the key. -/

/-- **Murmur3 of a key anywhere in memory = Cassandra's hash of the key's bytes.** -/
theorem C09_murmur_placed (s : Murmur.Placed.Slice) (h : s.wf) :
    Murmur.Placed.murmur3H1 s = Murmur.Spec.cassandraH1 s.view := by
  rw [Murmur.Placed.murmur3H1_eq_view s h, C09_murmur]

/-- **The hash depends on the bytes only**: two slices — different buffers, different offsets / alignments, different
    capacities, different neighbouring bytes — that denote the same byte string hash to the same token. -/
theorem C09_hash_depends_on_bytes_only (s t : Murmur.Placed.Slice) (hs : s.wf) (ht : t.wf) (h : s.view = t.view) :
    Murmur.Placed.murmur3H1 s = Murmur.Placed.murmur3H1 t := by
  rw [Murmur.Placed.murmur3H1_eq_view s hs, Murmur.Placed.murmur3H1_eq_view t ht, h]

/-- the same said with the buffer spelled out: `key` placed behind ANY prefix (so at any address offset) and before any
    suffix, with any spare capacity, hashes to Cassandra's token of `key` -/
theorem C09_murmur_any_offset (pre key post : List UInt8) (spare : Nat) :
    Murmur.Placed.murmur3H1 (Murmur.Placed.place pre key post spare) = Murmur.Spec.cassandraH1 key := by
  rw [C09_murmur_placed _ (Murmur.Placed.place_wf pre key post spare), Murmur.Placed.place_view]

/-- `getBlock` is an UNCHECKED 16-byte load; every address it reads for a block `n < len/16` of the loop lies inside
    the key (never in the bytes before it, the spare capacity or beyond) -/
theorem C09_getBlock_in_window (s : Murmur.Placed.Slice) (n : Nat) (h : n < s.len / 16) :
    ∀ a ∈ Murmur.Placed.getBlockReads s n, s.off ≤ a ∧ a < s.off + s.len :=
  Murmur.Placed.getBlockReads_in_window s n h

/-- and what it loads there are the two little-endian words of block `n` of the key's bytes -/
theorem C09_getBlock_words (s : Murmur.Placed.Slice) (n : Nat) (h : n*16 + 16 ≤ s.len) :
    Murmur.Placed.getBlock s n =
      (Murmur.le64 ((s.view.drop (n*16)).take 8), Murmur.le64 ((s.view.drop (n*16 + 8)).take 8)) := by
  rw [Murmur.Placed.getBlock_in_view s n h, Murmur.take8_take16, Murmur.drop8_take16, List.drop_drop]

/-- **The token of a statement's routing key** (op `rktok`): blob components lying anywhere in memory; with ONE key
    column the routing key IS the caller's slice (hashed where it lies), with several a fresh buffer — in both cases the
    token the policy computes is Cassandra's hash of the CompositeType framing of the components' bytes. -/
theorem C09_routing_token_placed (cs : List Murmur.Placed.Slice) (h : ∀ c ∈ cs, c.wf) :
    Murmur.Placed.routingToken cs = Murmur.Spec.cassandraH1 (Token.routingKey (cs.map Murmur.Placed.Slice.view)) := by
  unfold Murmur.Placed.routingToken
  rw [C09_murmur_placed _ (Murmur.Placed.routingKey_wf cs h), Murmur.Placed.routingKey_view]

/-- non-vacuity: a 2-byte key at offset 1 of a 4-byte buffer, one byte of spare capacity -/
example : (Murmur.Placed.place [9] [2, 3] [4] 1).wf ∧ (Murmur.Placed.place [9] [2, 3] [4] 1).view = [2, 3] ∧
    (Murmur.Placed.place [9] [2, 3] [4] 1).off = 1 :=
  ⟨Murmur.Placed.place_wf _ _ _ _, Murmur.Placed.place_view _ _ _ _, rfl⟩

/-- test vector (labelled as a test): "hello" at offset 3 between foreign bytes -/
example : (Murmur.Placed.murmur3H1 (Murmur.Placed.place [0xff, 0xff, 0xff] [0x68, 0x65, 0x6c, 0x6c, 0x6f] [0xff, 0xff] 1)).toInt
    = -3758069500696749310 := by decide

/-! ## the routing-key info cache (session.go `routingKeyInfoCache`, an LRU keyed by the statement text) over a HISTORY
of one session: any number of statements, uses through Query / Batch (explicit keys, binding callbacks, empty batches),
the connection going away and coming back, `Max(n)`, tables dropped and re-created with another partition key. -/

section cache
open RoutingCache
variable {τ ν : Type}

/-- the state after a history -/
def cacheExec (enc : τ → ν → Routing.Enc) (s : State τ) (steps : List (Step τ ν)) : State τ :=
  steps.foldl (fun s st => (step enc s st).2) s

/-- FULL STATEMENT (not provable for the unchanged code — KF-C09-3, counterexample below): for EVERY history every answer
    is acceptable: THE routing key computed from what the server's PREPARE answer and the schema say at that moment
    (which C09_routing_from_metadata / C09_routing_from_schema equate with the framing of the values at the
    partition-key markers), whatever the cache holds — or, only while no connection is available, the
    "no connection available" error (`Spec.accepts`; C09_cache_answer_when_up: with a connection it is the key).
    PROVED (code repaired by props/C09.fix-KF-C09-2.diff) for every history whose steps are all SAFE (`RoutingCache.safe`,
    decided along the run): no change of a statement's key while the cache holds the statement (KF-C09-3, open). Any
    number of statements, any cache size (evictions included), any interleaving of hits, misses, hosts going down and
    coming back, ErrNoMetadata outcomes, unbound key columns, `Max(n)`, explicit keys and binding callbacks. -/
theorem C09_cache_transparent_partial (enc : τ → ν → Routing.Enc) (s : State τ) (steps : List (Step τ ν))
    (hc : Coherent s) (hs : safe enc s steps = true) :
    Spec.acceptsRun enc s.stmts s.up steps (run enc s steps) = true := run_accepts enc steps s hc hs

/-- …in particular from a new session (empty cache), for every cache size -/
theorem C09_cache_transparent_new_session_partial (enc : τ → ν → Routing.Enc) (stmts : List (Stmt τ)) (max : Nat)
    (steps : List (Step τ ν)) (hs : safe enc ⟨stmts, true, max, []⟩ steps = true) :
    Spec.acceptsRun enc stmts true steps (run enc ⟨stmts, true, max, []⟩ steps) = true :=
  run_accepts enc steps _ (by intro p hp; cases hp) hs

/-- with a connection the acceptable answer is THE specification's answer (no cache) -/
theorem C09_cache_answer_when_up (enc : τ → ν → Routing.Enc) (stmts : List (Stmt τ)) (st : Step τ ν) (o : Option Out)
    (h : Spec.accepts enc stmts true st o = true) : o = Spec.stepOut enc stmts st := accepts_up enc stmts st o h

/-- **KF-C09-2 repaired, for every state**: a first use of a statement while no connection is available answers the
    error and caches NOTHING for the statement (every entry of the cache afterwards was there before) -/
theorem C09_cache_noconn_not_cached (enc : τ → ν → Routing.Enc) (s : State τ) (k : Nat) (vals : List ν) (st0 : Stmt τ)
    (hup : s.up = false) (hl : lookup k s.lru = none) (hst : s.stmts[k]? = some st0) :
    (step enc s (.use k vals)).1 = some .errNoConn ∧ (∀ p ∈ (step enc s (.use k vals)).2.lru, p ∈ s.lru) :=
  ⟨(use_noconn enc s k vals st0 hup hl hst).1, (use_noconn enc s k vals st0 hup hl hst).2.1⟩

/-- …and what that key IS, step by step: from any coherent state (e.g. any state reached by a safe history), a safe use (info cached or a connection at hand)
    of a statement whose PREPARE answer carries partition-key indexes answers the CompositeType framing (the raw value
    for one key column) of the encodings of the values AT the key markers, in partition-key order — whether the info
    came from the cache (hit), was just computed (miss), or an older statement had to be evicted for it. -/
theorem C09_cache_use_from_metadata (enc : τ → ν → Routing.Enc) (s : State τ) (k : Nat) (vals : List ν)
    (st : Stmt τ) (cs : List Routing.Bytes) (hc : Coherent s)
    (hs : safeStep s (.use k vals : Step τ ν) = true) (hcn : connected s (.use k vals : Step τ ν) = true)
    (hst : s.stmts[k]? = some st) (hpk : st.md.pkeys ≠ [])
    (h : Routing.Spec.components enc st.md.cols vals st.md.pkeys = some cs) :
    (step enc s (.use k vals)).1 = some (.res (.key (some (Token.routingKey cs)))) ∧
    Coherent (step enc s (.use k vals)).2 := by
  obtain ⟨ho, hc', _⟩ := step_safe enc s (.use k vals) hc hs hcn
  refine ⟨?_, hc'⟩
  rw [ho]
  simp only [Spec.stepOut, hst]
  rw [C09_routing_from_metadata enc st.md st.schema vals cs hpk h]

/-- EVERY history (safe or not) keeps the cache within `MaxEntries` (`MaxRoutingKeyInfo`; 0 = no limit) -/
theorem C09_cache_bounded (enc : τ → ν → Routing.Enc) (steps : List (Step τ ν)) :
    ∀ s : State τ, (s.max ≠ 0 → s.lru.length ≤ s.max) →
      (cacheExec enc s steps).max ≠ 0 → (cacheExec enc s steps).lru.length ≤ (cacheExec enc s steps).max := by
  induction steps with
  | nil => intro s h; exact h
  | cons st rest ih =>
    intro s h
    exact ih _ (step_bounded enc s st h)

/-- an explicit routing key wins and a binding callback / an empty batch gives no key, whatever the cache holds -/
theorem C09_routing_front (enc : τ → ν → Routing.Enc) (s : State τ) (key : Routing.Bytes) (k : Nat) (vals : List ν) :
    step enc s (.useExplicit key k vals) = (some (.res (.key (some key))), s) ∧
    step enc s (.useBinding k : Step τ ν) = (some (.res .nokey), s) ∧
    step enc s (.batchEmpty : Step τ ν) = (some (.res .nokey), s) := ⟨rfl, rfl, rfl⟩

/-- the toy statement `… SET a = ? WHERE b = ?` of table t0 with key marker `i` -/
def toyStmt (i : Nat) : Stmt Nat := ⟨⟨[⟨"a", 2⟩, ⟨"b", 2⟩], [i], "ks", "t0"⟩, none⟩

/-- non-vacuity: a safe history with a hit, a second statement, an eviction (cache of ONE entry) and a re-computation -/
example : safe toyEnc ⟨[toyStmt 0, toyStmt 1], true, 1, []⟩
      [.use 0 [[1], [2]], .use 0 [[3], [4]], .use 1 [[5], [6]], .use 0 [[7], [8]]] = true ∧
    run toyEnc ⟨[toyStmt 0, toyStmt 1], true, 1, []⟩
      [.use 0 [[1], [2]], .use 0 [[3], [4]], .use 1 [[5], [6]], .use 0 [[7], [8]]]
      = [some (.res (.key (some [0, 1]))), some (.res (.key (some [0, 3]))), some (.res (.key (some [0, 6]))),
         some (.res (.key (some [0, 7])))] := by decide

/-- COUNTEREXAMPLE (KF-C09-3, stale routing info): the statement is used (key marker 0), its table is dropped and
    re-created with the OTHER column as partition key (the server now names key marker 1), the statement is used again:
    the key is still built from marker 0. Replayed on the real code by the rkcx op of props/C09.findings.json. -/
theorem C09_cex_cache_stale :
    run toyEnc ⟨[toyStmt 0], true, 0, []⟩ [.use 0 [[1], [2]], .change 0 (toyStmt 1), .use 0 [[1], [2]]]
      = [some (.res (.key (some [0, 1]))), none, some (.res (.key (some [0, 1])))] ∧
    Spec.run toyEnc [toyStmt 0] [.use 0 [[1], [2]], .change 0 (toyStmt 1), .use 0 [[1], [2]]]
      = [some (.res (.key (some [0, 1]))), none, some (.res (.key (some [0, 2])))] := by decide

/-- KF-C09-2 repaired, test vector: a first use while the host is down fails, the host comes back, the next use is routed -/
example :
    run toyEnc ⟨[toyStmt 0], true, 0, []⟩ [.down, .use 0 [[1], [2]], .up, .use 0 [[1], [2]], .use 0 [[3], [4]]]
      = [none, some .errNoConn, none, some (.res (.key (some [0, 1]))), some (.res (.key (some [0, 3])))] ∧
    safe toyEnc ⟨[toyStmt 0], true, 0, []⟩ [.down, .use 0 [[1], [2]], .up, .use 0 [[1], [2]], .use 0 [[3], [4]]] = true := by
  decide

end cache

/-! ### concurrent first uses of one statement (the inflight wait), conducted schedules -/
section conc
open RoutingCache.Conc

/-- **Concurrent first uses.** For EVERY schedule of events on one statement - any number of goroutines asking for the
    routing key, in any interleaving with the arrival of the server's answer to PREPARE and with PREPARE failures - the
    owner / waiter machinery of the inflight cache entry answers exactly what the specification without a cache answers:
    every goroutine gets the key of ITS OWN bound values computed from the statement's metadata as soon as the
    statement is prepared (the owner and all waiters at that moment, later ones at once), and exactly the goroutines in
    flight when a PREPARE fails get that failure - the failure is not kept. (op rkq; statements with a malformed PREPARE
    answer - an index panic - are excluded as in C09_cache_transparent_partial.) -/
theorem C09_cache_concurrent_first_use (enc : τ → ν → Routing.Enc) (st : RoutingCache.Stmt τ)
    (hcr : RoutingCache.crashes st = false) (evs : List (Ev ν)) :
    run enc st (false, .idle) evs = Spec.run enc st (false, []) evs :=
  run_spec enc st hcr evs _ _ ⟨rfl, rfl⟩

/-- non-vacuity: two goroutines wait (g1 owner, g2 waiter), the answer arrives: each gets the key of its own values; g3
    then hits the cache; and a failed PREPARE reaches owner and waiter, the next use starts afresh -/
example : run toyEnc (toyStmt 0) (false, .idle) [.go 1 [[1], [2]], .go 2 [[3], [4]], .ansOk, .go 3 [[5], [6]]]
    = [[], [], [(1, .res (.key (some [0, 1]))), (2, .res (.key (some [0, 3])))], [(3, .res (.key (some [0, 5])))]] := by decide
example : run toyEnc (toyStmt 0) (false, .idle) [.go 1 [[1], [2]], .go 2 [[3], [4]], .ansFail, .go 3 [[5], [6]], .ansOk]
    = [[], [], [(1, .errPrepare), (2, .errPrepare)], [], [(3, .res (.key (some [0, 5])))]] := by decide

end conc


end C09
