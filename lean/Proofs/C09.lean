import Proofs.C09Murmur
import Proofs.C09Token
import Proofs.C09Parse
import Proofs.C09Routing
/-!
# C09 — partition tokens equal the ones Cassandra computes (property theorems)

Model: `Model/Murmur.lean`, `Model/Token.lean` (hand-written from internal/murmur/murmur.go,
token.go, session.go:createRoutingKey; tied to the source by the differential run of
`harness/cmd/c09`).  Spec: `Murmur.Spec` (Cassandra `MurmurHash.hash3_x64_128`), `Token.Spec`.
-/
namespace C09

/-- Murmur3: hash equality for every key (every length, every tail, bytes ≥ 0x80 included). -/
theorem C09_murmur (data : List UInt8) : Murmur.murmur3H1 data = Murmur.Spec.cassandraH1 data :=
  Murmur.murmur3H1_eq_cassandra data

/-- The hash never reads outside the key: the tail has exactly `len & 15` bytes, and arm `k` of the
    switch (reading `tail[k-1]`) only runs when `len & 15 ≥ k`. -/
theorem C09_murmur_tail_in_bounds (data : List UInt8) :
    (data.drop (data.length / 16 * 16)).length = data.length % 16 := Murmur.tail_len data

/-- FULL STATEMENT (not provable for the unchanged code): `murmur3H1 data = Spec.cassandraToken data`.
    Cassandra's Murmur3Partitioner additionally maps a hash of Long.MIN_VALUE to Long.MAX_VALUE
    (`normalize`); gocql does not.  Proved part: equality whenever the hash is not −2⁶³.
    No key with that hash is known, so the excluded point cannot be replayed on the code. -/
theorem C09_murmur_token_partial (data : List UInt8)
    (h : Murmur.Spec.cassandraH1 data ≠ BitVec.intMin 64) :
    Murmur.murmur3H1 data = Murmur.Spec.cassandraToken data := by
  rw [C09_murmur]; simp [Murmur.Spec.cassandraToken, h]

/-- Random partitioner, every 16-byte digest. -/
theorem C09_random (digest : List UInt8) (h : digest.length = 16) :
    Token.randomToken digest = Token.Spec.randomToken digest := Token.randomToken_eq_spec digest h

theorem C09_random_range (digest : List UInt8) (h : digest.length = 16) :
    0 ≤ Token.randomToken digest ∧ Token.randomToken digest ≤ (2:Int)^127 :=
  Token.randomToken_range digest h

/-- Order-preserving partitioner: unsigned bytewise lexicographic order is a strict total order and
    equal tokens ↔ equal keys. -/
theorem C09_ordered :
    (∀ a, Token.lexLt a a = false) ∧
    (∀ a b c, Token.lexLt a b = true → Token.lexLt b c = true → Token.lexLt a c = true) ∧
    (∀ a b, Token.lexLt a b = true ∨ a = b ∨ Token.lexLt b a = true) ∧
    (∀ a b, a = b ↔ (Token.lexLt a b = false ∧ Token.lexLt b a = false)) :=
  ⟨Token.lexLt_irrefl, Token.lexLt_trans, Token.lexLt_total, Token.lexLt_eq_iff⟩

/-- unsigned comparison: 0x80 sorts after 0x7f (a signed-byte comparison would get this wrong) -/
example : Token.lexLt [0x7f] [0x80] = true ∧ Token.lexLt [0x01] [0x01, 0x00] = true := by decide

/-- Composite routing key is `len16 ‖ bytes ‖ 0` per component and determines the components. -/
theorem C09_routing_composite_injective (as bs : List (List UInt8))
    (ha : ∀ c ∈ as, c.length < 65536) (hb : ∀ c ∈ bs, c.length < 65536)
    (h : Token.composite as = Token.composite bs) : as = bs := Token.composite_injective as bs ha hb h

theorem C09_routing_single (c : List UInt8) : Token.routingKey [c] = c := rfl

example : Token.routingKey [[1], [2, 3]] = [0, 1, 1, 0, 0, 2, 2, 3, 0] := by decide

/-- Token strings: decimal strings of in-range numbers parse to the number, so order is preserved. -/
theorem C09_parse_order (i j : Int)
    (hi : Token.int64Min ≤ i ∧ i ≤ Token.int64Max) (hj : Token.int64Min ≤ j ∧ j ≤ Token.int64Max) :
    (Token.parseInt64 (Token.printInt i) < Token.parseInt64 (Token.printInt j)) ↔ i < j :=
  Token.parse_order i j hi hj

/-- the token string of every int64 parses to that number (ops parsem, lessm on valid strings) -/
theorem C09_parse_roundtrip (i : Int) (hlo : Token.int64Min ≤ i) (hhi : i ≤ Token.int64Max) :
    Token.parseInt64 (Token.printInt i) = i := Token.parseInt64_printInt i hlo hhi

theorem C09_parse_nat (n : Nat) : Token.parseNat (Token.natDigits n) = some n := Token.parseNat_natDigits n


/-! ## routing key from the metadata of the prepared statement (session.go routingKeyInfo + createRoutingKey) -/

section RoutingFromMetadata
open Routing
variable {τ ν : Type}

/-- **Routing key from the prepared metadata (protocol ≥ 4 branch).** For EVERY statement shape — any number of
    bind markers, the partition-key markers `m.pkeys` anywhere among them and in any order (first, last, interleaved,
    permuted), any column types — whenever the value bound to each key marker encodes (with the type of THAT marker's
    column) to a byte string, `GetRoutingKey` is the raw value (one key column) or the CompositeType framing (several)
    of exactly those encodings in partition-key order. `enc` is gocql.Marshal (C02/C12). -/
theorem C09_routing_from_metadata (enc : τ → ν → Enc) (m : Meta τ) (schema : Option (List String))
    (vals : List ν) (cs : List Bytes)
    (hpk : m.pkeys ≠ []) (h : Spec.components enc m.cols vals m.pkeys = some cs) :
    getRoutingKey enc m schema vals = .key (some (Token.routingKey cs)) := by
  obtain ⟨ts, hts, hloop⟩ := compositeLoop_spec enc m.cols vals m.pkeys cs h
  cases hp : m.pkeys with
  | nil => exact absurd hp hpk
  | cons i is =>
    rw [hp] at h hts hloop
    -- the statement has bind markers
    have hcols : m.cols.isEmpty = false := by
      unfold Spec.components at h
      split at h
      · rename_i c _ hc _
        obtain ⟨col, _, hcol, _, _⟩ := component_some hc
        cases hm : m.cols with
        | nil => simp [hm] at hcol
        | cons _ _ => rfl
      · simp at h
    simp only [getRoutingKey, routingKeyInfo, hcols, hp, hts, List.isEmpty_cons, Bool.not_false,
      Bool.false_eq_true, if_false, if_true]
    cases is with
    | nil =>
      unfold Spec.components at h
      split at h
      · rename_i c cs' hc hcs
        simp [Spec.components] at hcs h
        subst hcs; subst h
        obtain ⟨col, hcol, he⟩ := encAt_of_component hc
        simp [typesAt, hcol] at hts
        subst hts
        simp [createRoutingKey, he, Token.routingKey]
      · simp at h
    | cons j js =>
      have hl : ∃ c1 c2 cs', cs = c1 :: c2 :: cs' := by
        unfold Spec.components at h
        split at h
        · rename_i c cs' hc hcs
          unfold Spec.components at hcs
          split at hcs
          · simp at hcs h; subst hcs; subst h; exact ⟨_, _, _, rfl⟩
          · simp at hcs
        · simp at h
      obtain ⟨c1, c2, cs', hcs⟩ := hl
      simp only [createRoutingKey]
      rw [hloop []]
      subst hcs
      simp [Token.routingKey]

/-- **The same when the key columns come from the schema metadata** (protocol ≤ 3, or no pk indexes in the PREPARE
    answer): each key column is the FIRST bind marker whose column has that name. -/
theorem C09_routing_from_schema (enc : τ → ν → Enc) (m : Meta τ) (names : List String)
    (vals : List ν) (cs : List Bytes)
    (hpk : m.pkeys = []) (hne : m.cols ≠ [])
    (h : Spec.componentsByName enc m.cols vals names = some cs) :
    getRoutingKey enc m (some names) vals = .key (some (Token.routingKey cs)) := by
  obtain ⟨is, ts, hb, hlen, hloop, hsingle⟩ := compositeLoop_byName enc m.cols vals names cs h
  have hclen := componentsByName_length enc m.cols vals names cs h
  have hcols : m.cols.isEmpty = false := by
    cases hm : m.cols with
    | nil => exact absurd hm hne
    | cons _ _ => rfl
  simp only [getRoutingKey, routingKeyInfo, hcols, hpk, hb, List.isEmpty_nil, Bool.not_true,
    Bool.false_eq_true, if_false]
  match is, cs, hlen, hclen, hloop, hsingle with
  | [], [], _, _, hloop, _ =>
    simp only [createRoutingKey]
    rw [hloop []]; simp [Token.routingKey]
  | [i], [c], _, _, _, hsingle =>
    obtain ⟨t, hts, he⟩ := hsingle i c rfl rfl
    subst hts
    simp [createRoutingKey, he, Token.routingKey]
  | i :: j :: is', c1 :: c2 :: cs', _, _, hloop, _ =>
    simp only [createRoutingKey]
    rw [hloop []]; simp [Token.routingKey]
  | [], _ :: _, h1, h2, _, _ => simp at h1 h2; omega
  | [_], [], h1, h2, _, _ => simp at h1 h2; omega
  | [_], _ :: _ :: _, h1, h2, _, _ => simp at h1 h2; omega
  | _ :: _ :: _, [], h1, h2, _, _ => simp at h1 h2; omega
  | _ :: _ :: _, [_], h1, h2, _, _ => simp at h1 h2; omega


/-- a partition key column that no marker binds: no routing key (and no error) -/
theorem C09_routing_schema_missing (enc : τ → ν → Enc) (m : Meta τ) (names : List String) (vals : List ν)
    (name : String) (hpk : m.pkeys = []) (hmem : name ∈ names) (hmiss : ∀ c ∈ m.cols, c.name ≠ name) :
    getRoutingKey enc m (some names) vals = .nokey := by
  have hb := byName_none_of_missing m.cols names name hmem hmiss
  simp only [getRoutingKey, routingKeyInfo, hpk, hb, List.isEmpty_nil, Bool.not_true, Bool.false_eq_true, if_false,
    ite_self]

/-- The position of the key markers in the statement is irrelevant: two statements (any marker order / count)
    whose key components are the same values with the same column types have the same routing key. -/
theorem C09_routing_marker_order (enc : τ → ν → Enc) (m₁ m₂ : Meta τ) (s₁ s₂ : Option (List String))
    (v₁ v₂ : List ν) (cs : List Bytes) (h₁ : m₁.pkeys ≠ []) (h₂ : m₂.pkeys ≠ [])
    (c₁ : Spec.components enc m₁.cols v₁ m₁.pkeys = some cs)
    (c₂ : Spec.components enc m₂.cols v₂ m₂.pkeys = some cs) :
    getRoutingKey enc m₁ s₁ v₁ = getRoutingKey enc m₂ s₂ v₂ := by
  rw [C09_routing_from_metadata enc m₁ s₁ v₁ cs h₁ c₁, C09_routing_from_metadata enc m₂ s₂ v₂ cs h₂ c₂]

end RoutingFromMetadata

/-- **The partition key order used by the schema branch**: metadata.go builds `TableMetadata.PartitionKey` from the rows
    of the schema's columns table — whatever order they arrive in (the server sorts them by column name) — so that the
    key column with position `p` is the `p`-th component, given distinct positions. -/
theorem C09_schema_partition_key (pk : List (String × Nat)) (hnd : (pk.map (·.2)).Nodup) :
    (Routing.schemaPartitionKey pk).length = Routing.pkCount pk ∧
    ∀ n p, (n, p) ∈ pk → (Routing.schemaPartitionKey pk)[p]? = some (some n) := by
  refine ⟨by simp [Routing.schemaPartitionKey, Routing.place_length], ?_⟩
  intro n p h
  exact Routing.place_get pk _ hnd (by intro x hx; simpa using Routing.pkCount_gt pk x hx) (n, p) h

example : Routing.schemaPartitionKey [("b", 1), ("z", 2), ("a", 0)] = [some "a", some "b", some "z"] := by decide

/-- non-vacuity / test vector (toy encoder: a value is its own encoding; the column type is a length to pad to):
    `UPDATE t SET v = ? WHERE id = ?` with v "bigint" (8), id "int" (4): the key is the id value as a 4-byte int -/
def toyEnc (w : Nat) (v : List UInt8) : Routing.Enc := .ok (some (List.replicate (w - v.length) 0 ++ v))
example : Routing.getRoutingKey toyEnc ⟨[⟨"v", 8⟩, ⟨"id", 4⟩], [1], "ks", "t"⟩ none [[99], [7]] = .key (some [0, 0, 0, 7]) := by decide
example : Routing.getRoutingKey toyEnc ⟨[⟨"v", 8⟩, ⟨"b", 2⟩, ⟨"a", 4⟩], [2, 1], "ks", "t"⟩ none [[99], [1, 2], [5]]
    = .key (some [0, 4, 0, 0, 0, 5, 0, 0, 2, 1, 2, 0]) := by decide
example : Routing.getRoutingKey toyEnc ⟨[⟨"v", 8⟩, ⟨"id", 4⟩], [], "ks", "t"⟩ (some ["id"]) [[99], [7]] = .key (some [0, 0, 0, 7]) := by decide
example : Routing.getRoutingKey toyEnc ⟨[⟨"v", 8⟩, ⟨"id", 4⟩], [], "ks", "t"⟩ (some ["id", "c"]) [[99], [7]] = .nokey := by decide

/-- COUNTEREXAMPLE to totality (KF-C09-1): a statement `… SET v = ? WHERE id = ?` (key marker 1) executed with ONE bound value:
    `createRoutingKey` indexes `values[1]` — a run-time panic on the real code (replay: `rkmx 4 1 q 1 1 0 0 2 | v bigint |
    id int | 1 1 | i int64 99` ↦ crash). The routing theorems exclude it by requiring a value at every key marker. -/
theorem C09_cex_short_values :
    Routing.getRoutingKey toyEnc ⟨[⟨"v", 8⟩, ⟨"id", 4⟩], [1], "ks", "t"⟩ none [[99]] = .crash := by decide

/-! ## token order -/

/-- `Less` on tokens hashed from keys orders like Cassandra's `Long.compare` of its own hashes -/
theorem C09_murmur_order (a b : List UInt8) :
    ((Murmur.murmur3H1 a).toInt < (Murmur.murmur3H1 b).toInt) ↔
    ((Murmur.Spec.cassandraH1 a).toInt < (Murmur.Spec.cassandraH1 b).toInt) := by
  rw [C09_murmur a, C09_murmur b]

/-- RandomPartitioner token strings: decimal strings of naturals order like the naturals -/
theorem C09_parse_order_nat (m n : Nat) :
    (∃ x y, Token.parseNat (Token.natDigits m) = some x ∧ Token.parseNat (Token.natDigits n) = some y ∧ (x < y ↔ m < n)) :=
  ⟨m, n, Token.parseNat_natDigits m, Token.parseNat_natDigits n, Iff.rfl⟩

/-- The token ring order (`newTokenRing`: `sort.Sort` by `token.Less`) is THE ascending arrangement of the tokens:
    sorted by the order of the integers (Murmur3: signed 64-bit; Random: naturals) resp. unsigned bytewise
    lexicographic (ordered partitioner), and a permutation of the input. -/
theorem C09_ring_sorted :
    (∀ l : List Int, (Routing.ringSortInt l).Pairwise (· ≤ ·) ∧ (Routing.ringSortInt l).Perm l) ∧
    (∀ l : List Nat, (Routing.ringSortNat l).Pairwise (· ≤ ·) ∧ (Routing.ringSortNat l).Perm l) ∧
    (∀ l : List (List UInt8), (Routing.ringSortLex l).Pairwise (fun a b => Token.lexLt b a = false) ∧
      (Routing.ringSortLex l).Perm l) := by
  refine ⟨fun l => ⟨?_, List.mergeSort_perm l _⟩, fun l => ⟨?_, List.mergeSort_perm l _⟩,
    fun l => ⟨?_, List.mergeSort_perm l _⟩⟩
  · have := List.pairwise_mergeSort (le := Routing.intLe) Routing.intLe_trans Routing.intLe_total l
    exact this.imp (by intro a b h; simpa [Routing.intLe] using h)
  · have := List.pairwise_mergeSort (le := Routing.natLe) Routing.natLe_trans Routing.natLe_total l
    exact this.imp (by intro a b h; simpa [Routing.natLe] using h)
  · have := List.pairwise_mergeSort (le := Routing.lexLe) Routing.lexLe_trans Routing.lexLe_total l
    exact this.imp (by intro a b h; simpa [Routing.lexLe] using h)

/-- full-range order: −2⁶³ sorts before 2⁶³−1, 2⁶³−1 not before −1 (a comparison by subtraction gets both wrong);
    an already ascending full-range ring is left as it is -/
example : Routing.intLe (-9223372036854775808) 9223372036854775807 = true ∧ Routing.intLe 9223372036854775807 (-1) = false := by decide
example : Routing.ringSortInt [-9223372036854775808, -1, 0, 4611686018427387904, 9223372036854775807]
    = [-9223372036854775808, -1, 0, 4611686018427387904, 9223372036854775807] :=
  List.mergeSort_of_pairwise (by decide)

/-- test vectors (labelled as tests): the repo's own vector for "hello", and the empty key -/
example : (Murmur.murmur3H1 [0x68, 0x65, 0x6c, 0x6c, 0x6f]).toInt = -3758069500696749310 := by decide
example : (Murmur.murmur3H1 []).toInt = 0 := by decide

end C09
