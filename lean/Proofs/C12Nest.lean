import Proofs.C12Scalar
import Proofs.C12Coll
import Proofs.C12Frame
import Proofs.C12Vint
import Proofs.C12BigInt
/-!
# C12: conformance of `marshal` with the specification for EVERY scalar column and by structural induction for
every nesting of list / set / map / tuple (helpers; the property theorems are in Proofs/C12.lean)

`Conf p t r oc`: the result `r` of the model of gocql.Marshal is what the specification prescribes for the
documented meaning `oc` of the Go value: a nil slice exactly for null, otherwise the specification's bytes; an error
produces no bytes; a panic or an unmodelled combination never occurs.
-/
namespace C12Nest
open ValueSpec Marshal C12Bytes C12Int C12Varint C12Scalar

/-- the scalar `g` is a value of its Go type (the harness can only build such values) -/
def wfScalar : GoVal → Prop
  | .int k _ v => k.holds v = true
  | .f32 _ x => x < 2^32
  | .f64 _ x => x < 2^64
  | .dec _ s => fitsS 4 s = true                      -- inf.Scale is an int32
  | .time _ nsec => 0 ≤ nsec ∧ nsec < 1000000000
  | .dur ns => fitsS 8 ns = true
  | .cqldur m d n => fitsS 4 m = true ∧ fitsS 4 d = true ∧ fitsS 8 n = true
  | .uuid b => b.length = 16
  | .arr16 b => b.length = 16
  | _ => True

def Conf (p : Nat) (t : CqlTy) (r : MRes) (oc : Option CqlVal) : Prop :=
  match r with
  | .ok none => oc = some .null
  | .ok (some b) => b.length < 2^31 → ∃ c, oc = some c ∧ c.isNull = false ∧ specEnc p t c = some b
  | .err => True
  | .crash => False
  | .unmodelled => False

theorem conf_some {p : Nat} {t : CqlTy} {b : Bytes} {c : CqlVal} (hn : c.isNull = false) (hs : specEnc p t c = some b) :
    Conf p t (.ok (some b)) (some c) := fun _ => ⟨c, rfl, hn, hs⟩

theorem holds_int64 (v : Int) : IntKind.int64.holds v = true ↔ fitsS 8 v = true := by
  simp [IntKind.holds, IntKind.signed, IntKind.bits, fitsS, leB_iff, ltB_iff]; omega

theorem encInt_u32 (n : Nat) (h : n < 2^32) : encInt (toS 32 (n:Int)) = beBytes 4 n := by
  rw [encInt_eq, tcEnc_toS32]
  simp only [tcEnc]
  have e : ((n:Int) % (256:Int)^4).toNat = n := by omega
  rw [e]

theorem encBigInt_u64 (n : Nat) (h : n < 2^64) : encBigInt (toS 64 (n:Int)) = beBytes 8 n := by
  rw [encBigInt_eq, tcEnc_toS64]
  simp only [tcEnc]
  have e : ((n:Int) % (256:Int)^8).toNat = n := by omega
  rw [e]

theorem pairUp_length : ∀ (ns : List Nat), (pairUp ns).length = ns.length / 2
  | [] => rfl
  | [_] => by simp [pairUp]
  | a :: b :: r => by
    rw [pairUp, List.length_cons, pairUp_length r]
    simp only [List.length_cons]; omega

theorem parseUUID_length (s b : Bytes) (h : parseUUID s = some b) : b.length = 16 := by
  unfold parseUUID at h
  split at h
  · rename_i ns _
    split at h
    · rename_i hl
      injection h with h
      rw [← h, pairUp_length, hl]
    · cases h
  · cases h

/-! ## integer columns -/

theorem specEnc_intcol' (p : Nat) (t : CqlTy) (col : IntCol) (ht : intColOf t = some col) (v : Int) :
    specEnc p t (.int v) = if fitsS col.bytes v = true then some (tcEnc col.bytes v) else none := by
  cases t <;> simp [intColOf] at ht <;> subst ht <;> rfl

theorem intkind_conf (p : Nat) (t : CqlTy) (col : IntCol) (ht : intColOf t = some col) (k : IntKind) (named : Bool)
    (v : Int) (hv : k.holds v = true)
    (hx : (!k.signed && decide (v ≥ (2:Int)^(8*col.bytes-1))) = false) :
    Conf p t (optM (marshalIntKind col k named v)) (some (.int v)) := by
  rw [marshalIntKind_char col k named v hv]
  have hw : wrapsAccepted col k named v = true → fitsS col.bytes v = true := by
    intro hw
    exfalso
    cases col <;> cases hs : k.signed <;>
      simp [wrapsAccepted, hs, IntCol.bytes, leB_iff, ltB_iff] at hw hx <;> omega
  by_cases hf : fitsS col.bytes v = true
  · rw [if_pos (.inl hf)]
    exact conf_some rfl (by rw [specEnc_intcol' p t col ht, if_pos hf])
  · rw [if_neg (fun h => hf (h.elim id hw))]
    trivial

theorem intstring_conf (p : Nat) (t : CqlTy) (col : IntCol) (ht : intColOf t = some col) (s : Bytes) :
    Conf p t (optM (marshalIntString col s)) ((parseDec s).map CqlVal.int) := by
  cases h : marshalIntString col s with
  | none => trivial
  | some b =>
    unfold marshalIntString at h
    cases hp : parseInt (8 * col.bytes) s with
    | none => rw [hp] at h; simp at h
    | some n =>
      rw [hp] at h
      injection h with h
      unfold parseInt at hp
      cases hd : parseDec s with
      | none => rw [hd] at hp; simp at hp
      | some m =>
        rw [hd] at hp
        dsimp only at hp
        split at hp
        · rename_i hr
          injection hp with hp
          subst hp
          refine conf_some (c := .int m) rfl ?_
          rw [specEnc_intcol' p t col ht, ← h]
          cases col <;>
            simp [IntCol.bytes, fitsS, leB_iff, ltB_iff, encTiny_eq, encShort_eq, encInt_eq, encBigInt_eq,
              tcEnc_toS16, tcEnc_toS32] at hr ⊢ <;> omega
        · simp at hp

theorem bigcol_conf (p : Nat) (t : CqlTy) (ht : intColOf t = some .big) (v : Int) :
    Conf p t (marshalIntColumn .big (.big v)) (some (.int v)) := by
  by_cases h : (-9223372036854775808 ≤ v ∧ v < 9223372036854775808)
  · have hf : fitsS 8 v = true := by simp [fitsS, leB_iff, ltB_iff]; omega
    have : marshalIntColumn .big (.big v) = .ok (some (tcEnc 8 v)) := by
      simp [marshalIntColumn, leB, ltB, h.1, h.2, encBigInt_eq]
    rw [this]
    exact conf_some rfl (by rw [specEnc_intcol' p t .big ht]; simp [IntCol.bytes, hf])
  · have : (leB (-9223372036854775808) v && ltB v 9223372036854775808) = false := by
      simp only [leB, ltB, Bool.and_eq_false_iff, decide_eq_false_iff_not]
      omega
    have : marshalIntColumn .big (.big v) = .err := by simp [marshalIntColumn, this]
    rw [this]; trivial

/-! ## varint -/

theorem varintkind_conf (p : Nat) (k : IntKind) (named : Bool) (v : Int) (hv : k.holds v = true) :
    Conf p .varint (optM (marshalVarintKind k named v)) (some (.int v)) := by
  cases h : marshalVarintKind k named v with
  | none => trivial
  | some b => exact conf_some rfl (by simp [specEnc, marshalVarintKind_spec k named v hv b h])

theorem varintstring_conf (p : Nat) (s : Bytes) :
    Conf p .varint (optM (marshalVarintString s)) ((parseDec s).map CqlVal.int) := by
  cases h : marshalVarintString s with
  | none => trivial
  | some b =>
    obtain ⟨n, hn, hb⟩ := marshalVarintString_spec s b h
    rw [hn]
    exact conf_some (c := .int n) rfl (by simp [specEnc, hb])

/-- big.Int → varint: encBigInt2C and then the trimming loop give the specification's varint, for every integer -/
theorem marshalVarintBig_spec (n : Int) : marshalVarintBig n = specVarint n := by
  unfold marshalVarintBig
  rw [C12BigInt.encBigInt2C_spec, trimTC_spec _ (specVarint_ne_nil n), tcDec_specVarint]

/-! ## every scalar column × every documented Go scalar -/

theorem ipTo4_length (b v4 : Bytes) (h : ipTo4 b = some v4) : v4.length = 4 := by
  unfold ipTo4 at h
  split at h
  · injection h with h; subst h; assumption
  · split at h
    · rename_i hc
      injection h with h
      rw [← h, List.length_drop, hc.1]
    · cases h

theorem ipTo4_none_16 (b : Bytes) (h : ipTo4 b = none) (hl : b.length = 4 ∨ b.length = 16) :
    ipTo16 b = some b ∧ b.length = 16 := by
  unfold ipTo4 at h
  split at h
  · cases h
  · rename_i h4
    have h16 : b.length = 16 := by omega
    simp [ipTo16, h4, h16]

macro "sc_simp" : tactic => `(tactic|
  simp [Conf, marshalScalar, interpScalar, documentedScalar, excludedScalar, CqlTy.isIntCol, CqlTy.isText,
    Marshal.CqlTy.isScalar, marshalIntColumn, marshalVarintColumn, marshalVarcharColumn, intColOf, wfScalar,
    CqlVal.isNull, specEnc, optM] at *)

theorem scalar_conf (p : Nat) (t : CqlTy) (g : GoVal) (ht : Marshal.CqlTy.isScalar t = true) (hwf : wfScalar g)
    (hd : documentedScalar t g = true) (hx : excludedScalar t g = false) :
    Conf p t (marshalScalar t g) (interpScalar t g) := by
  cases g with
  | nil => cases t <;> sc_simp
  | int k named v =>
    have hwf' : k.holds v = true := hwf
    cases t <;> first
      | (simp [Marshal.CqlTy.isScalar] at ht; done)
      | (simp [documentedScalar, CqlTy.isIntCol] at hd; done)
      | exact intkind_conf p _ _ rfl k named v hwf' (by simpa [excludedScalar, intColOf] using hx)
      | exact varintkind_conf p k named v hwf'
      | skip
    -- time, timestamp, date, duration: int64 only
    all_goals (
      have h0 : fitsS 4 0 = true := by decide
      have e0 := C12Vint.encVint_spec 0 (by decide)
      simp [documentedScalar, CqlTy.isIntCol] at hd
      first
        | (obtain ⟨hk, hnm⟩ := hd; subst hk; subst hnm
           have h8 := (holds_int64 v).mp hwf'
           simp [excludedScalar, intColOf] at hx
           have h := encDateMillis_spec v hx
           simp [Conf, marshalScalar, interpScalar, CqlTy.isIntCol, CqlVal.isNull, specEnc, hx, h])
        | (subst hd
           have h8 := (holds_int64 v).mp hwf'
           cases named <;>
           simp [Conf, marshalScalar, interpScalar, CqlTy.isIntCol, CqlVal.isNull, specEnc, encBigInt_eq, h8, h0, e0,
             encVints, C12Vint.encVint_spec v h8]))
  | unset => simp [documentedScalar] at hd
  | str named s =>
    cases named
    · cases t <;> first
        | (simp [Marshal.CqlTy.isScalar] at ht; done)
        | (simp [documentedScalar, CqlTy.isIntCol, CqlTy.isText] at hd; done)
        | (simp [excludedScalar, intColOf] at hx; done)
        | exact intstring_conf p _ _ rfl s
        | exact varintstring_conf p s
        | (cases h : parseUUID s with
           | none => simp [Conf, marshalScalar, optM, h]
           | some b =>
             have hl := parseUUID_length s b h
             simp [Conf, marshalScalar, interpScalar, CqlTy.isIntCol, CqlTy.isText, CqlVal.isNull, specEnc, optM, h, hl])
        | sc_simp
    · cases t <;> sc_simp
  | bytes named isNil b =>
    cases t <;> first
      | (simp [Marshal.CqlTy.isScalar] at ht; done)
      | (simp [documentedScalar, CqlTy.isIntCol, CqlTy.isText] at hd; done)
      | (cases isNil <;> sc_simp; done)
      | (simp [documentedScalar, CqlTy.isIntCol, CqlTy.isText] at hd; subst hd
         by_cases hl : b.length = 16 <;>
         simp [Conf, marshalScalar, interpScalar, CqlTy.isIntCol, CqlTy.isText, CqlVal.isNull, specEnc, hl])
  | bool named b => cases t <;> first | (cases b <;> sc_simp <;> simp [encBool]; done) | sc_simp
  | f32 named x =>
    have hx32 : x < 2^32 := hwf
    cases t <;> first
      | (simp [Marshal.CqlTy.isScalar] at ht; done)
      | (simp [documentedScalar] at hd; done)
      | (cases named
         · simp [Conf, marshalScalar, interpScalar, specEnc, CqlVal.isNull, hx32, encInt_u32 x hx32]
         · have hq : quiet32 x = x := by simpa [excludedScalar, intColOf] using hx
           simp [Conf, marshalScalar, interpScalar, specEnc, CqlVal.isNull, hx32, hq, encInt_u32 x hx32])
  | f64 named x =>
    have hx64 : x < 2^64 := hwf
    cases t <;> first
      | (simp [Marshal.CqlTy.isScalar] at ht; done)
      | (simp [documentedScalar] at hd; done)
      | simp [Conf, marshalScalar, interpScalar, specEnc, CqlVal.isNull, hx64, encBigInt_u64 x hx64]
  | big v =>
    cases t <;> first
      | (simp [Marshal.CqlTy.isScalar] at ht; done)
      | (simp [documentedScalar] at hd; done)
      | exact bigcol_conf p _ rfl v
      | simp [Conf, marshalScalar, marshalVarintColumn, interpScalar, specEnc, CqlVal.isNull, marshalVarintBig_spec]
  | dec u sc =>
    have hs : fitsS 4 sc = true := hwf
    cases t <;> first
      | (simp [Marshal.CqlTy.isScalar] at ht; done)
      | (simp [documentedScalar] at hd; done)
      | simp [Conf, marshalScalar, interpScalar, specEnc, CqlVal.isNull, hs, encInt_eq, tcEnc_toS32,
          C12BigInt.encBigInt2C_spec]
  | time sec nsec =>
    have hn : 0 ≤ nsec ∧ nsec < 1000000000 := hwf
    cases t <;> first
      | (simp [Marshal.CqlTy.isScalar] at ht; done)
      | (simp [documentedScalar] at hd; done)
      | (simp [excludedScalar, intColOf] at hx
         obtain ⟨⟨⟨hz, h1⟩, h2⟩, hrange⟩ := hx
         have hd' := day_of_millis sec nsec hn
         have h := encDateMillis_spec (exactMillis sec nsec) (by rw [hd']; exact hrange)
         rw [hd'] at h
         simp [Conf, marshalScalar, interpScalar, specEnc, CqlVal.isNull, hz, hrange, timeMillis_exact sec nsec h1 h2, h])
      | (simp [excludedScalar, intColOf] at hx
         obtain ⟨⟨hz, h1⟩, h2⟩ := hx
         simp [Conf, marshalScalar, interpScalar, specEnc, CqlVal.isNull, hz, h2, timeMillis_exact sec nsec h1 h2,
           encBigInt_eq])
  | dur ns =>
    have h8 : fitsS 8 ns = true := hwf
    have hh := (holds_int64 ns).mpr h8
    have h0 : fitsS 4 0 = true := by decide
    have e0 := C12Vint.encVint_spec 0 (by decide)
    cases t <;> first
      | (simp [Marshal.CqlTy.isScalar] at ht; done)
      | (simp [documentedScalar, CqlTy.isIntCol] at hd; done)
      | exact intkind_conf p _ _ rfl .int64 true ns hh rfl
      | exact intkind_conf p .bigint .big rfl .int64 true ns hh rfl
      | exact intkind_conf p .counter .big rfl .int64 true ns hh rfl
      | exact varintkind_conf p .int64 true ns hh
      | simp [Conf, marshalScalar, interpScalar, CqlTy.isIntCol, CqlVal.isNull, specEnc, encBigInt_eq, h8, h0, e0,
             encVints, C12Vint.encVint_spec ns h8]
  | cqldur m d n =>
    obtain ⟨hm, hd', hn⟩ : fitsS 4 m = true ∧ fitsS 4 d = true ∧ fitsS 8 n = true := hwf
    have f48 : ∀ x, fitsS 4 x = true → fitsS 8 x = true := by
      intro x h; simp [fitsS, leB_iff, ltB_iff] at h ⊢; omega
    cases t <;> first
      | (simp [Marshal.CqlTy.isScalar] at ht; done)
      | (simp [documentedScalar] at hd; done)
      | simp [Conf, marshalScalar, interpScalar, CqlVal.isNull, specEnc, hm, hd', hn, encVints,
          C12Vint.encVint_spec m (f48 m hm), C12Vint.encVint_spec d (f48 d hd'), C12Vint.encVint_spec n hn]
  | uuid b =>
    have hl : b.length = 16 := hwf
    cases t <;> first
      | (simp [Marshal.CqlTy.isScalar] at ht; done)
      | (simp [documentedScalar] at hd; done)
      | simp [Conf, marshalScalar, interpScalar, CqlVal.isNull, specEnc, hl]
  | arr16 b =>
    have hl : b.length = 16 := hwf
    cases t <;> first
      | (simp [Marshal.CqlTy.isScalar] at ht; done)
      | (simp [documentedScalar] at hd; done)
      | simp [Conf, marshalScalar, interpScalar, CqlVal.isNull, specEnc, hl]
  | ip b =>
    cases t <;> first
      | (simp [Marshal.CqlTy.isScalar] at ht; done)
      | (simp [documentedScalar] at hd; done)
      | (have hl : b.length = 4 ∨ b.length = 16 := by
           simp [excludedScalar, intColOf] at hx; omega
         cases h4 : ipTo4 b with
         | some v4 =>
           have := ipTo4_length b v4 h4
           simp [Conf, marshalScalar, interpScalar, CqlVal.isNull, specEnc, h4, this]
         | none =>
           obtain ⟨h16, hl16⟩ := ipTo4_none_16 b h4 hl
           simp [Conf, marshalScalar, interpScalar, CqlVal.isNull, specEnc, h4, h16, hl16])
  | _ => simp [documentedScalar] at hd

end C12Nest
